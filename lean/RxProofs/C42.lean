import RxProofs.Lemmas.VtsC42
import RxProofs.Lemmas.VtsC28
import RxProofs.Lemmas.VtsPeriodic3
/-!
# C42 — CatchScheduler routes action exceptions to its handler

Property theorems only.  Model: `RxModel/Vts.lean` — an item scheduled through a CatchScheduler is
`wrapped` (`CatchScheduler._wrap`: `try: action(parent._get_recursive_wrapper(self), state) except
Exception as ex: if not parent._handler(ex): raise; return Disposable()`); a child scheduled by a wrapped
action through the scheduler handed to it is wrapped too (`childWrapped`, the recursive wrapper has the
same handler), one scheduled on the closed-over inner scheduler is not, one on the closed-over outer
CatchScheduler is.  `hlog` records the handler calls.  Periodic: `RxModel/VtsPeriodic.lean`
(`CatchScheduler.schedule_periodic`: `failed` flag, handler, `disp.dispose()`).
The inner scheduler is the virtual-time scheduler of C28/C29.
-/

namespace C42
open Vts

/-- **every_exception_reaches_handler (1): everything stays wrapped.**  If every top-level call goes through
the CatchScheduler (`wrapped = true`) and no action schedules on the raw inner scheduler, then in every
reachable state every pending action — including those scheduled recursively through the scheduler
handed to a wrapped action — is a `wrapped_action`. -/
theorem all_wrapped_reachable (cfg : Cfg) (ops : List Op) (s : St) (h : AllWrapped s) (hq : QAll viaCatch s)
    (hops : ∀ op ∈ ops, op.All viaCatch ∧ (match op with | .sched w _ _ _ _ => w = true | _ => True)) :
    AllWrapped (runOps cfg s ops).1 := by
  induction ops generalizing s with
  | nil => exact h
  | cons op ops ih =>
    have hop := hops op (by simp)
    have step : AllWrapped (doOp cfg s op).1 ∧ QAll viaCatch (doOp cfg s op).1 := by
      cases op with
      | sched w m t id body =>
        refine ⟨?_, qall_enqueue hq _ _ _ _ hop.1.2⟩
        intro e he
        simp only [doOp, St.enqueue, PQ.enqueue, List.mem_append, List.mem_singleton] at he
        rcases he with he | rfl
        · exact h e he
        · exact hop.2
      | _ =>
        exact doOp_inv (R := fun _ x s => x.wrapped = true ∧ AllWrapped s) (top := fun _ _ _ => False)
          (fun tgt => allWrapped_iter cfg tgt) (fun _ _ _ h => h)
          (fun _ _ _ _ _ _ hf _ _ => absurd hf (by simp)) 
          (fun s'' id h => ((allWrapped_iter cfg none).cancel ⟨0, 0, .done, true, false, 0⟩ s'' id ⟨rfl, h⟩).2)
          (Or.inl (fun _ _ h => h)) s _ (by simp [Op.AllT]) h hq
    simp only [runOps]
    rcases hd : doOp cfg s op with ⟨s', o⟩
    rw [hd] at step
    cases o with
    | stuck => exact step.1
    | ok => exact ih s' step.1 step.2 (fun op h => hops op (by simp [h]))
    | raised e => exact ih s' step.1 step.2 (fun op h => hops op (by simp [h]))

/-- **every_exception_reaches_handler (2): one handler call per exception.**  When a wrapped action is
invoked, the handler is called exactly when the action raises, with that exception (`hlog` grows by it),
whatever the action did before raising; the exception is swallowed iff the handler returns True
(`true_swallows`), otherwise re-raised (`false_propagates`). -/
theorem every_exception_reaches_handler (cfg : Cfg) (x : Item) (s : St) (hw : x.wrapped = true) :
    let r := exec true x.body { s with log := s.log ++ [{ id := x.id, at_ := s.clock, due := x.due, seq := x.seq }] }
    (r.2 = none → (invoke cfg x s).1.hlog = s.hlog ∧ (invoke cfg x s).2 = none) ∧
    (∀ e, r.2 = some e → (invoke cfg x s).1.hlog = s.hlog ++ [e] ∧
      (invoke cfg x s).2 = if cfg.handler s.hlog.length e then none else some e) := by
  intro r
  have hf := exec_frame true x.body { s with log := s.log ++ [{ id := x.id, at_ := s.clock, due := x.due, seq := x.seq }] }
  have hc := invoke_cases cfg x s
  rw [hw] at hc
  simp only at hc
  refine ⟨fun hn => ?_, fun e he => ?_⟩
  · rcases hc with ⟨_, h⟩ | ⟨e, h1, _, _⟩ | ⟨e, h1, _, _⟩
    · rw [h]; exact ⟨by rw [(attachRet_frame _ _ _).2.2.1]; exact hf.2.2.1, rfl⟩
    · rw [show r.2 = none from hn] at h1; cases h1
    · rw [show r.2 = none from hn] at h1; cases h1
  · rcases hc with ⟨h1, _⟩ | ⟨e', _, hcontra, _⟩ | ⟨e', h1, _, h⟩
    · rw [show r.2 = some e from he] at h1; cases h1
    · cases hcontra
    · have : e' = e := by rw [show r.2 = some e from he] at h1; exact (Option.some.inj h1).symm
      subst this
      rw [h]
      have hlen : r.1.hlog.length = s.hlog.length := by rw [show r.1.hlog = s.hlog from hf.2.2.1]
      exact ⟨by simp [hf.2.2.1], by rw [hlen]⟩

/-- **every_exception_reaches_handler (3): nothing escapes unseen.**  On a scheduler where everything is
wrapped, an exception that escapes `start()`/`advance_to()` was passed to the handler and refused by it.
In particular with a handler that always returns True the run never raises. -/
theorem escaped_was_refused (cfg : Cfg) (tgt : Option Int) (s s' : St) (e : Err)
    (h : AllWrapped s) (hq : QAll viaCatch s) (hl : loop cfg tgt s = (s', .raised e)) :
    cfg.handler (s'.hlog.length - 1) e = false ∧ s'.hlog.getLast? = some e := by
  obtain ⟨s1, hP, _, hi⟩ := loop_raised_inv (allWrapped_iter cfg tgt) s h hq s' e hl
  rcases iter_cases cfg tgt s1 with ⟨he, _⟩ | ⟨x, q', _, hd, _, ⟨_, hst⟩ | ⟨s2, ht, hf⟩⟩
  · rw [he] at hi; simp at hi
  · rw [hst] at hi; simp at hi
  · rw [hf] at hi
    have hxw : x.wrapped = true := by
      obtain ⟨⟨c, hxc⟩, _⟩ := dequeue_mem hd
      exact hP _ hxc
    rcases fin_cases cfg tgt s2 x with ⟨_, h2⟩ | ⟨_, ⟨_, _, h2⟩ | ⟨s3, e3, hinv, h2⟩⟩
    · rw [h2] at hi; simp at hi
    · rw [h2] at hi; simp at hi
    · rw [h2] at hi
      simp at hi
      obtain ⟨rfl, rfl⟩ := hi
      have key := every_exception_reaches_handler cfg x s2 hxw
      simp only at key
      cases hr : (exec true x.body { s2 with log := s2.log ++ [{ id := x.id, at_ := s2.clock, due := x.due, seq := x.seq }] }).2 with
      | none =>
        have := (key.1 hr).2
        rw [hinv] at this; simp at this
      | some e' =>
        have := key.2 e' hr
        rw [hinv] at this
        simp only at this
        obtain ⟨h1, h2'⟩ := this
        by_cases hh : cfg.handler s2.hlog.length e' = true
        · rw [if_pos hh] at h2'; cases h2'
        · rw [if_neg hh] at h2'
          have : e3 = e' := Option.some.inj h2'
          subst this
          exact ⟨by rw [h1]; simpa using hh, by rw [h1]; simp⟩

/-- **true_swallows (actions).** A wrapped action raises `e` and the handler returns True: the exception is
swallowed — the handler saw it, the loop goes on with the next item, and what the action did before
raising stays done. -/
theorem true_swallows (cfg : Cfg) (tgt : Option Int) (s s1 : St) (x : Item) (q' : PQ Item) (e : Err)
    (hen : s.enabled = true) (hd : s.queue.dequeue? Item.due = some (x, q')) (hpt : pastTarget tgt x = false)
    (ht : tick cfg tgt s x q' = some s1) (hc : x.cancelled = false) (hw : x.wrapped = true)
    (hr : (exec true x.body { s1 with log := s1.log ++ [{ id := x.id, at_ := s1.clock, due := x.due, seq := x.seq }] }).2 = some e)
    (hh : cfg.handler s1.hlog.length e = true) :
    ∃ s2, iter cfg tgt s = .next x s2 ∧ s2.hlog = s1.hlog ++ [e] ∧ loop cfg tgt s = loop cfg tgt s2 ∧
      s2.queue = (exec true x.body { s1 with log := s1.log ++ [{ id := x.id, at_ := s1.clock, due := x.due, seq := x.seq }] }).1.queue := by
  have hi := iter_invokes hen hd hpt ht hc
  have hinv : invoke cfg x s1 = ({ (exec true x.body { s1 with log := s1.log ++ [{ id := x.id, at_ := s1.clock, due := x.due, seq := x.seq }] }).1 with
      hlog := (exec true x.body { s1 with log := s1.log ++ [{ id := x.id, at_ := s1.clock, due := x.due, seq := x.seq }] }).1.hlog ++ [e] }, none) := by
    rcases invoke_cases cfg x s1 with ⟨h1, _⟩ | ⟨e', _, h2, _⟩ | ⟨e', h1, _, h3⟩
    · rw [hw] at h1; rw [hr] at h1; cases h1
    · rw [hw] at h2; cases h2
    · rw [hw] at h1 h3; rw [hr] at h1
      have : e' = e := (Option.some.inj h1).symm
      subst this
      have hlen : (exec true x.body { s1 with log := s1.log ++ [{ id := x.id, at_ := s1.clock, due := x.due, seq := x.seq }] }).1.hlog.length = s1.hlog.length := by
        rw [(exec_frame true x.body { s1 with log := s1.log ++ [{ id := x.id, at_ := s1.clock, due := x.due, seq := x.seq }] }).2.2.1]
      rw [h3, hlen, hh]; simp
  rw [hinv] at hi
  simp only at hi
  have hf := exec_frame true x.body { s1 with log := s1.log ++ [{ id := x.id, at_ := s1.clock, due := x.due, seq := x.seq }] }
  refine ⟨_, hi, by simp [hf.2.2.1], ?_, rfl⟩
  rw [loop_unfold, hi]

/-- **false_propagates.** A wrapped action raises `e` and the handler returns a falsy value: the handler saw
the exception and it propagates out of the loop, hence out of `start()`/`advance_to()`. -/
theorem false_propagates (cfg : Cfg) (tgt : Option Int) (s s1 : St) (x : Item) (q' : PQ Item) (e : Err)
    (hen : s.enabled = true) (hd : s.queue.dequeue? Item.due = some (x, q')) (hpt : pastTarget tgt x = false)
    (ht : tick cfg tgt s x q' = some s1) (hc : x.cancelled = false) (hw : x.wrapped = true)
    (hr : (exec true x.body { s1 with log := s1.log ++ [{ id := x.id, at_ := s1.clock, due := x.due, seq := x.seq }] }).2 = some e)
    (hh : cfg.handler s1.hlog.length e = false) :
    ∃ s2, loop cfg tgt s = (s2, .raised e) ∧ s2.hlog = s1.hlog ++ [e] := by
  have hi := iter_invokes hen hd hpt ht hc
  have hinv : invoke cfg x s1 = ({ (exec true x.body { s1 with log := s1.log ++ [{ id := x.id, at_ := s1.clock, due := x.due, seq := x.seq }] }).1 with
      hlog := (exec true x.body { s1 with log := s1.log ++ [{ id := x.id, at_ := s1.clock, due := x.due, seq := x.seq }] }).1.hlog ++ [e] }, some e) := by
    rcases invoke_cases cfg x s1 with ⟨h1, _⟩ | ⟨e', _, h2, _⟩ | ⟨e', h1, _, h3⟩
    · rw [hw] at h1; rw [hr] at h1; cases h1
    · rw [hw] at h2; cases h2
    · rw [hw] at h1 h3; rw [hr] at h1
      have : e' = e := (Option.some.inj h1).symm
      subst this
      have hlen : (exec true x.body { s1 with log := s1.log ++ [{ id := x.id, at_ := s1.clock, due := x.due, seq := x.seq }] }).1.hlog.length = s1.hlog.length := by
        rw [(exec_frame true x.body { s1 with log := s1.log ++ [{ id := x.id, at_ := s1.clock, due := x.due, seq := x.seq }] }).2.2.1]
      rw [h3, hlen, hh]; simp
  rw [hinv] at hi
  simp only at hi
  have hf := exec_frame true x.body { s1 with log := s1.log ++ [{ id := x.id, at_ := s1.clock, due := x.due, seq := x.seq }] }
  refine ⟨_, by rw [loop_unfold, hi], by simp [hf.2.2.1]⟩

/-- `start()` passes the exception on to its caller (and, as written, leaves `_is_enabled` set) -/
theorem start_propagates (cfg : Cfg) (s s' : St) (e : Err) (hen : s.enabled = false)
    (h : loop cfg none { s with enabled := true, spin := 0 } = (s', .raised e)) :
    start cfg s = (s', .raised e) := by
  simp only [start, hen]
  rw [h]
  simp

/-- **non_raising_transparent.** Actions that do not raise behave exactly as on the wrapped scheduler: for
any script of calls and any action trees without `raise` (and without negative sleeps), making every
call through the CatchScheduler or some of them or none (`unwrapOp`: all on the inner scheduler) gives the
same per-call outcomes, the same executed-action log with the same clocks, the same final clock, flags
and pending queue (up to the `wrapped` marks) — and the handler is never called. -/
theorem non_raising_transparent (cfg : Cfg) (ops : List Op) : ∀ (s s' : St), QAll noRaise s →
    (∀ op ∈ ops, op.All noRaise) → eraseW s = eraseW s' →
    eraseW (runOps cfg s ops).1 = eraseW (runOps cfg s' (ops.map unwrapOp)).1 ∧
    (runOps cfg s ops).2 = (runOps cfg s' (ops.map unwrapOp)).2 := by
  induction ops with
  | nil => intro s s' _ _ h; exact ⟨h, rfl⟩
  | cons op ops ih =>
    intro s s' hq hops h
    have hop := hops op (by simp)
    obtain ⟨d1, d2⟩ := doOp_erase cfg s s' op hq hop h
    have hq' := qall_doOp cfg s op hq hop
    simp only [runOps, List.map_cons]
    rcases e1 : doOp cfg s op with ⟨a, o⟩
    rcases e2 : doOp cfg s' (unwrapOp op) with ⟨a', o'⟩
    rw [e1, e2] at d1 d2
    rw [e1] at hq'
    simp only at d1 d2 hq'
    subst d2
    have := ih a a' hq' (fun op h => hops op (by simp [h])) d1
    cases o with
    | stuck => exact ⟨d1, rfl⟩
    | ok => simp only; exact ⟨this.1, by rw [this.2]⟩
    | raised e => simp only; exact ⟨this.1, by rw [this.2]⟩

/-- … in particular the observable results coincide, and the handler log stays empty -/
theorem non_raising_observables (cfg : Cfg) (ops : List Op) (c0 : Int) (hops : ∀ op ∈ ops, op.All noRaise) :
    let a := runOps cfg { clock := c0 } ops
    let b := runOps cfg { clock := c0 } (ops.map unwrapOp)
    a.1.log = b.1.log ∧ a.1.clock = b.1.clock ∧ a.1.enabled = b.1.enabled ∧ a.2 = b.2 ∧
    a.1.queue.items.length = b.1.queue.items.length ∧ a.1.hlog = b.1.hlog := by
  intro a b
  obtain ⟨h1, h2⟩ := non_raising_transparent cfg ops { clock := c0 } { clock := c0 }
    (by intro e he; simp at he) hops rfl
  obtain ⟨k1, k3, k4, k5, k6, k7, k8, k2, km⟩ := erase_fields h1
  refine ⟨k5, k1, k3, h2, ?_, k7⟩
  have := congrArg (fun q : PQ Item => q.items.length) k2
  simpa [eraseQ] using this

/-! ## disposables RETURNED by actions (`ScheduledItem.invoke`: `self.disposable.disposable = ret`)

`Act.ret c`: the action returns the handle of the follow-up action `c` it scheduled.  `invoke` attaches it to the
item's own handle (`St.attachRet`, `links`), for wrapped and unwrapped actions alike (`wrapped_action` returns
what the action returned); `St.dispose id` then reaches it.  That a non-raising script behaves identically through
the CatchScheduler — including every returned disposable and every later `dispose()` of an outer handle — is
`non_raising_transparent` (its `noRaise` hypothesis allows `ret`). -/

theorem linkClosure_head (links : List (Nat × Nat)) (n c : Nat) : ∃ t, linkClosure links n c = c :: t := by
  cases n with
  | zero => exact ⟨[], rfl⟩
  | succ n =>
    simp only [linkClosure]
    split
    · exact ⟨_, rfl⟩
    · exact ⟨[], rfl⟩

/-- **returned_disposable_attached.**  A non-raising action `x` whose body returns the handle of `c` (`retOf = some c`):
after `invoke`, handle `x.id` holds it (`links`), whether or not `x` is a CatchScheduler `wrapped_action` — unless
handle `x.id` had already been disposed, in which case `c` is disposed on the spot. -/
theorem returned_disposable_attached (cfg : Cfg) (x : Item) (s : St) (c : Nat) (hret : x.body.retOf = some c)
    (hok : (exec x.wrapped x.body { s with log := s.log ++ [{ id := x.id, at_ := s.clock, due := x.due, seq := x.seq }] }).2 = none) :
    let s1 := (exec x.wrapped x.body { s with log := s.log ++ [{ id := x.id, at_ := s.clock, due := x.due, seq := x.seq }] }).1
    (invoke cfg x s).2 = none ∧
    (s1.dead.contains x.id = false → (invoke cfg x s).1 = { s1 with links := (x.id, c) :: s1.links }) ∧
    (s1.dead.contains x.id = true → (invoke cfg x s).1 = ({ s1 with links := (x.id, c) :: s1.links }).dispose c) := by
  intro s1
  rcases invoke_cases cfg x s with ⟨_, h⟩ | ⟨e, h1, _, _⟩ | ⟨e, h1, _, _⟩
  · rw [h, hret]
    refine ⟨rfl, ?_, ?_⟩ <;> intro hd <;> simp only [St.attachRet] <;> simp [s1] at hd <;> simp [hd, s1]
  · rw [hok] at h1; cases h1
  · rw [hok] at h1; cases h1

/-- **dispose_cancels_returned.**  If handle `id` holds the returned handle of `c` (the action ran), then
`dispose()` of handle `id` — by the caller, later, from anywhere — cancels the pending follow-up `c`. -/
theorem dispose_cancels_returned (s : St) (id c : Nat) (h : s.links.find? (fun l => l.1 == id) = some (id, c)) :
    ∀ e ∈ (s.dispose id).queue.items, e.1.id = c → e.1.cancelled = true := by
  have hne : s.links.length ≠ 0 := by
    intro h0
    have : s.links = [] := List.eq_nil_of_length_eq_zero h0
    rw [this] at h; simp at h
  obtain ⟨n, hn⟩ := Nat.exists_eq_succ_of_ne_zero hne
  obtain ⟨t, ht⟩ := linkClosure_head s.links n c
  have hcl : linkClosure s.links s.links.length id = id :: c :: t := by
    rw [hn]; simp only [linkClosure, h, ht]
  simp only [St.dispose, hcl, List.foldl_cons]
  have h0 := C28.cancInv_cancel (s.cancel id) c
  have := foldl_cancel_inv (R := C28.CancInv c (s.cancel id).log)
    (fun s' i hh => (C28.cancInv_iter {} none c (s.cancel id).log).cancel ⟨0, 0, .done, false, false, 0⟩ s' i hh) t _ h0
  exact this.1

/-! ## periodic actions scheduled through the CatchScheduler -/

/-- **every_exception_reaches_handler (periodic) / true_swallows_and_stops_periodic / false_propagates
(periodic).**  A live periodic task scheduled through `CatchScheduler.schedule_periodic` whose action raises `e`
at some tick: the handler is called with `e` (exactly once: `hlog` grows by `e`); if it returns True the
exception is swallowed — the loop goes on — and the periodic work stops: the task is disposed and its
action is never invoked again, whatever calls follow; if it returns a falsy value the exception
propagates out of `advance_to` (and the periodic work stops as well). -/
theorem true_swallows_and_stops_periodic {σ : Type} (handler : Err → Bool) (f : Nat → σ → Per.Tick σ) (T : Int)
    (s : Per.St σ) (x : Per.Item σ) (q' : PQ (Per.Item σ)) (pid : Nat) (st : σ) (t : Per.Task) (e : Err)
    (hen : s.enabled = true) (hd : s.queue.dequeue? Per.Item.due = some (x, q')) (hdue : x.due ≤ T)
    (hc : x.cancelled = false) (hk : x.kind = .tick pid st) (hg : Per.getTask s pid = some t) (hp : 1 ≤ t.period)
    (hlive : t.disposed = false) (hcatch : t.catch_ = true) (hnf : t.failed = false)
    (he : (f pid st).next = .error e) :
    ∃ s2, s2.hlog = s.hlog ++ [e] ∧
      (handler e = true → Per.iter handler f T s = .next s2) ∧
      (handler e = false → Per.iter handler f T s = .raised s2 e) ∧
      ∀ (ops : List (Per.Op σ)), (∀ op ∈ ops, match op with | .periodic pid' _ _ _ => pid' ≠ pid | _ => True) →
        Per.logOf pid (Per.runOps handler f s2 ops).1 = Per.logOf pid s2 := by
  have hi := Per.iter_tick handler f T s x q' pid st t hen hd hdue hc hk hg hp
  obtain ⟨hdead, _, hhl, hout⟩ := Per.runTick_raise_catch handler f
    { s with clock := if x.due > s.clock then x.due else s.clock, queue := q' } pid t st e hg hlive hcatch hnf he
  rcases hrt : Per.runTick handler f { s with clock := if x.due > s.clock then x.due else s.clock, queue := q' } pid t st
    with ⟨s2, o⟩
  rw [hrt] at hi hdead hhl hout
  simp only at hout hdead hhl
  refine ⟨s2, hhl, ?_, ?_, fun ops hops => (Per.runOps_dead handler f pid ops s2 hops hdead).2⟩
  · intro hh; rw [hh] at hout; simp only [if_true] at hout; subst hout; exact hi
  · intro hh; rw [hh] at hout; simp only [Bool.false_eq_true, if_false] at hout; subst hout; exact hi

/-- a periodic action that never raises behaves through the CatchScheduler exactly as on the inner
scheduler: same invocations at the same clocks with the same states, handler never called
(both are the closed form of C35, which does not depend on the `catch` flag) -/
theorem non_raising_periodic_transparent {σ : Type} (handler : Err → Bool) (f : Nat → σ → Per.Tick σ) (pid : Nat)
    (t0 p : Int) (st0 : σ) (T : Int) (F : σ → σ) (hp : 1 ≤ p) (hT : t0 < T)
    (hf : ∀ st, (f pid st).next = .ok (F st) ∧ (f pid st).dispose = false ∧ ((f pid st).sleep : Int) ≤ p) :
    (Per.advanceTo handler f T (Per.schedulePeriodic { clock := t0 } pid p st0 true)).1.log =
      (Per.advanceTo handler f T (Per.schedulePeriodic { clock := t0 } pid p st0 false)).1.log ∧
    (Per.advanceTo handler f T (Per.schedulePeriodic { clock := t0 } pid p st0 true)).1.hlog = [] := by
  obtain ⟨k, hk⟩ := Per.ticks_exists T p hp (T + 1 - (t0 + p)).toNat (t0 + p) (Nat.le_refl _)
  obtain ⟨_, a2, _, a4⟩ := Per.periodic_closed_form handler f pid t0 p st0 true T F hp hT hf k hk
  obtain ⟨_, b2, _, _⟩ := Per.periodic_closed_form handler f pid t0 p st0 false T F hp hT hf k hk
  exact ⟨by rw [a2, b2], a4⟩

/-! ## Non-vacuity -/

/-- a wrapped action (1) that schedules a child through the scheduler handed to it (2, raises "b"), a child
on the raw inner scheduler (3, raises "c") and then raises "a" itself; handler: True for "a" and "b" only -/
private def demo : St :=
  ({ clock := 0 } : St).enqueue 1 0
    (.sched .handed .rel 1 2 (.raise "b") (.sched .inner .rel 2 3 (.raise "c") (.raise "a"))) true

private def demoCfg : Cfg := { handler := fun _ e => e == "a" || e == "b" }

/-- "a" and "b" reach the handler and are swallowed (the run continues); 3 was scheduled behind the
CatchScheduler's back, so "c" escapes without the handler seeing it -/
example : (start demoCfg demo).2 = .raised "c" ∧ (start demoCfg demo).1.hlog = ["a", "b"] ∧
    (start demoCfg demo).1.log.map (·.id) = [1, 2, 3] := by
  rw [start_eq_fuel demoCfg 20 demo (by decide)]
  decide

/-- with `handed` only (hypothesis `viaCatch`) everything is wrapped; a refused exception propagates -/
private def demo2 : St :=
  ({ clock := 0 } : St).enqueue 1 0 (.sched .handed .rel 1 2 (.raise "b") (.raise "z")) true

example : AllWrapped demo2 ∧ QAll viaCatch demo2 := by
  constructor
  · intro e he; simp [demo2, St.enqueue, PQ.enqueue] at he; subst he; rfl
  · intro e he; simp [demo2, St.enqueue, PQ.enqueue] at he; subst he; simp [Act.All, viaCatch]

example : (start demoCfg demo2).2 = .raised "z" ∧ (start demoCfg demo2).1.hlog = ["z"] ∧
    (start demoCfg demo2).1.queue.items.length = 1 := by
  rw [start_eq_fuel demoCfg 20 demo2 (by decide)]
  decide

private def fRaise : Nat → Int → Per.Tick Int := fun _ n => { next := if n = 2 then .error "boom" else .ok (n + 1) }

/-- periodic through the CatchScheduler, handler True: swallowed, no tick after the failing one, and the
cancelled successor item stays in the queue -/
example :
    (Per.runOps (fun _ => true) fRaise { clock := 0 } [.periodic 1 5 (0 : Int) true, .advanceTo 40]).2 = [.ok, .ok] ∧
    (Per.runOps (fun _ => true) fRaise { clock := 0 } [.periodic 1 5 (0 : Int) true, .advanceTo 40]).1.log
      = [⟨1, 5, 0⟩, ⟨1, 10, 1⟩, ⟨1, 15, 2⟩] ∧
    (Per.runOps (fun _ => true) fRaise { clock := 0 } [.periodic 1 5 (0 : Int) true, .advanceTo 40]).1.hlog = ["boom"] := by
  decide

/-- the seeded scenario in the model: action 1 (through the CatchScheduler, or not) schedules follow-up 2 six ticks later
and returns its handle; the caller advances past 1, disposes handle 1, and runs on: 2 never runs -/
private def retDemo (w : Bool) : St :=
  let s1 := ({ clock := 0 } : St).enqueue 1 4 (.sched .handed .rel 6 2 .done (.ret 2)) w
  let s2 := (advanceToFuel {} 10 5 s1).1      -- `advance_to(5)` (= `advanceTo`, see `advanceTo_eq_fuel`)
  let s3 := s2.dispose 1                       -- the caller disposes the outer handle
  (advanceToFuel {} 10 20 s3).1

example : (retDemo true).log.map (·.id) = [1] ∧ (retDemo false).log.map (·.id) = [1] ∧
    (retDemo true).skipped = [2] ∧ (retDemo true).links = [(1, 2)] := by decide

end C42

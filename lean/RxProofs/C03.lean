import RxProofs.C02
import RxProofs.Ownership
import RxProofs.Lemmas.PipeProducers
import RxProofs.Lemmas.PipeTramp
/-!
# C03 — unsubscribing silences the subscriber and frees its sources

* `dispose_silences` — after `dispose()` on a subscription nothing is delivered to the subscriber, whatever
  the pipeline upstream still calls (the root `AutoDetachObserver`); the same holds for every stage's own
  `AutoDetachObserver` once it was disposed, so no handler — hence no user callback of the pipeline — runs.
* `dispose_frees_sources` — `dispose(root)` at *any* position of *any* sequence of container calls disposes
  everything reachable from the root through owning edges, at that call (the heap is quiescent when the call
  returns), except behind a RefCountDisposable that still has a live dependent (a group / window subscriber);
  and it stays disposed (`stays_disposed`).
* `fromIterable_polls` — the synchronous producer checks its flag before every pull: if the downstream disposes
  during its k-th `on_next`, exactly k+1 elements were pulled and nothing follows.
* `tramp_dispose_truncates` (single thread, default scheduler) — for cold producers merged on the current-thread trampoline,
  disposing during the k-th notification makes the run exactly the never-disposed run cut right after that notification:
  no later notification, no later user callback of any producer (`tramp_silent_after_dispose`, for every state and fuel);
  `tramp_run_complete` shows the model run is not cut short by its fuel.
Ownership of every acquired subscription by the returned disposable is `Ownership.ownership_ok` (regenerated
table, `decide`).
-/
namespace C03
open Pipe

/-- **dispose_silences.** Once `dispose()` was called on an AutoDetachObserver (the subscriber's, or any
stage's), no call from upstream reaches its callbacks any more — whatever was delivered before stays as is. -/
theorem dispose_silences {α} (raises : Nat → Bool) (before after : List (ObsCall α)) :
    Ado.delivered raises {} (before ++ ObsCall.dispose :: after) = Ado.delivered raises {} before :=
  C01.ado_after_dispose_silent raises {} before after

/-- **dispose_frees_sources.** `dispose(root)` issued after any prefix of container calls frees every
subscription reachable from the root, in that very call. -/
theorem dispose_frees_sources (h0 : Heap) (pre : List Op) (root z : Nat) (nz : Node) :
    let h := (Pipe.apply (run h0 pre) (.dispose root)).1
    C02.Reach h root z → h[z]? = some nz → nz.done = true :=
  C02.pipeline_release h0 pre root z nz

/-- **stays_disposed.** Whatever the pipeline does after the dispose (late timers, late inner subscriptions,
re-entrant calls), nothing that was disposed comes back. -/
theorem stays_disposed (h : Heap) (post : List Op) (i : Nat) (a : Node) (ha : h[i]? = some a) (hd : a.done = true) :
    ∃ b, (run h post)[i]? = some b ∧ b.done = true :=
  C02.disposed_forever h post i a ha hd

/-- **late_subscription_disposed.** A subscription that a handler attaches to the (already disposed) container
after the dispose is disposed at once. -/
theorem late_subscription_disposed (h : Heap) (c x : Nat) (nc nx : Node)
    (hcn : h[c]? = some nc) (hk : nc.kind = .comp) (hd : nc.done = true)
    (hx : (Pipe.apply h (.add c x)).1[x]? = some nx) : nx.done = true :=
  C02.late_attach_disposed h c x nc nx hcn hk hd hx

/-- **fromIterable_polls** / **fromIterable_all** are proved in `RxProofs/Lemmas/PipeProducers.lean` (shared with C14). -/
theorem fromIterable_polls {α} (dd : Nat → Bool) (xs : List α) (k i : Nat)
    (hk : k < xs.length) (hfirst : ∀ j, j < k → dd (i + j) = false) (hd : dd (i + k) = true) :
    fromIter dd i false xs = ((xs.take (k + 1)).map Notif.next, k + 1) :=
  Pipe.fromIterable_polls dd xs k i hk hfirst hd

theorem fromIterable_all {α} (dd : Nat → Bool) (xs : List α) (i : Nat) (h : ∀ j, j < xs.length → dd (i + j) = false) :
    fromIter dd i false xs = (xs.map Notif.next ++ [.completed], xs.length + 1) :=
  Pipe.fromIterable_all dd xs i h

/-! ## single thread, default scheduler: producers on the current-thread trampoline (`RxModel/PipeTramp.lean`) -/

/-- **tramp_dispose_truncates.** Any producers (any turns of callbacks / emissions / completions), any `k`: the events of the run
disposed during notification `k` are those of the undisposed run up to and including that notification — nothing after. -/
theorem tramp_dispose_truncates (ps : List Tramp.Producer) (k : Nat) :
    Tramp.run (.during k) ps = Tramp.cut (k + 1) (Tramp.run .never ps) :=
  Tramp.outcome_cut (Tramp.final_outcome ps k)

/-- at most `k+1` notifications are ever delivered -/
theorem tramp_notifications_bounded (ps : List Tramp.Producer) (k : Nat) : Tramp.notifs (Tramp.run (.during k) ps) ≤ k + 1 :=
  Tramp.outcome_notifs (Tramp.final_outcome ps k)

/-- **tramp_silent_after_dispose.** From any state in which the subscription is disposed, whatever is still queued on the
trampoline and however long it runs, no event (callback or notification) is added. -/
theorem tramp_silent_after_dispose (w : Tramp.When) (f : Nat) (s : Tramp.St) (h : s.disposed = true) :
    (Tramp.drain w f s).evs = s.evs :=
  (Tramp.drain_disposed w f s h).1

/-- dispose right after `subscribe()` returned: nothing ever runs -/
theorem tramp_dispose_at_start (ps : List Tramp.Producer) : Tramp.run .atStart ps = [] := by
  unfold Tramp.run Tramp.final
  have hd : (Tramp.init .atStart ps).disposed = true := by simp [Tramp.init]
  have he : (Tramp.init .atStart ps).evs = [] := by simp [Tramp.init]
  rw [(Tramp.drain_disposed _ _ _ hd).1, he]

/-- the model's fuel suffices: the trampoline queue is empty when the run ends -/
theorem tramp_run_complete (w : Tramp.When) (ps : List Tramp.Producer) : (Tramp.final w ps).queue = [] := by
  unfold Tramp.final
  apply Tramp.drain_complete
  have hq : (Tramp.init w ps).queue = Tramp.enumFrom 0 ps := by
    simp only [Tramp.init]
    split <;> simp [Tramp.deliver]
  rw [hq]; exact Nat.le_refl _

/-- **tramp_stale_check_breaks.** The theorem above depends on the trampoline testing cancellation when it *invokes* an item: with
the test moved to the moment the batch is gathered, `merge(of(a, b), generate(...))` disposed during the first notification still
evaluates `generate`'s condition afterwards (the witness of seeded change C03r2_1). -/
theorem tramp_stale_check_breaks :
    Tramp.runStale (.during 0) [Tramp.ofP 2, Tramp.genP 1] = [.next 0 0, .cb 1 1] ∧
    Tramp.runStale (.during 0) [Tramp.ofP 2, Tramp.genP 1] ≠ Tramp.cut 1 (Tramp.runStale .never [Tramp.ofP 2, Tramp.genP 1]) := by
  decide

/-! Non-vacuity -/
example : Tramp.run .never [Tramp.ofP 2, Tramp.genP 1] =
    [.next 0 0, .next 0 1, .cb 1 1, .next 1 0, .cb 1 2, .cb 1 1, .completed] := by decide
example : Tramp.run (.during 0) [Tramp.ofP 2, Tramp.genP 1] = [.next 0 0] := by decide
example : Tramp.run (.during 2) [Tramp.rangeP 2, Tramp.genP 2] = [.next 0 0, .cb 1 1, .next 1 0, .next 0 1] := by decide
example : fromIter (fun j => j == 2) 0 false [10, 20, 30, 40, 50] = ([.next 10, .next 20, .next 30], 3) := by decide
example : Ado.delivered (fun _ => false) {} [ObsCall.next 1, .dispose, .next 2, .completed] = [Notif.next 1] := by decide

end C03

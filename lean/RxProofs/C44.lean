import RxModel.StructCaptures
import RxModel.StructOps
import RxGen.Captures
import RxProofs.Lemmas.StructFrame
import RxProofs.Lemmas.StructCatalogue
/-!
# C44 — an operator function can be applied to many sources independently

* `captures_factory_ok` — kernel `decide` over the regenerated capture table: in `reactivex/operators`
  nothing created when the operator function is built (level 0) is mutated/consumed when it is
  applied, subscribed or run, nor escapes into an operator constructor (allow-list:
  the idempotent `to_timedelta` write of `skip_last_with_time_`).
* `apply_independent` — the frame theorem one level up: instances are the *applications* of one
  operator function to sources, the shared state is what the factory call allocated; if it is never
  written, each application behaves — under any interleaving of subscriptions, connections and events
  of all applications — exactly like the only application of a fresh operator function.
* `refcount_apply_independent` / `refcount_asis_leaks` — for `ref_count_` after / before the fix.
-/

namespace C44
open Struct.Captures Struct.Frame Struct.Ops

/-- **captures_factory_ok.** -/
theorem captures_factory_ok :
    (RxGen.Captures.table.all factoryOk && (staleAllow RxGen.Captures.table factoryAllow factoryBad).isEmpty) = true := by
  decide +kernel

/-- **apply_independent.** `g` is the state allocated by the factory call `ops.x(args)`; a fresh
operator function built with the same arguments starts from the same `g`.  The right-hand side is
application `i` alone on such a fresh operator. -/
theorem apply_independent {G L A O : Type} (s : Sys G L A O) (h : Framed s) (g : G)
    (acts : List (Act A)) (i : Nat) :
    outputsOf i (runG s g [] acts) = runI s g none (restrict i acts) :=
  frame_local s h i acts g []

theorem refcount_framed : Framed refCount := ⟨fun _ => rfl, fun _ _ _ => rfl⟩

/-- `ref_count_` after the fix: every application connects at its own 0→1 edge and disconnects at
its own →0 edge, whatever happens to the other applications of the same operator function. -/
theorem refcount_apply_independent (acts : List (Act RcAct)) (i : Nat) :
    outputsOf i (runG refCount () [] acts) = runI refCount () none (restrict i acts) :=
  apply_independent refCount refcount_framed () acts i

/-- Non-vacuity: two applications, interleaved subscribers; each connects and disconnects once. -/
example :
    runG refCount () [] [.create 0, .create 1, .act 0 (.sub 0), .act 1 (.sub 0), .act 0 (.unsub 0), .act 1 (.unsub 0)]
    = [(0, .srcSubscribe 0), (0, .connect), (1, .srcSubscribe 0), (1, .connect),
       (0, .srcUnsubscribe 0), (0, .disconnect), (1, .srcUnsubscribe 0), (1, .disconnect)] := by decide

/-- **refcount_asis_leaks.** Before the fix (count in the factory closure) the second application
never connects its source, and the first one is not disconnected when its last subscriber leaves
(replayed on the real code by the oracle). -/
theorem refcount_asis_leaks :
    let acts : List (Act RcAct) :=
      [.create 0, .create 1, .act 0 (.sub 0), .act 1 (.sub 0), .act 0 (.unsub 0), .act 1 (.unsub 0)]
    outputsOf 1 (runG refCountAsIs (0, false) [] acts) = [.srcSubscribe 0, .srcUnsubscribe 0, .disconnect] ∧
    outputsOf 0 (runG refCountAsIs (0, false) [] acts) = [.srcSubscribe 0, .connect, .srcUnsubscribe 0] ∧
    outputsOf 1 (runG refCount () [] acts) = [.srcSubscribe 0, .connect, .srcUnsubscribe 0, .disconnect] := by
  decide

/-! ### The catalogue, one level up: applications of one operator function

An application of an operator to a source, with all the subscriptions made to the result, is one
instance (`Sys.lift`); the operator function's own state is the shared state.  For the handler
records of the element-wise (`Ops.Op`) and aggregating (`Agg.Op`) families (the list is in
`RxProofs/C04.lean`) that state is trivial, so `apply_independent` applies to every one of them. -/
section catalogue
open Struct.Catalogue

/-- **catalogue_apply_independent.** For every `Ops.Op` record: what application `j` (all its
subscriptions together) emits under any interleaving with the other applications of the same operator
function is what it emits alone on a fresh operator. -/
theorem catalogue_ops_apply_independent {α β : Type} (lag : Bool) (op : Ops.Op α β)
    (acts : List (Act (Act (Notif α)))) (j : Nat) :
    outputsOf j (runG (ofOps lag op).lift () [] acts) = runI (ofOps lag op).lift () none (restrict j acts) :=
  apply_independent _ (lift_framed _ (ofOps_framed lag op)) () acts j

theorem catalogue_agg_apply_independent {α β : Type} (lag : Bool) (op : Agg.Op α β)
    (acts : List (Act (Act (Notif α)))) (j : Nat) :
    outputsOf j (runG (ofAgg lag op).lift () [] acts) = runI (ofAgg lag op).lift () none (restrict j acts) :=
  apply_independent _ (lift_framed _ (ofAgg_framed lag op)) () acts j

/-- the fixed `ref_count_`, with its subscribers, as an application-level family is framed too -/
theorem refcount_lift_framed : Framed refCount.lift := lift_framed _ refcount_framed

/-- two applications of one `skip(1)` operator function, one subscription each, interleaved -/
example :
    runG (ofOps false (Ops.skipOp (α := Nat) 1)).lift () []
      [.create 0, .create 1, .act 0 (.create 0), .act 1 (.create 0), .act 0 (.act 0 (.next 5)), .act 1 (.act 0 (.next 6)),
       .act 0 (.act 0 (.next 7)), .act 1 (.act 0 (.next 8))]
    = [(0, (0, .next 7)), (1, (0, .next 8))] := by decide
end catalogue

example : factoryOk ⟨"operators/_x.py", "x_", "x_", "count", .cell, 0, some 2, false, true⟩ = false := by decide
example : factoryOk ⟨"operators/_x.py", "x_", "x_", "rs", .subject, 0, none, true, true⟩ = false := by decide
example : factoryOk ⟨"operators/_x.py", "x_", "x_/x", "count", .cell, 1, some 3, false, true⟩ = true := by decide
example : factoryOk ⟨"observable/x.py", "x_", "x_", "it", .oneshot, 0, some 3, false, false⟩ = true := by decide

end C44

import RxModel.StructCaptures
import RxModel.StructOps
import RxGen.Captures
import RxProofs.Lemmas.StructFrame
/-!
# C44 — an operator function can be applied to many sources independently

* `captures_factory_ok` — kernel `decide` over the regenerated capture table: in `reactivex/operators`
  nothing created when the operator function is built (level 0) is mutated/consumed when it is
  applied, subscribed or run, nor escapes into an operator constructor (allow-list:
  the idempotent `to_timedelta` write of `skip_last_with_time_`).
* `apply_independent` — the frame theorem one level up: instances are the *applications* of one
  operator function to sources, the shared state is what the factory call allocated; if it is never
  written, each application behaves — under any interleaving of subscriptions, connections and events
  of all applications — exactly like the only application of a fresh operator function.
* `refcount_apply_independent` / `refcount_asis_leaks` — for `ref_count_` after / before the fix.
-/

namespace C44
open Struct.Captures Struct.Frame Struct.Ops

/-- **captures_factory_ok.** -/
theorem captures_factory_ok :
    (RxGen.Captures.table.all factoryOk && (staleAllow RxGen.Captures.table factoryAllow factoryBad).isEmpty) = true := by
  decide +kernel

/-- **apply_independent.** `g` is the state allocated by the factory call `ops.x(args)`; a fresh
operator function built with the same arguments starts from the same `g`.  The right-hand side is
application `i` alone on such a fresh operator. -/
theorem apply_independent {G L A O : Type} (s : Sys G L A O) (h : Framed s) (g : G)
    (acts : List (Act A)) (i : Nat) :
    outputsOf i (runG s g [] acts) = runI s g none (restrict i acts) :=
  frame_local s h i acts g []

theorem refcount_framed : Framed refCount := ⟨fun _ => rfl, fun _ _ _ => rfl⟩

/-- `ref_count_` after the fix: every application connects at its own 0→1 edge and disconnects at
its own →0 edge, whatever happens to the other applications of the same operator function. -/
theorem refcount_apply_independent (acts : List (Act RcAct)) (i : Nat) :
    outputsOf i (runG refCount () [] acts) = runI refCount () none (restrict i acts) :=
  apply_independent refCount refcount_framed () acts i

/-- Non-vacuity: two applications, interleaved subscribers; each connects and disconnects once. -/
example :
    runG refCount () [] [.create 0, .create 1, .act 0 (.sub 0), .act 1 (.sub 0), .act 0 (.unsub 0), .act 1 (.unsub 0)]
    = [(0, .srcSubscribe 0), (0, .connect), (1, .srcSubscribe 0), (1, .connect),
       (0, .srcUnsubscribe 0), (0, .disconnect), (1, .srcUnsubscribe 0), (1, .disconnect)] := by decide

/-- **refcount_asis_leaks.** Before the fix (count in the factory closure) the second application
never connects its source, and the first one is not disconnected when its last subscriber leaves
(replayed on the real code by the oracle). -/
theorem refcount_asis_leaks :
    let acts : List (Act RcAct) :=
      [.create 0, .create 1, .act 0 (.sub 0), .act 1 (.sub 0), .act 0 (.unsub 0), .act 1 (.unsub 0)]
    outputsOf 1 (runG refCountAsIs (0, false) [] acts) = [.srcSubscribe 0, .srcUnsubscribe 0, .disconnect] ∧
    outputsOf 0 (runG refCountAsIs (0, false) [] acts) = [.srcSubscribe 0, .connect, .srcUnsubscribe 0] ∧
    outputsOf 1 (runG refCount () [] acts) = [.srcSubscribe 0, .connect, .srcUnsubscribe 0, .disconnect] := by
  decide

example : factoryOk ⟨"operators/_x.py", "x_", "x_", "count", .cell, 0, some 2, false, true⟩ = false := by decide
example : factoryOk ⟨"operators/_x.py", "x_", "x_", "rs", .subject, 0, none, true, true⟩ = false := by decide
example : factoryOk ⟨"operators/_x.py", "x_", "x_/x", "count", .cell, 1, some 3, false, true⟩ = true := by decide
example : factoryOk ⟨"observable/x.py", "x_", "x_", "it", .oneshot, 0, some 3, false, false⟩ = true := by decide

end C44

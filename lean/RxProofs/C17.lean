import RxProofs.Lemmas.TimedWin
import RxProofs.Lemmas.TimedMap
import RxProofs.Lemmas.TimedSim
/-!
# C17 — time-window operators respect their window boundaries

Property theorems only (helper lemmas: `RxProofs/Lemmas/TimedWin.lean`; models: `RxModel/TimedWin.lean`).
Every theorem is for **all** timelines whose times are non-decreasing (`Mono`; what a virtual-time scheduler
delivers), all durations, all element types; the tie between a source message and the operator's timer due at
the same instant is the inlined `(due, seq)` rule `timerBefore` (hot source: the source wins).

The model of take_last_with_time is the **repaired** code (`fixes/C17_take_last_with_time_boundary.patch`);
the code as it is on the pinned tree is treated in the section `AsIs` at the end.
-/

namespace C17
open Timed

/-- **twt_before_boundary** (take_with_time and take_until_with_time; `due` = the instant the completion timer
is queued for, `fireAt = max due sub` when it runs).  The subscriber gets exactly the source notifications that
the timer does not precede, then the timer's completion at `fireAt` — unless the source terminated first. -/
theorem twt_before_boundary {α} (timerFirst : Bool) (due fireAt lo : Nat) (msgs : TL α) (h : Mono lo msgs) :
    twtRun timerFirst due fireAt msgs = twtSpec timerFirst due fireAt msgs :=
  twt_run_eq_spec timerFirst due fireAt msgs lo h

/-- hot source, relative duration: elements at `t ≤ sub + d` pass, completion at `sub + d` -/
example : twtRun false 230 230 [(210, Notif.next 1), (230, .next 2), (231, .next 3)]
    = [(210, .next 1), (230, .next 2), (230, .completed)] := by decide
/-- cold source (the timer was armed first): the element at the boundary instant is cut -/
example : twtRun true 230 230 [(210, Notif.next 1), (230, .next 2)] = [(210, .next 1), (230, .completed)] := by decide
/-- absolute end time in the past: completes at the subscription instant -/
example : twtRun false 150 200 [(210, Notif.next 1)] = [(200, .completed)] := by decide

/-- **swt_after_boundary** (skip_with_time and skip_until_with_time).  The subscriber gets exactly the elements
that the opening timer precedes; terminals always pass. -/
theorem swt_after_boundary {α} (timerFirst : Bool) (due lo : Nat) (msgs : TL α) (h : Mono lo msgs) :
    swtRun timerFirst due false msgs = swtSpec timerFirst due msgs :=
  swt_run_eq_spec timerFirst due msgs lo false h (by simp)

example : swtRun false 230 false [(210, Notif.next 1), (230, .next 2), (231, .next 3), (240, .completed)]
    = [(231, .next 3), (240, .completed)] := by decide
example : swtRun true 230 false [(230, Notif.next 2), (231, .error "e")] = [(230, .next 2), (231, .error "e")] := by decide

/-- take and skip with the same boundary split the source: an element is passed by exactly one of them
(`take` keeps the ones the timer does not precede, `skip` the others). -/
theorem take_skip_partition {α} (timerFirst : Bool) (due : Nat) (m : Nat × Notif α) :
    (!timerBefore timerFirst due m.1) ≠ (timerBefore timerFirst due m.1) := by
  cases timerBefore timerFirst due m.1 <;> simp

/-- **tlwt_age_rule** (take_last_with_time, repaired code).  At completion `T` exactly the elements with
`T - t < d` are emitted, in arrival order, then the completion; an error passes at once and nothing else
is emitted.  The rule mentions only the element's own arrival time, `T` and `d`. -/
theorem tlwt_age_rule {α} (d lo : Nat) (msgs : TL α) (h : Mono lo msgs) :
    tlwtRun keepFixed d [] msgs = tlwtSpec d msgs := by
  rw [tlwt_run_eq_G d msgs [] lo h]
  unfold tlwtG tlwtSpec
  cases firstTerminal msgs with
  | none => rfl
  | some Tn => obtain ⟨T, n⟩ := Tn; cases n <;> simp [keepFixed]

/-- **tlwt_independent_of_arrivals.**  Whether an element is emitted depends on nothing but its own age at
completion — in particular not on other arrivals. -/
theorem tlwt_independent_of_arrivals {α} (d lo T : Nat) (msgs : TL α) (h : Mono lo msgs)
    (hf : firstTerminal msgs = some (T, .completed)) (τ : Nat) (v : α) :
    (τ, Notif.next v) ∈ tlwtRun keepFixed d [] msgs ↔ τ = T ∧ ∃ t, (t, v) ∈ nexts msgs ∧ T < t + d := by
  rw [tlwt_age_rule d lo msgs h]
  simp only [tlwtSpec, hf, List.mem_append, List.mem_map, List.mem_filter, decide_eq_true_eq, List.mem_singleton,
    Prod.mk.injEq, reduceCtorEq, and_false, or_false]
  constructor
  · rintro ⟨⟨t, w⟩, ⟨hm, hlt⟩, rfl, hw⟩
    simp only [Notif.next.injEq] at hw
    subst hw
    exact ⟨rfl, t, hm, hlt⟩
  · rintro ⟨rfl, t, hm, hlt⟩
    exact ⟨(t, v), ⟨hm, hlt⟩, rfl, rfl⟩

example : tlwtRun keepFixed 10 [] [(300, Notif.next "a"), (301, .next "b"), (310, .completed)]
    = [(310, .next "b"), (310, .completed)] := by decide
/-- the boundary element is treated the same with or without another arrival at the completion instant -/
example : tlwtRun keepFixed 10 [] [(300, Notif.next "a"), (310, .next "b"), (310, .completed)]
    = [(310, .next "b"), (310, .completed)] := by decide
example : tlwtRun keepFixed 10 [] [(300, Notif.next "a"), (310, .completed)] = [(310, .completed)] := by decide

/-- **slwt_age_rule** (skip_last_with_time).  When the source completes at `T`, the elements delivered (before
or at `T`) are exactly those with `T - t ≥ d`, in arrival order. -/
theorem slwt_age_rule {α} (d lo T : Nat) (msgs : TL α) (h : Mono lo msgs)
    (hf : firstTerminal msgs = some (T, .completed)) :
    vals (slwtRun d [] msgs) = ((nexts msgs).filter (fun e => decide (e.1 + d ≤ T))).map (·.2) := by
  have := slwt_vals d msgs [] lo T h List.Pairwise.nil (by simp) hf
  simpa using this

/-- **slwt_emit_when_aged** (timed form).  At every source notification at `τ` (element or completion) the elements
whose age reached `d` since the previous notification are emitted, oldest first (`slwtSpec`). -/
theorem slwt_emit_when_aged {α} (d lo : Nat) (msgs : TL α) (h : Mono lo msgs) :
    slwtRun d [] msgs = slwtSpec d [] 0 msgs := by
  have := slwt_run_eq_spec d msgs [] 0 lo h List.Pairwise.nil (by simp) (Nat.zero_le _)
  simpa using this

example : slwtRun 10 [] [(300, Notif.next "a"), (301, .next "b"), (310, .next "c"), (311, .completed)]
    = [(310, .next "a"), (311, .next "b"), (311, .completed)] := by decide

/-- take_last and skip_last split the elements of a completed source by the same boundary `T - t < d`. -/
theorem last_partition (T t d : Nat) : keepFixed T t d = !decide (t + d ≤ T) := by
  simp only [keepFixed]
  by_cases h : T < t + d <;> simp [h] <;> omega

/-- **timeout_fires_exactly.**  With relative due time `d` (`Due.rel d`) or an absolute one (`Due.abs D`), from the
state right after subscription: the source is relayed while every notification arrives no later than the deadline
(subscription or last element + `d`); the first notification the deadline precedes — or the end of the source — is
replaced by the fallback, subscribed at the deadline (`toSpec`).  For all timelines. -/
theorem timeout_fires_exactly {α} (mode : Due) (cold1 : Bool) (other : Nat → TL α) (sub : Nat) (msgs : TL α) :
    toRun mode cold1 other (toInit mode sub) msgs
      = toSpec mode cold1 other (mode.at sub) (max (mode.at sub) sub) true msgs :=
  to_run_eq_spec mode cold1 other msgs _ _ _ _ (toInit_ok mode sub)

/-- **timeout_never_after_terminal.**  The output is a prefix of the source followed by the fallback (if a switch
happens).  If it happens, nothing but elements were relayed before it (no source terminal); if it does not, the
subscriber got the whole source up to and including its terminal. -/
theorem timeout_never_after_terminal {α} (mode : Due) (cold1 : Bool) (other : Nat → TL α) (sub : Nat) (msgs : TL α) :
    let due := mode.at sub
    let fireAt := max (mode.at sub) sub
    toRun mode cold1 other (toInit mode sub) msgs
        = toPrefix mode cold1 due true msgs ++
          (match toSwitchAt mode cold1 due fireAt true msgs with | some S => other S | none => [])
      ∧ (∀ S, toSwitchAt mode cold1 due fireAt true msgs = some S →
            ∀ m ∈ toPrefix mode cold1 due true msgs, isNext m.2 = true)
      ∧ (toSwitchAt mode cold1 due fireAt true msgs = none →
            toPrefix mode cold1 due true msgs = conform msgs ∧ hasTerminal (conform msgs) = true) := by
  intro due fireAt
  refine ⟨?_, ?_, ?_⟩
  · rw [timeout_fires_exactly]; exact toSpec_decomp mode cold1 other msgs due fireAt true
  · intro S hS; exact toSwitch_prefix_nexts mode cold1 msgs due fireAt true S hS
  · intro hN; exact toNoSwitch_terminal mode cold1 msgs due fireAt true hN

/-- **timeout_switch_at_first_large_gap** (relative due time `d`, source wins ties).  If the source first delivers the
elements `pre`, each at most `d` after the previous one (the first at most `d` after the subscription), and then nothing
arrives within `d` of the last of them (the next notification, if any, is later than `last + d`), the fallback is
subscribed exactly at `last + d` — "when the time since subscription or the last element reaches the due time". -/
theorem timeout_switch_at_first_large_gap {α} (d sub : Nat) (other : Nat → TL α) (pre rest : TL α)
    (hn : ∀ m ∈ pre, isNext m.2 = true) (hg : GapsOk d sub pre)
    (hr : rest = [] ∨ ∃ t n r, rest = (t, n) :: r ∧ lastTime sub pre + d < t) :
    toRun (.rel d) false other (toInit (.rel d) sub) (pre ++ rest) = pre ++ other (lastTime sub pre + d) := by
  have hsw := to_switch_at_gap d pre rest sub true hn hg hr
  have hdec := (timeout_never_after_terminal (.rel d) false other sub (pre ++ rest)).1
  have hmax : max (sub + d) sub = sub + d := Nat.max_eq_left (Nat.le_add_right sub d)
  simp only [Due.at, hmax] at hdec
  rw [hdec, hsw]
  congr 1
  -- the relayed prefix is `pre`
  clear hdec hsw
  generalize true = first
  induction pre generalizing sub first with
  | nil =>
    rcases hr with rfl | ⟨t, n, r, rfl, hlt⟩
    · simp [toPrefix]
    · simp only [lastTime] at hlt; simp [toPrefix, timerBefore, hlt]
  | cons a pre ih =>
    obtain ⟨t, n⟩ := a
    have hnext := hn (t, n) (List.mem_cons_self ..)
    cases n with
    | next v =>
      have hle : ¬ (sub + d < t) := by have := hg.1; omega
      have := ih t (fun m hm => hn m (List.mem_cons_of_mem _ hm)) hg.2 (by simpa [lastTime] using hr)
        (Nat.max_eq_left (Nat.le_add_right t d)) false
      simp only [List.cons_append, toPrefix, Bool.and_false, timerBefore, Bool.false_eq_true, if_false, hle,
        decide_false, Due.at, this]
    | error e => simp [isNext] at hnext
    | completed => simp [isNext] at hnext

/-- **timeout_no_switch_small_gaps.**  If every notification up to and including the source's terminal arrives at most
`d` after the previous one, the timeout never fires: the subscriber gets the source, nothing else. -/
theorem timeout_no_switch_small_gaps {α} (d sub : Nat) (other : Nat → TL α) (pre post : TL α) (T : Nat) (n : Notif α)
    (hn : ∀ m ∈ pre, isNext m.2 = true) (hterm : isNext n = false) (hg : GapsOk d sub (pre ++ [(T, n)])) :
    toRun (.rel d) false other (toInit (.rel d) sub) (pre ++ (T, n) :: post) = conform (pre ++ (T, n) :: post) := by
  have hsw := to_no_switch_small_gaps d pre post T n sub true hn hterm hg
  have hall := timeout_never_after_terminal (.rel d) false other sub (pre ++ (T, n) :: post)
  have hmax : max (sub + d) sub = sub + d := Nat.max_eq_left (Nat.le_add_right sub d)
  simp only [Due.at, hmax] at hall
  rw [hall.1, hsw, (hall.2.2 hsw).1]
  simp

example : GapsOk 10 200 [(210, Notif.next 1), (220, .next 2)] ∧ lastTime 200 [(210, Notif.next 1), (220, .next 2)] = 220 := by
  simp [GapsOk, lastTime]

/-- **timeout_timer_current.**  In every state reached before the switch the pending timer belongs to the current
`_id` (SerialDisposable: arming a timer disposes the previous one), so the `_id[0] == my_id` test of the action
always succeeds when a timer gets to run. -/
theorem timeout_timer_current {α} (mode : Due) (now : Nat) (s : ToSt) (v : α) (h : s.switched = false) :
    ∃ tm, (toOnNext mode now s v).1.timer = some tm ∧ tm.myId = (toOnNext mode now s v).1.id
      ∧ tm.due = mode.at now := by
  simp [toOnNext, h, toCreateTimer]

/-- gap exactly `d`: the element arrives at the deadline instant and wins the tie (hot source) -/
example : toRun (.rel 10) false (fun S => [(S, Notif.error "Timeout")]) (toInit (.rel 10) 200)
    [(210, Notif.next 1), (220, .next 2), (231, .next 3)]
    = [(210, .next 1), (220, .next 2), (230, .error "Timeout")] := by decide
example : toRun (.rel 10) false (fun S => [(S, Notif.error "Timeout")]) (toInit (.rel 10) 200)
    [(210, Notif.next 1), (215, .completed)] = [(210, .next 1), (215, .completed)] := by decide
/-- cold source: the first timer was armed before the source was subscribed and wins the tie -/
example : toRun (.rel 10) true (fun S => [(S, Notif.error "Timeout")]) (toInit (.rel 10) 200)
    [(210, Notif.next 1)] = [(210, .error "Timeout")] := by decide

/-- **towm_fires_exactly** (timeout_with_mapper).  For every event trace the code (`_id`, `my_id`, the Serial `timer`,
the never-written `switched`) behaves as the rule `towmSpec`: every source notification is relayed; the timer observable
of the latest element (`first_timeout` before any element) is *the* current timer; its first signal (element or
completion) subscribes the fallback at that instant, its error is forwarded; signals of older timer observables are
ignored. -/
theorem towm_fires_exactly {α} (raises : Nat → α → Option Err) (other : Nat → TL α) (tr : List (Nat × MEv α)) :
    towmRun raises other tr = towmSpec raises other tr := by
  unfold towmRun towmSpec
  apply runTrace_sim (towmStep raises) (towmAbsStep raises) (·.done) (·.done) other TowmRel
  · intro s a h; exact h.1
  · intro s a ev h hd; exact towm_step_sim raises s a ev h hd
  · simp [TowmRel]

/-- **towm_never_after_terminal.**  Once a source terminal (or any error) went downstream, or the fallback took over,
nothing else is produced, whatever events follow — in particular no timer observable can switch after the source ended. -/
theorem towm_never_after_terminal {α} (raises : Nat → α → Option Err) (other : Nat → TL α) (s : TowmSt)
    (hd : s.done = true) (tr : List (Nat × MEv α)) : runTrace (towmStep raises) (·.done) other s tr = [] := by
  cases tr with
  | nil => rfl
  | cons e rest => obtain ⟨t, ev⟩ := e; simp [runTrace, hd]

theorem towm_terminal_sets_done {α} (raises : Nat → α → Option Err) (s : TowmSt) (n : Notif α) (hs : s.switched = false)
    (hn : isNext n = false) : (towmStep raises s (.src n)).st.done = true ∧ (towmStep raises s (.src n)).out = [n] := by
  cases n with
  | next v => simp [isNext] at hn
  | error e => simp [towmStep, hs]
  | completed => simp [towmStep, hs]

/-- first_timeout (index 0) is replaced by the timer of element "a" (index 1); the stale signal of index 0 at 230 is
ignored; timer 1 fires at 240 and the fallback takes over -/
example : towmRun (fun _ _ => none) (fun S => [(S, Notif.error "Timeout")])
    [(210, MEv.src (.next "a")), (230, .inner 0 .next), (240, .inner 1 .next), (250, .src (.next "b"))]
    = [(210, .next "a"), (240, .error "Timeout")] := by decide

/-! ## The bridge: the scheduler's `(due, seq)` rule is derived, not assumed
(`RxModel/TimedSim.lean`: queue ordered by (due time, insertion order), hot source messages scheduled first, the operator's
timers scheduled by its handlers; same handler functions as the two-stream runs.) -/

/-- **timeout_sim_bridge.**  Subscribed at `sub`: `create_timer()` schedules the first action, then the source's
messages and the re-armed timers compete in the queue. -/
theorem timeout_sim_bridge {α} (mode : Due) (other : Nat → TL α) (sub lo : Nat) (msgs : TL α) (h : Mono lo msgs)
    (hs : sub ≤ lo) :
    simStart (toOp mode) other sub
        (some (mode.at sub, { due := mode.at sub, fireAt := max (mode.at sub) sub, myId := 0, first := true }))
        (toInit mode sub) msgs
      = toRun mode false other (toInit mode sub) msgs := by
  rw [simStart_eq_twoStream]
  exact to_twoStream_eq_run mode other msgs (toInit mode sub) sub lo
    { due := mode.at sub, fireAt := max (mode.at sub) sub, myId := 0, first := true } h hs rfl rfl rfl rfl

/-- **take_with_time_sim_bridge** (also take_until_with_time: `due` absolute, `fireAt = max sub due`). -/
theorem take_with_time_sim_bridge {α} (sub due lo : Nat) (msgs : TL α) (h : Mono lo msgs) (hs : sub ≤ lo) :
    simStart (twtOp (α := α)) (fun _ => []) sub (some (due, ())) () msgs = twtRun false due (max sub due) msgs := by
  rw [simStart_eq_twoStream]
  exact twt_twoStream_eq_run _ due (max sub due) msgs sub lo h hs rfl

/-- **skip_with_time_sim_bridge** (also skip_until_with_time). -/
theorem skip_with_time_sim_bridge {α} (sub due lo : Nat) (msgs : TL α) (h : Mono lo msgs) (hs : sub ≤ lo) :
    simStart (swtOp (α := α)) (fun _ => []) sub (some (due, ())) false msgs = swtRun false due false msgs := by
  rw [simStart_eq_twoStream]
  exact swt_twoStream_eq_run _ due msgs sub lo h hs

/-- the queue at work: the element at 230 was scheduled before the timer due at 230 and runs first -/
example : simStart (twtOp (α := Nat)) (fun _ => []) 200 (some (230, ())) () [(210, .next 1), (230, .next 2), (231, .next 3)]
    = [(210, .next 1), (230, .next 2), (230, .completed)] := by decide

/-! ## AsIs — the pinned tree (before `fix: take_last_with_time …`)

`on_next` drops an element once `now - t >= d`, `on_completed` keeps it while `now - t <= d`: an element exactly `d`
old at completion is emitted — unless some unrelated element happens to arrive at that very instant, whose `on_next`
has then already dropped it.  So the as-is boundary rule depends on unrelated arrivals, which the property forbids. -/
namespace AsIs

theorem tlwt_boundary_counter :
    tlwtRun keepAsIs 10 [] [(300, Notif.next "a"), (310, .completed)]
        = [(310, .next "a"), (310, .completed)]
      ∧ tlwtRun keepAsIs 10 [] [(300, Notif.next "a"), (310, .next "b"), (310, .completed)]
        = [(310, .next "b"), (310, .completed)] := by decide

/-- hence no rule of the form "emit iff age ⋈ d" describes the as-is code -/
theorem tlwt_no_age_rule :
    ¬ ∃ rule : Nat → Bool, ∀ msgs : TL String, Mono 0 msgs → ∀ T, firstTerminal msgs = some (T, .completed) →
        ∀ v, ((T, Notif.next v) ∈ tlwtRun keepAsIs 10 [] msgs ↔ ∃ t, (t, v) ∈ nexts msgs ∧ rule (T - t) = true) := by
  rintro ⟨rule, h⟩
  have h1 := (h [(300, .next "a"), (310, .completed)] (by decide) 310 (by decide) "a").1
    (by rw [tlwt_boundary_counter.1]; simp)
  have h2 := (h [(300, .next "a"), (310, .next "b"), (310, .completed)] (by decide) 310 (by decide) "a").2
  obtain ⟨t, ht, hr⟩ := h1
  simp [nexts] at ht
  obtain ⟨rfl, -⟩ := ht
  have : (310, Notif.next "a") ∈ tlwtRun keepAsIs 10 [] [(300, Notif.next "a"), (310, .next "b"), (310, .completed)] :=
    h2 ⟨300, by simp [nexts], hr⟩
  rw [tlwt_boundary_counter.2] at this
  simp at this

end AsIs

end C17

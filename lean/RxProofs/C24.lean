import RxModel.Conn
import RxProofs.Lemmas.StructConn
import RxProofs.Lemmas.StructConnRc
import RxProofs.Lemmas.StructConnAc
import RxProofs.Lemmas.StructSubj
import RxProofs.Lemmas.StructConnSync
import RxProofs.Lemmas.StructConnRaw
/-!
# C24 — multicasting shares one source subscription per connection

All theorems are about the model `RxModel/Conn.lean` (ConnectableObservable.connect, ref_count_,
auto_connect, the three subjects), for **every** history of subscribe / unsubscribe / connect /
disconnect calls at any virtual times, any source (cold or hot, any messages, terminating or not)
and any subject kind; induction over the history and over the source's pending messages.
-/

namespace C24
open Conn Conn.World Conn.Subj

variable {α : Type}

/-- **connect_one_sub_per_connection.** From a freshly built multicast observable, after any history
(and at every point of it, since the history is arbitrary), and also after the run to the horizon:
at most one source subscription is open, an open one belongs to the live connection handle
(`has_subscription` is set), and nothing is open while not connected. -/
theorem connect_one_sub_per_connection (w : World α) (hf : Fresh w) (ops : List (Nat × Op)) (horizon : Nat) :
    let w' := (w.runOps [] ops).1
    w'.srcOpen.length ≤ 1 ∧ (w'.srcOpen ≠ [] → w'.hasSub = true) ∧ (w'.hasSub = false → w'.srcOpen = []) ∧
    (w.run ops horizon).srcOpen.length ≤ 1 := by
  intro w'
  have h : ConnInv w' := runOps_inv ops [] hf.inv
  refine ⟨h.length_le_one, ?_, fun hs => (h.1 hs).1, (run_inv hf.inv ops horizon).length_le_one⟩
  intro hne
  cases hs : w'.hasSub with
  | true => rfl
  | false => exact absurd (h.1 hs).1 hne

/-- an effective `connect()` (not connected before) subscribes the source exactly once, now -/
theorem connect_effective (w : World α) (t : Nat) (hs : w.hasSub = false) :
    (w.connect t).srcOpen.length = w.srcOpen.length + 1 ∧
    (w.connect t).srcLog = w.srcLog ++ [(w.nextSrc, t, none)] ∧ (w.connect t).hasSub = true := by
  simp [connect, hs]

/-- **connect_idempotent_while_connected.** `connect()` on a connected observable does nothing
(returns the same handle): no second source subscription. -/
theorem connect_idempotent_while_connected (w : World α) (t : Nat) (hs : w.hasSub = true) : w.connect t = w :=
  connect_of_hasSub w t hs

/-- disposing the live handle unsubscribes the source and only then allows a new connection -/
theorem disconnect_closes (w : World α) (hi : ConnInv w) (t h : Nat) (hc : w.curHandle = some h) :
    (w.disposeHandle t h).hasSub = false ∧ (w.disposeHandle t h).srcOpen = [] := by
  have h2 := disposeHandle_inv hi t h
  have h3 := disposeHandle_hasSub_cur w t h hc
  exact ⟨h3, (h2.1 h3).1⟩

/-- **refcount_connected_iff.** Under `ref_count` / `share`, after any history of subscribe and
unsubscribe calls (source messages, terminals and the auto-detach of terminated subscribers
included): the count is the number of live subscribers and the source connection exists exactly
while the count is positive. -/
theorem refcount_connected_iff (w : World α) (hf : Fresh w) (hw : w.wrap = .refCount)
    (ops : List (Nat × Op)) (hso : subOnly ops = true) :
    let w' := (w.runOps [] ops).1
    w'.count = (w'.live.length : Int) ∧ w'.hasSub = decide (w'.count > 0) ∧ w'.srcOpen.length ≤ 1 := by
  intro w'
  have h : RcInv w' := rc_runOps ops [] (hf.rc hw) hso
  exact ⟨h.cnt, h.iff, h.conn.length_le_one⟩

/-- **refcount_edges.** In any reachable `ref_count` state: a subscribe call makes a new source
subscription iff the count was 0 (the 0→1 edge), and then the observable is connected; after an
unsubscribe call of a live subscriber the count is one less and the observable is connected iff
the count is still positive (disconnect at →0). -/
theorem refcount_edges (w : World α) (h : RcInv w) (t i : Nat) :
    ((w.opSub t i).srcLog.length = w.srcLog.length + (if w.count = 0 then 1 else 0)) ∧
    (w.hasSub = false ↔ w.count = 0) ∧
    (w.live.contains i = true → (w.disposeSub t i).count = w.count - 1) ∧
    (w.disposeSub t i).hasSub = decide ((w.disposeSub t i).count > 0) :=
  ⟨(rc_sub_edge h t i).2, (rc_sub_edge h t i).1, (rc_unsub_edge h t i).2, (rc_unsub_edge h t i).1⟩

/-- **autoconnect_at_n.** `auto_connect(n)`, `n ≥ 1`, as written: in any reachable state that is not
yet connected, a subscribe call connects iff it makes the number of present subscribers equal `n`;
until then fewer than `n` are present. -/
theorem autoconnect_at_n (n : Nat) (w : World α) (hf : Fresh w) (hw : w.wrap = .autoConnect n) (hn : 0 < n)
    (ops : List (Nat × Op)) (hso : subOnly ops = true) (t i : Nat) :
    let w' := (w.runOps [] ops).1
    (w'.hasSub = false → w'.count < (n : Int)) ∧
    (w'.hasSub = false → ((w'.opSub t i).hasSub = true ↔ w'.count + 1 = (n : Int))) := by
  intro w'
  have h : AcInv n w' := (ac_runOps ops [] (hf.ac hw hn) hso).1
  exact ⟨h.lt, (ac_opSub h t i).2.2⟩

/-- **autoconnect_stays_connected.** Once connected, `auto_connect` never disconnects, whatever the
subscribers do (and never has more than one source subscription). -/
theorem autoconnect_stays_connected (n : Nat) (w : World α) (h : AcInv n w) (hs : w.hasSub = true)
    (ops : List (Nat × Op)) (hso : subOnly ops = true) :
    (w.runOps [] ops).1.hasSub = true ∧ (w.runOps [] ops).1.srcOpen.length ≤ 1 :=
  ⟨(ac_runOps ops [] h hso).2 hs, (ac_runOps ops [] h hso).1.conn.length_le_one⟩

theorem subscribe_count_self (s : Subj α) (i : Nat) : (s.subscribe i).1.obs.count i ≤ s.obs.count i + 1 := by
  unfold Subj.subscribe
  split
  · simp [List.count_append]
  · split
    · simp
    · split <;> simp [List.count_append]

/-- **multicast_subscriber_sees_subject_suffix.** A subscriber that subscribes to the subject of a
multicast observable (in any state `s`, after any prefix) receives what `subscribe` hands out at
once (nothing / the current value / the replay buffer, and the terminal of a stopped subject), and
then exactly the subject's input from then on — up to and including the first terminal, or until
it unsubscribes; nothing if the subject was already stopped. -/
theorem multicast_subscriber_sees_subject_suffix (s : Subj α) (i : Nat) (post : List (SEv α))
    (hwf : ∀ t, s.term = some t → t.isTerminal = true)
    (hc : s.obs.count i = 0) (hn : noSub i post = true) :
    seenBy i (runEv s (.sub i :: post)) =
      (s.subscribe i).2.map (·.2) ++ (if s.term.isSome then [] else suffixFor i post) := by
  simp only [runEv, seenBy_append]
  rw [seenBy_self i _ (subscribe_ids s i)]
  congr 1
  cases ht : s.term with
  | none =>
    simp only [Option.isSome_none, Bool.false_eq_true, if_false]
    have h := afterSub_running s i ht
    apply member_sees_suffix i post _ h.1 _ hn
    rw [h.2]; simp [List.count_append, hc]
  | some t =>
    simp only [Option.isSome_some, if_true]
    apply absent_sees_nothing i post _ _ hn
    have hterm : ((s.subscribe i).2.any fun d => d.2.isTerminal) = true := by
      have htt := hwf t ht
      unfold Subj.subscribe
      split
      · simp [ht, htt]
      · simp [ht, htt]
    unfold afterSub
    simp only [hterm, if_true, Subj.unsubscribe]
    rw [List.count_erase_self]
    have := subscribe_count_self s i
    omega

/-- **late_subscriber_gets_terminal.** Subscribing to a stopped plain/behavior subject yields just
its terminal; to a stopped replay subject the buffer and then the terminal. -/
theorem late_subscriber_gets_terminal (s : Subj α) (i : Nat) (t : Notif α) (ht : s.term = some t) :
    (s.isReplay = false → (s.subscribe i).2 = [(i, t)]) ∧
    (s.isReplay = true → (s.subscribe i).2 = (trim s.bufSize s.queue).map (fun v => (i, Notif.next v)) ++ [(i, t)]) := by
  constructor
  · intro hr; simp [Subj.subscribe, hr, ht]
  · intro hr; simp [Subj.subscribe, hr, ht]

/-! ### Synchronously emitting sources and calls made from inside callbacks (`RxModel/ConnSync.lean`) -/
section sync
open Conn.Sync

/-- **sync_one_source_subscription.** With a source that emits from inside its `subscribe`, and
subscribers that call `connect()` / subscribe (through any `ref_count` view) / dispose other
subscriptions from inside `on_next`, to any depth: never more than one source subscription is open,
over the whole history (`maxOpen` is the high-water mark), and none while not connected. -/
theorem sync_one_source_subscription (w : SW) (hf : SFresh w) (ops : List SOp) (fuel : Nat) :
    (Sync.run w ops fuel).maxOpen ≤ 1 ∧ (Sync.run w ops fuel).srcOpen.length ≤ 1 ∧
    ((Sync.run w ops fuel).hasSub = false → (Sync.run w ops fuel).srcOpen = []) := by
  have h := Sync.run_inv ops fuel w hf.inv
  exact ⟨h.mx, h.len, fun hs => (h.off hs).1⟩

/-- **connect_reentrant_noop.** A `connect()` reached while a connection exists or is being made
(the flag is set before the source is subscribed) subscribes nothing. -/
theorem connect_reentrant_noop (w : SW) (hs : w.hasSub = true) : Sync.step w .connect = (w, []) := by
  simp [Sync.step, hs]

/-- the first subscriber of `share()` over a source emitting 1,2,3 inside `subscribe` receives all
three (it is attached to the subject before the connection is made) -/
example :
    Sync.outputsOf (Sync.run { subj := {}, syncMsgs := [.next 1, .next 2, .next 3] } [.sub 0 (some 0) none] 100) 0
    = [.next 101, .next 102, .next 103] := by decide

/-- two `ref_count` views of one published source; the second view's first subscriber arrives while
the first value is being delivered: one source subscription, it sees the rest -/
example :
    let r := Sync.run { subj := {}, syncMsgs := [.next 1, .next 2], actions := [.sub 1 (some 1) none] }
      [.sub 0 (some 0) (some (1, 0))] 100
    r.nSrc = 1 ∧ Sync.outputsOf r 0 = [.next 101, .next 102] ∧ Sync.outputsOf r 1 = [.next 102] := by decide

/-- an explicit re-entrant `connect()` from the first delivery does not subscribe the source again -/
example :
    let r := Sync.run { subj := {}, syncMsgs := [.next 1, .next 2], actions := [.connect] }
      [.sub 0 none (some (1, 0)), .connect] 100
    r.nSrc = 1 ∧ r.maxOpen = 1 ∧ Sync.outputsOf r 0 = [.next 101, .next 102] := by decide
end sync

/-! ### `multicast(subject_factory, mapper)` -/

theorem mcastOps_shape (k t : Nat) (tu : Option Nat) :
    ∃ stop, mcastOps k t tu = (List.range k).map (fun a => (t, Op.sub a)) ++ ([(t, Op.connect)] ++ stop) ∧
      noConnect stop = true := by
  cases tu with
  | none => exact ⟨[], by simp [mcastOps], rfl⟩
  | some u =>
    refine ⟨(List.range k).map (fun a => (u, Op.unsub a)) ++ [(u, Op.disconnect 0)], by simp [mcastOps], ?_⟩
    generalize List.range k = l
    induction l with
    | nil => rfl
    | cons a rest ih => simpa [noConnect] using ih

/-- **multicast_factory_one_source_subscription.** `multicast(subject_factory, mapper)` (hence
`publish(mapper)`, `replay(mapper=…)`, `publish_value(v, mapper)`): every outer subscription — made at
any time `t`, with a mapper that subscribes the private connectable `k` times, disposed at any time
or never, over any source and subject kind — subscribes the source **exactly once, at `t`**, and when
it is over (disposed, or at the horizon) its connection is released: not connected, no source
subscription open. -/
theorem multicast_factory_one_source_subscription (w : World α) (hf : Fresh w) (hw : w.wrap = .raw)
    (hlog : w.srcLog = []) (k t : Nat) (tu : Option Nat) (horizon : Nat) :
    (w.mcastWorld k t tu horizon).subTimes = [t] ∧ (w.mcastWorld k t tu horizon).hasSub = false ∧
    (w.mcastWorld k t tu horizon).srcOpen = [] := by
  unfold mcastWorld
  obtain ⟨stop, hshape, hstop⟩ := mcastOps_shape k t tu
  have hfin := run_raw_final w hf.inv hw (mcastOps k t tu) horizon
  refine ⟨?_, hfin.1, hfin.2.1⟩
  rw [hfin.2.2, hshape, runOps_append]
  -- the k inner subscriptions do not connect
  have hsubs := runOps_subs_same ((List.range k).map (fun a => (t, Op.sub a)))
    (by intro o ho; simp only [List.mem_map] at ho; obtain ⟨a, _, rfl⟩ := ho; exact ⟨t, a, rfl⟩) w [] hw
  rw [hsubs.2]
  generalize (w.runOps [] ((List.range k).map (fun a => (t, Op.sub a)))).1 = w1 at hsubs
  have hw1 : w1.wrap = .raw := by rw [hsubs.1.1]; exact hw
  -- the connect
  simp only [List.cons_append, List.nil_append, runOps, applyOp]
  have ha := advance_same t (w1.pendingCount + 1) w1 hw1
  have hwa : (advance t (w1.pendingCount + 1) w1).wrap = .raw := by rw [ha.1]; exact hw1
  have hns : (advance t (w1.pendingCount + 1) w1).hasSub = false := by rw [ha.2.2.1, hsubs.1.2.2.1]; exact hf.1
  have hce := connect_effective (advance t (w1.pendingCount + 1) w1) t hns
  have hrest := runOps_noConnect stop ((advance t (w1.pendingCount + 1) w1).connect t)
    [((advance t (w1.pendingCount + 1) w1).connect t).curHandle] (by rw [connect_wrap]; exact hwa) hstop
  rw [hrest.2]
  simp only [subTimes, hce.2.1, List.map_append, List.map_cons, List.map_nil]
  have : (advance t (w1.pendingCount + 1) w1).subTimes = [] := by
    rw [ha.2.1, hsubs.1.2.1]; simp [subTimes, hlog]
  simp only [subTimes] at this
  rw [this]; rfl

/-- two outer subscribers of `publish(mapper)` with a mapper that uses the connectable twice: two
source subscriptions, one each -/
example :
    let w : World Nat := { subj := {}, coldMsgs := [(10, .next 1), (30, .completed)] }
    (w.mcastWorld 2 200 none 1000).srcLog = [(0, 200, some 230)] ∧
    (w.mcastWorld 2 215 (some 220) 1000).srcLog = [(0, 215, some 220)] := by decide

/-! Non-vacuity: concrete histories. -/
section examples
private def cold3 : List (Nat × Notif Nat) := [(10, .next 1), (20, .next 2), (30, .completed)]

/-- share(): two subscribers, one source subscription; a late third one gets the terminal and a
transient re-connection (as the code behaves) -/
example :
    let r := ({ subj := {}, wrap := .refCount, coldMsgs := cold3 } : World Nat).run
      [(200, .sub 0), (215, .sub 1), (300, .sub 2)] 1000
    r.srcLog = [(0, 200, some 230), (1, 300, some 300)] ∧
    r.outputsOf 1 = [(220, .next 2), (230, .completed)] ∧ r.outputsOf 2 = [(300, .completed)] := by decide

/-- publish(): connect twice = one subscription; disconnect, reconnect = a second one -/
example :
    let r := ({ subj := {}, coldMsgs := cold3 } : World Nat).run
      [(200, .sub 0), (205, .connect), (206, .connect), (212, .disconnect 1), (240, .connect)] 1000
    r.srcLog = [(0, 205, some 212), (1, 240, some 270)] ∧
    r.outputsOf 0 = [(250, .next 1), (260, .next 2), (270, .completed)] := by decide

/-- auto_connect(2) connects at the second present subscriber and stays connected -/
example :
    let r := ({ subj := {}, wrap := .autoConnect 2, coldMsgs := cold3 } : World Nat).run
      [(200, .sub 0), (210, .sub 1), (215, .unsub 0), (216, .unsub 1)] 1000
    r.srcLog = [(0, 210, some 240)] ∧ r.outputsOf 0 = [] ∧ r.hasSub = true := by decide

/-- a fresh world is `Fresh`; the subject suffix theorem's hypotheses are satisfiable -/
example : Fresh ({ subj := {}, coldMsgs := cold3 } : World Nat) := by
  refine ⟨rfl, rfl, rfl, rfl, rfl, rfl, rfl, rfl⟩
example : seenBy 7 (runEv ({ isBehavior := true, value := some 9 } : Subj Nat)
      [.sub 7, .inp (.next 1), .sub 8, .inp (.next 2), .unsub 7, .inp (.next 3)])
    = [.next 9, .next 1, .next 2] := by decide
end examples

end C24

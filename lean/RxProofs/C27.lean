import RxProofs.Lemmas.DispC27
/-!
# C27 — RefCountDisposable releases its resource only after all dependents

Property theorems only.  Model: `Disp.rStep` (atomic steps of `RefCountDisposable.dispose/release/disposable`
and `InnerDisposable.dispose`).  Threads run arbitrary programs of `get` (request a dependent),
`rel h` / `relMine j` (dispose a dependent, possibly repeatedly, possibly one obtained by another thread),
`dispose` (primary); the schedule is an arbitrary list of thread indices.  One thread = a call history.
-/

namespace C27
open Disp

/-- **refcount_count_invariant.** In every reachable state `count` = (dependents that still point to the parent)
+ (threads between `InnerDisposable` giving up its parent and the decrement in `release()`), and every
increment is matched: `incs = decs + live + in-flight`. -/
theorem refcount_count_invariant (progs : List (List ROp)) (sched : List Nat) :
    let s := (rInit progs).run rStep sched
    s.sh.count = (wsum depLive s.sh.deps : Int) + (wsum rInflight s.pcs : Int) ∧
    s.sh.incs = s.sh.decs + wsum depLive s.sh.deps + wsum rInflight s.pcs := by
  intro s
  have h : RInv s := (rInv_run progs sched).1
  exact ⟨h.count_eq, h.incdec⟩

/-- **underlying_at_most_once.** The underlying resource is never disposed twice. -/
theorem underlying_at_most_once (progs : List (List ROp)) (sched : List Nat) :
    ((rInit progs).run rStep sched).sh.und ≤ 1 := by
  have h := (rInv_run progs sched).1.und_eq
  have : ((rInit progs).run rStep sched).sh.isDisposed.toNat ≤ 1 := Bool.toNat_le _
  omega

/-- **only_after_primary_and_all_dependents.** In every reachable state (mid-call states included): if the
underlying resource has been disposed, or some thread has decided to dispose it, then the primary `dispose()`
has executed its lock block, no dependent handed out so far still points to the parent, and no release is in
flight (`count = 0`). -/
theorem only_after_primary_and_all_dependents (progs : List (List ROp)) (sched : List Nat) :
    let s := (rInit progs).run rStep sched
    0 < s.sh.und + wsum rUndPend s.pcs →
      s.sh.isPrimaryDisposed = true ∧ wsum depLive s.sh.deps = 0 ∧ wsum rInflight s.pcs = 0 ∧ s.sh.count = 0 := by
  intro s hpos
  have h : RInv s := (rInv_run progs sched).1
  have hd : s.sh.isDisposed = true := by
    cases hx : s.sh.isDisposed
    · have := h.und_eq; rw [hx] at this; simp at this; omega
    · rfl
  obtain ⟨hp, hc⟩ := h.disposed hd
  have := h.count_eq
  exact ⟨hp, by omega, by omega, hc⟩

/-- **underlying_exactly_once.** When all threads have finished, some thread called the primary `dispose()`
and every dependent handed out has been disposed at least once, the underlying resource has been disposed
exactly once. -/
theorem underlying_exactly_once (progs : List (List ROp)) (sched : List Nat)
    (hq : rQuiet ((rInit progs).run rStep sched))
    (hdisp : 0 < wsum (fun p => p.count ROp.dispose) progs)
    (hall : wsum depLive ((rInit progs).run rStep sched).sh.deps = 0) :
    ((rInit progs).run rStep sched).sh.und = 1 := by
  obtain ⟨h, h2⟩ := rInv_run progs sched
  obtain ⟨z1, z2, z3⟩ := rQuiet_zero _ hq
  unfold RInv2 at h2
  rw [z3] at h2
  simp only [rTotalDisp] at h2
  have hp := h.pcalls (by omega)
  have hc := h.count_eq
  rw [z1, hall] at hc
  have hd : ((rInit progs).run rStep sched).sh.isDisposed = true := by
    rcases h.primary hp with hd | hd
    · exact hd
    · omega
  have := h.und_eq
  rw [z2, hd] at this
  simpa using this

/-- **underlying_not_without_primary / not_with_live_dependent.** Conversely, at quiescence the resource is still
alive if the primary was never disposed or some dependent is still live. -/
theorem underlying_kept_while_needed (progs : List (List ROp)) (sched : List Nat) :
    let s := (rInit progs).run rStep sched
    (s.sh.isPrimaryDisposed = false ∨ 0 < wsum depLive s.sh.deps) → s.sh.und = 0 := by
  intro s hneed
  have h := only_after_primary_and_all_dependents progs sched
  simp only at h
  cases hu : s.sh.und with
  | zero => rfl
  | succ n =>
    have := h (by simp only [s] at hu; omega)
    rcases hneed with hn | hn
    · simp only [s] at hn; rw [this.1] at hn; cases hn
    · simp only [s] at hn; omega

/-- **inner_double_dispose_releases_once.** Disposing a dependent that was already disposed changes nothing
(no decrement, no flag, no disposal) — together with `refcount_count_invariant` (`incs = decs + live + in-flight`)
each dependent decrements the count at most once however often and from however many threads it is disposed. -/
theorem inner_double_dispose_releases_once (s : RSh) (t : RTh) (p : List ROp) (h : Nat)
    (hd : s.deps[h]? = some (Dep.inner false)) :
    let r := rRel s t p h
    r.1.count = s.count ∧ r.1.decs = s.decs ∧ r.1.und = s.und ∧ r.1.isDisposed = s.isDisposed ∧
    r.1.isPrimaryDisposed = s.isPrimaryDisposed ∧ r.1.deps = s.deps ∧ r.2.pc = .idle := by
  simp [rRel, hd, RSh.ev]

/-- **late_dependents_inert.** (a) A dependent requested after the resource was released is a plain inert
disposable and does not touch the count; (b) disposing an inert dependent changes no field of the
RefCountDisposable; (c) `is_disposed` is stable under every step of every thread, so (a)/(b) apply forever
and by `underlying_at_most_once` nothing is disposed again. -/
theorem late_dependents_inert :
    (∀ (s : RSh) (mine : List Nat) (p : List ROp), s.isDisposed = true →
        let r := rStep s ⟨.idle, .get :: p, mine⟩
        r.1.deps = s.deps ++ [Dep.inert false] ∧ r.1.count = s.count ∧ r.1.incs = s.incs ∧ r.1.und = s.und) ∧
    (∀ (s : RSh) (t : RTh) (p : List ROp) (h : Nat) (b : Bool), s.deps[h]? = some (Dep.inert b) →
        let r := rRel s t p h
        r.1.count = s.count ∧ r.1.und = s.und ∧ r.1.isDisposed = s.isDisposed ∧
        r.1.isPrimaryDisposed = s.isPrimaryDisposed ∧ r.2.pc = .idle) ∧
    (∀ (s : Sys RSh RTh) (tid : Nat), s.sh.isDisposed = true → (s.step rStep tid).sh.isDisposed = true) := by
  refine ⟨?_, ?_, ?_⟩
  · intro s mine p hd; simp [rStep, hd, RSh.ev]
  · intro s t p h b hd; simp [rRel, hd, RSh.ev]
  · intro s tid hd
    apply Sys.step_cases rStep s tid (fun s' => s'.sh.isDisposed = true) hd
    intro t _
    obtain ⟨pc, prog, mine⟩ := t
    have hrel : ∀ (p : List ROp) (h : Nat) (pr : List ROp), (rRel s.sh ⟨.idle, pr, mine⟩ p h).1.isDisposed = true := by
      intro p h pr
      unfold rRel
      cases s.sh.deps[h]? with
      | none => simpa [RSh.ev] using hd
      | some d => cases d with
        | inert b => simpa [RSh.ev] using hd
        | inner b => cases b <;> simpa [RSh.ev] using hd
    cases pc with
    | idle =>
      cases prog with
      | nil => simpa [rStep] using hd
      | cons op prog =>
        cases op with
        | get => simp [rStep, hd, RSh.ev]
        | rel h => simp only [rStep]; exact hrel _ _ _
        | relMine j => simp only [rStep]; split
                       · exact hrel _ _ _
                       · simpa [RSh.ev] using hd
        | dispose => simp [rStep, hd, RSh.ev]
    | releasing => simp [rStep, hd, RSh.ev]
    | relChecked => simp only [rStep]; split <;> simp [RSh.ev, hd]
    | undPend => simp [rStep, hd, RSh.ev]
    | dispChecked => simp only [rStep]; repeat' split
                     all_goals simp [RSh.ev, hd]

/-! ## Non-vacuity -/

/-- thread 0 obtains two dependents (setup); then thread 1 disposes the primary while threads 2 and 3 dispose
dependent 0 (twice) and dependent 1, with the last release overlapping: disposed exactly once, by the last one -/
example : let s := (rInit [[.get, .get], [.dispose], [.rel 0, .rel 0], [.rel 1]]).run rStep [0, 0, 1, 2, 3, 2, 1, 3, 2, 2, 3, 3]
    rQuiet s ∧ s.sh.und = 1 ∧ s.sh.decs = 2 ∧ s.sh.incs = 2 ∧ s.sh.count = 0 := by decide

/-- primary disposed and one of two dependents released twice: the resource must still be alive -/
example : let s := (rInit [[.get, .get, .dispose, .rel 0, .rel 0]]).run rStep (List.replicate 12 0)
    rQuiet s ∧ s.sh.und = 0 ∧ s.sh.count = 1 ∧ s.sh.isPrimaryDisposed = true := by decide

/-- a dependent requested after the release is inert -/
example : let s := (rInit [[.dispose, .get, .relMine 0, .relMine 0]]).run rStep (List.replicate 8 0)
    rQuiet s ∧ s.sh.und = 1 ∧ s.sh.deps = [Dep.inert true] ∧ s.sh.count = 0 := by decide

end C27

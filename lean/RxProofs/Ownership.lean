import RxGen.Ownership
/-!
# ownership_ok — every acquired disposable is owned by what `subscribe` returns (C02 / C03, "K2")

`RxGen/Ownership.lean` is regenerated from /repo on every run (harness/xlate/ownership.py): one row per call
site in a `subscribe` body that acquires a disposable (`X.subscribe(..)`, `X.schedule*(..)`, `X.connect(..)`),
classified by where the value goes.  The obligation: every row is `returned`, `owned` or `nested_return`,
except the explicitly justified sites below.  A new `dropped`, `held_unrooted` or `unknown` row — an inner
subscription no longer added to its CompositeDisposable, a timer disposable no longer stored — makes this
`decide` fail at `lake build`.
-/
namespace Ownership
open RxGen.Ownership

/-- justified exceptions: (file, callee, classification) — the receiver's local name is deliberately not part of the key
(renaming or removing a local alias is a harmless rewrite). -/
def allow : List (String × String × String) := [
  -- Observable.subscribe: the trampoline action *is* the subscription set-up; it runs inside this very call
  -- (the trampoline is idle, `schedule_required()`), and what it builds is owned by the AutoDetachObserver.
  ("observable/observable.py", "schedule", "dropped"),
  -- ConnectableObservable.auto_connect: documented to stay connected indefinitely ("stays connected to the
  -- source indefinitely"); the connection is deliberately not owned by any subscriber.
  ("observable/connectableobservable.py", "connect", "held_unrooted")
]

def Row.ok (r : Row) : Bool :=
  r.cls == "returned" || r.cls == "owned" || r.cls == "nested_return" ||
  allow.contains (r.file, r.callee, r.cls)

theorem ownership_ok : table.all Row.ok = true := by decide +kernel

/-- the table is not empty and the allow-list is not what makes it pass in general. -/
theorem ownership_nonvacuous : 100 ≤ (table.filter (fun r => r.cls == "returned" || r.cls == "owned")).length := by
  decide +kernel

end Ownership

import RxProofs.Lemmas.AggC09
import RxProofs.C06
/-!
# C09 — exceptions raised by user callbacks are delivered as on_error

Property theorems only (this family's part: the aggregating operators and minimal re-statements of
map / filter / take_while / distinct / find; the rest of the catalogue is covered by the real-code oracle of
`harness/props/C09.py`).

A handler returns `esc : Option Err`, the exception that propagates out of `on_next/on_error/on_completed` into
whoever emitted the notification (a subject's caller, the scheduler).  For every operator `X` of the catalogue
`no_escape_X` states, for *arbitrary* callbacks (raising at any invocation):

* (A) `X.escapes lag raw = []` for every raw input and disposal timing: nothing ever propagates to the emitter;
* (B) in any handler state, an invocation in which the callback raises `e` makes exactly the downstream call
  `on_error(e)`.

`raise_delivered` (generic) turns (B) into the end-to-end statement: if that happens while the source is live and the
subscriber not yet terminated, the subscriber's sequence is extended by exactly that `on_error`, nothing follows, the
downstream observer is stopped and — with prompt disposal — so is the source's (`*_end_to_end` instantiate it).
Downstream calls are assumed to return normally (the property is about user-supplied functions).
-/

namespace C09
open Agg

/-! ## generic part -/

theorem raise_delivered {α β} (op : Op α β) (lag : Bool) (pre post : List (Notif α)) (n : Notif α)
    (cs : List (Notif β)) (e : Err)
    (hup : (op.final lag pre).up = false) (hdown : (op.final lag pre).down = false)
    (hcalls : (op.handle (op.final lag pre).s n).calls = cs ++ [.error e]) (hcs : ∀ c ∈ cs, c.isTerminal = false) :
    op.out lag (pre ++ n :: post) = op.out lag pre ++ (cs ++ [.error e])
    ∧ (op.final lag (pre ++ n :: post)).down = true
    ∧ (lag = false → (op.final lag (pre ++ n :: post)).up = true) :=
  Op.raise_delivered op lag pre post n cs e hup hdown hcalls hcs

/-- "stopped" = the subscriber has received a terminal -/
theorem stopped_iff_terminated {α β} (op : Op α β) (lag : Bool) (raw : List (Notif α)) :
    (op.final lag raw).down = (op.out lag raw).any (·.isTerminal) := Op.final_down_iff op lag raw

/-- the source's observer is live while the source has sent no terminal and the subscriber has received none -/
theorem live_source {α β} (op : Op α β) (lag : Bool) (pre : List (Notif α))
    (hpre : ∀ n ∈ pre, n.isTerminal = false) (hdown : (op.final lag pre).down = false) :
    (op.final lag pre).up = false := Op.final_up_false op lag pre hpre hdown

/-- piping preserves both halves: no escape, and a first-stage `on_error` passes a live forwarding stage -/
theorem no_escape_pipe {α β γ} (f : Op α β) (g : Op β γ) (hf : f.NoEsc) (hg : g.NoEsc) (hfw : g.FwdErr) :
    (∀ lag raw, (f ⨾ g).escapes lag raw = [])
    ∧ (∀ sf sg n e, (f.handle sf n).calls = [.error e] → ((f ⨾ g).handle (sf, false, sg) n).calls = [.error e]) :=
  ⟨fun lag raw => Op.escapes_nil _ (hf.comp hg) lag raw, fun sf sg n e h => comp_raise f g hfw sf sg n e h⟩

/-! ## element-wise handlers (re-stated) -/

theorem no_escape_map {α β} (f : α → Except Err β) :
    (∀ lag raw, (mapO f).escapes lag raw = [])
    ∧ (∀ s x e, f x = .error e → ((mapO f).handle s (.next x)).calls = [.error e]) :=
  ⟨Op.escapes_nil _ (mapO_noEsc f), fun s x e h => by simp [Op.handle, mapO, h]⟩

theorem no_escape_filter {α} (p : α → Except Err Bool) :
    (∀ lag raw, (filterO p).escapes lag raw = [])
    ∧ (∀ s x e, p x = .error e → ((filterO p).handle s (.next x)).calls = [.error e]) :=
  ⟨Op.escapes_nil _ (filterO_noEsc p), fun s x e h => by simp [Op.handle, filterO, h]⟩

/-- the predicate is only invoked while `running` -/
theorem no_escape_take_while {α} (p : α → Except Err Bool) (incl : Bool) :
    (∀ lag raw, (takeWhileO p incl).escapes lag raw = [])
    ∧ (∀ x e, p x = .error e → ((takeWhileO p incl).handle true (.next x)).calls = [.error e]) :=
  ⟨Op.escapes_nil _ (takeWhileO_noEsc p incl), fun x e h => by simp [Op.handle, takeWhileO, h]⟩

/-- `distinct` **as repaired** (`fixes/C09_distinct_comparer.patch`): key mapper and comparer -/
theorem no_escape_distinct {α κ} (key : α → Except Err κ) (cmp : κ → κ → Except Err Bool) :
    (∀ lag raw, (distinctO key cmp).escapes lag raw = [])
    ∧ (∀ s x e, key x = .error e → ((distinctO key cmp).handle s (.next x)).calls = [.error e])
    ∧ (∀ s x k e, key x = .ok k → memCmp cmp s k = .error e → ((distinctO key cmp).handle s (.next x)).calls = [.error e]) :=
  ⟨Op.escapes_nil _ (distinctO_noEsc key cmp), fun s x e h => by simp [Op.handle, distinctO, h],
   fun s x k e h1 h2 => by simp [Op.handle, distinctO, h1, h2]⟩

/-- the comparer raising at *any* member of the hash set makes `memCmp` raise (so the clause above applies) -/
theorem distinct_comparer_raise {κ} (cmp : κ → κ → Except Err Bool) (pre post : List κ) (a k : κ) (e : Err)
    (hpre : ∀ b ∈ pre, cmp b k = .ok false) (ha : cmp a k = .error e) : memCmp cmp (pre ++ a :: post) k = .error e := by
  induction pre with
  | nil => simp [memCmp, ha]
  | cons b bs ih =>
    simp only [List.cons_append, memCmp, hpre b List.mem_cons_self]
    exact ih (fun c hc => hpre c (List.mem_cons_of_mem _ hc))

/-- **the pinned tree's `distinct` violates the property**: the comparer's exception propagates to the emitter and the
subscriber is not told; the repaired handler delivers it. -/
theorem distinct_unfixed_escapes :
    let cmp : Nat → Nat → Except Err Bool := fun a b => if a = 1 ∧ b = 2 then .error "boom" else .ok (a == b)
    (distinctUnfixedO (fun x => .ok x) cmp).escapes false [.next 1, .next 2, .completed] = ["boom"]
    ∧ (distinctUnfixedO (fun x => .ok x) cmp).out false [.next 1, .next 2, .completed] = [.next 1, .completed]
    ∧ (distinctO (fun x => .ok x) cmp).escapes false [.next 1, .next 2, .completed] = []
    ∧ (distinctO (fun x => .ok x) cmp).out false [.next 1, .next 2, .completed] = [.next 1, .error "boom"] := by
  decide

theorem no_escape_find {α} (p : α → Int → Except Err Bool) (yi : Bool) :
    (∀ lag raw, (findO p yi).escapes lag raw = [])
    ∧ (∀ i x e, p x i = .error e → ((findO p yi).handle i (.next x)).calls = [.error e]) :=
  ⟨Op.escapes_nil _ (findO_noEsc p yi), fun i x e h => by simp [Op.handle, findO, h]⟩

/-! ## aggregating operators -/

theorem no_escape_scan {α β} (f : β → α → Except Err β) (seed : Option β) (inj : α → β) :
    (∀ lag raw, (scanO f seed inj).escapes lag raw = [])
    ∧ (∀ s x e, scanProj f seed inj s x = .error e → ((scanO f seed inj).handle s (.next x)).calls = [.error e]) :=
  ⟨Op.escapes_nil _ (scanO_noEsc f seed inj), fun s x e h => by simp [Op.handle, scanO, h]⟩

/-- `reduce` (= `scan | last(_or_default)`): the accumulator -/
theorem no_escape_reduce {α β} (f : β → α → Except Err β) (sd : β) (inj : α → β) :
    (∀ lag raw, (reduceO f (some sd) inj).escapes lag raw = [])
    ∧ (∀ s sl x e, scanProj f (some sd) inj s x = .error e →
        ((reduceO f (some sd) inj).handle (s, false, sl) (.next x)).calls = [.error e]) := by
  refine ⟨fun lag raw => Op.escapes_nil _ (reduceO_noEsc f _ inj) lag raw, ?_⟩
  intro s sl x e h
  exact comp_raise (scanO f (some sd) inj) (lastOrDefaultO (some sd)) (lastOrDefaultO_fwd _) s sl (.next x) e
    ((no_escape_scan f (some sd) inj).2 s x e h)

/-- `min_by` / `max_by` (`extrema_by`): key mapper and comparer -/
theorem no_escape_extrema {α κ} (key : α → Except Err κ) (cmp : κ → κ → Except Err Int) :
    (∀ lag raw, (maxByO key cmp).escapes lag raw = [] ∧ (minByO key cmp).escapes lag raw = [])
    ∧ (∀ s x e, key x = .error e → ((extremaByO key cmp).handle s (.next x)).calls = [.error e])
    ∧ (∀ items lk x k e, key x = .ok k → cmp k lk = .error e →
        ((extremaByO key cmp).handle (some lk, items) (.next x)).calls = [.error e]) :=
  ⟨fun lag raw => ⟨Op.escapes_nil _ (extremaByO_noEsc key cmp) lag raw, Op.escapes_nil _ (extremaByO_noEsc key _) lag raw⟩,
   fun s x e h => by simp [Op.handle, extremaByO, extremaStep, h],
   fun items lk x k e h1 h2 => by simp [Op.handle, extremaByO, extremaStep, h1, h2]⟩

theorem no_escape_min_max {α} (cmp : α → α → Except Err Int) (lag : Bool) (raw : List (Notif α)) :
    (minO cmp).escapes lag raw = [] ∧ (maxO cmp).escapes lag raw = [] :=
  ⟨Op.escapes_nil _ ((extremaByO_noEsc _ _).comp (mapO_noEsc _)) lag raw,
   Op.escapes_nil _ ((extremaByO_noEsc _ _).comp (mapO_noEsc _)) lag raw⟩

theorem no_escape_to_dict {α κ ν} (eq : κ → κ → Bool) (key : α → Except Err κ) (elem : α → Except Err ν) :
    (∀ lag raw, (toDictO eq key elem).escapes lag raw = [])
    ∧ (∀ s x e, key x = .error e → ((toDictO eq key elem).handle s (.next x)).calls = [.error e])
    ∧ (∀ s x k e, key x = .ok k → elem x = .error e → ((toDictO eq key elem).handle s (.next x)).calls = [.error e]) :=
  ⟨Op.escapes_nil _ (toDictO_noEsc eq key elem), fun s x e h => by simp [Op.handle, toDictO, dictStep, h],
   fun s x k e h1 h2 => by simp [Op.handle, toDictO, dictStep, h1, h2]⟩

/-- `contains` (= `filter(comparer(·, value)) | some()`): the comparer -/
theorem no_escape_contains {α} (v : α) (cmp : α → α → Except Err Bool) :
    (∀ lag raw, (containsO v cmp).escapes lag raw = [])
    ∧ (∀ x e, cmp x v = .error e → ((containsO v cmp).handle ((), false, ()) (.next x)).calls = [.error e]) := by
  refine ⟨fun lag raw => Op.escapes_nil _ ((filterO_noEsc _).comp someOp_noEsc) lag raw, ?_⟩
  intro x e h
  exact comp_raise (filterO (fun y => cmp y v)) someOp someOp_fwd () () (.next x) e
    ((no_escape_filter (fun y => cmp y v)).2 () x e h)

/-- every predicate form `filter(pred) | g` of this family: count, first, last, single (+_or_default), some -/
theorem no_escape_predicate_forms {α} (p : α → Except Err Bool) (d : α) (lag : Bool) (raw : List (Notif α)) :
    (countO (some p)).escapes lag raw = [] ∧ (firstO (some p)).escapes lag raw = [] ∧ (lastO (some p)).escapes lag raw = []
    ∧ (singleO (some p)).escapes lag raw = [] ∧ (firstOrDefaultPO (some p) d).escapes lag raw = []
    ∧ (lastOrDefaultPO (some p) d).escapes lag raw = [] ∧ (singleOrDefaultPO (some p) d).escapes lag raw = []
    ∧ (someO (some p)).escapes lag raw = [] ∧ (allO p).escapes lag raw = [] := by
  refine ⟨?_, ?_, ?_, ?_, ?_, ?_, ?_, ?_, ?_⟩
  · exact Op.escapes_nil _ ((filterO_noEsc p).comp (reduceO_noEsc _ _ _)) lag raw
  · exact Op.escapes_nil _ ((filterO_noEsc p).comp (firstOrDefaultO_noEsc _)) lag raw
  · exact Op.escapes_nil _ ((filterO_noEsc p).comp (lastOrDefaultO_noEsc _)) lag raw
  · exact Op.escapes_nil _ ((filterO_noEsc p).comp (singleOrDefaultO_noEsc _)) lag raw
  · exact Op.escapes_nil _ ((filterO_noEsc p).comp (firstOrDefaultO_noEsc _)) lag raw
  · exact Op.escapes_nil _ ((filterO_noEsc p).comp (lastOrDefaultO_noEsc _)) lag raw
  · exact Op.escapes_nil _ ((filterO_noEsc p).comp (singleOrDefaultO_noEsc _)) lag raw
  · exact Op.escapes_nil _ ((filterO_noEsc p).comp someOp_noEsc) lag raw
  · exact Op.escapes_nil _ (((filterO_noEsc _).comp someOp_noEsc).comp (mapO_noEsc _)) lag raw

/-- key-mapper forms `map(key) | …`: sum, average (the built-in `+` may raise TypeError as well — also delivered) -/
theorem no_escape_key_forms {α β} (key : α → Except Err β) (add : β → β → Except Err β) (zero : β)
    (keyI : α → Except Err Int) (lag : Bool) (raw : List (Notif α)) :
    (sumByO key add zero).escapes lag raw = [] ∧ (averageO keyI).escapes lag raw = [] :=
  ⟨Op.escapes_nil _ ((mapO_noEsc key).comp (reduceO_noEsc _ _ _)) lag raw,
   Op.escapes_nil _ ((((mapO_noEsc keyI).comp (scanO_noEsc _ _ _)).comp (lastOrDefaultO_noEsc _)).comp (mapO_noEsc _)) lag raw⟩

/-- `sequence_equal`: the comparer, on either side, for every event trace -/
theorem no_escape_sequence_equal {α} (cmp : α → α → Except Err Bool) :
    (∀ lag tr, seqEscapes cmp lag tr = [])
    ∧ (∀ (s : SeqSt α) v qr' x e, s.qr = v :: qr' → cmp v x = .error e → (seqHandle cmp s .L (.next x)).calls = [.error e])
    ∧ (∀ (s : SeqSt α) v ql' x e, s.ql = v :: ql' → cmp v x = .error e → (seqHandle cmp s .R (.next x)).calls = [.error e]) :=
  ⟨seqEscapes_nil cmp, fun s v qr' x e h1 h2 => by simp [seqHandle, h1, h2], fun s v ql' x e h1 h2 => by simp [seqHandle, h1, h2]⟩

/-! ## end-to-end instances -/

/-- **map, end to end**: the mapper succeeds on `ys` and raises `e` on `x` ⇒ the subscriber gets the mapped `ys`,
then `on_error(e)`, then nothing (whatever `post` is); nothing escapes; the run is stopped. -/
theorem map_raise_end_to_end {α β} (f : α → Except Err β) (lag : Bool) (ys : List α) (x : α) (post : List (Notif α)) (e : Err)
    (hok : ∀ y ∈ ys, ∃ v, f y = .ok v) (hx : f x = .error e) :
    (mapO f).out lag (ys.map .next ++ .next x :: post) = (mapO f).out lag (ys.map .next) ++ [.error e]
    ∧ (mapO f).escapes lag (ys.map .next ++ .next x :: post) = []
    ∧ ((mapO f).final lag (ys.map .next ++ .next x :: post)).down = true
    ∧ (lag = false → ((mapO f).final lag (ys.map .next ++ .next x :: post)).up = true) := by
  have hdown : ((mapO f).final lag (ys.map .next)).down = false := by
    rw [stopped_iff_terminated, mapO_out]
    have h1 : elems (ys.map (Notif.next)) = ys := by simpa using elems_map_next_append ys ([] : List (Notif α))
    have h2 : ending (ys.map (Notif.next (α := α))) = .open := by simpa using ending_map_next_append ys ([] : List (Notif α))
    rw [h1, h2]; exact mapC_ok_no_terminal f ys hok
  have hup := live_source (mapO f) lag (ys.map .next) (by simp [Notif.isTerminal]) hdown
  have := raise_delivered (mapO f) lag (ys.map .next) post (.next x) [] e hup hdown
    ((no_escape_map f).2 _ x e hx) (by simp)
  exact ⟨by simpa using this.1, (no_escape_map f).1 _ _, this.2.1, this.2.2⟩

/-- **reduce, end to end**: the accumulator raises `e` at element `x` (after folding `ys` to `a`) ⇒ the subscriber gets
exactly `on_error(e)`, at that element, whatever follows; nothing escapes; the run is stopped. -/
theorem reduce_raise_end_to_end {α β} (f : β → α → Except Err β) (sd a : β) (inj : α → β) (lag : Bool) (ys : List α) (x : α)
    (post : List (Notif α)) (e : Err) (hys : ys.foldlM f sd = .ok a) (hx : f a x = .error e) :
    (reduceO f (some sd) inj).out lag (ys.map .next ++ .next x :: post) = [.error e]
    ∧ (reduceO f (some sd) inj).out lag (ys.map .next) = []
    ∧ (reduceO f (some sd) inj).escapes lag (ys.map .next ++ .next x :: post) = []
    ∧ ((reduceO f (some sd) inj).final lag (ys.map .next ++ .next x :: post)).down = true := by
  have h1 : (reduceO f (some sd) inj).out lag (ys.map .next ++ .next x :: post) = [.error e] := by
    rw [C06.reduce_eq]
    simp only [elems_map_next_append, elems_next]
    rw [foldlM_raise f ys sd a x _ e hys hx]; rfl
  refine ⟨h1, ?_, (no_escape_reduce f sd inj).1 _ _, ?_⟩
  · rw [C06.reduce_eq]
    have h1 : elems (ys.map (Notif.next)) = ys := by simpa using elems_map_next_append ys ([] : List (Notif α))
    have h2 : ending (ys.map (Notif.next (α := α))) = .open := by simpa using ending_map_next_append ys ([] : List (Notif α))
    rw [h1, h2, hys]; rfl
  · rw [stopped_iff_terminated, h1]; rfl

/-- **contains, end to end**: the comparer says "different" on `ys` and raises `e` on `x` -/
theorem contains_raise_end_to_end {α} (v : α) (cmp : α → α → Except Err Bool) (lag : Bool) (ys : List α) (x : α)
    (post : List (Notif α)) (e : Err) (hys : ∀ y ∈ ys, cmp y v = .ok false) (hx : cmp x v = .error e) :
    (containsO v cmp).out lag (ys.map .next ++ .next x :: post) = [.error e]
    ∧ (containsO v cmp).escapes lag (ys.map .next ++ .next x :: post) = []
    ∧ ((containsO v cmp).final lag (ys.map .next ++ .next x :: post)).down = true := by
  have hf : ∀ (rest : List α) (t : Ending), filterC (fun y => cmp y v) (ys ++ x :: rest) t = ([], .err e) := by
    intro rest t
    induction ys with
    | nil => simp [filterC, hx]
    | cons y ys ih =>
      simp only [List.cons_append, filterC, hys y List.mem_cons_self]
      exact ih (fun z hz => hys z (List.mem_cons_of_mem _ hz))
  have h1 : (containsO v cmp).out lag (ys.map .next ++ .next x :: post) = [.error e] := by
    rw [C06.contains_eq]
    simp only [elems_map_next_append, elems_next, hf]; rfl
  exact ⟨h1, (no_escape_contains v cmp).1 _ _, by rw [stopped_iff_terminated, h1]; rfl⟩

/-! Non-vacuity: raising callbacks at the first / a middle / a late invocation, lagging and prompt. -/
example : (mapO (fun (x : Nat) => if x = 2 then .error "m" else .ok (x + 10))).out true [.next 1, .next 2, .next 3, .completed]
    = [.next 11, .error "m"] := by decide
example : (reduceO (fun (a x : Nat) => if x = 3 then .error "acc" else .ok (a + x)) (some 0) id).out false
    [.next 1, .next 2, .next 3, .next 4, .completed] = [.error "acc"] := by decide
example : (takeWhileO (fun (x : Nat) => if x = 1 then .error "p" else .ok true) false).escapes false [.next 1] = [] := by decide
example : seqOut (fun (a b : Nat) => if a = 2 then .error "cmp" else .ok (a == b)) false
    [(.L, .next 1), (.R, .next 1), (.R, .next 2), (.L, .next 2), (.L, .completed)] = [.error "cmp"] := by decide

end C09

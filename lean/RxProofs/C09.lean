import RxProofs.Lemmas.AggC09
import RxProofs.Lemmas.AggE2E
import RxProofs.Lemmas.AggComb
import RxProofs.Lemmas.AggWinGrp
import RxProofs.C06
/-!
# C09 — exceptions raised by user callbacks are delivered as on_error

Property theorems only (this family's part: the aggregating operators and minimal re-statements of
map / filter / take_while / distinct / find; the rest of the catalogue is covered by the real-code oracle of
`harness/props/C09.py`).

A handler returns `esc : Option Err`, the exception that propagates out of `on_next/on_error/on_completed` into
whoever emitted the notification (a subject's caller, the scheduler).  For every operator `X` of the catalogue
`no_escape_X` states, for *arbitrary* callbacks (raising at any invocation):

* (A) `X.escapes lag raw = []` for every raw input and disposal timing: nothing ever propagates to the emitter;
* (B) in any handler state, an invocation in which the callback raises `e` makes exactly the downstream call
  `on_error(e)`.

`raise_delivered` (generic) turns (B) into the end-to-end statement: if that happens while the source is live and the
subscriber not yet terminated, the subscriber's sequence is extended by exactly that `on_error`, nothing follows, the
downstream observer is stopped and — with prompt disposal — so is the source's (`*_end_to_end` instantiate it).
Downstream calls are assumed to return normally (the property is about user-supplied functions).
-/

namespace C09
open Agg

/-! ## generic part -/

theorem raise_delivered {α β} (op : Op α β) (lag : Bool) (pre post : List (Notif α)) (n : Notif α)
    (cs : List (Notif β)) (e : Err)
    (hup : (op.final lag pre).up = false) (hdown : (op.final lag pre).down = false)
    (hcalls : (op.handle (op.final lag pre).s n).calls = cs ++ [.error e]) (hcs : ∀ c ∈ cs, c.isTerminal = false) :
    op.out lag (pre ++ n :: post) = op.out lag pre ++ (cs ++ [.error e])
    ∧ (op.final lag (pre ++ n :: post)).down = true
    ∧ (lag = false → (op.final lag (pre ++ n :: post)).up = true) :=
  Op.raise_delivered op lag pre post n cs e hup hdown hcalls hcs

/-- "stopped" = the subscriber has received a terminal -/
theorem stopped_iff_terminated {α β} (op : Op α β) (lag : Bool) (raw : List (Notif α)) :
    (op.final lag raw).down = (op.out lag raw).any (·.isTerminal) := Op.final_down_iff op lag raw

/-- the source's observer is live while the source has sent no terminal and the subscriber has received none -/
theorem live_source {α β} (op : Op α β) (lag : Bool) (pre : List (Notif α))
    (hpre : ∀ n ∈ pre, n.isTerminal = false) (hdown : (op.final lag pre).down = false) :
    (op.final lag pre).up = false := Op.final_up_false op lag pre hpre hdown

/-- piping preserves both halves: no escape, and a first-stage `on_error` passes a live forwarding stage -/
theorem no_escape_pipe {α β γ} (f : Op α β) (g : Op β γ) (hf : f.NoEsc) (hg : g.NoEsc) (hfw : g.FwdErr) :
    (∀ lag raw, (f ⨾ g).escapes lag raw = [])
    ∧ (∀ sf sg n e, (f.handle sf n).calls = [.error e] → ((f ⨾ g).handle (sf, false, sg) n).calls = [.error e]) :=
  ⟨fun lag raw => Op.escapes_nil _ (hf.comp hg) lag raw, fun sf sg n e h => comp_raise f g sf sg n e (hfw sg e) h⟩

/-! ## element-wise handlers (re-stated) -/

theorem no_escape_map {α β} (f : α → Except Err β) :
    (∀ lag raw, (mapO f).escapes lag raw = [])
    ∧ (∀ s x e, f x = .error e → ((mapO f).handle s (.next x)).calls = [.error e]) :=
  ⟨Op.escapes_nil _ (mapO_noEsc f), fun s x e h => by simp [Op.handle, mapO, h]⟩

theorem no_escape_filter {α} (p : α → Except Err Bool) :
    (∀ lag raw, (filterO p).escapes lag raw = [])
    ∧ (∀ s x e, p x = .error e → ((filterO p).handle s (.next x)).calls = [.error e]) :=
  ⟨Op.escapes_nil _ (filterO_noEsc p), fun s x e h => by simp [Op.handle, filterO, h]⟩

/-- the predicate is only invoked while `running` -/
theorem no_escape_take_while {α} (p : α → Except Err Bool) (incl : Bool) :
    (∀ lag raw, (takeWhileO p incl).escapes lag raw = [])
    ∧ (∀ x e, p x = .error e → ((takeWhileO p incl).handle true (.next x)).calls = [.error e]) :=
  ⟨Op.escapes_nil _ (takeWhileO_noEsc p incl), fun x e h => by simp [Op.handle, takeWhileO, h]⟩

/-- `distinct` **as repaired** (`fixes/C09_distinct_comparer.patch`): key mapper and comparer -/
theorem no_escape_distinct {α κ} (key : α → Except Err κ) (cmp : κ → κ → Except Err Bool) :
    (∀ lag raw, (distinctO key cmp).escapes lag raw = [])
    ∧ (∀ s x e, key x = .error e → ((distinctO key cmp).handle s (.next x)).calls = [.error e])
    ∧ (∀ s x k e, key x = .ok k → memCmp cmp s k = .error e → ((distinctO key cmp).handle s (.next x)).calls = [.error e]) :=
  ⟨Op.escapes_nil _ (distinctO_noEsc key cmp), fun s x e h => by simp [Op.handle, distinctO, h],
   fun s x k e h1 h2 => by simp [Op.handle, distinctO, h1, h2]⟩

/-- the comparer raising at *any* member of the hash set makes `memCmp` raise (so the clause above applies) -/
theorem distinct_comparer_raise {κ} (cmp : κ → κ → Except Err Bool) (pre post : List κ) (a k : κ) (e : Err)
    (hpre : ∀ b ∈ pre, cmp b k = .ok false) (ha : cmp a k = .error e) : memCmp cmp (pre ++ a :: post) k = .error e := by
  induction pre with
  | nil => simp [memCmp, ha]
  | cons b bs ih =>
    simp only [List.cons_append, memCmp, hpre b List.mem_cons_self]
    exact ih (fun c hc => hpre c (List.mem_cons_of_mem _ hc))

/-- **the pinned tree's `distinct` violates the property**: the comparer's exception propagates to the emitter and the
subscriber is not told; the repaired handler delivers it. -/
theorem distinct_unfixed_escapes :
    let cmp : Nat → Nat → Except Err Bool := fun a b => if a = 1 ∧ b = 2 then .error "boom" else .ok (a == b)
    (distinctUnfixedO (fun x => .ok x) cmp).escapes false [.next 1, .next 2, .completed] = ["boom"]
    ∧ (distinctUnfixedO (fun x => .ok x) cmp).out false [.next 1, .next 2, .completed] = [.next 1, .completed]
    ∧ (distinctO (fun x => .ok x) cmp).escapes false [.next 1, .next 2, .completed] = []
    ∧ (distinctO (fun x => .ok x) cmp).out false [.next 1, .next 2, .completed] = [.next 1, .error "boom"] := by
  decide

theorem no_escape_find {α} (p : α → Int → Except Err Bool) (yi : Bool) :
    (∀ lag raw, (findO p yi).escapes lag raw = [])
    ∧ (∀ i x e, p x i = .error e → ((findO p yi).handle i (.next x)).calls = [.error e]) :=
  ⟨Op.escapes_nil _ (findO_noEsc p yi), fun i x e h => by simp [Op.handle, findO, h]⟩

/-! ## aggregating operators -/

theorem no_escape_scan {α β} (f : β → α → Except Err β) (seed : Option β) (inj : α → β) :
    (∀ lag raw, (scanO f seed inj).escapes lag raw = [])
    ∧ (∀ s x e, scanProj f seed inj s x = .error e → ((scanO f seed inj).handle s (.next x)).calls = [.error e]) :=
  ⟨Op.escapes_nil _ (scanO_noEsc f seed inj), fun s x e h => by simp [Op.handle, scanO, h]⟩

/-- `reduce` (= `scan | last(_or_default)`): the accumulator -/
theorem no_escape_reduce {α β} (f : β → α → Except Err β) (sd : β) (inj : α → β) :
    (∀ lag raw, (reduceO f (some sd) inj).escapes lag raw = [])
    ∧ (∀ s sl x e, scanProj f (some sd) inj s x = .error e →
        ((reduceO f (some sd) inj).handle (s, false, sl) (.next x)).calls = [.error e]) := by
  refine ⟨fun lag raw => Op.escapes_nil _ (reduceO_noEsc f _ inj) lag raw, ?_⟩
  intro s sl x e h
  exact comp_raise (scanO f (some sd) inj) (lastOrDefaultO (some sd)) s sl (.next x) e (lastOrDefaultO_fwd _ sl e)
    ((no_escape_scan f (some sd) inj).2 s x e h)

/-- `min_by` / `max_by` (`extrema_by`): key mapper and comparer -/
theorem no_escape_extrema {α κ} (key : α → Except Err κ) (cmp : κ → κ → Except Err Int) :
    (∀ lag raw, (maxByO key cmp).escapes lag raw = [] ∧ (minByO key cmp).escapes lag raw = [])
    ∧ (∀ s x e, key x = .error e → ((extremaByO key cmp).handle s (.next x)).calls = [.error e])
    ∧ (∀ items lk x k e, key x = .ok k → cmp k lk = .error e →
        ((extremaByO key cmp).handle (some lk, items) (.next x)).calls = [.error e]) :=
  ⟨fun lag raw => ⟨Op.escapes_nil _ (extremaByO_noEsc key cmp) lag raw, Op.escapes_nil _ (extremaByO_noEsc key _) lag raw⟩,
   fun s x e h => by simp [Op.handle, extremaByO, extremaStep, h],
   fun items lk x k e h1 h2 => by simp [Op.handle, extremaByO, extremaStep, h1, h2]⟩

theorem no_escape_min_max {α} (cmp : α → α → Except Err Int) (lag : Bool) (raw : List (Notif α)) :
    (minO cmp).escapes lag raw = [] ∧ (maxO cmp).escapes lag raw = [] :=
  ⟨Op.escapes_nil _ ((extremaByO_noEsc _ _).comp (mapO_noEsc _)) lag raw,
   Op.escapes_nil _ ((extremaByO_noEsc _ _).comp (mapO_noEsc _)) lag raw⟩

theorem no_escape_to_dict {α κ ν} (eq : κ → κ → Bool) (key : α → Except Err κ) (elem : α → Except Err ν) :
    (∀ lag raw, (toDictO eq key elem).escapes lag raw = [])
    ∧ (∀ s x e, key x = .error e → ((toDictO eq key elem).handle s (.next x)).calls = [.error e])
    ∧ (∀ s x k e, key x = .ok k → elem x = .error e → ((toDictO eq key elem).handle s (.next x)).calls = [.error e]) :=
  ⟨Op.escapes_nil _ (toDictO_noEsc eq key elem), fun s x e h => by simp [Op.handle, toDictO, dictStep, h],
   fun s x k e h1 h2 => by simp [Op.handle, toDictO, dictStep, h1, h2]⟩

/-- `to_set` / `to_dict` **as repaired** (`fixes/C06_toset_todict_unhashable.patch`): the `TypeError` Python raises for an
unhashable element / key is not a user callback's, but it is delivered the same way — never into the emitter -/
theorem no_escape_hashing {α κ ν} (h : α → Bool) (eq : α → α → Bool) (hk : κ → Bool) (eqk : κ → κ → Bool)
    (key : α → Except Err κ) (elem : α → Except Err ν) :
    (∀ lag raw, (toSetHO h eq).escapes lag raw = [] ∧ (toDictHO hk eqk key elem).escapes lag raw = [])
    ∧ (∀ s x, h x = false → ((toSetHO h eq).handle s (.next x)).calls = [.error "TypeError"])
    ∧ (∀ s x k v, key x = .ok k → elem x = .ok v → hk k = false →
        ((toDictHO hk eqk key elem).handle s (.next x)).calls = [.error "TypeError"]) := by
  refine ⟨fun lag raw => ⟨Op.escapes_nil _ (Op.NoEsc.of_handlers (fun s x => ?_) (fun _ _ => rfl) (fun _ => rfl)) lag raw,
      Op.escapes_nil _ (Op.NoEsc.of_handlers (fun s x => ?_) (fun _ _ => rfl) (fun _ => rfl)) lag raw⟩, ?_, ?_⟩
  · simp only [toSetHO]; cases setStepH h eq s x <;> rfl
  · simp only [toDictHO]; cases dictStepH hk eqk key elem s x <;> rfl
  · intro s x hx; simp [Op.handle, toSetHO, setStepH, hx]
  · intro s x k v h1 h2 h3; simp [Op.handle, toDictHO, dictStepH, h1, h2, h3]

/-- `contains` (= `filter(comparer(·, value)) | some()`): the comparer -/
theorem no_escape_contains {α} (v : α) (cmp : α → α → Except Err Bool) :
    (∀ lag raw, (containsO v cmp).escapes lag raw = [])
    ∧ (∀ x e, cmp x v = .error e → ((containsO v cmp).handle ((), false, false) (.next x)).calls = [.error e]) := by
  refine ⟨fun lag raw => Op.escapes_nil _ ((filterO_noEsc _).comp someOp_noEsc) lag raw, ?_⟩
  intro x e h
  exact comp_raise (filterO (fun y => cmp y v)) someOp () false (.next x) e (someOp_fwd_live e)
    ((no_escape_filter (fun y => cmp y v)).2 () x e h)

/-- every predicate form `filter(pred) | g` of this family: count, first, last, single (+_or_default), some -/
theorem no_escape_predicate_forms {α} (p : α → Except Err Bool) (d : α) (lag : Bool) (raw : List (Notif α)) :
    (countO (some p)).escapes lag raw = [] ∧ (firstO (some p)).escapes lag raw = [] ∧ (lastO (some p)).escapes lag raw = []
    ∧ (singleO (some p)).escapes lag raw = [] ∧ (firstOrDefaultPO (some p) d).escapes lag raw = []
    ∧ (lastOrDefaultPO (some p) d).escapes lag raw = [] ∧ (singleOrDefaultPO (some p) d).escapes lag raw = []
    ∧ (someO (some p)).escapes lag raw = [] ∧ (allO p).escapes lag raw = [] := by
  refine ⟨?_, ?_, ?_, ?_, ?_, ?_, ?_, ?_, ?_⟩
  · exact Op.escapes_nil _ ((filterO_noEsc p).comp (reduceO_noEsc _ _ _)) lag raw
  · exact Op.escapes_nil _ ((filterO_noEsc p).comp (firstOrDefaultO_noEsc _)) lag raw
  · exact Op.escapes_nil _ ((filterO_noEsc p).comp (lastOrDefaultO_noEsc _)) lag raw
  · exact Op.escapes_nil _ ((filterO_noEsc p).comp (singleOrDefaultO_noEsc _)) lag raw
  · exact Op.escapes_nil _ ((filterO_noEsc p).comp (firstOrDefaultO_noEsc _)) lag raw
  · exact Op.escapes_nil _ ((filterO_noEsc p).comp (lastOrDefaultO_noEsc _)) lag raw
  · exact Op.escapes_nil _ ((filterO_noEsc p).comp (singleOrDefaultO_noEsc _)) lag raw
  · exact Op.escapes_nil _ ((filterO_noEsc p).comp someOp_noEsc) lag raw
  · exact Op.escapes_nil _ (((filterO_noEsc _).comp someOp_noEsc).comp (mapO_noEsc _)) lag raw

/-- key-mapper forms `map(key) | …`: sum, average (the built-in `+` may raise TypeError as well — also delivered) -/
theorem no_escape_key_forms {α β} (key : α → Except Err β) (add : β → β → Except Err β) (zero : β)
    (keyI : α → Except Err Int) (lag : Bool) (raw : List (Notif α)) :
    (sumByO key add zero).escapes lag raw = [] ∧ (averageO keyI).escapes lag raw = [] :=
  ⟨Op.escapes_nil _ ((mapO_noEsc key).comp (reduceO_noEsc _ _ _)) lag raw,
   Op.escapes_nil _ ((((mapO_noEsc keyI).comp (scanO_noEsc _ _ _)).comp (lastOrDefaultO_noEsc _)).comp (mapO_noEsc _)) lag raw⟩

/-- `sequence_equal`: the comparer, on either side, for every event trace (handlers of an undecided run) -/
theorem no_escape_sequence_equal {α} (cmp : α → α → Except Err Bool) :
    (∀ lag tr, seqEscapes cmp lag tr = [])
    ∧ (∀ (s : SeqSt α) v qr' x e, s.decided = false → s.qr = v :: qr' → cmp v x = .error e →
        (seqHandle cmp s .L (.next x)).calls = [.error e])
    ∧ (∀ (s : SeqSt α) v ql' x e, s.decided = false → s.ql = v :: ql' → cmp v x = .error e →
        (seqHandle cmp s .R (.next x)).calls = [.error e]) :=
  ⟨seqEscapes_nil cmp, fun s v qr' x e h0 h1 h2 => by simp [seqHandle, seqHandleU, h0, h1, h2],
   fun s v ql' x e h0 h1 h2 => by simp [seqHandle, seqHandleU, h0, h1, h2]⟩

/-! ## end-to-end instances -/

/-- **map, end to end**: the mapper succeeds on `ys` and raises `e` on `x` ⇒ the subscriber gets the mapped `ys`,
then `on_error(e)`, then nothing (whatever `post` is); nothing escapes; the run is stopped. -/
theorem map_raise_end_to_end {α β} (f : α → Except Err β) (lag : Bool) (ys : List α) (x : α) (post : List (Notif α)) (e : Err)
    (hok : ∀ y ∈ ys, ∃ v, f y = .ok v) (hx : f x = .error e) :
    (mapO f).out lag (ys.map .next ++ .next x :: post) = (mapO f).out lag (ys.map .next) ++ [.error e]
    ∧ (mapO f).escapes lag (ys.map .next ++ .next x :: post) = []
    ∧ ((mapO f).final lag (ys.map .next ++ .next x :: post)).down = true
    ∧ (lag = false → ((mapO f).final lag (ys.map .next ++ .next x :: post)).up = true) := by
  have hdown : ((mapO f).final lag (ys.map .next)).down = false := by
    rw [stopped_iff_terminated, mapO_out]
    have h1 : elems (ys.map (Notif.next)) = ys := by simpa using elems_map_next_append ys ([] : List (Notif α))
    have h2 : ending (ys.map (Notif.next (α := α))) = .open := by simpa using ending_map_next_append ys ([] : List (Notif α))
    rw [h1, h2]; exact mapC_ok_no_terminal f ys hok
  have hup := live_source (mapO f) lag (ys.map .next) (by simp [Notif.isTerminal]) hdown
  have := raise_delivered (mapO f) lag (ys.map .next) post (.next x) [] e hup hdown
    ((no_escape_map f).2 _ x e hx) (by simp)
  exact ⟨by simpa using this.1, (no_escape_map f).1 _ _, this.2.1, this.2.2⟩

/-- **reduce, end to end**: the accumulator raises `e` at element `x` (after folding `ys` to `a`) ⇒ the subscriber gets
exactly `on_error(e)`, at that element, whatever follows; nothing escapes; the run is stopped. -/
theorem reduce_raise_end_to_end {α β} (f : β → α → Except Err β) (sd a : β) (inj : α → β) (lag : Bool) (ys : List α) (x : α)
    (post : List (Notif α)) (e : Err) (hys : ys.foldlM f sd = .ok a) (hx : f a x = .error e) :
    (reduceO f (some sd) inj).out lag (ys.map .next ++ .next x :: post) = [.error e]
    ∧ (reduceO f (some sd) inj).out lag (ys.map .next) = []
    ∧ (reduceO f (some sd) inj).escapes lag (ys.map .next ++ .next x :: post) = []
    ∧ ((reduceO f (some sd) inj).final lag (ys.map .next ++ .next x :: post)).down = true := by
  have h1 : (reduceO f (some sd) inj).out lag (ys.map .next ++ .next x :: post) = [.error e] := by
    rw [C06.reduce_eq]
    simp only [elems_map_next_append, elems_next]
    rw [foldlM_raise f ys sd a x _ e hys hx]; rfl
  refine ⟨h1, ?_, (no_escape_reduce f sd inj).1 _ _, ?_⟩
  · rw [C06.reduce_eq]
    have h1 : elems (ys.map (Notif.next)) = ys := by simpa using elems_map_next_append ys ([] : List (Notif α))
    have h2 : ending (ys.map (Notif.next (α := α))) = .open := by simpa using ending_map_next_append ys ([] : List (Notif α))
    rw [h1, h2, hys]; rfl
  · rw [stopped_iff_terminated, h1]; rfl

/-- **contains, end to end**: the comparer says "different" on `ys` and raises `e` on `x` -/
theorem contains_raise_end_to_end {α} (v : α) (cmp : α → α → Except Err Bool) (lag : Bool) (ys : List α) (x : α)
    (post : List (Notif α)) (e : Err) (hys : ∀ y ∈ ys, cmp y v = .ok false) (hx : cmp x v = .error e) :
    (containsO v cmp).out lag (ys.map .next ++ .next x :: post) = [.error e]
    ∧ (containsO v cmp).escapes lag (ys.map .next ++ .next x :: post) = []
    ∧ ((containsO v cmp).final lag (ys.map .next ++ .next x :: post)).down = true := by
  have hf : ∀ (rest : List α) (t : Ending), filterC (fun y => cmp y v) (ys ++ x :: rest) t = ([], .err e) := by
    intro rest t
    induction ys with
    | nil => simp [filterC, hx]
    | cons y ys ih =>
      simp only [List.cons_append, filterC, hys y List.mem_cons_self]
      exact ih (fun z hz => hys z (List.mem_cons_of_mem _ hz))
  have h1 : (containsO v cmp).out lag (ys.map .next ++ .next x :: post) = [.error e] := by
    rw [C06.contains_eq]
    simp only [elems_map_next_append, elems_next, hf]; rfl
  exact ⟨h1, (no_escape_contains v cmp).1 _ _, by rw [stopped_iff_terminated, h1]; rfl⟩

/-! ## the generic end-to-end theorem and its instances for the whole catalogue

`op.DeliversAt lag pre x e` := if the subscriber has not been terminated by `pre`, then for every continuation `post`:
`op.out lag (pre ++ next x :: post) = op.out lag pre ++ [on_error e]`, nothing escapes, the downstream observer is
stopped and (prompt disposal) so is the source's.  `pre` is any list of `on_next`s (`hpre`); the hypothesis on the
callback is stated on the state the (first-stage) handler has after `pre`. -/

/-- **Generic**: (A) `NoEsc` + `RaisesAt` (from the handler-level (B) via `raisesAt_of_handler`, closed under `⨾` via
`RaisesAt.comp`) ⇒ the end-to-end statement, for any operator. -/
theorem raise_end_to_end {α β} (op : Op α β) (hA : op.NoEsc) (lag : Bool) (pre post : List (Notif α)) (x : α) (e : Err)
    (hB : op.RaisesAt lag pre x e) (hlive : noTerm (op.out lag pre)) :
    op.out lag (pre ++ .next x :: post) = op.out lag pre ++ [.error e]
    ∧ op.escapes lag (pre ++ .next x :: post) = []
    ∧ (op.final lag (pre ++ .next x :: post)).down = true
    ∧ (lag = false → (op.final lag (pre ++ .next x :: post)).up = true) :=
  Op.raise_end_to_end op hA lag pre post x e hB hlive

/-- **Generic, pipes**: a first stage that `RaisesAt` piped into any stage that forwards errors and terminals -/
theorem pipe_raise_end_to_end {α β γ} (f : Op α β) (g : Op β γ) (hfA : f.NoEsc) (hgA : g.NoEsc) (hge : g.ErrThrough)
    (hgt : g.TermProp) (lag : Bool) (pre : List (Notif α)) (x : α) (e : Err) (hB : f.RaisesAt lag pre x e) :
    (f ⨾ g).DeliversAt lag pre x e :=
  Op.deliversAt _ (hfA.comp hgA) (hB.comp hge hgt)

section Instances
variable {α : Type} (lag : Bool) (pre : List (Notif α)) (hpre : ∀ n ∈ pre, n.isTerminal = false) (x : α) (e : Err)
include hpre

theorem filter_raise_end_to_end (p : α → Except Err Bool) (hx : p x = .error e) : (filterO p).DeliversAt lag pre x e :=
  Op.deliversAt _ (filterO_noEsc p) (Op.raisesAt_of_handler _ lag pre x e hpre ((no_escape_filter p).2 _ x e hx))

theorem take_while_raise_end_to_end (p : α → Except Err Bool) (incl : Bool)
    (hrun : ((takeWhileO p incl).final lag pre).s = true) (hx : p x = .error e) : (takeWhileO p incl).DeliversAt lag pre x e :=
  Op.deliversAt _ (takeWhileO_noEsc p incl)
    (Op.raisesAt_of_handler _ lag pre x e hpre (by rw [hrun]; exact (no_escape_take_while p incl).2 x e hx))

theorem distinct_key_raise_end_to_end {κ} (key : α → Except Err κ) (cmp : κ → κ → Except Err Bool) (hx : key x = .error e) :
    (distinctO key cmp).DeliversAt lag pre x e :=
  Op.deliversAt _ (distinctO_noEsc key cmp) (Op.raisesAt_of_handler _ lag pre x e hpre ((no_escape_distinct key cmp).2.1 _ x e hx))

/-- the comparer raises against some member of the keys seen so far -/
theorem distinct_comparer_raise_end_to_end {κ} (key : α → Except Err κ) (cmp : κ → κ → Except Err Bool) (k : κ)
    (hk : key x = .ok k) (hx : memCmp cmp ((distinctO key cmp).final lag pre).s k = .error e) :
    (distinctO key cmp).DeliversAt lag pre x e :=
  Op.deliversAt _ (distinctO_noEsc key cmp) (Op.raisesAt_of_handler _ lag pre x e hpre ((no_escape_distinct key cmp).2.2 _ x k e hk hx))

theorem find_raise_end_to_end (p : α → Int → Except Err Bool) (yi : Bool)
    (hx : p x ((findO p yi).final lag pre).s = .error e) : (findO p yi).DeliversAt lag pre x e :=
  Op.deliversAt _ (findO_noEsc p yi) (Op.raisesAt_of_handler _ lag pre x e hpre ((no_escape_find p yi).2 _ x e hx))

theorem scan_raise_end_to_end {β} (f : β → α → Except Err β) (seed : Option β) (inj : α → β)
    (hx : scanProj f seed inj ((scanO f seed inj).final lag pre).s x = .error e) : (scanO f seed inj).DeliversAt lag pre x e :=
  Op.deliversAt _ (scanO_noEsc f seed inj) (Op.raisesAt_of_handler _ lag pre x e hpre ((no_escape_scan f seed inj).2 _ x e hx))

/-- reduce with or without seed, in the handler-state form (cf. `reduce_raise_end_to_end` for the `foldlM` form) -/
theorem reduce_state_raise_end_to_end {β} (f : β → α → Except Err β) (seed : Option β) (inj : α → β)
    (hx : scanProj f seed inj ((scanO f seed inj).final lag pre).s x = .error e) : (reduceO f seed inj).DeliversAt lag pre x e := by
  have hB := Op.raisesAt_of_handler _ lag pre x e hpre ((no_escape_scan f seed inj).2 _ x e hx)
  cases seed <;>
    exact pipe_raise_end_to_end _ _ (scanO_noEsc f _ inj) (lastOrDefaultO_noEsc _) (Op.errThrough_of_fwd _ (lastOrDefaultO_fwd _))
      (lastOrDefaultO_termProp _) lag pre x e hB

theorem extrema_key_raise_end_to_end {κ} (key : α → Except Err κ) (cmp : κ → κ → Except Err Int) (hx : key x = .error e) :
    (maxByO key cmp).DeliversAt lag pre x e ∧ (minByO key cmp).DeliversAt lag pre x e ∧
    (∀ (id' : α → Except Err α) (c : α → α → Except Err Int), id' x = .error e →
      (extremaByO id' c ⨾ mapO firstOnly).DeliversAt lag pre x e) :=
  ⟨Op.deliversAt _ (extremaByO_noEsc key cmp) (Op.raisesAt_of_handler _ lag pre x e hpre ((no_escape_extrema key cmp).2.1 _ x e hx)),
   Op.deliversAt _ (extremaByO_noEsc key _) (Op.raisesAt_of_handler _ lag pre x e hpre ((no_escape_extrema key _).2.1 _ x e hx)),
   fun id' c h => pipe_raise_end_to_end _ _ (extremaByO_noEsc id' c) (mapO_noEsc _) (Op.errThrough_of_fwd _ (mapO_fwd _))
     (mapO_termProp _) lag pre x e (Op.raisesAt_of_handler _ lag pre x e hpre ((no_escape_extrema id' c).2.1 _ x e h))⟩

/-- the comparer raises when the new key is compared with the current extremum `lk` (max_by; min_by is `extremaByO` with the
negated comparer; `min`/`max` pipe it into `map(first_only)`) -/
theorem extrema_comparer_raise_end_to_end {κ} (key : α → Except Err κ) (cmp : κ → κ → Except Err Int) (k lk : κ) (items : List α)
    (hst : ((extremaByO key cmp).final lag pre).s = (some lk, items)) (hk : key x = .ok k) (hx : cmp k lk = .error e) :
    (extremaByO key cmp).DeliversAt lag pre x e ∧ (extremaByO key cmp ⨾ mapO firstOnly).DeliversAt lag pre x e := by
  have hB := Op.raisesAt_of_handler (extremaByO key cmp) lag pre x e hpre
    (by rw [hst]; exact (no_escape_extrema key cmp).2.2 items lk x k e hk hx)
  exact ⟨Op.deliversAt _ (extremaByO_noEsc key cmp) hB,
    pipe_raise_end_to_end _ _ (extremaByO_noEsc key cmp) (mapO_noEsc _) (Op.errThrough_of_fwd _ (mapO_fwd _)) (mapO_termProp _) lag pre x e hB⟩

theorem to_dict_raise_end_to_end {κ ν} (eq : κ → κ → Bool) (key : α → Except Err κ) (elem : α → Except Err ν)
    (hx : key x = .error e ∨ ∃ k, key x = .ok k ∧ elem x = .error e) : (toDictO eq key elem).DeliversAt lag pre x e := by
  refine Op.deliversAt _ (toDictO_noEsc eq key elem) (Op.raisesAt_of_handler _ lag pre x e hpre ?_)
  rcases hx with h | ⟨k, h1, h2⟩
  · exact (no_escape_to_dict eq key elem).2.1 _ x e h
  · exact (no_escape_to_dict eq key elem).2.2 _ x k e h1 h2

/-- every predicate form of the family: the predicate raises at `x` -/
theorem predicate_forms_raise_end_to_end (p : α → Except Err Bool) (d : α) (hx : p x = .error e) :
    (countO (some p)).DeliversAt lag pre x e ∧ (firstO (some p)).DeliversAt lag pre x e ∧ (lastO (some p)).DeliversAt lag pre x e
    ∧ (singleO (some p)).DeliversAt lag pre x e ∧ (firstOrDefaultPO (some p) d).DeliversAt lag pre x e
    ∧ (lastOrDefaultPO (some p) d).DeliversAt lag pre x e ∧ (singleOrDefaultPO (some p) d).DeliversAt lag pre x e
    ∧ (someO (some p)).DeliversAt lag pre x e := by
  have hB := Op.raisesAt_of_handler (filterO p) lag pre x e hpre ((no_escape_filter p).2 _ x e hx)
  have hf := filterO_noEsc p
  refine ⟨?_, ?_, ?_, ?_, ?_, ?_, ?_, ?_⟩
  · exact pipe_raise_end_to_end _ _ hf (reduceO_noEsc _ _ _) (reduceO_errThrough _ _ _) (reduceO_termProp _ _ _) lag pre x e hB
  · exact pipe_raise_end_to_end _ _ hf (firstOrDefaultO_noEsc _) (firstOrDefaultO_errThrough _) (firstOrDefaultO_termProp _) lag pre x e hB
  · exact pipe_raise_end_to_end _ _ hf (lastOrDefaultO_noEsc _) (Op.errThrough_of_fwd _ (lastOrDefaultO_fwd _)) (lastOrDefaultO_termProp _) lag pre x e hB
  · exact pipe_raise_end_to_end _ _ hf (singleOrDefaultO_noEsc _) (Op.errThrough_of_fwd _ (singleOrDefaultO_fwd _)) (singleOrDefaultO_termProp _) lag pre x e hB
  · exact pipe_raise_end_to_end _ _ hf (firstOrDefaultO_noEsc _) (firstOrDefaultO_errThrough _) (firstOrDefaultO_termProp _) lag pre x e hB
  · exact pipe_raise_end_to_end _ _ hf (lastOrDefaultO_noEsc _) (Op.errThrough_of_fwd _ (lastOrDefaultO_fwd _)) (lastOrDefaultO_termProp _) lag pre x e hB
  · exact pipe_raise_end_to_end _ _ hf (singleOrDefaultO_noEsc _) (Op.errThrough_of_fwd _ (singleOrDefaultO_fwd _)) (singleOrDefaultO_termProp _) lag pre x e hB
  · exact pipe_raise_end_to_end _ _ hf someOp_noEsc someOp_errThrough someOp_termProp lag pre x e hB

/-- `all(pred)` = `filter(not pred) | some() | map(not)`: two pipes -/
theorem all_raise_end_to_end (p : α → Except Err Bool) (hx : p x = .error e) : (allO p).DeliversAt lag pre x e := by
  have hB := Op.raisesAt_of_handler (filterO (fun v => (p v).map (fun b => !b))) lag pre x e hpre
    ((no_escape_filter _).2 _ x e (by simp [hx, Except.map]))
  have h1 := hB.comp (someOp_errThrough (α := α)) someOp_termProp
  exact Op.deliversAt _ (((filterO_noEsc _).comp someOp_noEsc).comp (mapO_noEsc _))
    (h1.comp (Op.errThrough_of_fwd _ (mapO_fwd _)) (mapO_termProp _))

/-- `contains(value, comparer)` = `filter(comparer(·, value)) | some()` -/
theorem contains_pipe_raise_end_to_end (v : α) (cmp : α → α → Except Err Bool) (hx : cmp x v = .error e) :
    (containsO v cmp).DeliversAt lag pre x e :=
  pipe_raise_end_to_end _ _ (filterO_noEsc _) someOp_noEsc someOp_errThrough someOp_termProp lag pre x e
    (Op.raisesAt_of_handler (filterO (fun y => cmp y v)) lag pre x e hpre ((no_escape_filter _).2 _ x e hx))

/-- key-mapper forms: `sum(key)`, `average(key)` (three pipes) -/
theorem key_forms_raise_end_to_end {β} (key : α → Except Err β) (add : β → β → Except Err β) (zero : β)
    (keyI : α → Except Err Int) (hx : key x = .error e) (hxI : keyI x = .error e) :
    (sumByO key add zero).DeliversAt lag pre x e ∧ (averageO keyI).DeliversAt lag pre x e := by
  constructor
  · exact pipe_raise_end_to_end _ _ (mapO_noEsc key) (reduceO_noEsc _ _ _) (reduceO_errThrough _ _ _) (reduceO_termProp _ _ _) lag pre x e
      (Op.raisesAt_of_handler (mapO key) lag pre x e hpre ((no_escape_map key).2 _ x e hx))
  · have hB := Op.raisesAt_of_handler (mapO keyI) lag pre x e hpre ((no_escape_map keyI).2 _ x e hxI)
    have h1 := hB.comp (Op.errThrough_of_fwd _ (scanO_fwd avgAcc (some (0, 0)) (fun c => (c, 1)))) (scanO_termProp _ _ _)
    have h2 := h1.comp (Op.errThrough_of_fwd _ (lastOrDefaultO_fwd none)) (lastOrDefaultO_termProp _)
    exact Op.deliversAt _ ((((mapO_noEsc keyI).comp (scanO_noEsc _ _ _)).comp (lastOrDefaultO_noEsc _)).comp (mapO_noEsc _))
      (h2.comp (Op.errThrough_of_fwd _ (mapO_fwd avgMapper)) (mapO_termProp _))

end Instances

/-! ## multi-source / higher-order operators: the `comb` family's trace machines (`RxModel/Comb*.lean`)

A handler of these machines returns actions, it cannot raise into its emitter; the callback-raise paths are:
the projection of flat_map / concat_map / switch_map (`map` turns the exception into the outer source's `on_error` —
`no_escape_map` — which is the event below), the handler of `catch`, the source factories / iterators of
on_error_resume_next, concat, catch, while_do, for_in (`Item.raise`). -/

/-- generic: a live source's handler answering `[on_error e]` to a non-terminated subscriber (`Comb.DeliveredAt`:
exactly `emit (error e)` then the unsubscription of every live source in container order; machine stopped, nothing live;
no later event ever emits) -/
theorem comb_raise_delivered {σ ι β} (m : Comb.Machine σ ι β) (st : Comb.St σ) (k : Nat) (n : Notif ι) (e : Err) (s' : σ)
    (hk : k ∈ st.p.live) (hd : st.p.done = false) (hh : m.handler st.s k n = (s', [Comb.Act.emit (.error e)])) :
    Comb.DeliveredAt m st (.src k n) e :=
  Comb.raise_delivered_src m st k n e s' hk hd hh

/-- **flat_map / concat_map (merge(max_concurrent)) / switch_map — raising projection**: delivered as `on_error`, the outer
and every live inner subscription are closed (container order), the machine is stopped, nothing is emitted afterwards. -/
theorem no_escape_projection {α} (e : Err) :
    (∀ (st : Comb.St Comb.MaSt), 0 ∈ st.p.live → st.p.done = false →
      Comb.DeliveredAt (Comb.maM (α := α)) st (.src 0 (.error e)) e)
    ∧ (∀ (maxc : Nat) (st : Comb.St Comb.McSt), 0 ∈ st.p.live → st.p.done = false →
      Comb.DeliveredAt (Comb.mcM (α := α) maxc) st (.src 0 (.error e)) e)
    ∧ (∀ (st : Comb.St Comb.SwSt), 0 ∈ st.p.live → st.p.done = false →
      Comb.DeliveredAt (Comb.swM (α := α)) st (.src 0 (.error e)) e) :=
  ⟨fun st hk hd => Comb.raise_delivered_src _ st 0 _ e st.s hk hd rfl,
   fun maxc st hk hd => Comb.raise_delivered_src _ st 0 _ e st.s hk hd rfl,
   fun st hk hd => Comb.raise_delivered_src _ st 0 _ e st.s hk hd (by simp [Comb.swM, Comb.swHandler])⟩

/-- **catch(handler) — raising handler**: the source fails with `e0`, the handler raises `ex` ⇒ `on_error ex` -/
theorem no_escape_catch_handler {α} (e0 ex : Err) (st : Comb.St Comb.ChSt) (hk : 0 ∈ st.p.live) (hd : st.p.done = false) :
    Comb.DeliveredAt (Comb.chM (α := α) (.error ex)) st (.src 0 (.error e0)) ex :=
  Comb.raise_delivered_src _ st 0 _ ex st.s hk hd (by simp [Comb.chM, Comb.chHandler])

/-- **on_error_resume_next (as repaired) / concat / catch / while_do / for_in — raising source factory, iterator, condition or
mapper** (`Item.raise e` at the scheduled action): `on_error e`, everything closed, stopped. -/
theorem no_escape_seq_factory {α} (kind : Comb.SeqKind) (items : Nat → Comb.Item) (e : Err) (st : Comb.St Comb.SeqSt)
    (hp : st.s.pending = true) (hi : items st.s.idx = .raise e) (hd : st.p.done = false) :
    Comb.DeliveredAt (Comb.seqM (α := α) kind items) st .tick e :=
  Comb.raise_delivered_tick _ st e { st.s with pending := false, calls := st.s.calls ++ [(st.s.idx, st.s.arg)] } hd
    (by simp [Comb.seqM, Comb.seqTick, hp, hi])

example : Comb.emits (Comb.run (Comb.seqM (α := Nat) .oern (fun j => if j = 0 then .src else .raise "factory")) Comb.seqInit
    [.tick, .src 0 (.next 1), .src 0 (.error "x"), .tick, .tick, .src 1 (.next 2)]) = [.next 1, .error "factory"] := by decide

/-! ## group_by_until / group_by: the `win` family's machine (`RxModel/WinGrp.lean`) -/

/-- **every mapper-raise path of `group_by_until` is the failure path `errorAll`** (`for wrt in writers.values():
wrt.on_error(e); observer.on_error(e)`): key mapper; element mapper; subject factory; duration mapper — for the last one
the group just created is already in `writers` and is errored with the others. -/
theorem group_by_until_raise_paths {α κ β} (cfg : WinGrp.Cfg α κ β) (s : WinGrp.St κ β) (x : α) (e : Err) :
    (cfg.keyMapper x = .error e → WinGrp.srcNext cfg s x = WinGrp.errorAll s e)
    ∧ (∀ k p, cfg.keyMapper x = .ok k → s.writers.find? (fun p => cfg.keyEq p.1 k) = some p → cfg.elemMapper x = .error e →
        WinGrp.srcNext cfg s x = WinGrp.errorAll s e)
    ∧ (∀ k, cfg.keyMapper x = .ok k → s.writers.find? (fun p => cfg.keyEq p.1 k) = none →
        cfg.subjMapper s.groups.length = .error e → WinGrp.srcNext cfg s x = WinGrp.errorAll s e)
    ∧ (∀ k, cfg.keyMapper x = .ok k → s.writers.find? (fun p => cfg.keyEq p.1 k) = none →
        cfg.subjMapper s.groups.length = .ok () → cfg.durMapper s.groups.length = .error e →
        WinGrp.srcNext cfg s x
          = WinGrp.errorAll { s with groups := s.groups ++ [{ key := k }], writers := s.writers ++ [(k, s.groups.length)] } e) := by
  refine ⟨?_, ?_, ?_, ?_⟩
  · intro h; simp [WinGrp.srcNext, h]
  · intro k p h1 h2 h3; simp [WinGrp.srcNext, h1, h2, WinGrp.pushElem, h3]
  · intro k h1 h2 h3; simp [WinGrp.srcNext, h1, h2, h3]
  · intro k h1 h2 h3 h4; simp [WinGrp.srcNext, h1, h2, h3, h4]

/-- **what that failure path does**: the outer subscriber (not yet terminated) receives `on_error e` and is stopped; the
writer of **every open group** is stopped with it (so group subscribers get the terminal and release their references);
nothing escapes to the emitter; no earlier output is lost. -/
theorem group_by_until_failure_path {κ β} (s : WinGrp.St κ β) (e : Err) (hout : s.outStopped = false)
    (hw : ∀ p ∈ s.writers, p.2 < s.groups.length) :
    (WinGrp.errorAll s e).outStopped = true
    ∧ WinGrp.Eff.outer (.error e) ∈ (WinGrp.errorAll s e).out
    ∧ (∀ p ∈ s.writers, WinGrp.stoppedAt (WinGrp.errorAll s e) p.2)
    ∧ WinGrp.escs (WinGrp.errorAll s e) = WinGrp.escs s
    ∧ (∃ l, (WinGrp.errorAll s e).out = s.out ++ l) :=
  WinGrp.errorAll_spec s e hout hw

/-! Non-vacuity: raising callbacks at the first / a middle / a late invocation, lagging and prompt. -/
example : (mapO (fun (x : Nat) => if x = 2 then .error "m" else .ok (x + 10))).out true [.next 1, .next 2, .next 3, .completed]
    = [.next 11, .error "m"] := by decide
example : (reduceO (fun (a x : Nat) => if x = 3 then .error "acc" else .ok (a + x)) (some 0) id).out false
    [.next 1, .next 2, .next 3, .next 4, .completed] = [.error "acc"] := by decide
example : (takeWhileO (fun (x : Nat) => if x = 1 then .error "p" else .ok true) false).escapes false [.next 1] = [] := by decide
example : seqOut (fun (a b : Nat) => if a = 2 then .error "cmp" else .ok (a == b)) false
    [(.L, .next 1), (.R, .next 1), (.R, .next 2), (.L, .next 2), (.L, .completed)] = [.error "cmp"] := by decide

end C09

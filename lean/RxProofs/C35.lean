import RxProofs.Lemmas.VtsPeriodic4
import RxProofs.Lemmas.VtsTimer
/-!
# C35 — periodic scheduling threads state, keeps the period and stops

Property theorems only.  Model: `RxModel/VtsPeriodic.lean` — `PeriodicScheduler.schedule_periodic` (the
self-rescheduling `periodic` closure with its drift term and its `MultipleAssignmentDisposable`) and
`CatchScheduler.schedule_periodic`, running on the virtual-time scheduler's `advance_to` loop.  The user
action is an ARBITRARY function `f : task id → state → (sleep, dispose-own-handle?, new state | raise)`.
`interval(p)`/`timer(p, p)` are `schedule_periodic(p, λ count. on_next(count); count + 1, state = 0)`.

Scope: virtual time only.  The real-thread periodic schedulers (event-loop, new-thread) are not modelled.
-/

namespace C35
open Per Vts

variable {σ : Type}

/-- **advance_terminates.** The loop of `advance_to(T)` over self-rescheduling periodic work is total: one
iteration strictly decreases `Σ (T + 1 - due)` over the pending items (periods ≥ 1), so the fuel
`weight + 1` handed to it by `advanceTo` is never exhausted — more fuel changes nothing. -/
theorem advance_terminates (handler : Err → Bool) (f : Nat → σ → Tick σ) (T : Int) (s : St σ) :
    (∀ s', iter handler f T s = .next s' → weight T s'.queue.items < weight T s.queue.items) ∧
    (∀ m, weight T s.queue.items < m →
      loopFuel handler f T (weight T s.queue.items + 1) s = loopFuel handler f T m s) :=
  ⟨fun _ h => iter_next_weight h, fun m hm => loopFuel_enough handler f T _ m s (by omega) hm⟩

/-- **periodic_state_threaded / ticks_at_k_period.**  A periodic action scheduled at clock `t0` with period
`p ≥ 1` and initial state `st0`, on an otherwise idle virtual-time scheduler (directly or through a
CatchScheduler), whose calls return `F state` (and may sleep up to one period inside the call — the drift
term absorbs it): `advance_to(T)` invokes it exactly `k` times, where `k` is the number of multiples
`t0 + p, t0 + 2p, …` at or before `T`; the `i`-th invocation (from 0) happens at clock exactly
`t0 + (i+1)·p` and receives the state `F^i st0` returned by the previous call; the handler is not called
and the clock ends at `T`. -/
theorem ticks_at_k_period (handler : Err → Bool) (f : Nat → σ → Tick σ) (pid : Nat) (t0 p : Int) (st0 : σ) (c : Bool)
    (T : Int) (F : σ → σ) (hp : 1 ≤ p) (hT : t0 < T)
    (hf : ∀ st, (f pid st).next = .ok (F st) ∧ (f pid st).dispose = false ∧ ((f pid st).sleep : Int) ≤ p) :
    ∃ k : Nat,
      let r := advanceTo handler f T (schedulePeriodic { clock := t0 } pid p st0 c)
      r.2 = .ok ∧ r.1.clock = T ∧ r.1.hlog = [] ∧ r.1.log.length = k ∧
      (∀ i : Nat, i < k → t0 + (i + 1) * p ≤ T) ∧ t0 + (k + 1) * p > T ∧
      (∀ i : Nat, i < k → r.1.log[i]? = some { pid, at_ := t0 + (i + 1) * p, st := iterate F i st0 }) := by
  obtain ⟨k, hk⟩ := ticks_exists T p hp (T + 1 - (t0 + p)).toNat (t0 + p) (Nat.le_refl _)
  obtain ⟨h1, h2, h3, h4⟩ := periodic_closed_form handler f pid t0 p st0 c T F hp hT hf k hk
  obtain ⟨c1, c2⟩ := ticks_count T p (t0 + p) k hk hp
  refine ⟨k, h1, h3, h4, by rw [h2, ideal_length], ?_, ?_, ?_⟩
  · intro i hi; have := c1 i hi; rw [Int.add_mul]; omega
  · rw [Int.add_mul]; omega
  · intro i hi
    rw [h2, ideal_get pid p F k (t0 + p) st0 i hi]
    congr 2
    rw [Int.add_mul]; omega

/-- the state part on its own: consecutive invocations are chained through the action's return value -/
theorem periodic_state_threaded (handler : Err → Bool) (f : Nat → σ → Tick σ) (pid : Nat) (t0 p : Int) (st0 : σ) (c : Bool)
    (T : Int) (F : σ → σ) (hp : 1 ≤ p) (hT : t0 < T)
    (hf : ∀ st, (f pid st).next = .ok (F st) ∧ (f pid st).dispose = false ∧ ((f pid st).sleep : Int) ≤ p) :
    let log := (advanceTo handler f T (schedulePeriodic { clock := t0 } pid p st0 c)).1.log
    (∀ r, log[0]? = some r → r.st = st0) ∧
    (∀ (i : Nat) (a b : Ran σ), log[i]? = some a → log[i + 1]? = some b → b.st = F a.st ∧ b.at_ = a.at_ + p) := by
  obtain ⟨k, hk⟩ := ticks_at_k_period handler f pid t0 p st0 c T F hp hT hf
  simp only at hk
  obtain ⟨_, _, _, hlen, _, _, hget⟩ := hk
  intro log
  have hlen' : log.length = k := hlen
  have hnone : ∀ i, k ≤ i → log[i]? = none := by
    intro i hi; apply List.getElem?_eq_none; omega
  have iterate_succ' : ∀ (i : Nat) (a : σ), iterate F (i + 1) a = F (iterate F i a) := by
    intro i
    induction i with
    | zero => intro a; rfl
    | succ i ih => intro a; simp only [iterate] at ih ⊢; rw [ih]
  refine ⟨?_, ?_⟩
  · intro r hr
    by_cases h0 : 0 < k
    · rw [hget 0 h0] at hr; cases hr; rfl
    · rw [hnone 0 (by omega)] at hr; cases hr
  · intro i a b ha hb
    by_cases hi : i + 1 < k
    · rw [hget i (by omega)] at ha
      rw [hget (i + 1) hi] at hb
      cases ha; cases hb
      refine ⟨iterate_succ' i st0, ?_⟩
      simp only; push_cast; rw [Int.add_mul, Int.add_mul]; omega
    · rw [hnone (i + 1) (by omega)] at hb; cases hb

/-- **interval_emits_naturals.**  `interval(p)` / `timer(p, p)` on a virtual-time scheduler: the periodic action
is `count ↦ on_next(count); count + 1` from state 0, so the `i`-th emission is the number `i`, at clock
`t0 + (i+1)·p`. -/
theorem interval_emits_naturals (handler : Err → Bool) (f : Nat → Int → Tick Int) (pid : Nat) (t0 p : Int) (c : Bool)
    (T : Int) (hp : 1 ≤ p) (hT : t0 < T)
    (hf : ∀ n, f pid n = { next := .ok (n + 1) }) :
    ∃ k : Nat,
      let r := advanceTo handler f T (schedulePeriodic { clock := t0 } pid p (0 : Int) c)
      r.2 = .ok ∧ r.1.log.length = k ∧ t0 + (k + 1) * p > T ∧ (∀ i : Nat, i < k → t0 + (i + 1) * p ≤ T) ∧
      (∀ i : Nat, i < k → r.1.log[i]? = some { pid, at_ := t0 + (i + 1) * p, st := (i : Int) }) := by
  obtain ⟨k, hk⟩ := ticks_at_k_period handler f pid t0 p 0 c T (fun v => v + 1) hp hT
    (by intro n; rw [hf n]; exact ⟨rfl, rfl, by show ((0 : Nat) : Int) ≤ p; omega⟩)
  simp only at hk
  obtain ⟨h1, _, _, h4, h5, h6, h7⟩ := hk
  refine ⟨k, h1, h4, h6, h5, ?_⟩
  intro i hi
  rw [h7 i hi, iterate_succ_int]
  simp

/-- **tick_rule (any number of tasks, any in-call sleep).**  What the code guarantees at every tick of every
run, whatever else is pending: when the loop of `advance_to(T)` gets the live tick of task `pid` (due `d ≤ T`,
state `st`) and the action returns `st'` without disposing its handle, then the action was invoked at
`now = max clock d` with `st`; afterwards the clock is `now + (time slept inside the call)`, and the task's
next tick is pending, live, with state `st'` and due time exactly `now + period` — i.e. measured from the START
of this call: the drift term cancels the sleep whatever its length (if the call slept longer than a period the
next tick is already overdue and runs as soon as the queue reaches it, at `max clock due` again). -/
theorem tick_rule (handler : Err → Bool) (f : Nat → σ → Tick σ) (T : Int) (s : St σ) (x : Item σ)
    (q' : PQ (Item σ)) (pid : Nat) (st st' : σ) (t : Task)
    (hen : s.enabled = true) (hd : s.queue.dequeue? Item.due = some (x, q')) (hdue : x.due ≤ T)
    (hc : x.cancelled = false) (hk : x.kind = .tick pid st) (hg : getTask s pid = some t) (hp : 1 ≤ t.period)
    (hlive : t.disposed = false) (hcf : (t.catch_ && t.failed) = false)
    (hok : (f pid st).next = .ok st') (hnd : (f pid st).dispose = false) :
    iter handler f T s = .next
      (enqueue { s with clock := (if x.due > s.clock then x.due else s.clock) + (f pid st).sleep, queue := q',
                        log := s.log ++ [{ pid, at_ := if x.due > s.clock then x.due else s.clock, st }] }
        { due := (if x.due > s.clock then x.due else s.clock) + t.period, kind := .tick pid st', cancelled := false }) := by
  have hi := iter_tick handler f T s x q' pid st t hen hd hdue hc hk hg hp
  have hrt := runTick_ok handler f { s with clock := if x.due > s.clock then x.due else s.clock, queue := q' }
    pid t st st' hg hlive hcf hok hnd
  rw [hrt] at hi
  exact hi

/-- **closed form with arbitrary in-call sleeps.**  One periodic task (period `p ≥ 1`, scheduled at `t0`, through a
CatchScheduler or not) on an otherwise idle scheduler, whose call with state `st` returns `F st` after
sleeping `sl st` — ANY length: the invocation log of `advance_to(T)` is `idealG`, i.e. the first call is at
`t0 + p`, every call gets the state returned by the previous one, and call `i+1` starts
`max p (sl (state of call i))` after call `i` started (`idealG_chain`): on the multiples of the period while the
calls are shorter than a period, late by exactly the overrun otherwise. -/
theorem closed_form_any_sleep (handler : Err → Bool) (f : Nat → σ → Tick σ) (pid : Nat) (t0 p : Int) (st0 : σ) (c : Bool)
    (T : Int) (F : σ → σ) (hp : 1 ≤ p) (hT : t0 < T)
    (hf : ∀ st, (f pid st).next = .ok (F st) ∧ (f pid st).dispose = false) :
    ∃ n, (advanceTo handler f T (schedulePeriodic { clock := t0 } pid p st0 c)).1.log =
        idealG pid T p F (fun x => (f pid x).sleep) n t0 (t0 + p) st0 ∧
      (advanceTo handler f T (schedulePeriodic { clock := t0 } pid p st0 c)).1.hlog = [] ∧
      (∀ (i : Nat) (a b : Ran σ),
        (advanceTo handler f T (schedulePeriodic { clock := t0 } pid p st0 c)).1.log[i]? = some a →
        (advanceTo handler f T (schedulePeriodic { clock := t0 } pid p st0 c)).1.log[i + 1]? = some b →
        b.st = F a.st ∧ b.at_ = a.at_ + (if ((f pid a.st).sleep : Int) > p then ((f pid a.st).sleep : Int) else p)) ∧
      (∀ r, (advanceTo handler f T (schedulePeriodic { clock := t0 } pid p st0 c)).1.log[0]? = some r →
        r.st = st0 ∧ r.at_ = t0 + p) := by
  let t : Task := { period := p, catch_ := c }
  let s0 : St σ := schedulePeriodic { clock := t0 } pid p st0 c
  have hsolo : SoloG pid t { s0 with enabled := true } (t0 + p) st0 := by
    refine ⟨rfl, ⟨PQ.MIN_COUNT, ?_⟩, ?_⟩
    · simp [s0, schedulePeriodic, enqueue, PQ.enqueue]; rfl
    · simp [s0, schedulePeriodic, enqueue, getTask, t]
  have key := soloG_loop handler f T pid t F hp rfl rfl hf (weight T s0.queue.items + 1) { s0 with enabled := true }
    (t0 + p) st0 hsolo
  have hclk : ¬ (s0.clock > T) := by simp [s0, schedulePeriodic, enqueue]; omega
  have hne : ¬ (s0.clock = T ∨ s0.enabled = true) := by simp [s0, schedulePeriodic, enqueue]; omega
  have hlog : (advanceTo handler f T s0).1.log =
      idealG pid T p F (fun x => (f pid x).sleep) (weight T s0.queue.items + 1) t0 (t0 + p) st0 ∧
      (advanceTo handler f T s0).1.hlog = [] := by
    simp only [advanceTo, if_neg hclk, if_neg hne]
    rcases hl : loopFuel handler f T (weight T s0.queue.items + 1) { s0 with enabled := true } with ⟨s', o⟩
    rw [hl] at key
    obtain ⟨k1, k2⟩ := key
    simp only at k1 k2
    have e1 : s0.log = [] := by simp [s0, schedulePeriodic, enqueue]
    have e2 : s0.hlog = [] := by simp [s0, schedulePeriodic, enqueue]
    have e3 : s0.clock = t0 := by simp [s0, schedulePeriodic, enqueue]
    rw [e1, e3, List.nil_append] at k1
    rw [e2] at k2
    cases o <;> exact ⟨k1, k2⟩
  have hch := idealG_chain pid T p F (fun x => (f pid x).sleep) hp (weight T s0.queue.items + 1) t0 (t0 + p) st0
  refine ⟨weight T s0.queue.items + 1, hlog.1, hlog.2, ?_, ?_⟩
  · intro i a b ha hb
    have ha' : (advanceTo handler f T s0).1.log[i]? = some a := ha
    have hb' : (advanceTo handler f T s0).1.log[i + 1]? = some b := hb
    rw [hlog.1] at ha' hb'
    exact hch.2 i a b ha' hb'
  · intro r hr
    have hr' : (advanceTo handler f T s0).1.log[0]? = some r := hr
    rw [hlog.1] at hr'
    have := hch.1 r hr'
    refine ⟨this.1, ?_⟩
    rw [this.2]; split <;> omega

/-! ## `timer(duetime, period)`, `duetime ≠ period` — its own re-basing loop (`observable/timer.py`)

Model: `RxModel/VtsTimer.lean`.  The run may contain any number of other actions that take virtual time
(`block`: they call `scheduler.sleep`), scheduled at any times, and the observer's `on_next(k)` may itself sleep
`cost k` — for an ARBITRARY `cost` — so the statements hold for every sequence of lateness values. -/

/-- **timer_tick_rule.**  One tick, as written: when the loop of `advance_to(T)` gets the timer's tick `k` (due `dt`),
it delivers `k` at `now = max clock dt`, then the clock moves by what the observer slept, and the next tick `k+1`
is scheduled for `dt + p` — the grid — unless that is not after `now` (the tick ran a period or more late), in
which case for `now + p`. -/
theorem timer_tick_rule (p : Int) (cost : Nat → Nat) (T : Int) (s : Tmr.St) (x : Tmr.Item) (q' : PQ Tmr.Item) (k : Nat)
    (hp : 1 ≤ p) (hen : s.enabled = true) (hd : s.queue.dequeue? Tmr.Item.due = some (x, q')) (hdue : x.due ≤ T)
    (hk : x.kind = .tick k) :
    Tmr.iter p cost T s = .next (Tmr.enqueue
      { s with clock := (if x.due > s.clock then x.due else s.clock) + cost k, queue := q',
               log := s.log ++ [{ k, at_ := if x.due > s.clock then x.due else s.clock, due := x.due }] }
      { due := if x.due + p ≤ (if x.due > s.clock then x.due else s.clock)
               then (if x.due > s.clock then x.due else s.clock) + p else x.due + p,
        kind := .tick (k + 1) }) := by
  have h1 : ¬ x.due > T := by omega
  have h2 : ¬ p ≤ 0 := by omega
  simp only [Tmr.iter, hen, hd, h1, hk, h2, Tmr.nextDue]
  simp

/-- **timer_ticks (the reference rule, for every sequence of lateness values).**  Subscribe `timer(duetime, period)`
(first due time `d0`, relative or absolute, possibly already in the past) on a scheduler on which any blocking
actions `blocks` were scheduled before, and `advance_to(T)`.  Then the emissions are `0, 1, 2, …` in order
(`Tmr.ChainOK`): emission 0 had due time `d0`; every emission is delivered at or after its due time; for consecutive
emissions `a`, `b`: `b` was due at `a.due + p` if `a` was delivered less than a period late, and at
`a.at_ + p` (the grid is re-based at `a`'s `now`) if `a` was delivered a period or more late.  In particular,
as long as no emission was a period or more late, emission `k` was due at exactly `d0 + k·p`. -/
theorem timer_ticks (p : Int) (cost : Nat → Nat) (T c0 d0 : Int) (blocks : List (Int × Nat)) :
    let s0 := Tmr.subscribe (blocks.foldl (fun s b => Tmr.scheduleBlock s b.1 b.2) { clock := c0 }) d0
    let log := (Tmr.advanceTo p cost T s0).1.log
    Tmr.ChainOK p 0 d0 log ∧
    (∀ (i : Nat) (a b : Tmr.Ran), log[i]? = some a → log[i + 1]? = some b →
      b.k = a.k + 1 ∧ a.due ≤ a.at_ ∧
      (a.at_ < a.due + p → b.due = a.due + p) ∧ (a.due + p ≤ a.at_ → b.due = a.at_ + p)) ∧
    ((∀ e ∈ log, e.at_ < e.due + p) → ∀ e ∈ log, e.due = d0 + (e.k : Int) * p) := by
  intro s0 log
  have hb := Tmr.log_blocks blocks { clock := c0 }
  have hinit : Tmr.GInv p d0 s0 := by
    refine ⟨?_, ?_⟩
    · show Tmr.ChainOK p 0 d0 (blocks.foldl (fun s b => Tmr.scheduleBlock s b.1 b.2) { clock := c0 }).log
      rw [hb.1]; trivial
    · show Tmr.ticks (Tmr.subscribe _ d0).queue.items =
        [Tmr.chainEnd p 0 d0 (blocks.foldl (fun s b => Tmr.scheduleBlock s b.1 b.2) ({ clock := c0 } : Tmr.St)).log]
      rw [hb.1]
      simp only [Tmr.subscribe, Tmr.enqueue, PQ.enqueue, Tmr.ticks_append, Tmr.ticks_blocks]
      simp [Tmr.ticks, Tmr.tickOf, Tmr.chainEnd]
  have hchain : Tmr.ChainOK p 0 d0 log := by
    show Tmr.ChainOK p 0 d0 (Tmr.advanceTo p cost T s0).1.log
    simp only [Tmr.advanceTo]
    split
    · exact hinit.1
    · split
      · exact hinit.1
      · have := Tmr.ginv_loop p cost T d0 (Tmr.weight T s0.queue.items + 1) { s0 with enabled := true } hinit
        split
        · next s' heq => rw [heq] at this; exact this.1
        · exact this.1
  refine ⟨hchain, ?_, ?_⟩
  · intro i a b ha hb'
    obtain ⟨h1, h2, h3⟩ := Tmr.chain_step p log 0 d0 hchain i a b ha hb'
    refine ⟨h1, h3, ?_, ?_⟩
    · intro hlt; rw [h2]; simp only [Tmr.nextDue]; split <;> omega
    · intro hge; rw [h2]; simp only [Tmr.nextDue]; split <;> omega
  · intro hall e he
    have := (Tmr.chain_on_grid p log 0 d0 hchain hall).1 e he
    simpa using this

/-- the timer loop terminates: the fuel `weight + 1` that `advanceTo` hands to the loop is never exhausted -/
theorem timer_terminates (p : Int) (cost : Nat → Nat) (T : Int) (s : Tmr.St) :
    (∀ s', Tmr.iter p cost T s = .next s' → Tmr.weight T s'.queue.items < Tmr.weight T s.queue.items) ∧
    (∀ m, Tmr.weight T s.queue.items < m →
      Tmr.loopFuel p cost T (Tmr.weight T s.queue.items + 1) s = Tmr.loopFuel p cost T m s) :=
  ⟨fun _ h => Tmr.iter_next_weight h, fun m hm => Tmr.loopFuel_enough p cost T _ m s (by omega) hm⟩

/-- **stops_on_dispose.**  After `dispose()` of the handle returned by `schedule_periodic` — called from
outside, from another scheduled action at some time, or by the periodic action itself — the action is never
invoked again, whatever calls follow (`advance_to` any number of times, other periodic tasks, their
failures): the invocation log of that task never grows.  (`Dead pid` is what `dispose()` establishes:
`disposeTask_dead`.) -/
theorem stops_on_dispose (handler : Err → Bool) (f : Nat → σ → Tick σ) (pid : Nat) (s : St σ) (t : Task)
    (hg : getTask s pid = some t) (ops : List (Op σ))
    (hops : ∀ op ∈ ops, match op with | .periodic pid' _ _ _ => pid' ≠ pid | _ => True) :
    logOf pid (runOps handler f (disposeTask s pid) ops).1 = logOf pid s := by
  have h := runOps_dead handler f pid ops (disposeTask s pid) hops (disposeTask_dead s pid t hg)
  rw [h.2]
  simp only [logOf, disposeTask_log]

/-- … including when the dispose happens in the middle of a run (a scheduled dispose action, or the
periodic action disposing itself): one loop iteration that leaves the task `Dead` is followed by no
further invocation. -/
theorem stops_on_dispose_during_run (handler : Err → Bool) (f : Nat → σ → Tick σ) (T : Int) (pid : Nat) (n : Nat)
    (s : St σ) (h : Dead pid s) :
    logOf pid (loopFuel handler f T n s).1 = logOf pid s :=
  (loopFuel_dead handler f T pid n s h).2

/-- **stops_after_raise.**  When the periodic action of a live task raises `e` (plain scheduler): that call is
the last entry of its invocation log, the exception propagates out of the loop (`advance_to` raises), the
task's disposable is disposed, and no later call ever invokes the action again. -/
theorem stops_after_raise (handler : Err → Bool) (f : Nat → σ → Tick σ) (T : Int) (s : St σ) (x : Item σ)
    (q' : PQ (Item σ)) (pid : Nat) (st : σ) (t : Task) (e : Err)
    (hen : s.enabled = true) (hd : s.queue.dequeue? Item.due = some (x, q')) (hdue : x.due ≤ T)
    (hc : x.cancelled = false) (hk : x.kind = .tick pid st) (hg : getTask s pid = some t) (hp : 1 ≤ t.period)
    (hlive : t.disposed = false) (hplain : t.catch_ = false) (he : (f pid st).next = .error e) :
    ∃ s2, iter handler f T s = .raised s2 e ∧
      s2.log = s.log ++ [{ pid, at_ := if x.due > s.clock then x.due else s.clock, st }] ∧
      ∀ (ops : List (Op σ)), (∀ op ∈ ops, match op with | .periodic pid' _ _ _ => pid' ≠ pid | _ => True) →
        logOf pid (runOps handler f s2 ops).1 = logOf pid s2 := by
  have hi := iter_tick handler f T s x q' pid st t hen hd hdue hc hk hg hp
  have hr := runTick_raise_plain handler f
    { s with clock := if x.due > s.clock then x.due else s.clock, queue := q' } pid t st e hg hlive hplain he
  obtain ⟨hdead, hlog, hout, _⟩ := hr
  rcases hrt : runTick handler f { s with clock := if x.due > s.clock then x.due else s.clock, queue := q' } pid t st
    with ⟨s2, o⟩
  rw [hrt] at hi hdead hlog hout
  simp only at hout hdead hlog
  subst hout
  exact ⟨s2, hi, hlog, fun ops hops => (runOps_dead handler f pid ops s2 hops hdead).2⟩

/-! ## Non-vacuity -/

private def fDemo : Nat → Int → Tick Int := fun _ n => { next := .ok (n + 1), sleep := if n = 1 then 2 else 0 }

/-- period 5 from clock 0, the call with state 1 sleeps 2: ticks at 5, 10, 15 with states 0, 1, 2 (the sleep
does not shift the next tick), nothing at 20 > 17 -/
example : (advanceTo (fun _ => false) fDemo 17 (schedulePeriodic { clock := 0 } 1 5 (0 : Int) false)).1.log =
    [⟨1, 5, 0⟩, ⟨1, 10, 1⟩, ⟨1, 15, 2⟩] := by decide

private def fRaise : Nat → Int → Tick Int := fun _ n => { next := if n = 2 then .error "boom" else .ok (n + 1) }

/-- raising at the third call: `advance_to` raises, later runs invoke nothing more -/
example :
    (runOps (fun _ => false) fRaise { clock := 0 } [.periodic 1 5 (0 : Int) false, .advanceTo 40, .stop, .advanceTo 80]).2
      = [.ok, .raised "boom", .ok, .ok] ∧
    (runOps (fun _ => false) fRaise { clock := 0 } [.periodic 1 5 (0 : Int) false, .advanceTo 40, .stop, .advanceTo 80]).1.log
      = [⟨1, 5, 0⟩, ⟨1, 10, 1⟩, ⟨1, 15, 2⟩] := by decide

/-- a dispose action at time 12 stops the ticks after the one at 10 -/
example : (runOps (fun _ => false) fDemo { clock := 0 } [.periodic 1 5 (0 : Int) false, .disposeAt 12 1, .advanceTo 40]).1.log
    = [⟨1, 5, 0⟩, ⟨1, 10, 1⟩] := by decide

private def fSlow : Nat → Int → Tick Int := fun _ n => { next := .ok (n + 1), sleep := if n = 1 then 12 else 0 }

/-- period 5, the call with state 1 (at 10) sleeps 12 > period: the next call is overdue and runs at 22, then 27 -/
example : (advanceTo (fun _ => false) fSlow 30 (schedulePeriodic { clock := 0 } 1 5 (0 : Int) false)).1.log =
    [⟨1, 5, 0⟩, ⟨1, 10, 1⟩, ⟨1, 22, 2⟩, ⟨1, 27, 3⟩] := by decide

/-- timer(duetime → first due 3, period 10) from clock 0; a blocker at 13 sleeps 4 (tick 1 is late by 4 < period:
the grid is kept), the observer sleeps 25 inside on_next(2) (tick 3, due 33, runs at 48 ≥ 33 + 10: re-based, tick 4
due 58) -/
example : ((Tmr.advanceTo 10 (fun k => if k = 2 then 25 else 0) 60
      (Tmr.subscribe (Tmr.scheduleBlock { clock := 0 } 13 4) 3)).1.log.map fun r => (r.k, r.at_, r.due)) =
    [(0, 3, 3), (1, 17, 13), (2, 23, 23), (3, 48, 33), (4, 58, 58)] := by decide

end C35

import RxProofs.Lemmas.CombHO
/-!
# C11 — merging keeps each inner order and completes when all complete

Trace machines `maM` (merge_all; also flat_map / flat_map_indexed = map ∘ merge_all and rx.merge) and `mcM maxc`
(merge(max_concurrent); concat_map = map ∘ merge(1)), started with only the outer source (id 0) subscribed and fed
an ARBITRARY event list.  `accepted … es` = the notifications that found their subscription open.
-/
open Comb

namespace C11

/-- **merge_per_inner_order** (merge_all). The values that go out are exactly the elements delivered by the inner
sources, in arrival order, each one emitted by the step that delivers it (hence at its virtual time). Restricting
both sides to one inner gives that inner's elements in their original order. -/
theorem merge_per_inner_order {α} (es : List (Ev (HV α))) :
    outVals (run (maM (α := α)) (hoInit {}) es) = (accepted (maM (α := α)) (hoInit {}) es).filterMap innerVal :=
  outVals_run_filterMap maM innerVal (fun st e h => ma_step_out st e h) es _ (hoInit_WF _)

/-- the same for merge(max_concurrent) (and concat_map) -/
theorem merge_per_inner_order_maxc {α} (maxc : Nat) (es : List (Ev (HV α))) :
    outVals (run (mcM (α := α) maxc) (hoInit {}) es)
      = (accepted (mcM (α := α) maxc) (hoInit {}) es).filterMap innerVal :=
  outVals_run_filterMap (mcM maxc) innerVal (fun st e h => mc_step_out maxc st e h) es _ (hoInit_WF _)

/-- per-inner reading: for any way of telling which inner an element belongs to (`tag`), the output restricted to
inner `k` is the delivered-elements list restricted to `k`, same order. -/
theorem merge_per_inner_order_tagged {α} (tag : α → Nat) (k : Nat) (es : List (Ev (HV α))) :
    (outVals (run (maM (α := α)) (hoInit {}) es)).filter (fun v => tag v == k)
      = ((accepted (maM (α := α)) (hoInit {}) es).filterMap innerVal).filter (fun v => tag v == k) := by
  rw [merge_per_inner_order]

/-- **merge_exact_multiset.** Nothing is lost, duplicated or invented. -/
theorem merge_exact_multiset {α} (maxc : Nat) (es : List (Ev (HV α))) :
    (outVals (run (maM (α := α)) (hoInit {}) es)).Perm ((accepted (maM (α := α)) (hoInit {}) es).filterMap innerVal) ∧
    (outVals (run (mcM (α := α) maxc) (hoInit {}) es)).Perm
      ((accepted (mcM (α := α) maxc) (hoInit {}) es).filterMap innerVal) := by
  rw [merge_per_inner_order, merge_per_inner_order_maxc]; exact ⟨List.Perm.refl _, List.Perm.refl _⟩

/-- **merge_maxc_bound.** In every reachable state at most `max_concurrent` inner subscriptions are live
(and `active_count` bounds them). -/
theorem merge_maxc_bound {α} (maxc : Nat) (es : List (Ev (HV α))) :
    ((final (mcM (α := α) maxc) (hoInit {}) es).p.live.filter (· != 0)).length ≤ maxc := by
  have h := mc_final_inv (α := α) maxc es _ (mc_init_inv maxc)
  exact Nat.le_trans h.le h.amax

/-- **merge_queue_fifo.** The inners are subscribed in arrival order: the subscribe effects followed by the waiting
queue are exactly the arrivals (so a queued inner starts before every inner that arrived after it). -/
theorem merge_queue_fifo {α} (maxc : Nat) (es : List (Ev (HV α))) :
    subsOf (run (mcM (α := α) maxc) (hoInit {}) es) ++ (final (mcM (α := α) maxc) (hoInit {}) es).s.queue
      = (accepted (mcM (α := α) maxc) (hoInit {}) es).filterMap arrival := by
  simpa [hoInit] using mc_run_fifo (α := α) maxc es _ (mc_init_inv maxc)

/-- **merge_first_error.** The first error delivered by the outer or by any live inner goes out in that step and
nothing follows it. -/
theorem merge_first_error {α} (maxc : Nat) (pre post : List (Ev (HV α))) (k : Nat) (e : Err) :
    (k ∈ (final (maM (α := α)) (hoInit {}) pre).p.live →
      emits (run (maM (α := α)) (hoInit {}) (pre ++ .src k (.error e) :: post))
        = emits (run (maM (α := α)) (hoInit {}) pre) ++ [Notif.error e]) ∧
    (k ∈ (final (mcM (α := α) maxc) (hoInit {}) pre).p.live →
      emits (run (mcM (α := α) maxc) (hoInit {}) (pre ++ .src k (.error e) :: post))
        = emits (run (mcM (α := α) maxc) (hoInit {}) pre) ++ [Notif.error e]) :=
  ⟨first_error_terminates maM (fun _ _ _ => rfl) _ (hoInit_WF _) pre post k e,
   first_error_terminates (mcM maxc) (fun _ _ _ => rfl) _ (hoInit_WF _) pre post k e⟩

/-- non-vacuity: max_concurrent = 1, three inners; the second and third wait, start in arrival order; an inner error ends it -/
example :
    run (mcM (α := Nat) 1) (hoInit {})
      [.src 0 (.next (.obs 0)), .src 0 (.next (.obs 1)), .src 1 (.next (.val 7)), .src 0 (.next (.obs 2)),
       .src 2 (.next (.val 9)), .src 1 .completed, .src 2 (.next (.val 8)), .src 2 .completed, .src 3 (.error "e"),
       .src 0 .completed]
      = [.sub 1, .emit (.next 7), .unsub 1, .sub 2, .emit (.next 8), .unsub 2, .sub 3, .emit (.error "e"), .unsub 0, .unsub 3] := by
  decide

end C11

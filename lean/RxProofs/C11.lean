import RxProofs.Lemmas.CombHO
/-!
# C11 — merging keeps each inner order and completes when all complete

Trace machines `maM` (merge_all; also flat_map / flat_map_indexed = map ∘ merge_all and rx.merge) and `mcM maxc`
(merge(max_concurrent); concat_map = map ∘ merge(1)), started with only the outer source (id 0) subscribed and fed
an ARBITRARY event list.  `accepted … es` = the notifications that found their subscription open.
-/
open Comb

namespace C11

/-- **merge_per_inner_order** (merge_all). The values that go out are exactly the elements delivered by the inner
sources, in arrival order, each one emitted by the step that delivers it (hence at its virtual time). Restricting
both sides to one inner gives that inner's elements in their original order. -/
theorem merge_per_inner_order {α} (es : List (Ev (HV α))) :
    outVals (run (maM (α := α)) (hoInit {}) es) = (accepted (maM (α := α)) (hoInit {}) es).filterMap innerVal :=
  outVals_run_filterMap maM innerVal (fun st e h => ma_step_out st e h) es _ (hoInit_WF _)

/-- the same for merge(max_concurrent) (and concat_map) -/
theorem merge_per_inner_order_maxc {α} (maxc : Nat) (es : List (Ev (HV α))) :
    outVals (run (mcM (α := α) maxc) (hoInit {}) es)
      = (accepted (mcM (α := α) maxc) (hoInit {}) es).filterMap innerVal :=
  outVals_run_filterMap (mcM maxc) innerVal (fun st e h => mc_step_out maxc st e h) es _ (hoInit_WF _)

/-- per-inner reading: for any way of telling which inner an element belongs to (`tag`), the output restricted to
inner `k` is the delivered-elements list restricted to `k`, same order. -/
theorem merge_per_inner_order_tagged {α} (tag : α → Nat) (k : Nat) (es : List (Ev (HV α))) :
    (outVals (run (maM (α := α)) (hoInit {}) es)).filter (fun v => tag v == k)
      = ((accepted (maM (α := α)) (hoInit {}) es).filterMap innerVal).filter (fun v => tag v == k) := by
  rw [merge_per_inner_order]

/-- **merge_exact_multiset.** Nothing is lost, duplicated or invented. -/
theorem merge_exact_multiset {α} (maxc : Nat) (es : List (Ev (HV α))) :
    (outVals (run (maM (α := α)) (hoInit {}) es)).Perm ((accepted (maM (α := α)) (hoInit {}) es).filterMap innerVal) ∧
    (outVals (run (mcM (α := α) maxc) (hoInit {}) es)).Perm
      ((accepted (mcM (α := α) maxc) (hoInit {}) es).filterMap innerVal) := by
  rw [merge_per_inner_order, merge_per_inner_order_maxc]; exact ⟨List.Perm.refl _, List.Perm.refl _⟩

/-- **merge_maxc_bound.** In every reachable state at most `max_concurrent` inner subscriptions are live
(and `active_count` bounds them). -/
theorem merge_maxc_bound {α} (maxc : Nat) (es : List (Ev (HV α))) :
    ((final (mcM (α := α) maxc) (hoInit {}) es).p.live.filter (· != 0)).length ≤ maxc := by
  have h := mc_final_inv (α := α) maxc es _ (mc_init_inv maxc)
  exact Nat.le_trans h.le h.amax

/-- **merge_queue_fifo.** The inners are subscribed in arrival order: the subscribe effects followed by the waiting
queue are exactly the arrivals (so a queued inner starts before every inner that arrived after it). -/
theorem merge_queue_fifo {α} (maxc : Nat) (es : List (Ev (HV α))) :
    subsOf (run (mcM (α := α) maxc) (hoInit {}) es) ++ (final (mcM (α := α) maxc) (hoInit {}) es).s.queue
      = (accepted (mcM (α := α) maxc) (hoInit {}) es).filterMap arrival := by
  simpa [hoInit] using mc_run_fifo (α := α) maxc es _ (mc_init_inv maxc)

/-- **merge_first_error.** The first error delivered by the outer or by any live inner goes out in that step and
nothing follows it. -/
theorem merge_first_error {α} (maxc : Nat) (pre post : List (Ev (HV α))) (k : Nat) (e : Err) :
    (k ∈ (final (maM (α := α)) (hoInit {}) pre).p.live →
      emits (run (maM (α := α)) (hoInit {}) (pre ++ .src k (.error e) :: post))
        = emits (run (maM (α := α)) (hoInit {}) pre) ++ [Notif.error e]) ∧
    (k ∈ (final (mcM (α := α) maxc) (hoInit {}) pre).p.live →
      emits (run (mcM (α := α) maxc) (hoInit {}) (pre ++ .src k (.error e) :: post))
        = emits (run (mcM (α := α) maxc) (hoInit {}) pre) ++ [Notif.error e]) :=
  ⟨first_error_terminates maM (fun _ _ _ => rfl) _ (hoInit_WF _) pre post k e,
   first_error_terminates (mcM maxc) (fun _ _ _ => rfl) _ (hoInit_WF _) pre post k e⟩

/-- **merge_completes_iff** (merge_all, flat_map, rx.merge). Walk the delivered notifications remembering which arrived inners
have not completed yet (an arrival appends the inner, an inner completion erases it) and whether the outer completed
(`maTStep`). The output completes if and only if at the end of the delivered notifications the outer has completed and no
arrived inner is left uncompleted (`maRule`) — in the very step that makes this true. -/
theorem merge_completes_iff {α} (es : List (Ev (HV α))) :
    Notif.completed ∈ emits (run (maM (α := α)) (hoInit {}) es)
      ↔ maRule ((accepted (maM (α := α)) (hoInit {}) es).foldl maTStep {}) := by
  have h := rule_run (maM (α := α)) (fun st => st.p.WF) maAbs maTStep maRule
    (fun st e h => step_WF _ st e h) (fun _ h => h) (fun st e _ => ma_abs_step st e)
    (fun st k n _ _ hr => ma_rule_step st.s k n hr)
    (fun st _ => by simp [step, maM, Plumb.acts])
    es (hoInit {}) (hoInit_WF _) (by simp [maRule, maAbs, hoInit])
  simpa [maAbs, hoInit] using h

/-- **merge_completes_maxc_state** (merge(max_concurrent), concat_map). If the output completes then, in the final state,
the outer has completed (`is_stopped`), `active_count` is 0, no inner subscription is live and (max_concurrent ≥ 1) the
queue is empty: every arrived inner was started and has been closed (state-level reading; the full iff on the delivered
notifications is `merge_completes_iff_maxc`). -/
theorem merge_completes_maxc_state {α} (maxc : Nat) (hm : 1 ≤ maxc) (es : List (Ev (HV α)))
    (hc : Notif.completed ∈ emits (run (mcM (α := α) maxc) (hoInit {}) es)) :
    let st := final (mcM (α := α) maxc) (hoInit {}) es
    st.s.stopped = true ∧ st.s.active = 0 ∧ st.p.live.filter (· != 0) = [] ∧ st.s.queue = [] := by
  intro st
  have habs : ∀ (st : St McSt) (e : Ev (HV α)), McInv maxc st →
      (step (mcM (α := α) maxc) st e).1.s
        = (accOne st e).foldl (fun s kn => ((mcM (α := α) maxc).handler s kn.1 kn.2).1) st.s := by
    intro st e _
    cases e with
    | tick => simp [step, mcM, accOne]
    | dispose => simp [step, accOne]
    | src k n =>
      by_cases hk : k ∈ st.p.live
      · simp [step_src_state _ _ _ _ hk, accOne, hk]
      · simp [step_src_not_live _ _ _ _ hk, accOne, hk]
  have hrule := rule_run (mcM (α := α) maxc) (McInv maxc) id
    (fun s kn => ((mcM (α := α) maxc).handler s kn.1 kn.2).1) mcRule
    (fun st e h => mc_step_inv maxc st e h) (fun _ h => h.wf) habs
    (fun st k n _ _ hr => mc_rule_step maxc st.s k n hr)
    (fun st _ => by simp [step, mcM, Plumb.acts])
    es (hoInit {}) (mc_init_inv maxc) (by simp [mcRule, hoInit])
  have hfin := final_abs (mcM (α := α) maxc) (McInv maxc) id
    (fun s kn => ((mcM (α := α) maxc).handler s kn.1 kn.2).1)
    (fun st e h => mc_step_inv maxc st e h) habs es (hoInit {}) (mc_init_inv maxc)
  have hr : mcRule st.s := by
    have := hrule.mp hc
    simp only [id] at this hfin
    rw [← hfin.1] at this; exact this
  have hinv : McInv maxc st := hfin.2
  refine ⟨hr.1, hr.2, ?_, ?_⟩
  · have := hinv.le
    rw [hr.2] at this
    exact List.length_eq_zero_iff.mp (Nat.le_zero.mp this)
  · cases hq : st.s.queue with
    | nil => rfl
    | cons a as =>
      have := hinv.qfull (by simp [hq])
      rw [hr.2] at this; omega

/-- **merge_completes_iff_maxc** (merge(max_concurrent ≥ 1), concat_map) — the full iff on the delivered notifications. Count the
arrivals, the delivered inner completions and note the outer's completion (`mcTStep`). The output completes if and only if, at
the end of the delivered notifications, the outer has completed and as many inner completions were delivered as inners
arrived (`mcCountRule`; a subscription completes at most once, so this is "every arrived inner — started at once or from the
queue — has completed"), in the step that makes it true. `mcT_counts` spells the counters out: `nArr` is the number of
delivered outer elements, `outerDone` is `(0, completed) ∈ accepted`. -/
theorem merge_completes_iff_maxc {α} (maxc : Nat) (hm : 1 ≤ maxc) (es : List (Ev (HV α))) :
    Notif.completed ∈ emits (run (mcM (α := α) maxc) (hoInit {}) es)
      ↔ mcCountRule ((accepted (mcM (α := α) maxc) (hoInit {}) es).foldl mcTStep {}) := by
  have habs : ∀ (st : St McSt) (e : Ev (HV α)), McInv maxc st →
      (step (mcM (α := α) maxc) st e).1.s
        = (accOne st e).foldl (fun s kn => ((mcM (α := α) maxc).handler s kn.1 kn.2).1) st.s := by
    intro st e _
    cases e with
    | tick => simp [step, mcM, accOne]
    | dispose => simp [step, accOne]
    | src k n =>
      by_cases hk : k ∈ st.p.live
      · simp [step_src_state _ _ _ _ hk, accOne, hk]
      · simp [step_src_not_live _ _ _ _ hk, accOne, hk]
  have hrule := rule_run (mcM (α := α) maxc) (McInv maxc) id
    (fun s kn => ((mcM (α := α) maxc).handler s kn.1 kn.2).1) mcRule
    (fun st e h => mc_step_inv maxc st e h) (fun _ h => h.wf) habs
    (fun st k n _ _ hr => mc_rule_step maxc st.s k n hr)
    (fun st _ => by simp [step, mcM, Plumb.acts])
    es (hoInit {}) (mc_init_inv maxc) (by simp [mcRule, hoInit])
  have hfin := final_abs (mcM (α := α) maxc) (McInv maxc) id
    (fun s kn => ((mcM (α := α) maxc).handler s kn.1 kn.2).1)
    (fun st e h => mc_step_inv maxc st e h) habs es (hoInit {}) (mc_init_inv maxc)
  have hbal := mc_run_bal (α := α) maxc es (hoInit {}) {} (mc_init_inv maxc) ⟨rfl, rfl⟩
  simp only [id] at hrule hfin
  rw [hrule, ← hfin.1]
  have hb := hbal.1
  have hinv := hbal.2
  constructor
  · intro hr
    refine ⟨by rw [← hb.stp]; exact hr.1, ?_⟩
    have hq : (final (mcM (α := α) maxc) (hoInit {}) es).s.queue = [] := by
      cases hq : (final (mcM (α := α) maxc) (hoInit {}) es).s.queue with
      | nil => rfl
      | cons a as => have := hinv.qfull (by simp [hq]); rw [hr.2] at this; omega
    have := hb.bal; rw [hr.2, hq] at this; simpa using this
  · intro hr
    refine ⟨by rw [hb.stp]; exact hr.1, ?_⟩
    have := hb.bal; rw [hr.2] at this; omega

/-- **concat_map_ordered** (max_concurrent = 1). In every reachable state the only inner subscription that can be live is the
MOST RECENTLY SUBSCRIBED one: an inner is subscribed only when every earlier inner has been closed. Together with
`merge_queue_fifo` (inners are subscribed in arrival order) and `merge_per_inner_order_maxc` (the output is the
sequence of delivered inner elements) this is the ordered concatenation: the output consists of the elements of the
first arrived inner, then those of the second, … — no interleaving. -/
theorem concat_map_ordered {α} (es : List (Ev (HV α))) (k : Nat)
    (hk : k ∈ (final (mcM (α := α) 1) (hoInit {}) es).p.live) (hk0 : k ≠ 0) :
    (subsOf (run (mcM (α := α) 1) (hoInit {}) es)).getLast? = some k ∧
    (final (mcM (α := α) 1) (hoInit {}) es).p.live.filter (· != 0) = [k] := by
  have h := o_run (α := α) es [] (hoInit {}) ⟨mc_init_inv 1, by intro j hj hj0; simp [hoInit] at hj; exact absurd hj hj0⟩
  simp only [List.nil_append] at h
  refine ⟨h.last k hk hk0, ?_⟩
  have hle : ((final (mcM (α := α) 1) (hoInit {}) es).p.live.filter (· != 0)).length ≤ 1 :=
    Nat.le_trans h.inv.le h.inv.amax
  have hmem : k ∈ (final (mcM (α := α) 1) (hoInit {}) es).p.live.filter (· != 0) :=
    List.mem_filter.mpr ⟨hk, by simpa using hk0⟩
  generalize (final (mcM (α := α) 1) (hoInit {}) es).p.live.filter (· != 0) = l at hle hmem
  match l, hle, hmem with
  | [a], _, hmem => simp at hmem; rw [hmem]
  | a :: b :: r, hle, _ => simp at hle

/-- **concat_map_blocks** — the explicit block decomposition for max_concurrent = 1 (concat_map), every event list: there is a list
of blocks `(inner id, elements)`, one per SUBSCRIBED inner and in subscription order (= arrival order, `merge_queue_fifo`),
such that the sequence of delivered inner elements tagged with their inner is the blocks laid out one after the other, and
the output is exactly the concatenation of the blocks' elements: first everything of the first inner, then everything of the
second, … -/
theorem concat_map_blocks {α} (es : List (Ev (HV α))) :
    ∃ bs : List (Nat × List α),
      bs.map (·.1) = subsOf (run (mcM (α := α) 1) (hoInit {}) es) ∧
      (accepted (mcM (α := α) 1) (hoInit {}) es).filterMap innerKV = expandBlocks bs ∧
      outVals (run (mcM (α := α) 1) (hoInit {}) es) = (bs.map (·.2)).flatten := by
  have h := b_run (α := α) es [] [] (hoInit {})
    ⟨⟨mc_init_inv 1, by intro j hj hj0; simp [hoInit] at hj; exact absurd hj hj0⟩, ⟨[], rfl, rfl⟩⟩
  simp only [List.nil_append] at h
  obtain ⟨bs, hb1, hb2⟩ := h.blocks
  refine ⟨bs, hb1, hb2, ?_⟩
  rw [merge_per_inner_order_maxc, innerVal_eq_kv, hb2]
  simp [expandBlocks, List.map_flatMap, List.flatMap_def, Function.comp_def]

/-- non-vacuity: max_concurrent = 1, three inners; the second and third wait, start in arrival order; an inner error ends it -/
example :
    run (mcM (α := Nat) 1) (hoInit {})
      [.src 0 (.next (.obs 0)), .src 0 (.next (.obs 1)), .src 1 (.next (.val 7)), .src 0 (.next (.obs 2)),
       .src 2 (.next (.val 9)), .src 1 .completed, .src 2 (.next (.val 8)), .src 2 .completed, .src 3 (.error "e"),
       .src 0 .completed]
      = [.sub 1, .emit (.next 7), .unsub 1, .sub 2, .emit (.next 8), .unsub 2, .sub 3, .emit (.error "e"), .unsub 0, .unsub 3] := by
  decide

/-! ### re-entrant outer emissions
Every theorem above quantifies over ALL event lists. A re-entrant outer emission (the subscriber reacts to an element by
pushing the next inner into the outer subject while an inner is still inside its own `subscribe` call) is just the next
event of the list: the handlers do nothing after the point at which the nested call happens (`subscribe(inner)` is the last
statement of the outer `on_next`, `observer.on_next(x)` the last of the inner one), so the flat list is the faithful trace —
the correspondence replays such recorded runs through `mcM` with 0 mismatches. In particular `merge_maxc_bound`,
`merge_queue_fifo` and `concat_map_blocks` cover them. -/

/-- non-vacuity with a NESTED emission: max_concurrent = 1; inner 1 emits 7 inside its own subscribe, the consumer reacts by
pushing inner 2 into the outer (4th event, delivered while inner 1 is still subscribing): inner 2 is queued — `active_count`
already counts inner 1 — and started only when inner 1 completes. -/
example :
    run (mcM (α := Nat) 1) (hoInit {})
      [.src 0 (.next (.obs 0)), .src 1 (.next (.val 7)), .src 0 (.next (.obs 1)), .src 1 (.next (.val 8)), .src 1 .completed,
       .src 2 (.next (.val 9))]
      = [.sub 1, .emit (.next 7), .emit (.next 8), .unsub 1, .sub 2, .emit (.next 9)] := by decide

/-- the bound instantiated on that list, at every prefix -/
example : ∀ k, k ≤ 6 →
    ((final (mcM (α := Nat) 1) (hoInit {})
      (([.src 0 (.next (.obs 0)), .src 1 (.next (.val 7)), .src 0 (.next (.obs 1)), .src 1 (.next (.val 8)), .src 1 .completed,
         .src 2 (.next (.val 9))] : List (Ev (HV Nat))).take k)).p.live.filter (· != 0)).length ≤ 1 :=
  fun k _ => merge_maxc_bound 1 _

end C11

import RxProofs.Lemmas.DispC25
/-!
# C25 — a disposable's action runs at most once

Property theorems only.  `Disp.dStep / bStep / sStep` are the atomic-step models of `Disposable.dispose`,
`BooleanDisposable.dispose` and `ScheduledDisposable.dispose` (+ the scheduled action).  Every theorem
quantifies over the number of threads, the number of `dispose()` calls each thread makes and the schedule
(an arbitrary `List Nat` of thread indices); a call history on one thread is the case of one thread.
A re-entrant `dispose()` from inside the action is the same as a call by another thread interleaved at
that point (the action runs outside the lock), so it is covered by the same theorems.
-/

namespace C25
open Disp

/-- **action_at_most_once.** Any number of threads, any number of `dispose()` calls per thread, any schedule:
the action has run at most once. -/
theorem action_at_most_once (raises : Nat → Bool) (calls : List Nat) (sched : List Nat) :
    ((dInit calls).run (dStep raises) sched).sh.actions ≤ 1 := by
  have h := (dInv_run raises calls sched).1
  have : ((dInit calls).run (dStep raises) sched).sh.isDisposed.toNat ≤ 1 := Bool.toNat_le _
  omega

/-- **is_disposed_after_return.** In every reachable state: once any `dispose()` call has returned,
`is_disposed` is true. -/
theorem is_disposed_after_return (raises : Nat → Bool) (calls : List Nat) (sched : List Nat) :
    0 < ((dInit calls).run (dStep raises) sched).sh.returned → ((dInit calls).run (dStep raises) sched).sh.isDisposed = true :=
  (dInv_run raises calls sched).2

/-- **action_exactly_once_when_quiet.** If some `dispose()` returned and no thread is between the lock block
and the action call, the action has run exactly once (so: not zero times). -/
theorem action_exactly_once_when_quiet (raises : Nat → Bool) (calls : List Nat) (sched : List Nat)
    (hret : 0 < ((dInit calls).run (dStep raises) sched).sh.returned)
    (hquiet : ∀ t ∈ ((dInit calls).run (dStep raises) sched).pcs, t.1 = DPc.idle) :
    ((dInit calls).run (dStep raises) sched).sh.actions = 1 := by
  obtain ⟨h1, h2⟩ := dInv_run raises calls sched
  have hz : wsum dWon ((dInit calls).run (dStep raises) sched).pcs = 0 := by
    apply wsum_eq_zero
    intro a ha
    obtain ⟨pc, n⟩ := a
    have := hquiet _ ha
    simp only at this; subst this; rfl
  rw [hz, h2 hret] at h1
  simpa using h1

/-- **disposable_history.** One thread making `n+1` calls in a row, whether or not the action raises: the action
ran exactly once (during the first call), the flag is set and stays set, every call ended. -/
theorem disposable_history (raises : Nat → Bool) (n : Nat) :
    let s := (dInit [n + 1]).run (dStep raises) (0 :: 0 :: List.replicate n 0)
    s.sh.actions = 1 ∧ s.sh.isDisposed = true ∧ s.sh.returned = n + 1 := by
  have h := d_seq_tail raises { isDisposed := true, actions := 1, returned := 1, log := [.lock 0, .action, if raises 0 then .raised else .ret .unit] } n rfl
  simp only at h
  simp only [dInit, List.map_cons, List.map_nil, Sys.run_cons]
  have h2 : Sys.step (dStep raises) (Sys.step (dStep raises) ⟨{}, [(DPc.idle, n + 1)]⟩ 0) 0
      = ⟨{ isDisposed := true, actions := 1, returned := 1, log := [.lock 0, .action, if raises 0 then .raised else .ret .unit] }, [(.idle, n)]⟩ := by
    simp [Sys.step, dStep]
  rw [h2]
  exact ⟨h.1, h.2.1, by omega⟩

/-- **boolean_only_flag.** `BooleanDisposable.dispose` from any number of threads under any schedule: the flag
is set exactly when some call completed, and nothing else ever happens (no action, no item is disposed:
the event log consists of flag writes and returns only). -/
theorem boolean_only_flag (calls : List Nat) (sched : List Nat) :
    let s := (bInit calls).run bStep sched
    s.sh.isDisposed = decide (0 < s.sh.calls) ∧ ∀ e ∈ s.sh.log, e = Ev.wr ∨ e = Ev.ret .unit :=
  Sys.run_inv bStep BInv bInv_step _ sched ⟨by simp [bInit], by simp [bInit]⟩

/-- **scheduled_exactly_once_on_scheduler.** `ScheduledDisposable` with any number of client threads calling
`dispose()` any number of times, each scheduled action running on its own scheduler worker at any later
time, any schedule:
* the wrapped resource is disposed at most once;
* every disposal of it is performed by a scheduler worker (never synchronously inside `dispose()`), and only
  after some `dispose()` call scheduled an action;
* as soon as one action has started, `is_disposed` (the inner flag) is true;
* once an action has started and no worker is between the inner lock block and the call-out, the wrapped
  resource has been disposed exactly once. -/
theorem scheduled_exactly_once_on_scheduler (callers : List Nat) (workers : Nat) (sched : List Nat) :
    let s := (sInit callers workers).run sStep sched
    s.sh.cnt ≤ 1 ∧ s.sh.cnt = s.sh.byWorker ∧ (0 < s.sh.cnt → 0 < s.sh.queued) ∧
    (0 < s.sh.started → s.sh.sadDisposed = true) ∧
    (0 < s.sh.started → (∀ t ∈ s.pcs, ∀ i, t ≠ SPc.pend i) → s.sh.cnt = 1) := by
  intro s
  obtain ⟨ha, hb, hc, hd, he⟩ : SInv s := Sys.run_inv sStep SInv sInv_step _ sched (sInv_init callers workers)
  refine ⟨by omega, hb, ?_, fun h => (hc h).1, ?_⟩
  · intro hpos
    by_cases hcur : s.sh.sadCurrent = none
    · exact (hc (he hcur)).2
    · cases hx : s.sh.sadCurrent with
      | none => exact absurd hx hcur
      | some i => simp [hx] at ha; omega
  · intro hst hq
    have hz : wsum sPend s.pcs = 0 := by
      apply wsum_eq_zero
      intro a ha'
      cases a with
      | pend i => exact absurd rfl (hq _ ha' i)
      | _ => rfl
    have := hd (hc hst).1
    rw [hz, this] at ha
    simpa using ha

/-! Non-vacuity: concrete schedules in which the race is actually contended. -/

/-- the action raises during the first call: the exception leaves `dispose()`, the flag stays set and the two
later calls do not run the action again -/
example : let s := (dInit [3]).run (dStep fun _ => true) [0, 0, 0, 0]
    s.sh.actions = 1 ∧ s.sh.isDisposed = true ∧
    s.sh.log = [.lock 0, .action, .raised, .lock 0, .ret .unit, .lock 0, .ret .unit] := by decide


/-- three threads; thread 0 wins the flag, threads 1 and 2 go through the lock and return before thread 0
runs the action; thread 0 then runs it and calls again: one action, 4 calls returned -/
example : let s := (dInit [2, 1, 1]).run (dStep fun _ => false) [0, 1, 2, 0, 0]
    s.sh.actions = 1 ∧ s.sh.returned = 4 ∧ s.pcs = [(.idle, 0), (.idle, 0), (.idle, 0)] := by decide

/-- after thread 1 returned and before thread 0 ran the action, `actions = 0` — "exactly once" needs quiescence -/
example : let s := (dInit [1, 1]).run (dStep fun _ => false) [0, 1]
    s.sh.actions = 0 ∧ s.sh.returned = 1 ∧ s.sh.isDisposed = true := by decide

/-- two clients call dispose(); worker 1 runs first and swaps the resource out, worker 0 runs its whole action
and returns before worker 1 performs the call-out -/
example : let s := (sInit [1, 1] 2).run sStep [0, 1, 3, 2, 3]
    s.sh.cnt = 1 ∧ s.sh.finished = 2 ∧ s.sh.queued = 2 := by decide

/-- a worker whose action was not scheduled yet cannot run: nothing is disposed synchronously -/
example : let s := (sInit [1] 1).run sStep [1, 1, 0]
    s.sh.cnt = 0 ∧ s.sh.queued = 1 := by decide

end C25

import RxProofs.Lemmas.TimedRate
import RxProofs.Lemmas.TimedMap
import RxProofs.Lemmas.TimedSim
import RxProofs.Lemmas.TimedSimSample
import RxProofs.Lemmas.TimedFeedback
import RxProofs.Lemmas.TimedFeedbackDeb
/-!
# C16 — rate-limiting operators follow their timing rules

Property theorems only (helper lemmas: `RxProofs/Lemmas/TimedRate.lean`; models: `RxModel/TimedRate.lean`,
`RxModel/TimedMap.lean`).  Each `…Run` mirrors the operator's handlers and timer against the source timeline with the
virtual-time scheduler's `(due, seq)` rule inlined (the source wins a tie against a timer armed in `on_next`); each
`…Spec` is the rule of the property text, looking only at neighbouring notifications.  The theorems hold for **all**
timelines (no sortedness is needed: both sides consume the list in order), all due times and all element types.
-/

namespace C16
open Timed

/-- **throttle_first_rule.**  An emitted element opens a window of `w` ticks; elements arriving inside the window are
dropped; the first element at or after its end (`t ≥ last emitted + w`) is emitted and opens the next window; a
terminal passes at once.  (Equivalently: an element is emitted iff at least `w` passed since the last *emitted* one.) -/
theorem throttle_first_rule {α} (w : Nat) (msgs : TL α) : tfRun w none msgs = tfSpec w msgs :=
  tf_run_eq_spec w msgs

/-- the handler-level reading of the same rule: with the last emission at `l`, an element at `t` is emitted iff `l + w ≤ t` -/
theorem throttle_first_handler {α} (w l t : Nat) (x : α) :
    (tfOnNext w t (some l) x).2 = (if l + w ≤ t then [Notif.next x] else []) ∧
    (tfOnNext w t none x).2 = [Notif.next x] := by
  by_cases h : l + w ≤ t <;> simp [tfOnNext, h]

example : tfRun 10 none [(201, Notif.next 1), (205, .next 2), (210, .next 3), (211, .next 4), (221, .next 5), (222, .completed)]
    = [(201, .next 1), (211, .next 4), (221, .next 5), (222, .completed)] := by decide

/-- **debounce_emits_iff_quiet.**  For an element at `t` look at the next source notification: if it is later than
`t + d` (or there is none) the element is emitted at `t + d`; if it is a completion at `t' ≤ t + d` the element is
flushed at `t'`, just before the completion; if it is another element or an error at `t' ≤ t + d` the element is dropped.
Terminals pass at once. -/
theorem debounce_emits_iff_quiet {α} (d : Nat) (msgs : TL α) : debRun d {} msgs = debSpec d msgs :=
  deb_run_eq_spec d msgs

/-- the `_id == current_id` test of the timer action never fails for the timer that is still held by the
SerialDisposable: while an element is pending the held timer is the one created for the current `_id` -/
theorem debounce_timer_current {α} (d t : Nat) (s : DebSt α) (x : α) :
    (debOnNext d t s x).timer = some (t + d, (debOnNext d t s x).id) ∧ (debOnNext d t s x).hasValue = true := by
  simp [debOnNext]

/-- gap exactly `d`: the newer element arrives at the instant the timer is due and wins the tie — the older one is dropped -/
example : debRun 10 {} [(201, Notif.next 1), (211, .next 2), (222, .next 3), (225, .completed)]
    = [(221, .next 2), (225, .next 3), (225, .completed)] := by decide
example : debRun 10 {} [(201, Notif.next 1), (205, .error "e")] = [(205, .error "e")] := by decide

/-- **sample_latest_unsampled.**  At every sampler tick `k` the latest source element that arrived since the previous
tick (source first at equal instants; `tf` = the sampler's events were scheduled first) is emitted, if there is one;
a source error is delivered at its own time; after the source completed the next tick emits the pending element (if
any) and completes.  `ticks` is any list of sampler events — `interval(period)` or an arbitrary sampler observable. -/
theorem sample_latest_unsampled {α} (tf : Bool) (msgs : TL α) (ticks : List (Nat × SampEv)) :
    sampRun tf {} msgs ticks = sampSpec tf none msgs ticks := by
  have := samp_run_eq_spec tf ticks msgs {} rfl
  simpa [pendOf] using this

/-- an element is sampled at most once: right after a tick nothing is pending -/
theorem sample_once {α} (s : SampSt α) : pendOf (sampTick s).1 = none := pendOf_tick s

example : sampRun false {} [(205, Notif.next 1), (210, .next 2), (211, .next 3), (235, .completed)]
      [(210, .tick), (220, .tick), (230, .tick), (240, .tick), (250, .tick)]
    = [(210, .next 2), (220, .next 3), (240, .completed)] := by rw [sample_latest_unsampled]; decide

/-- **twm_pending_on_fire** (throttle_with_mapper).  For every event trace — any interleaving of source notifications and
signals of the throttle observables, stale or not — the code (has_value / value / `_id` / SerialDisposable) behaves as
the rule `twmSpec`: a source element becomes the pending element, replacing the previous one; the first signal (element
or completion) of the pending element's own throttle observable emits it and nothing is pending afterwards; signals of
other throttle observables are ignored; source completion flushes the pending element, an error (of the source, of the
mapper, of the pending element's throttle observable) ends the sequence and drops it. -/
theorem twm_pending_on_fire {α} (raises : Nat → α → Option Err) (tr : List (Nat × MEv α)) :
    twmRun raises tr = twmSpec raises tr := by
  unfold twmRun twmSpec
  apply runTrace_sim (twmStep raises) (twmAbsStep raises) (·.done) (·.done) (fun _ => []) TwmRel
  · intro s a h; exact h.1
  · intro s a ev h _; exact twm_step_sim raises s a ev h
  · simp [TwmRel]

/-- the emitting step of the rule, spelled out: only the pending element's own throttle observable emits it -/
theorem twm_fire_rule {α} (raises : Nat → α → Option Err) (a : TwmAbs α) (k : Nat) (x : α) (j : Nat)
    (hp : a.pend = some (k, x)) :
    (twmAbsStep raises a (.inner j .next)).out = (if k = j then [Notif.next x] else []) ∧
    (twmAbsStep raises a (.inner j .completed)).out = (if k = j then [Notif.next x] else []) := by
  by_cases h : k = j <;> simp [twmAbsStep, hp, h]

/-- element "a" is superseded by "b" before its throttle fires (the stale signal at 220 is ignored); "b" is emitted
when throttle 1 fires; "c" is flushed by the completion -/
example : twmRun (fun _ _ => none)
    [(210, MEv.src (.next "a")), (215, .src (.next "b")), (220, .inner 0 .next), (225, .inner 1 .completed),
     (230, .src (.next "c")), (231, .src .completed)]
    = [(225, .next "b"), (231, .next "c"), (231, .completed)] := by decide

/-! ## The bridge: the scheduler's `(due, seq)` rule is derived, not assumed

`simStart` / `sampSim` (`RxModel/TimedSim.lean`) run a queue of scheduled items ordered by (due time, insertion order):
the hot source's messages are scheduled first, the operator's actions are scheduled by its handlers when they run, and
the handlers are the same functions as in the two-stream runs.  The theorems below say that this simulation produces
exactly the two-stream run, for every timeline with non-decreasing times. -/

/-- **debounce_sim_bridge.**  Subscribed at clock `sub`, hot source. -/
theorem debounce_sim_bridge {α} (d sub lo : Nat) (msgs : TL α) (h : Mono lo msgs) (hs : sub ≤ lo) :
    simStart (debOp d) (fun _ => []) sub none {} msgs = debRun d {} msgs := by
  rw [simStart_eq_twoStream]
  exact deb_twoStream_eq_run d _ msgs {} sub lo h hs (by intro due cur hc; cases hc)

/-- **throttle_first_sim_bridge** (no timer: the handler reads the clock of the item being run). -/
theorem throttle_first_sim_bridge {α} (w sub lo : Nat) (msgs : TL α) (h : Mono lo msgs) (hs : sub ≤ lo) :
    simStart (tfOp w) (fun _ => []) sub none none msgs = tfRun w none msgs := by
  rw [simStart_eq_twoStream]
  exact tf_twoStream_eq_run w _ msgs none sub lo h hs

/-- **sample_tie_rule_derived.**  The source's messages and the sampler's events are two blocks of pre-scheduled items.
If the source's block was scheduled first (hot source created before the sampler, or both cold: the source is
subscribed first) the queue is their stable merge with the source winning ties and the run is `sampRun false`; if the
sampler's block was scheduled first (cold source — scheduled at subscription — against a hot sampler) the sampler wins
ties and the run is `sampRun true`.  This is the rule found by the correspondence, now a theorem about the queue. -/
theorem sample_tie_rule_derived {α} (lo : Nat) (msgs : TL α) (ticks : List (Nat × SampEv)) (h : Mono lo msgs)
    (ht : SortedT (sampTickItems (α := α) ticks)) :
    sampSim (mergeStable (sampSrcItems msgs ++ sampTickItems ticks)) true {} = sampRun false {} msgs ticks
    ∧ sampSim (mergeStable (sampTickItems ticks ++ sampSrcItems msgs)) true {} = sampRun true {} msgs ticks := by
  have hsrc := sortedT_srcItems h
  constructor
  · rw [mergeStable_append _ _ hsrc ht]
    have := sampSim_eq_run false ticks msgs ({} : SampSt α)
    simpa [sampQueue] using this
  · rw [mergeStable_append _ _ ht hsrc]
    have := sampSim_eq_run true ticks msgs ({} : SampSt α)
    simpa [sampQueue] using this

/-- a tie at 220: source first when it was scheduled first, sampler first otherwise -/
example : sampSim (mergeStable (sampSrcItems [(220, Notif.next 1)] ++ sampTickItems [(220, .tick), (240, .tick)])) true {}
      = [(220, .next 1)]
    ∧ sampSim (mergeStable (sampTickItems [(220, .tick), (240, .tick)] ++ sampSrcItems [(220, Notif.next 1)])) true {}
      = [(240, .next 1)] := by decide

/-! ## Re-entrant feedback: the consumer pushes an element into the source from inside `on_next`

`tfRunFb` / `sampSimFb` run the nested `on_next` in the state the operator is in when it calls downstream.  The theorems
say that this is the plain run over the COMBINED arrival sequence (`tfCombined`, `sampCombinedQ`: every echo placed where
it arrives), for every timeline, every echo set and every delivery counter — so the rules above apply to it. -/

/-- **throttle_first_feedback_rule.**  With feedback, throttle_first obeys the window rule on the combined arrival
sequence. -/
theorem throttle_first_feedback_rule {α} (w : Nat) (echo : Nat → Option α) (msgs : TL α) :
    tfRunFb w echo 0 none msgs = tfSpec w (tfCombined w echo 0 none msgs) := by
  rw [tf_feedback_eq_combined, throttle_first_rule]

/-- **throttle_first_feedback_inert.**  For a positive window an echo arrives 0 ticks after the element just emitted, so
it is always dropped: feedback changes nothing. -/
theorem throttle_first_feedback_inert {α} (w : Nat) (hw : 0 < w) (echo : Nat → Option α) (msgs : TL α) :
    tfRunFb w echo 0 none msgs = tfRun w none msgs :=
  tf_feedback_inert w hw echo msgs 0 none

/-- **sample_feedback_combined_partial.**  With feedback, `sample` is the scheduler run (`sampSim`) over the combined
queue, in which an echo is the source's next message right behind the tick at which it was pushed; hence it is the
pending element of the following tick unless a newer source element arrives first (`sampOnNext` overwrites `value`).
*Partial*: the closed form `sampSpec` is proved for queues that are merges of the two pre-scheduled blocks
(`sample_tie_rule_derived`); an echo sits behind a tick of its own instant, which is not such a merge, so the window form
of the rule over the combined sequence is not stated — only the queue semantics. -/
theorem sample_feedback_combined_partial {α} (echo : Nat → Option α) (isEcho : α → Bool) (q : List (Nat × SampItem α))
    (k : Nat) (srcLive : Bool) (s : SampSt α) :
    sampSimFb echo isEcho k q srcLive s = sampSim (sampCombinedQ echo isEcho k q srcLive s) srcLive s :=
  samp_feedback_eq_combined echo isEcho q k srcLive s

/-- **debounce_feedback_rule** (debounce after 576f241: the pending flag is cleared before the downstream call).
The scheduler simulation with a consumer that pushes echoes into the source from inside `on_next` (`simRunFb (debOp d)`:
queue ordered by (due, insertion), the echo is the source's next item) equals the rule `debSpecFb` over the combined
arrival sequence: an element is emitted `d` after its arrival iff the next source notification is later; the echo pushed
at that emission arrives at that instant and is itself emitted `d` later under the same condition — after its own quiet
period —; a completion flushes what is pending, an error drops it.  For every non-decreasing timeline, every echo
assignment (echoes are recognisable, `hE`, and do not echo), every delivery counter start; `fuel` only has to be large
enough (`4·messages`). -/
theorem debounce_feedback_rule {α} (d : Nat) (other : Nat → TL α) (echo : Nat → Option α) (isEcho : α → Bool)
    (hE : ∀ k e, echo k = some e → isEcho e = true) (sub lo fuel : Nat) (msgs : TL α) (h : Mono lo msgs) (hs : sub ≤ lo)
    (hf : 4 * msgs.length ≤ fuel) :
    simRunFb (debOp d) other echo isEcho fuel 0 sub (srcItems msgs) {} = debSpecFb d echo isEcho 0 none msgs :=
  (deb_fb_claims d other echo isEcho hE msgs).1 lo h fuel 0 sub {} hf ⟨rfl, rfl⟩ hs

/-- a@210 is emitted at 230; its echo arrives then and is emitted at 250; b@300 → 320, its echo (delivery 2) → 340 -/
example : debSpecFb 20 (fun k => if k = 0 ∨ k = 2 then some ("echo", k) else none) (fun v => v.1 == "echo") 0 none
      [(210, Notif.next ("a", 0)), (300, .next ("b", 0)), (400, .next ("c", 0)), (500, .completed)]
    = [(230, .next ("a", 0)), (250, .next ("echo", 0)), (320, .next ("b", 0)), (340, .next ("echo", 2)),
       (420, .next ("c", 0)), (500, .completed)] := by decide

example : tfRunFb 100 (fun k => if k = 0 then some "a-echo" else none) 0 none
      [(300, Notif.next "a"), (350, .next "b"), (400, .next "c"), (450, .next "d")]
    = [(300, .next "a"), (400, .next "c")] := by decide

end C16

import RxProofs.C05
import RxProofs.Lemmas.OpsNatural
import RxGen.OpsPyVal
import RxGen.OpsTruthiness
import RxProofs.Lemmas.OpsNaturalTimed
/-!
# C08 — falsy values are ordinary elements

Property theorems only.  The L1 models are polymorphic in the element type, so no value can be
special; this file states it as **naturality**: renaming the elements (`mapN ρ`, any `ρ`, callbacks
composed accordingly) commutes with every operator, for every raw input and with or without lagging
disposal.  In particular `ρ` may send `None, 0, 0.0, False, '', (), [], {}` to arbitrary non-falsy
tokens: the output is the renamed output.  Where the operator compares elements (`distinct`,
`distinct_until_changed` without key mapper) `ρ` must be injective (`*_natural_inj`).

`pyval_models_empty` is the meta-obligation of DESIGN.md §5 C08: no model of an operator as it is
(after the `skip_last` fix) mentions `PyVal` (truthiness / `is None` of an element); the table is
regenerated from the model sources on every run.  The pinned `skip_last` is *not* natural
(`skip_last_asis_not_natural`).
-/
open Ops

namespace C08
variable {α α' β β' κ κ' : Type}

theorem take_natural (lag : Bool) (ρ : α → α') (n : Nat) (raw : List (Notif α)) :
    visible ((takeOp n).run lag (mapN ρ raw)) = mapN ρ (visible ((takeOp n).run lag raw)) := by
  rw [C05.take_eq, C05.take_eq]; simp [List.map_take]

theorem skip_natural (lag : Bool) (ρ : α → α') (n : Nat) (raw : List (Notif α)) :
    visible ((skipOp n).run lag (mapN ρ raw)) = mapN ρ (visible ((skipOp n).run lag raw)) := by
  rw [C05.skip_eq, C05.skip_eq]; simp [List.map_drop]

theorem take_last_natural (lag : Bool) (ρ : α → α') (n : Int) (raw : List (Notif α)) :
    visible ((takeLastOp n).run lag (mapN ρ raw)) = mapN ρ (visible ((takeLastOp n).run lag raw)) := by
  rw [C05.take_last_eq, C05.take_last_eq]
  by_cases h : fin raw = .completed <;> simp [h, lastN_map]

/-- the **fixed** `skip_last` treats every value alike -/
theorem skip_last_natural (lag : Bool) (ρ : α → α') (n : Int) (raw : List (Notif α)) :
    visible ((skipLastOp n).run lag (mapN ρ raw)) = mapN ρ (visible ((skipLastOp n).run lag raw)) := by
  rw [C05.skip_last_eq, C05.skip_last_eq]; simp [butLastN_map]

theorem take_last_buffer_natural (lag : Bool) (ρ : α → α') (n : Int) (raw : List (Notif α)) :
    visible ((takeLastBufferOp n).run lag (mapN ρ raw))
      = mapN (List.map ρ) (visible ((takeLastBufferOp n).run lag raw)) := by
  rw [C05.take_last_buffer_eq, C05.take_last_buffer_eq]
  by_cases h : fin raw = .completed <;> simp [h, lastN_map]

theorem pairwise_natural (lag : Bool) (ρ : α → α') (raw : List (Notif α)) :
    visible ((pairwiseOp (α := α')).run lag (mapN ρ raw))
      = mapN (Prod.map ρ ρ) (visible ((pairwiseOp (α := α)).run lag raw)) := by
  rw [C05.pairwise_eq, C05.pairwise_eq]
  simp only [elems_mapN, fin_mapN, mapN_outSeq]
  rw [← List.map_tail, List.zip_map]

theorem start_with_natural (lag : Bool) (ρ : α → α') (args : List α) (raw : List (Notif α)) :
    visible ((startWithOp (args.map ρ)).run lag (mapN ρ raw))
      = mapN ρ (visible ((startWithOp args).run lag raw)) := by
  rw [C05.start_with_eq, C05.start_with_eq]; simp

theorem default_if_empty_natural (lag : Bool) (ρ : α → α') (d : α) (raw : List (Notif α)) :
    visible ((defaultIfEmptyOp (ρ d)).run lag (mapN ρ raw))
      = mapN ρ (visible ((defaultIfEmptyOp d).run lag raw)) := by
  rw [C05.default_if_empty_eq, C05.default_if_empty_eq]
  by_cases h : (elems raw).isEmpty = true ∧ fin raw = .completed
  · have h' : ((elems (mapN ρ raw)).isEmpty = true ∧ fin (mapN ρ raw) = .completed) := by simpa using h
    rw [if_pos h, if_pos h']; simp
  · have h' : ¬ ((elems (mapN ρ raw)).isEmpty = true ∧ fin (mapN ρ raw) = .completed) := by simpa using h
    rw [if_neg h, if_neg h']; simp

theorem ignore_elements_natural (lag : Bool) (ρ : α → α') (raw : List (Notif α)) :
    visible ((ignoreElementsOp (α := α')).run lag (mapN ρ raw))
      = mapN ρ (visible ((ignoreElementsOp (α := α)).run lag raw)) := by
  rw [C05.ignore_elements_eq, C05.ignore_elements_eq]; simp

theorem element_at_natural (lag : Bool) (ρ : α → α') (i : Nat) (d : Option α) (raw : List (Notif α)) :
    visible ((elementAtOrDefaultOp i (d.map ρ)).run lag (mapN ρ raw))
      = mapN ρ (visible ((elementAtOrDefaultOp i d).run lag raw)) := by
  rw [C05.element_at_eq, C05.element_at_eq]; simp [refElementAt_natural]

/-- `map`: the callback on renamed elements is the renamed callback -/
theorem map_natural (lag : Bool) (ρ : α → α') (σ : β → β') (f : α → Except Err β) (f' : α' → Except Err β')
    (hf : ∀ x, f' (ρ x) = (f x).map σ) (raw : List (Notif α)) :
    visible ((mapOp f').run lag (mapN ρ raw)) = mapN σ (visible ((mapOp f).run lag raw)) := by
  rw [C05.map_eq, C05.map_eq]; simp [refMap_natural ρ σ f f' hf]

theorem map_indexed_natural (lag : Bool) (ρ : α → α') (σ : β → β') (f : α → Nat → Except Err β)
    (f' : α' → Nat → Except Err β') (hf : ∀ x i, f' (ρ x) i = (f x i).map σ) (raw : List (Notif α)) :
    visible ((mapIndexedOp f').run lag (mapN ρ raw)) = mapN σ (visible ((mapIndexedOp f).run lag raw)) := by
  rw [C05.map_indexed_eq, C05.map_indexed_eq]; simp [refMapIdx_natural ρ σ f f' hf]

theorem filter_natural (lag : Bool) (ρ : α → α') (p : α → Except Err Bool) (p' : α' → Except Err Bool)
    (hp : ∀ x, p' (ρ x) = p x) (raw : List (Notif α)) :
    visible ((filterOp p').run lag (mapN ρ raw)) = mapN ρ (visible ((filterOp p).run lag raw)) := by
  rw [C05.filter_eq, C05.filter_eq]; simp [refFilter_natural ρ p p' hp]

theorem filter_indexed_natural (lag : Bool) (ρ : α → α') (p : α → Nat → Except Err Bool)
    (p' : α' → Nat → Except Err Bool) (hp : ∀ x i, p' (ρ x) i = p x i) (raw : List (Notif α)) :
    visible ((filterIndexedOp (some p')).run lag (mapN ρ raw))
      = mapN ρ (visible ((filterIndexedOp (some p)).run lag raw)) := by
  rw [C05.filter_indexed_eq, C05.filter_indexed_eq]; simp [refFilterIdx_natural ρ p p' hp]

theorem take_while_natural (lag : Bool) (ρ : α → α') (p : α → Except Err Bool) (p' : α' → Except Err Bool)
    (hp : ∀ x, p' (ρ x) = p x) (incl : Bool) (raw : List (Notif α)) :
    visible ((takeWhileOp p' incl).run lag (mapN ρ raw)) = mapN ρ (visible ((takeWhileOp p incl).run lag raw)) := by
  rw [C05.take_while_eq, C05.take_while_eq]; simp [refTakeWhile_natural ρ p p' hp]

theorem skip_while_natural (lag : Bool) (ρ : α → α') (p : α → Except Err Bool) (p' : α' → Except Err Bool)
    (hp : ∀ x, p' (ρ x) = p x) (raw : List (Notif α)) :
    visible ((skipWhileOp p').run lag (mapN ρ raw)) = mapN ρ (visible ((skipWhileOp p).run lag raw)) := by
  rw [C05.skip_while_eq, C05.skip_while_eq]; simp [refSkipWhile_natural ρ p p' hp]

theorem take_while_indexed_natural (lag : Bool) (ρ : α → α') (p : α → Nat → Except Err Bool)
    (p' : α' → Nat → Except Err Bool) (hp : ∀ x i, p' (ρ x) i = p x i) (incl : Bool) (raw : List (Notif α)) :
    visible ((takeWhileIndexedOp p' incl).run lag (mapN ρ raw))
      = mapN ρ (visible ((takeWhileIndexedOp p incl).run lag raw)) := by
  rw [C05.take_while_indexed_eq, C05.take_while_indexed_eq]; simp [refTakeWhileIdx_natural ρ p p' hp]

theorem skip_while_indexed_natural (lag : Bool) (ρ : α → α') (p : α → Nat → Except Err Bool)
    (p' : α' → Nat → Except Err Bool) (hp : ∀ x i, p' (ρ x) i = p x i) (raw : List (Notif α)) :
    visible ((skipWhileIndexedOp p').run lag (mapN ρ raw)) = mapN ρ (visible ((skipWhileIndexedOp p).run lag raw)) := by
  rw [C05.skip_while_indexed_eq, C05.skip_while_indexed_eq]; simp [refSkipWhileIdx_natural ρ p p' hp]

/-- `dematerialize`: renaming the values inside the notification objects renames the output -/
theorem dematerialize_natural (lag : Bool) (ρ : α → α') (raw : List (Notif (Notif α))) :
    visible ((dematerializeOp (α := α')).run lag (mapN (Notif.map ρ) raw))
      = mapN ρ (visible ((dematerializeOp (α := α)).run lag raw)) := by
  rw [C05.dematerialize_eq, C05.dematerialize_eq, ← cut_mapN]
  congr 1
  simp only [elems_mapN, fin_mapN]
  cases fin raw <;> simp [mapN, End.toNotifs, Notif.map]

/-- `distinct`: keys renamed by `τ`, comparer transported along `τ` -/
theorem distinct_natural (lag : Bool) (ρ : α → α') (τ : κ → κ') (key : α → Except Err κ) (key' : α' → Except Err κ')
    (cmp : κ → κ → Except Err Bool) (cmp' : κ' → κ' → Except Err Bool)
    (hk : ∀ x, key' (ρ x) = (key x).map τ) (hc : ∀ a b, cmp' (τ a) (τ b) = cmp a b) (raw : List (Notif α)) :
    visible ((distinctOp key' cmp').run lag (mapN ρ raw)) = mapN ρ (visible ((distinctOp key cmp).run lag raw)) := by
  rw [C05.distinct_eq, C05.distinct_eq]
  have := refDistinct_natural ρ τ key key' cmp cmp' hk hc [] (elems raw) (fin raw)
  simpa using this

/-- `distinct()` with the default comparer `==`: any **injective** renaming (falsy values to tokens) commutes -/
theorem distinct_natural_inj [DecidableEq α] [DecidableEq α'] (lag : Bool) (ρ : α → α')
    (hinj : ∀ a b, ρ a = ρ b → a = b) (raw : List (Notif α)) :
    visible ((distinctOp (fun x => .ok x) (fun a b : α' => .ok (decide (a = b)))).run lag (mapN ρ raw))
      = mapN ρ (visible ((distinctOp (fun x => .ok x) (fun a b : α => .ok (decide (a = b)))).run lag raw)) := by
  apply distinct_natural lag ρ ρ
  · intro x; rfl
  · intro a b
    by_cases h : a = b
    · simp [h]
    · have : ρ a ≠ ρ b := fun h' => h (hinj a b h')
      simp [h, this]

theorem distinct_until_changed_natural (lag : Bool) (ρ : α → α') (τ : κ → κ') (key : α → Except Err κ)
    (key' : α' → Except Err κ') (cmp : κ → κ → Except Err Bool) (cmp' : κ' → κ' → Except Err Bool)
    (hk : ∀ x, key' (ρ x) = (key x).map τ) (hc : ∀ a b, cmp' (τ a) (τ b) = cmp a b) (raw : List (Notif α)) :
    visible ((distinctUntilChangedOp key' cmp').run lag (mapN ρ raw))
      = mapN ρ (visible ((distinctUntilChangedOp key cmp).run lag raw)) := by
  rw [C05.distinct_until_changed_eq, C05.distinct_until_changed_eq]
  have := refDUC_natural ρ τ key key' cmp cmp' hk hc none (elems raw) (fin raw)
  simpa using this

theorem distinct_until_changed_natural_inj [DecidableEq α] [DecidableEq α'] (lag : Bool) (ρ : α → α')
    (hinj : ∀ a b, ρ a = ρ b → a = b) (raw : List (Notif α)) :
    visible ((distinctUntilChangedOp (fun x => .ok x) (fun a b : α' => .ok (decide (a = b)))).run lag (mapN ρ raw))
      = mapN ρ (visible ((distinctUntilChangedOp (fun x => .ok x) (fun a b : α => .ok (decide (a = b)))).run lag raw)) := by
  apply distinct_until_changed_natural lag ρ ρ
  · intro x; rfl
  · intro a b
    by_cases h : a = b
    · simp [h]
    · have : ρ a ≠ ρ b := fun h' => h (hinj a b h')
      simp [h, this]

/-- `find` yields the element itself (`None` when nothing matched — the API's own ambiguity) -/
theorem find_natural (lag : Bool) (ρ : α → α') (p : α → Nat → Except Err Bool) (p' : α' → Nat → Except Err Bool)
    (hp : ∀ x i, p' (ρ x) i = p x i) (raw : List (Notif α)) :
    visible ((findOp p').run lag (mapN ρ raw)) = mapN (Option.map ρ) (visible ((findOp p).run lag raw)) := by
  rw [C05.find_eq, C05.find_eq]
  have := refFind_natural ρ (Option.map ρ) p p' (fun x _ => some x) (fun x _ => some x) none none hp
    (fun _ _ => rfl) rfl 0 (elems raw) (fin raw)
  simpa using this

theorem find_index_natural (lag : Bool) (ρ : α → α') (p : α → Nat → Except Err Bool) (p' : α' → Nat → Except Err Bool)
    (hp : ∀ x i, p' (ρ x) i = p x i) (raw : List (Notif α)) :
    visible ((findIndexOp p').run lag (mapN ρ raw)) = visible ((findIndexOp p).run lag raw) := by
  rw [C05.find_index_eq, C05.find_index_eq]
  have := refFind_natural ρ (id : Int → Int) p p' (fun _ i => (i : Int)) (fun _ i => (i : Int)) (-1) (-1) hp
    (fun _ _ => rfl) rfl 0 (elems raw) (fin raw)
  have hid : ∀ l : List (Notif Int), mapN (id : Int → Int) l = l := by
    intro l; induction l with
    | nil => rfl
    | cons n l ih => cases n <;> simp_all [mapN, Notif.map]
  rw [hid] at this
  simpa using this

theorem materialize_natural (lag : Bool) (ρ : α → α') (raw : List (Notif α)) :
    visible ((materializeOp (α := α')).run lag (mapN ρ raw))
      = mapN (Notif.map ρ) (visible ((materializeOp (α := α)).run lag raw)) := by
  rw [C05.materialize_eq, C05.materialize_eq]; simp [refMaterialize_natural]

/-! ## Timed operators and windows (models of the Timed / Win families, read-only): renaming the elements of the
source timeline commutes with the operator.  `delay` needs non-decreasing times (its `Run = Spec` theorem does). -/

theorem timestamp_natural (ρ : α → α') (l : Timed.TL α) :
    Timed.tsRun (Timed.mapTL ρ l) = Timed.mapTL (Prod.map ρ id) (Timed.tsRun l) := Timed.tsRun_natural ρ l

theorem time_interval_natural (ρ : α → α') (sub : Nat) (l : Timed.TL α) :
    Timed.tiRun sub (Timed.mapTL ρ l) = Timed.mapTL (Prod.map ρ id) (Timed.tiRun sub l) := Timed.tiRun_natural ρ sub l

theorem delay_natural (ρ : α → α') (d lo : Nat) (l : Timed.TL α) (h : Timed.Mono lo l) :
    Timed.delayRun d (Timed.mapTL ρ l) = Timed.mapTL ρ (Timed.delayRun d l) := Timed.delay_natural ρ d lo l h

theorem throttle_first_natural (ρ : α → α') (w sub : Nat) (l : Timed.TL α) :
    Timed.throttleFirst w sub (Timed.mapTL ρ l) = Timed.mapTL ρ (Timed.throttleFirst w sub l) :=
  Timed.throttleFirst_natural ρ w sub l

theorem debounce_natural (ρ : α → α') (d : Nat) (l : Timed.TL α) :
    Timed.debRun d {} (Timed.mapTL ρ l) = Timed.mapTL ρ (Timed.debRun d {} l) := Timed.debounce_natural ρ d l

theorem sample_natural (ρ : α → α') (tf : Bool) (l : Timed.TL α) (ticks : List (Nat × Timed.SampEv)) :
    Timed.sampRun tf {} (Timed.mapTL ρ l) ticks = Timed.mapTL ρ (Timed.sampRun tf {} l ticks) :=
  Timed.sample_natural ρ tf l ticks

/-- `window_with_count` / `buffer_with_count`: window `k` of the renamed source holds the renamed contents of
window `k` (how many windows exist and when they close does not depend on the values at all:
`C18.wwc_window_count`, `C18.wwc_closes_at_count`). -/
theorem window_with_count_natural (ρ : α → α') (count skip t0 : Nat) (hc : 0 < count) (hs : 0 < skip)
    (tx : List (Nat × α)) (k : Nat) (hk : k * skip ≤ tx.length) :
    (Win.Cnt.run count skip (Win.Cnt.init t0) (Win.Cnt.nexts (tx.map (fun e => (e.1, ρ e.2))))).b.pushedOf k
      = ((Win.Cnt.run count skip (Win.Cnt.init t0) (Win.Cnt.nexts tx)).b.pushedOf k).map ρ :=
  Win.window_with_count_natural ρ count skip t0 hc hs tx k hk

/-! ## The structural obligation on /repo: no truthiness / `is None` / `or default` / None-sentinel test on a
variable fed from an `on_next` argument (regenerated table `RxGen/OpsTruthiness.lean`, AST scan of
`reactivex/{operators,subject,observable}`), except the reviewed sites below. -/

/-- reviewed sites `(file, function, kind, expression)` with the reason each is not a test on an element's value.
(Empty on the current tree: `pairwise`'s `if pair:` tests a freshly built 2-tuple-or-None, container emptiness tests
such as `while q:` are not element tests; neither is reported by the scan.) -/
def allowedTruthinessSites : List (String × String × String × String) := []

theorem truthiness_sites_reviewed :
    OpsTruthiness.sites.all (fun s => allowedTruthinessSites.contains s) = true := by decide

/-! ## The meta-obligation: no operator model (as fixed) looks at truthiness / `is None` of an element -/

/-- regenerated table: the L1 operator models whose signature mentions `PyVal` — must be empty -/
theorem pyval_models_empty : OpsPyVal.users = [] := by decide

/-- … and the only as-is replica that does is the pinned `skip_last` -/
theorem pyval_asis_only_skip_last : OpsPyVal.asIs = ["skipLastAsIsOp"] := by decide

/-! ## The pinned `skip_last` is not natural: `None` is special to it -/
section AsIs

instance : PyVal (Option Nat) := ⟨fun o => o.isSome, fun o => o.isNone⟩
instance : PyVal Nat := ⟨fun n => n != 0, fun _ => false⟩

/-- renaming `None ↦ 0, k ↦ k+1` (injective) does not commute with the pinned `skip_last(1)` -/
theorem skip_last_asis_not_natural :
    visible ((skipLastAsIsOp (α := Nat) 1).run false
        (mapN (fun o : Option Nat => o.elim 0 (· + 1)) [.next none, .next (some 1), .next none, .completed]))
      ≠ mapN (fun o : Option Nat => o.elim 0 (· + 1))
          (visible ((skipLastAsIsOp (α := Option Nat) 1).run false [.next none, .next (some 1), .next none, .completed])) := by
  decide

end AsIs

/-! ## Non-vacuity: the falsy values themselves, through the fixed operators -/
example : visible ((skipLastOp (α := Option Nat) 1).run false [.next none, .next (some 0), .next none, .completed])
    = [.next none, .next (some 0), .completed] := by decide
example : visible ((distinctOp (fun x : Option Nat => .ok x) (fun a b => .ok (decide (a = b)))).run true
      [.next none, .next (some 0), .next none, .next (some 0), .completed])
    = [.next none, .next (some 0), .completed] := by decide

end C08

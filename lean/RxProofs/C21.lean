import RxProofs.Lemmas.SubjThm
import RxProofs.Lemmas.SubjNat
/-!
# C21 — a BehaviorSubject hands its current value to every new subscriber

Model: `RxModel/Subj.lean` with `kind = .behavior` (the machine of C20 plus `value`, updated under the
lock in `_on_next_core` and delivered inside `_subscribe_core`).  Quantification as in C20: every
configuration reachable by any history and any reaction scripts; any initial value (the model is
polymorphic in the element type, so `None`, `0`, `False`, `''` are just elements).

`lastNext tr <|> v` is the *current value*: the value of the last `on_next` the subject accepted, or
the initial value `v`.
-/

namespace C21
open Subj
variable {α : Type}

/-- The `value` field is the current value in every reachable undisposed configuration. -/
theorem value_is_current {cfg : Cfg} {v : Option α} (hv : InitOK cfg v) (hk : cfg.kind = .behavior)
    {st : St α} {ag : List (Subj.Task α)} (h : Reachable cfg v st ag) (hd : st.disposed = false) :
    st.value = (lastNext st.tr <|> v) :=
  (reachable_vinv hv h).beh hk hd

/-- **behavior_current_first.**  A subscriber arriving (at top level or from inside a callback, also in
the middle of a delivery) while the subject is live is appended to the observers and the *first* thing
it is handed is the current value; from then on it is a member (C20's broadcast theorem, below, applies
to it like to everybody else). -/
theorem behavior_current_first {cfg : Cfg} {v : Option α} (hv : InitOK cfg v) {st : St α} {rest : List (Subj.Task α)}
    (hk : cfg.kind = .behavior) (who : Option Id) (j : Id)
    (h : Reachable cfg v st (.act who (.sub j) :: rest))
    (hs : st.stopped = false) (hd : st.disposed = false) (hj : st.seen j = false) :
    ∃ x, (lastNext st.tr <|> v) = some x ∧
      let r1 := step1 cfg st (.act who (.sub j))
      let r2 := step1 cfg r1.1 (.deliver j (.next x))
      r1.2.1 = [.deliver j (.next x), .finish j (some .inner)] ∧ r1.2.2 = false ∧
      r1.1.observers = st.observers ++ [j] ∧ r1.1.log j = [] ∧
      r2.1.log j = [.next x] ∧ members r2.1.tr = members st.tr ++ [j] ∧ detached j r2.1.tr = false :=
  behavior_subscribe hv hk who j h hs hd hj

/-- **behavior_then_like_subject.**  Otherwise a BehaviorSubject broadcasts like a Subject: audience =
the members at the time of the call; an observer reached by the loop is handed the notification iff it
has not been detached meanwhile; `on_next` also makes the value current (`value_is_current`). -/
theorem behavior_then_like_subject {cfg : Cfg} {v : Option α} {st : St α} {ag : List (Subj.Task α)}
    (hk : cfg.kind = .behavior) (h : Reachable cfg v st ag) :
    (∀ n, st.disposed = false → st.stopped = false →
        (emit cfg st n).2 = (members st.tr).map (Subj.Task.deliver · n)) ∧
    (∀ i n,
      (detached i st.tr = true → deliver cfg st i n = (st, [], false)) ∧
      (detached i st.tr = false →
        (deliver cfg st i n).1.tr = .recv i n :: st.tr ∧
        (deliver cfg st i n).1.log i = if userSees cfg i n then st.log i ++ [n] else st.log i) ∧
      (∀ k, k ≠ i → (deliver cfg st i n).1.log k = st.log k)) :=
  ⟨fun n hd hs => emit_audience h (by simp [hk]) n hd hs, fun i n => deliver_turn h i n⟩

/-- **behavior_late_terminal_only.**  A subscriber arriving after termination is handed only the terminal
notification the subject accepted (not the value), and nothing else ever. -/
theorem behavior_late_terminal_only {cfg : Cfg} {v : Option α} (hv : InitOK cfg v) {st : St α} {rest : List (Subj.Task α)}
    (hk : cfg.kind = .behavior) (who : Option Id) (j : Id)
    (h : Reachable cfg v st (.act who (.sub j) :: rest))
    (hs : st.stopped = true) (hd : st.disposed = false) (hj : st.seen j = false)
    (he : cfg.hasErr j = true ∨ st.exception = none) :
    let r1 := step1 cfg st (.act who (.sub j))
    let r2 := step1 cfg r1.1 (.deliver j (termOf st))
    terminated st.tr = some (termOf st) ∧
    r1.2.1 = [.deliver j (termOf st), .finish j (some .noop)] ∧ r1.2.2 = false ∧ r1.1.log j = [] ∧
    r2.1.log j = [termOf st] ∧
    ∀ st' ag', Reach cfg r2.1 (nextAgenda r2 (.finish j (some .noop) :: rest)) st' ag' → st'.log j = [termOf st] :=
  late_terminal hv (by simp [hk]) who j h hs hd hj he

/-- After `dispose()` a BehaviorSubject behaves as C20's `after_dispose_raises` says. -/
theorem behavior_after_dispose {cfg : Cfg} {st : St α} (hd : st.disposed = true) :
    (∀ n, emit cfg st n = ({ st with raisedNow := some disposedExn }, [])) ∧
    (∀ st' ag' ag, Reach cfg st ag st' ag' → st'.disposed = true) :=
  ⟨(after_dispose (v := none) (rest := []) hd).1, (after_dispose (v := none) (rest := []) hd).2.1⟩

/-- **behavior_natural** (C08 for this subject: no value is special).  Renaming every value of a history (and the
initial value) with an arbitrary function `g` renames the notifications every observer sees and changes nothing
else: same exceptions per call, same exceptions caught by reacting callbacks, same observers.  BehaviorSubject (the initial value is renamed too: `None`, `0`, `False`, `''` included). -/
theorem behavior_natural {β : Type} (cfg : Cfg) (g : α → β) (fuel : Nat) (v : Option α) (calls : List (Call α)) (i : Id) :
    (run cfg fuel (init cfg (v.map g)) (calls.map (Call.map g))).1.log i =
      ((run cfg fuel (init cfg v) calls).1.log i).map (Notif.map g) ∧
    (run cfg fuel (init cfg (v.map g)) (calls.map (Call.map g))).2 = (run cfg fuel (init cfg v) calls).2 ∧
    (run cfg fuel (init cfg (v.map g)) (calls.map (Call.map g))).1.xlog = (run cfg fuel (init cfg v) calls).1.xlog ∧
    (run cfg fuel (init cfg (v.map g)) (calls.map (Call.map g))).1.observers = (run cfg fuel (init cfg v) calls).1.observers :=
  run_natural_log cfg g fuel v calls i

theorem run_reachable (cfg : Cfg) (v : Option α) (fuel : Nat) (calls : List (Call α)) :
    Reachable cfg v (run cfg fuel (init cfg v) calls).1 [] :=
  run_reach fuel calls Reach.init

/-! ### Non-vacuity.  Initial value 0 (falsy); observer 0's first callback (the initial value) subscribes
observer 1 *inside* `_subscribe_core` of 0; observer 2 subscribes from inside the delivery of `5` and
gets `5` exactly once (as current value, not from the running broadcast); 3 arrives after completion. -/
def exCfg : Cfg :=
  { kind := .behavior
    hasErr := fun _ => true
    react := fun i k => if i = 0 ∧ k = 0 then [.sub 1] else if i = 0 ∧ k = 1 then [.sub 2, .unsub 1] else [] }

def exRun := run exCfg 100 (init exCfg (some 0)) [.sub 0, .next 5, .next 6, .completed, .sub 3]

example : exRun.1.log 0 = [.next 0, .next 5, .next 6, .completed] := by decide
example : exRun.1.log 1 = [.next 0] := by decide       -- unsubscribed by 0 during the delivery of 5, before its turn
example : exRun.1.log 2 = [.next 5, .next 6, .completed] := by decide
example : exRun.1.log 3 = [.completed] := by decide
example : exRun.1.oof = false := by decide

end C21

import RxProofs.Lemmas.Thr2Lock
import RxModel.Thr2Merge
/-!
# Lemmas for C43 — guarded finality (programs with atomic steps outside the lock) and `merge_all`

`HQT Q p`: hereditarily, every step of `p` taken from a state satisfying `Q` makes no downstream call and
keeps `Q`.  `EMT Q c p`: hereditarily, every step of `p` that makes the call `c` lands in a state satisfying
`Q`.  Both are properties of the program text (they quantify over all states at every continuation), so they
are preserved by every step of the interleaving semantics without any bookkeeping of thread shapes, whatever
the program mixes: locked blocks, atomic steps outside the lock, unlocked calls.
-/

set_option linter.unusedSimpArgs false

namespace Thr2

variable {σ α : Type}

inductive HQ (Q : σ → Prop) : Prog σ α → Prop
  | done : HQ Q .done
  | step {u o n} : (∀ s, Q s → o s = none ∧ Q (u s)) → (∀ s, HQ Q (n s)) → HQ Q (.step u o n)

inductive HQT (Q : σ → Prop) : TProg σ α → Prop
  | halt : HQT Q .halt
  | free {u n} : (∀ s, Q s → Q (u s)) → (∀ s, HQT Q (n s)) → HQT Q (.free u n)
  | crit {b k} : HQ Q b → HQT Q k → HQT Q (.crit b k)
  | ucall {o k} : (∀ s, Q s → o s = none) → HQT Q k → HQT Q (.ucall o k)

inductive EM (Q : σ → Prop) (c : Notif α) : Prog σ α → Prop
  | done : EM Q c .done
  | step {u o n} : (∀ s, o s = some c → Q (u s)) → (∀ s, EM Q c (n s)) → EM Q c (.step u o n)

inductive EMT (Q : σ → Prop) (c : Notif α) : TProg σ α → Prop
  | halt : EMT Q c .halt
  | free {u n} : (∀ s, EMT Q c (n s)) → EMT Q c (.free u n)
  | crit {b k} : EM Q c b → EMT Q c k → EMT Q c (.crit b k)
  | ucall {o k} : (∀ s, o s = some c → Q s) → EMT Q c k → EMT Q c (.ucall o k)

/-- both properties for the local state of a thread -/
def GTS (Q : σ → Prop) (c : Notif α) : TS σ α → Prop
  | .run p => HQT Q p ∧ EMT Q c p
  | .crit b k | .critChk _ b k | .critIn b k => (HQ Q b ∧ EM Q c b) ∧ (HQT Q k ∧ EMT Q c k)
  | .uChk _ k | .uIn k => HQT Q k ∧ EMT Q c k

/-- `c` occurs at most once in `l`, as its last element -/
def Final (c : Notif α) (l : List (Notif α)) : Prop := ∀ pre post, l = pre ++ c :: post → post = []

theorem final_snoc (c x : Notif α) (l : List (Notif α)) (hc : c ∉ l) : Final c (l ++ [x]) := by
  intro pre post h
  induction l generalizing pre with
  | nil =>
    cases pre with
    | nil => simp at h; exact h.2
    | cons a pre => simp at h
  | cons a l ih =>
    cases pre with
    | nil =>
      simp only [List.cons_append, List.nil_append, List.cons.injEq] at h
      exact absurd (h.1 ▸ List.mem_cons_self) hc
    | cons b pre =>
      simp only [List.cons_append, List.cons.injEq] at h
      exact ih (fun hm => hc (List.mem_cons_of_mem _ hm)) pre h.2

/-- invariant of guarded finality -/
def FInv (Q : σ → Prop) (c : Notif α) (S : Sys σ α) : Prop :=
  (∀ j, GTS Q c (S.thr j)) ∧ (c ∈ S.calls → Q S.st) ∧ Final c S.calls

theorem init_FInv (Q : σ → Prop) (c : Notif α) (s0 : σ) (progs : Nat → TProg σ α)
    (h1 : ∀ i, HQT Q (progs i)) (h2 : ∀ i, EMT Q c (progs i)) : FInv Q c (init s0 progs) := by
  refine ⟨fun j => ⟨h1 j, h2 j⟩, fun h => by simp [init] at h, ?_⟩
  intro pre post h
  simp [init] at h

theorem step_FInv (Q : σ → Prop) (c : Notif α) (S S' : Sys σ α) (i : Nat) (hI : FInv Q c S)
    (hs : step S i = some S') : FInv Q c S' := by
  obtain ⟨hG, hQ, hF⟩ := hI
  have hGi := hG i
  -- a step that changes neither the shared state nor the calls
  have quiet : ∀ (t' : TS σ α) (S'' : Sys σ α), S''.thr = upd S.thr i t' → S''.st = S.st → S''.calls = S.calls →
      GTS Q c t' → FInv Q c S'' := by
    intro t' S'' ht hst hcl hg
    refine ⟨fun j => ?_, by rw [hcl, hst]; exact hQ, by rw [hcl]; exact hF⟩
    by_cases hji : j = i
    · subst hji; rw [ht]; simpa using hg
    · rw [ht, upd_other _ _ _ _ hji]; exact hG j
  -- a step that updates the state by `u` without calling
  have silent : ∀ (u : σ → σ) (t' : TS σ α) (S'' : Sys σ α), S''.thr = upd S.thr i t' → S''.st = u S.st →
      S''.calls = S.calls → (Q S.st → Q (u S.st)) → GTS Q c t' → FInv Q c S'' := by
    intro u t' S'' ht hst hcl hq hg
    refine ⟨fun j => ?_, by rw [hcl, hst]; exact fun h => hq (hQ h), by rw [hcl]; exact hF⟩
    by_cases hji : j = i
    · subst hji; rw [ht]; simpa using hg
    · rw [ht, upd_other _ _ _ _ hji]; exact hG j
  -- a step that makes the call `x` (allowed only while `c` has not been called) and moves to state `st'`
  have call : ∀ (x : Notif α) (st' : σ) (t' : TS σ α) (S'' : Sys σ α), S''.thr = upd S.thr i t' → S''.st = st' →
      S''.calls = S.calls ++ [x] → (Q S.st → False) → (x = c → Q st') → GTS Q c t' → FInv Q c S'' := by
    intro x st' t' S'' ht hst hcl hnq hxc hg
    have hcn : c ∉ S.calls := fun h => hnq (hQ h)
    refine ⟨fun j => ?_, ?_, by rw [hcl]; exact final_snoc c x _ hcn⟩
    · by_cases hji : j = i
      · subst hji; rw [ht]; simpa using hg
      · rw [ht, upd_other _ _ _ _ hji]; exact hG j
    · rw [hcl, hst]
      intro hm
      rcases List.mem_append.1 hm with h | h
      · exact absurd h hcn
      · simp at h; exact hxc h.symm
  unfold step at hs
  split at hs
  · cases hs
  · next u n h =>
    cases hs
    rw [h] at hGi
    obtain ⟨hq, he⟩ := hGi
    cases hq with | free hq1 hq2 =>
    cases he with | free he1 =>
    exact silent u (.run (n S.st)) _ rfl rfl rfl (hq1 _) ⟨hq2 _, he1 _⟩
  · next b k h =>
    split at hs
    · cases hs
      rw [h] at hGi
      obtain ⟨hq, he⟩ := hGi
      cases hq with | crit hq1 hq2 =>
      cases he with | crit he1 he2 =>
      exact quiet (.crit b k) _ rfl rfl rfl ⟨⟨hq1, he1⟩, hq2, he2⟩
    · cases hs
  · next o k h =>
    rw [h] at hGi
    obtain ⟨hq, he⟩ := hGi
    cases hq with | ucall hq1 hq2 =>
    cases he with | ucall he1 he2 =>
    split at hs
    · cases hs
      exact quiet (.run k) _ rfl rfl rfl ⟨hq2, he2⟩
    · next x hx =>
      cases hs
      have hnq : Q S.st → False := fun hq => by rw [hq1 _ hq] at hx; cases hx
      cases hst : S.stopped
      · exact call x S.st (.uChk x k) _ (by simp [Sys.callStep, hst]) (by simp [Sys.callStep, hst])
          (by simp [Sys.callStep, hst]) hnq (fun hxc => he1 _ (hxc ▸ hx)) ⟨hq2, he2⟩
      · exact call x S.st (.run k) _ (by simp [Sys.callStep, hst]) (by simp [Sys.callStep, hst])
          (by simp [Sys.callStep, hst]) hnq (fun hxc => he1 _ (hxc ▸ hx)) ⟨hq2, he2⟩
  · next x k h =>
    cases hs
    rw [h] at hGi
    exact quiet (.uIn k) _ rfl rfl rfl hGi
  · next k h =>
    cases hs
    rw [h] at hGi
    exact quiet (.run k) _ rfl rfl rfl hGi
  · next k h =>
    cases hs
    rw [h] at hGi
    exact quiet (.run k) _ rfl rfl rfl hGi.2
  · next u o n k h =>
    rw [h] at hGi
    obtain ⟨⟨hq, he⟩, hk⟩ := hGi
    cases hq with | step hq1 hq2 =>
    cases he with | step he1 he2 =>
    split at hs
    · cases hs
      exact silent u (.crit (n S.st) k) _ rfl rfl rfl (fun hq => (hq1 _ hq).2) ⟨⟨hq2 _, he2 _⟩, hk⟩
    · next x hx =>
      cases hs
      have hnq : Q S.st → False := fun hq => by rw [(hq1 _ hq).1] at hx; cases hx
      cases hst : S.stopped
      · exact call x (u S.st) (.critChk x (n S.st) k) _ (by simp [Sys.callStep, hst]) (by simp [Sys.callStep, hst])
          (by simp [Sys.callStep, hst]) hnq (fun hxc => he1 _ (hxc ▸ hx)) ⟨⟨hq2 _, he2 _⟩, hk⟩
      · exact call x (u S.st) (.crit (n S.st) k) _ (by simp [Sys.callStep, hst]) (by simp [Sys.callStep, hst])
          (by simp [Sys.callStep, hst]) hnq (fun hxc => he1 _ (hxc ▸ hx)) ⟨⟨hq2 _, he2 _⟩, hk⟩
  · next x b k h =>
    cases hs
    rw [h] at hGi
    exact quiet (.critIn b k) _ rfl rfl rfl hGi
  · next b k h =>
    cases hs
    rw [h] at hGi
    exact quiet (.crit b k) _ rfl rfl rfl hGi

/-! ### merge_all -/

/-- "the merge is over": the outer completed and no inner subscription is left in the group -/
def mDone (s : MS) : Prop := s.oc = true ∧ s.live = []

theorem mDone_inactive (s : MS) (h : mDone s) (k : Nat) : s.active k = false := by
  simp [MS.active, h.2]

theorem hq_innerHandler (k : Nat) (n : Notif α) : HQ mDone (innerHandler k n) := by
  cases n with
  | next v =>
    refine .step (fun s hs => ⟨by simp [mDone_inactive s hs k], hs⟩) (fun _ => .done)
  | error e =>
    refine .step (fun s hs => ⟨by simp [mDone_inactive s hs k], by simpa [mDone_inactive s hs k] using hs⟩) (fun _ => .done)
  | completed =>
    refine .step (fun s hs => ⟨by simp [mDone_inactive s hs k], by simpa [mDone_inactive s hs k] using hs⟩) (fun _ => .done)

theorem em_innerHandler (k : Nat) (n : Notif α) : EM mDone (.completed : Notif α) (innerHandler k n) := by
  cases n with
  | next v =>
    refine .step (fun s h => ?_) (fun _ => .done)
    by_cases ha : s.active k <;> simp [ha] at h
  | error e =>
    refine .step (fun s h => ?_) (fun _ => .done)
    by_cases ha : s.active k <;> simp [ha] at h
  | completed =>
    refine .step (fun s h => ?_) (fun _ => .done)
    by_cases hc : (s.active k && s.oc && (s.live.erase k).isEmpty) = true
    · simp only [Bool.and_eq_true] at hc
      obtain ⟨⟨ha, hoc⟩, hemp⟩ := hc
      simp only [ha, if_true]
      exact ⟨hoc, by simpa using hemp⟩
    · simp [hc] at h

theorem snap_mDone {α} (k : Nat) (n : Notif α) (s : MS) (h : mDone s) : mDone (snap k n s) := by
  unfold snap
  split
  · exact h
  · cases n <;> simp only <;> (try split) <;> exact ⟨h.1, h.2⟩

theorem hqt_innerProg (k : Nat) (ns : List (Notif α)) : HQT mDone (innerProg k ns) := by
  induction ns with
  | nil => exact .halt
  | cons n ns ih =>
    refine .free (fun s hs => snap_mDone k n s hs) (fun s => ?_)
    split
    · exact ih
    · split
      · exact .crit (hq_innerHandler k n) ih
      · exact ih

theorem emt_innerProg (k : Nat) (ns : List (Notif α)) : EMT mDone (.completed : Notif α) (innerProg k ns) := by
  induction ns with
  | nil => exact .halt
  | cons n ns ih =>
    refine .free (fun s => ?_)
    split
    · exact ih
    · split
      · exact .crit (em_innerHandler k n) ih
      · exact ih

theorem hqt_outerProg (es : List OEv) : HQT mDone (outerProg es : TProg MS α) := by
  induction es with
  | nil => exact .halt
  | cons e es ih =>
    cases e with
    | inner k =>
      refine .free (fun s hs => ?_) (fun s => ?_)
      · have : s.closed = true := by simp [MS.closed, hs.1]
        simpa [mAdd, this] using hs
      · split
        · exact ih
        · split
          · exact .crit (hq_innerHandler k _) ih
          · exact ih
    | err e =>
      refine .crit (.step (fun s hs => ⟨?_, ?_⟩) (fun _ => .done)) ih
      · simp [MS.closed, hs.1]
      · exact ⟨hs.1, hs.2⟩
    | comp =>
      refine .crit (.step (fun s hs => ⟨?_, ?_⟩) (fun _ => .done)) ih
      · simp [MS.closed, hs.1]
      · have : s.closed = true := by simp [MS.closed, hs.1]
        simpa [this] using hs

theorem emt_outerProg (es : List OEv) : EMT mDone (.completed : Notif α) (outerProg es : TProg MS α) := by
  induction es with
  | nil => exact .halt
  | cons e es ih =>
    cases e with
    | inner k =>
      refine .free (fun s => ?_)
      split
      · exact ih
      · split
        · exact .crit (em_innerHandler k _) ih
        · exact ih
    | err e =>
      refine .crit (.step (fun s h => ?_) (fun _ => .done)) ih
      by_cases hc : s.closed <;> simp [hc] at h
    | comp =>
      refine .crit (.step (fun s h => ?_) (fun _ => .done)) ih
      by_cases hc : s.closed = true
      · simp [hc] at h
      · by_cases hl : s.live.isEmpty = true
        · simp only [hc, if_false]
          exact ⟨rfl, by simpa using hl⟩
        · simp [hc, hl] at h

theorem noUCall_innerProg (k : Nat) (ns : List (Notif α)) : NoUCall (innerProg k ns) := by
  induction ns with
  | nil => exact .halt
  | cons n ns ih =>
    refine .free (fun s => ?_)
    split
    · exact ih
    · split
      · exact .crit ih
      · exact ih

theorem noUCall_outerProg (es : List OEv) : NoUCall (outerProg es : TProg MS α) := by
  induction es with
  | nil => exact .halt
  | cons e es ih =>
    cases e with
    | inner k =>
      refine .free (fun s => ?_)
      split
      · exact ih
      · split
        · exact .crit ih
        · exact ih
    | err e => exact .crit ih
    | comp => exact .crit ih

end Thr2

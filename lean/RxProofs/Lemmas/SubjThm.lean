import RxProofs.Lemmas.SubjLog
/-!
# Kind-generic statements behind C20 / C21 / C23
-/

namespace Subj
variable {α : Type}

/-- When the delivery loop reaches observer `i`: handed on iff not detached; nobody else's log touched. -/
theorem deliver_turn {cfg : Cfg} {v : Option α} {st : St α} {ag : List (Task α)} (h : Reachable cfg v st ag)
    (i : Id) (n : Notif α) :
    (detached i st.tr = true → deliver cfg st i n = (st, [], false)) ∧
    (detached i st.tr = false →
      (deliver cfg st i n).1.tr = .recv i n :: st.tr ∧
      (deliver cfg st i n).1.log i = if userSees cfg i n then st.log i ++ [n] else st.log i) ∧
    (∀ k, k ≠ i → (deliver cfg st i n).1.log k = st.log k) := by
  have hI := (reachable_inv h).1
  have hdet := hI.det i
  refine ⟨?_, ?_, ?_⟩
  · intro hd
    simp [deliver, hdet, hd]
  · intro hd
    rw [hd] at hdet
    cases n with
    | next x => simp [deliver, hdet, callback, userSees]
    | completed => simp [deliver, hdet, callback, userSees]
    | error e =>
      by_cases he : cfg.hasErr i = true
      · simp [deliver, hdet, callback, userSees, he]
      · simp only [deliver, hdet, Bool.false_eq_true, if_false, he, userSees]
        unfold sadDispose innerDispose
        dsimp only
        repeat' split
        all_goals simp
  · intro k hk
    unfold deliver callback sadDispose innerDispose
    dsimp only
    repeat' split
    all_goals simp [hk]

/-- Subject / BehaviorSubject: an accepted notification is queued for exactly the current members. -/
theorem emit_audience {cfg : Cfg} {v : Option α} {st : St α} {ag : List (Task α)} (h : Reachable cfg v st ag)
    (hk : cfg.kind ≠ .async) (n : Notif α) (hd : st.disposed = false) (hs : st.stopped = false) :
    (emit cfg st n).2 = (members st.tr).map (Task.deliver · n) := by
  have hI := (reachable_inv h).1
  rw [← hI.mem]
  cases hkk : cfg.kind <;> cases n <;> simp_all [emit]

theorem detached_silent {cfg : Cfg} {v : Option α} {st st' : St α} {ag ag' : List (Task α)}
    (h : Reachable cfg v st ag) (h' : Reach cfg st ag st' ag') (j : Id) (hs : detached j st.tr = true) :
    st'.log j = st.log j := by
  have hI := reachable_inv h
  exact (reach_silent hI.1 hI.2 h' j (by rw [hI.1.det j, hs])).1

/-- Late subscription to a terminated, undisposed Subject / BehaviorSubject (and AsyncSubject without value
or terminated by an error). -/
theorem late_terminal {cfg : Cfg} {v : Option α} (hv : InitOK cfg v) {st : St α} {rest : List (Task α)}
    (hk : cfg.kind = .async → st.hasValue = false ∨ st.exception ≠ none) (who : Option Id) (j : Id)
    (h : Reachable cfg v st (.act who (.sub j) :: rest))
    (hs : st.stopped = true) (hd : st.disposed = false) (hj : st.seen j = false)
    (he : cfg.hasErr j = true ∨ st.exception = none) :
    let r1 := step1 cfg st (.act who (.sub j))
    let r2 := step1 cfg r1.1 (.deliver j (termOf st))
    terminated st.tr = some (termOf st) ∧
    r1.2.1 = [.deliver j (termOf st), .finish j (some .noop)] ∧ r1.2.2 = false ∧ r1.1.log j = [] ∧
    r2.1.log j = [termOf st] ∧
    ∀ st' ag', Reach cfg r2.1 (nextAgenda r2 (.finish j (some .noop) :: rest)) st' ag' → st'.log j = [termOf st] := by
  intro r1 r2
  have hI := (reachable_inv h).1
  have hV := reachable_vinv hv h
  have hf := hI.fresh j hj
  have hterm := (hV.term hd).1 hs
  have hr1 : r1 = ({ st with seen := upd st.seen j true }, [.deliver j (termOf st), .finish j (some .noop)], false) := by
    simp only [r1, step1, doSub, hj, hd, hs, termOf]
    cases hx : st.exception with
    | some e =>
      have : cfg.hasErr j = true := by simpa [hx] using he
      simp [this]
    | none =>
      cases hkk : cfg.kind with
      | async =>
        have := hk hkk
        simp [hx] at this
        simp [this]
      | subject => simp
      | behavior => simp
  have hstep1 : Reachable cfg v r1.1 (nextAgenda r1 rest) := h.step
  have hr1a : nextAgenda r1 rest = .deliver j (termOf st) :: .finish j (some .noop) :: rest := by
    simp [hr1, nextAgenda]
  rw [hr1a] at hstep1
  have hstep2 : Reachable cfg v r2.1 (nextAgenda r2 (.finish j (some .noop) :: rest)) := hstep1.step
  have hsee : userSees cfg j (termOf st) = true := by
    unfold userSees termOf
    rcases he with he | he
    · cases st.exception <;> simp [he]
    · simp [he]
  have hr2log : r2.1.log j = [termOf st] ∧ r2.1.adoStopped j = true := by
    have hlog1 : r1.1.log j = [] := by rw [hr1]; exact hf.2.2.2.2
    have hst1 : r1.1.adoStopped j = false := by rw [hr1]; exact hf.1
    simp only [r2]
    unfold termOf at hsee ⊢
    cases hx : st.exception with
    | none => simp [step1, deliver, hst1, callback, hlog1]
    | some e =>
      have : cfg.hasErr j = true := by simpa [hx, userSees] using hsee
      simp [step1, deliver, hst1, callback, hlog1, this]
  refine ⟨hterm, by rw [hr1], by rw [hr1], by rw [hr1]; exact hf.2.2.2.2, hr2log.1, ?_⟩
  intro st' ag' hreach
  have hI2 := reachable_inv hstep2
  have := reach_silent hI2.1 hI2.2 hreach j hr2log.2
  rw [this.1, hr2log.1]

theorem late_handlerless {cfg : Cfg} {v : Option α} {st : St α} {rest : List (Task α)}
    (who : Option Id) (j : Id) (e : Err)
    (h : Reachable cfg v st (.act who (.sub j) :: rest))
    (hs : st.stopped = true) (hd : st.disposed = false) (hj : st.seen j = false)
    (he : cfg.hasErr j = false) (hx : st.exception = some e) :
    let r1 := step1 cfg st (.act who (.sub j))
    r1.2.1 = [] ∧ r1.1.log j = [] ∧
    (who = none → r1.1.raisedNow = some e) ∧ (∀ i, who = some i → r1.1.xlog = st.xlog ++ [(i, e)]) ∧
    ∀ st' ag', Reach cfg r1.1 (nextAgenda r1 rest) st' ag' → st'.log j = [] := by
  intro r1
  have hI := (reachable_inv h).1
  have hf := hI.fresh j hj
  have hlog : r1.1.log j = [] := by
    cases who <;> simp [r1, step1, doSub, hj, hd, hs, hx, he, raiseTo, hf.2.2.2.2]
  have hstop : r1.1.adoStopped j = true := by
    cases who <;> simp [r1, step1, doSub, hj, hd, hs, hx, he, raiseTo]
  refine ⟨by simp [r1, step1, doSub, hj, hd, hs, hx, he], hlog, ?_, ?_, ?_⟩
  · intro hw; subst hw; simp [r1, step1, doSub, hj, hd, hs, hx, he, raiseTo]
  · intro i hw; subst hw; simp [r1, step1, doSub, hj, hd, hs, hx, he, raiseTo]
  · intro st' ag' hreach
    have hI2 := reachable_inv (h.step)
    have := reach_silent hI2.1 hI2.2 hreach j hstop
    rw [this.1, hlog]

theorem after_dispose {cfg : Cfg} {v : Option α} {st : St α} {rest : List (Task α)} (hd : st.disposed = true) :
    (∀ n, emit cfg st n = ({ st with raisedNow := some disposedExn }, [])) ∧
    (∀ st' ag' ag, Reach cfg st ag st' ag' → st'.disposed = true) ∧
    (∀ who j, Reachable cfg v st (.act who (.sub j) :: rest) → st.seen j = false → cfg.hasErr j = true →
      let r1 := step1 cfg st (.act who (.sub j))
      r1.1.log j = [.error disposedExn] ∧ r1.1.raisedNow = st.raisedNow ∧ r1.1.xlog = st.xlog ∧
      ∀ st' ag', Reach cfg r1.1 (nextAgenda r1 rest) st' ag' → st'.log j = [.error disposedExn]) ∧
    (∀ who j, Reachable cfg v st (.act who (.sub j) :: rest) → st.seen j = false → cfg.hasErr j = false →
      let r1 := step1 cfg st (.act who (.sub j))
      r1.2.1 = [] ∧ r1.1.log j = [] ∧
      (who = none → r1.1.raisedNow = some disposedExn) ∧ (∀ i, who = some i → r1.1.xlog = st.xlog ++ [(i, disposedExn)]) ∧
      ∀ st' ag', Reach cfg r1.1 (nextAgenda r1 rest) st' ag' → st'.log j = []) := by
  refine ⟨?_, ?_, ?_, ?_⟩
  · intro n; simp [emit, hd]
  · intro st' ag' ag hr; exact reach_disposed hr hd
  · intro who j h hj he r1
    have hI := (reachable_inv h).1
    have hf := hI.fresh j hj
    have hr1 : r1.1 = callback { st with seen := upd st.seen j true, adoStopped := upd st.adoStopped j true } j (.error disposedExn) := by
      simp [r1, step1, doSub, hj, hd, he]
    have hlog : r1.1.log j = [.error disposedExn] := by rw [hr1]; simp [callback, hf.2.2.2.2]
    have hstop : r1.1.adoStopped j = true := by rw [hr1]; simp [callback]
    refine ⟨hlog, by rw [hr1]; simp [callback], by rw [hr1]; simp [callback], ?_⟩
    intro st' ag' hreach
    have hI2 := reachable_inv (h.step)
    have := reach_silent hI2.1 hI2.2 hreach j hstop
    rw [this.1, hlog]
  · intro who j h hj he r1
    have hI := (reachable_inv h).1
    have hf := hI.fresh j hj
    have hlog : r1.1.log j = [] := by
      cases who <;> simp [r1, step1, doSub, hj, hd, he, raiseTo, hf.2.2.2.2]
    have hstop : r1.1.adoStopped j = true := by
      cases who <;> simp [r1, step1, doSub, hj, hd, he, raiseTo]
    refine ⟨by simp [r1, step1, doSub, hj, hd, he], hlog, ?_, ?_, ?_⟩
    · intro hw; subst hw; simp [r1, step1, doSub, hj, hd, he, raiseTo]
    · intro i hw; subst hw; simp [r1, step1, doSub, hj, hd, he, raiseTo]
    · intro st' ag' hreach
      have hI2 := reachable_inv (h.step)
      have := reach_silent hI2.1 hI2.2 hreach j hstop
      rw [this.1, hlog]

end Subj

namespace Subj
variable {α : Type}

/-! ## BehaviorSubject -/

/-- Subscribing to a live BehaviorSubject: appended to the observers, handed the current value first. -/
theorem behavior_subscribe {cfg : Cfg} {v : Option α} (hv : InitOK cfg v) {st : St α} {rest : List (Task α)}
    (hk : cfg.kind = .behavior) (who : Option Id) (j : Id)
    (h : Reachable cfg v st (.act who (.sub j) :: rest))
    (hs : st.stopped = false) (hd : st.disposed = false) (hj : st.seen j = false) :
    ∃ x, (lastNext st.tr <|> v) = some x ∧
      let r1 := step1 cfg st (.act who (.sub j))
      let r2 := step1 cfg r1.1 (.deliver j (.next x))
      r1.2.1 = [.deliver j (.next x), .finish j (some .inner)] ∧ r1.2.2 = false ∧
      r1.1.observers = st.observers ++ [j] ∧ r1.1.log j = [] ∧
      r2.1.log j = [.next x] ∧ members r2.1.tr = members st.tr ++ [j] ∧ detached j r2.1.tr = false := by
  have hI := (reachable_inv h).1
  have hV := reachable_vinv hv h
  have hf := hI.fresh j hj
  have hval := hV.beh hk hd
  have hsome : ∃ x, (lastNext st.tr <|> v) = some x := by
    have : v.isSome = true := by simpa [InitOK, hk] using hv
    cases hl : lastNext st.tr with
    | some y => exact ⟨y, by simp⟩
    | none =>
      obtain ⟨y, hy⟩ := Option.isSome_iff_exists.mp this
      exact ⟨y, by simp [hy]⟩
  obtain ⟨x, hx⟩ := hsome
  refine ⟨x, hx, ?_⟩
  rw [hx] at hval
  intro r1 r2
  have hdet : detached j st.tr = false := by rw [← hI.det j]; exact hf.1
  have hr1 : r1 = ({ st with seen := upd st.seen j true, observers := st.observers ++ [j], tr := .sub j :: st.tr },
      [.deliver j (.next x), .finish j (some .inner)], false) := by
    simp [r1, step1, doSub, hj, hd, hs, hk, hval]
  have hst1 : r1.1.adoStopped j = false := by rw [hr1]; exact hf.1
  have hlog1 : r1.1.log j = [] := by rw [hr1]; exact hf.2.2.2.2
  refine ⟨by rw [hr1], by rw [hr1], by rw [hr1], hlog1, ?_, ?_, ?_⟩
  · simp [r2, step1, deliver, hst1, callback, hlog1]
  · simp only [r2, step1, deliver, hst1, callback]
    rw [hr1]
    simp [members]
  · simp only [r2, step1, deliver, hst1, callback]
    rw [hr1]
    simp [detached, Notif.isTerminal, hdet]

/-! ## AsyncSubject -/

def Task.isDeliver : Task α → Bool
  | .deliver _ _ => true
  | _ => false

/-- Before an AsyncSubject terminates (or is disposed) nobody has been handed anything and no
delivery is pending. -/
theorem async_quiet {cfg : Cfg} {v : Option α} {st : St α} {ag : List (Task α)} (hk : cfg.kind = .async)
    (h : Reachable cfg v st ag) (hs : st.stopped = false) :
    (∀ i, recvs i st.tr = []) ∧ ∀ t ∈ ag, Task.isDeliver t = false := by
  induction h with
  | init => exact ⟨fun i => by simp [init, hk, recvs], by simp⟩
  | call c _ ih =>
    refine ⟨(ih hs).1, ?_⟩
    intro t ht
    simp only [List.mem_singleton] at ht
    subst ht
    cases c <;> rfl
  | @step st t ts hr ih =>
    have hs0 : st.stopped = false := by
      have := (step1_inv cfg (reachable_inv hr).1 ((reachable_inv hr).2 t (by simp))).2.2.2
      cases hst : st.stopped with
      | false => rfl
      | true => rw [this hst] at hs; exact absurd hs (by simp)
    have ih := ih hs0
    have hnd : Task.isDeliver t = false := ih.2 t (by simp)
    have hrest : ∀ t' ∈ ts, Task.isDeliver t' = false := fun t' ht' => ih.2 t' (by simp [ht'])
    have hd0 : st.disposed = false := by
      have := (reachable_inv hr).1.dispStop
      cases hdd : st.disposed with
      | false => rfl
      | true => rw [this hdd] at hs0; exact absurd hs0 (by simp)
    cases t with
    | deliver i n => simp [Task.isDeliver] at hnd
    | emit n =>
      cases n with
      | next x =>
        refine ⟨?_, ?_⟩
        · intro i; simpa [step1, emit, hd0, hs0, hk, recvs] using ih.1 i
        · intro t' ht'
          simp [step1, emit, hd0, hs0, hk, nextAgenda] at ht'
          exact hrest t' ht'
      | error e => simp [step1, emit, hd0, hs0] at hs
      | completed =>
        exfalso
        have : (step1 cfg st (.emit .completed)).1.stopped = true := by
          simp only [step1, emit, hd0, hs0]
          simp only [Bool.false_eq_true, if_false]
          split <;> rfl
        rw [this] at hs
        exact absurd hs (by simp)
    | act who a =>
      cases a with
      | sub j =>
        by_cases hj : st.seen j = true
        · refine ⟨?_, ?_⟩
          · intro i; simpa [step1, doSub, hj] using ih.1 i
          · intro t' ht'
            simp [step1, doSub, hj, nextAgenda] at ht'
            exact hrest t' ht'
        · have hj : st.seen j = false := by simpa using hj
          refine ⟨?_, ?_⟩
          · intro i; simpa [step1, doSub, hj, hd0, hs0, hk, recvs] using ih.1 i
          · intro t' ht'
            simp [step1, doSub, hj, hd0, hs0, hk, nextAgenda] at ht'
            rcases ht' with rfl | ht'
            · rfl
            · exact hrest t' ht'
      | unsub j =>
        refine ⟨?_, ?_⟩
        · intro i
          have : (doUnsub st j).tr = st.tr ∨ (doUnsub st j).tr = .unsub j :: st.tr := by
            unfold doUnsub adoDispose sadDispose innerDispose
            dsimp only
            repeat' split
            all_goals simp
          rcases this with h | h <;> simp [step1, h, recvs, ih.1 i]
        · intro t' ht'
          simp [step1, nextAgenda] at ht'
          exact hrest t' ht'
      | dispose => simp [step1, subjDispose] at hs
    | finish j hh =>
      refine ⟨?_, ?_⟩
      · intro i
        have : (finish st j hh).tr = st.tr := by
          unfold finish innerDispose
          dsimp only
          repeat' split
          all_goals simp
        simp [step1, this, ih.1 i]
      · intro t' ht'
        simp [step1, nextAgenda] at ht'
        exact hrest t' ht'
    | sadDispose i' =>
      refine ⟨?_, ?_⟩
      · intro i
        have : (sadDispose st i').tr = st.tr := by
          unfold sadDispose innerDispose
          dsimp only
          repeat' split
          all_goals simp
        simp [step1, this, ih.1 i]
      · intro t' ht'
        simp [step1, nextAgenda] at ht'
        exact hrest t' ht'
  | oof _ ih => exact ⟨(ih hs).1, by simp⟩

/-- What an AsyncSubject queues when it accepts `on_completed` / `on_error`. -/
theorem async_emit_terminal {cfg : Cfg} {v : Option α} (hv : InitOK cfg v) {st : St α} {ag : List (Task α)}
    (hk : cfg.kind = .async) (h : Reachable cfg v st ag) (hd : st.disposed = false) (hs : st.stopped = false) :
    (∀ x, lastNext st.tr = some x →
      (emit cfg st .completed).2 =
        (members st.tr).flatMap fun i => [Task.deliver i (.next x), Task.deliver i .completed]) ∧
    (lastNext st.tr = none → (emit cfg st .completed).2 = (members st.tr).map (Task.deliver · .completed)) ∧
    (∀ e, (emit cfg st (.error e)).2 = (members st.tr).map (Task.deliver · (.error e))) ∧
    (∀ x, (emit cfg st (.next x)).2 = []) := by
  have hI := (reachable_inv h).1
  have hV := reachable_vinv hv h
  have ha := hV.asy hk hd
  rw [← hI.mem]
  refine ⟨?_, ?_, ?_, ?_⟩
  · intro x hx
    have h1 : st.value = some x := by rw [ha.1, hx]
    have h2 : st.hasValue = true := by rw [ha.2, hx]; rfl
    simp [emit, hd, hs, hk, h1, h2]
  · intro hx
    have h2 : st.hasValue = false := by rw [ha.2, hx]; rfl
    simp [emit, hd, hs, hk, h2]
  · intro e; simp [emit, hd, hs]
  · intro x; simp [emit, hd, hs, hk]

/-- Late subscription to a completed AsyncSubject that has a value: the value, then completion, then nothing. -/
theorem async_late_value {cfg : Cfg} {v : Option α} (hv : InitOK cfg v) {st : St α} {rest : List (Task α)}
    (hk : cfg.kind = .async) (who : Option Id) (j : Id) (x : α)
    (h : Reachable cfg v st (.act who (.sub j) :: rest))
    (hs : st.stopped = true) (hd : st.disposed = false) (hj : st.seen j = false)
    (hx : lastNext st.tr = some x) (hc : terminated st.tr = some .completed) :
    let r1 := step1 cfg st (.act who (.sub j))
    let r2 := step1 cfg r1.1 (.deliver j (.next x))
    r1.2.1 = [.deliver j (.next x), .deliver j .completed, .finish j (some .noop)] ∧ r1.2.2 = false ∧
    r1.1.log j = [] ∧ r2.1.log j = [.next x] ∧
    Reachable cfg v r2.1 (nextAgenda r2 (.deliver j .completed :: .finish j (some .noop) :: rest)) := by
  intro r1 r2
  have hI := (reachable_inv h).1
  have hV := reachable_vinv hv h
  have hf := hI.fresh j hj
  have ha := hV.asy hk hd
  have hterm := (hV.term hd).1 hs
  have hexc : st.exception = none := by
    rw [hc] at hterm
    unfold termOf at hterm
    cases hxx : st.exception with
    | none => rfl
    | some e => simp [hxx] at hterm
  have h1 : st.value = some x := by rw [ha.1, hx]
  have h2 : st.hasValue = true := by rw [ha.2, hx]; rfl
  have hr1 : r1 = ({ st with seen := upd st.seen j true },
      [.deliver j (.next x), .deliver j .completed, .finish j (some .noop)], false) := by
    simp [r1, step1, doSub, hj, hd, hs, hexc, hk, h1, h2]
  have hst1 : r1.1.adoStopped j = false := by rw [hr1]; exact hf.1
  have hlog1 : r1.1.log j = [] := by rw [hr1]; exact hf.2.2.2.2
  have hlog2 : r2.1.log j = [.next x] := by simp [r2, step1, deliver, hst1, callback, hlog1]
  have hstep1 : Reachable cfg v r1.1 (nextAgenda r1 rest) := h.step
  have hr1a : nextAgenda r1 rest = .deliver j (.next x) :: .deliver j .completed :: .finish j (some .noop) :: rest := by
    simp [hr1, nextAgenda]
  rw [hr1a] at hstep1
  exact ⟨by rw [hr1], by rw [hr1], hlog1, hlog2, hstep1.step⟩

end Subj

import RxModel.AggBase
/-!
# Lemmas about the handler framework: the step machine equals `cut ∘ feed ∘ cut`, composition,
prefix-monotonicity, timing.
-/

namespace Agg

@[simp] theorem deliver_true {β} (ns : List (Notif β)) : deliver true ns = (true, []) := by
  cases ns <;> rfl

@[simp] theorem deliver_nil {β} (d : Bool) : deliver d ([] : List (Notif β)) = (d, []) := rfl

theorem deliver_false_cons {β} (n : Notif β) (ns : List (Notif β)) :
    deliver false (n :: ns) = ((deliver n.isTerminal ns).1, n :: (deliver n.isTerminal ns).2) := rfl

theorem deliver_append {β} (d : Bool) (a b : List (Notif β)) :
    deliver d (a ++ b) = ((deliver (deliver d a).1 b).1, (deliver d a).2 ++ (deliver (deliver d a).1 b).2) := by
  induction a generalizing d with
  | nil => simp
  | cons n ns ih =>
    cases d
    · simp only [List.cons_append, deliver_false_cons, ih, List.cons_append]
    · simp

theorem deliver_false_eq_cut {β} (ns : List (Notif β)) : (deliver false ns).2 = cut ns := by
  induction ns with
  | nil => rfl
  | cons n ns ih =>
    simp only [deliver_false_cons, cut]
    cases h : n.isTerminal <;> simp [ih]

theorem deliver_eq_cut {β} (d : Bool) (ns : List (Notif β)) : (deliver d ns).2 = if d then [] else cut ns := by
  cases d <;> simp [deliver_false_eq_cut]

@[simp] theorem cut_nil {β} : cut ([] : List (Notif β)) = [] := rfl
@[simp] theorem cut_next {β} (v : β) (ns : List (Notif β)) : cut (.next v :: ns) = .next v :: cut ns := rfl
@[simp] theorem cut_error {β} (e : Err) (ns : List (Notif β)) : cut (.error e :: ns) = [.error e] := rfl
@[simp] theorem cut_completed {β} (ns : List (Notif β)) : cut (.completed :: ns) = [.completed] := rfl

theorem cut_cut {β} (ns : List (Notif β)) : cut (cut ns) = cut ns := by
  induction ns with
  | nil => rfl
  | cons n ns ih => cases n <;> simp [ih]

theorem cut_eq_elems_ending {α} (raw : List (Notif α)) :
    cut raw = (elems raw).map .next ++ (ending raw).notifs := by
  induction raw with
  | nil => rfl
  | cons n ns ih => cases n <;> simp [elems, ending, Ending.notifs, ih]

@[simp] theorem elems_map_next_append {α} (xs : List α) (rest : List (Notif α)) :
    elems (xs.map .next ++ rest) = xs ++ elems rest := by
  induction xs with
  | nil => rfl
  | cons x xs ih => simp [elems, ih]

@[simp] theorem ending_map_next_append {α} (xs : List α) (rest : List (Notif α)) :
    ending (xs.map .next ++ rest) = ending rest := by
  induction xs with
  | nil => rfl
  | cons x xs ih => simp [ending, ih]

@[simp] theorem elems_notifs {α} (t : Ending) : elems (t.notifs : List (Notif α)) = [] := by
  cases t <;> rfl
@[simp] theorem ending_notifs {α} (t : Ending) : ending (t.notifs : List (Notif α)) = t := by
  cases t <;> rfl
@[simp] theorem elems_nil {α} : elems ([] : List (Notif α)) = [] := rfl
@[simp] theorem ending_nil {α} : ending ([] : List (Notif α)) = .open := rfl
@[simp] theorem elems_next {α} (v : α) (ns) : elems (.next v :: ns) = v :: elems ns := rfl
@[simp] theorem elems_error {α} (e : Err) (ns : List (Notif α)) : elems (.error e :: ns) = [] := rfl
@[simp] theorem elems_completed {α} (ns : List (Notif α)) : elems (.completed :: ns) = [] := rfl
@[simp] theorem ending_next {α} (v : α) (ns) : ending (.next v :: ns) = ending ns := rfl
@[simp] theorem ending_error {α} (e : Err) (ns : List (Notif α)) : ending (.error e :: ns) = .err e := rfl
@[simp] theorem ending_completed {α} (ns : List (Notif α)) : ending (.completed :: ns) = .done := rfl

/-- output of the step machine from an arbitrary run state -/
def Op.outFrom {α β} (op : Op α β) (lag : Bool) (st : RunSt op.σ) (raw : List (Notif α)) : List (Notif β) :=
  (op.steps lag st raw).flatMap (·.out)

theorem Op.outFrom_cons {α β} (op : Op α β) (lag : Bool) (st : RunSt op.σ) (n : Notif α) (ns) :
    op.outFrom lag st (n :: ns) = (op.step lag st n).out ++ op.outFrom lag (op.step lag st n).st ns := by
  simp [Op.outFrom, Op.steps]

theorem Op.outFrom_stopped {α β} (op : Op α β) (lag : Bool) (s : op.σ) (d : Bool) (raw : List (Notif α)) :
    op.outFrom lag ⟨true, s, d⟩ raw = [] := by
  induction raw with
  | nil => rfl
  | cons n ns ih => rw [Op.outFrom_cons]; simp [Op.step, ih]

theorem Op.outFrom_eq {α β} (op : Op α β) (lag : Bool) (s : op.σ) (d : Bool) (raw : List (Notif α)) :
    op.outFrom lag ⟨false, s, d⟩ raw = (deliver d (op.feed s (cut raw))).2 := by
  induction raw generalizing s d with
  | nil => rfl
  | cons n ns ih =>
    rw [Op.outFrom_cons]
    simp only [Op.step, Bool.false_eq_true, if_false]
    cases hn : n.isTerminal
    · have hc : cut (n :: ns) = n :: cut ns := by simp [cut, hn]
      rw [hc]; simp only [Op.feed, deliver_append, Bool.false_or]
      cases hd : (!lag && (deliver d (op.handle s n).calls).1)
      · rw [ih]
      · have : (deliver d (op.handle s n).calls).1 = true := by
          cases lag <;> simp_all
        rw [Op.outFrom_stopped, this]; simp
    · have hc : cut (n :: ns) = [n] := by simp [cut, hn]
      rw [hc]; simp only [Op.feed, deliver_append, Bool.true_or, Op.outFrom_stopped]
      simp

/-- **The step machine is `cut ∘ feed ∘ cut`**, whatever `lag`. -/
theorem Op.out_eq {α β} (op : Op α β) (lag : Bool) (raw : List (Notif α)) :
    op.out lag raw = cut (op.feed op.init (cut raw)) := by
  have := op.outFrom_eq lag op.init false raw
  simp only [deliver_false_eq_cut] at this
  exact this

/-! ### composition -/

@[simp] theorem pump_true {β γ} (g : Op β γ) (s : g.σ) (ns : List (Notif β)) :
    pump g true s ns = ((true, s), [], none) := by
  cases ns <;> rfl

theorem pump_append {β γ} (g : Op β γ) (m : Bool) (s : g.σ) (a b : List (Notif β)) :
    (pump g m s (a ++ b)).2.1 = (pump g m s a).2.1 ++ (pump g (pump g m s a).1.1 (pump g m s a).1.2 b).2.1
    ∧ (pump g m s (a ++ b)).1 = (pump g (pump g m s a).1.1 (pump g m s a).1.2 b).1 := by
  induction a generalizing m s with
  | nil => simp [pump]
  | cons n ns ih =>
    cases m
    · simp only [List.cons_append, pump]
      have := ih n.isTerminal (g.handle s n).st
      simp [this.1, this.2]
    · simp

theorem feed_comp {α β γ} (f : Op α β) (g : Op β γ) (sf : f.σ) (m : Bool) (sg : g.σ) (ns : List (Notif α)) :
    (f ⨾ g).feed (sf, m, sg) ns = (pump g m sg (f.feed sf ns)).2.1 := by
  induction ns generalizing sf m sg with
  | nil => rfl
  | cons n ns ih =>
    have hstep : ∀ h : HOut f.σ β,
        (compH g m sg h).calls = (pump g m sg h.calls).2.1 ∧
        (compH g m sg h).st = (h.st, (pump g m sg h.calls).1.1, (pump g m sg h.calls).1.2) := by
      intro h; exact ⟨rfl, rfl⟩
    have hh : (f ⨾ g).handle (sf, m, sg) n = compH g m sg (f.handle sf n) := by
      cases n <;> rfl
    simp only [Op.feed, hh, (hstep _).1, (hstep _).2]
    rw [ih, (pump_append g m sg _ _).1]

theorem pump_calls_eq {β γ} (g : Op β γ) (s : g.σ) (ns : List (Notif β)) :
    (pump g false s ns).2.1 = g.feed s (cut ns) := by
  induction ns generalizing s with
  | nil => rfl
  | cons n ns ih =>
    simp only [pump]
    cases hn : n.isTerminal
    · have hc : cut (n :: ns) = n :: cut ns := by simp [cut, hn]
      rw [hc, ih]; rfl
    · have hc : cut (n :: ns) = [n] := by simp [cut, hn]
      rw [hc]; simp [Op.feed]

/-- **Composition theorem**: what the subscriber of `source.pipe(f, g)` sees is what the subscriber of `g`
sees when `g`'s source delivers what a subscriber of `f` sees (for any disposal timing at each stage). -/
theorem Op.out_comp {α β γ} (f : Op α β) (g : Op β γ) (lag lag₁ lag₂ : Bool) (raw : List (Notif α)) :
    (f ⨾ g).out lag raw = g.out lag₂ (f.out lag₁ raw) := by
  rw [Op.out_eq, Op.out_eq g, Op.out_eq f, cut_cut]
  show cut ((f ⨾ g).feed (f.init, false, g.init) (cut raw)) = _
  rw [feed_comp, pump_calls_eq]

theorem Op.out_lag_irrelevant {α β} (op : Op α β) (lag lag' : Bool) (raw : List (Notif α)) :
    op.out lag raw = op.out lag' raw := by
  rw [Op.out_eq, Op.out_eq]

/-! ### prefix monotonicity and timing -/

theorem Op.steps_append {α β} (op : Op α β) (lag : Bool) (st : RunSt op.σ) (a b : List (Notif α)) :
    op.steps lag st (a ++ b) = op.steps lag st a ++ op.steps lag (op.finalFrom lag st a) b := by
  induction a generalizing st with
  | nil => rfl
  | cons n ns ih => simp [Op.steps, Op.finalFrom, ih]

theorem Op.out_prefix {α β} (op : Op α β) (lag : Bool) (a b : List (Notif α)) :
    op.out lag (a ++ b) = op.out lag a ++ op.outFrom lag (op.final lag a) b := by
  simp [Op.out, Op.outFrom, Op.final, Op.steps_append]

theorem Op.steps_length {α β} (op : Op α β) (lag : Bool) (st : RunSt op.σ) (a : List (Notif α)) :
    (op.steps lag st a).length = a.length := by
  induction a generalizing st with
  | nil => rfl
  | cons n ns ih => simp [Op.steps, ih]

theorem Op.outT_untimed {α β τ} (op : Op α β) (lag : Bool) (raw : List (τ × Notif α)) :
    (op.outT lag raw).map (·.2) = op.out lag (raw.map (·.2)) := by
  unfold Op.outT Op.out
  generalize op.start = st
  induction raw generalizing st with
  | nil => rfl
  | cons p ps ih =>
    simp only [List.map_cons, Op.steps, List.zip_cons_cons, List.flatMap_cons, List.map_append, List.map_map]
    rw [ih]; congr 1
    simp [Function.comp_def]

theorem Op.outT_append {α β τ} (op : Op α β) (lag : Bool) (a b : List (τ × Notif α)) :
    ∃ r, op.outT lag (a ++ b) = op.outT lag a ++ r ∧ ∀ p ∈ r, p.1 ∈ b.map (·.1) := by
  unfold Op.outT
  simp only [List.map_append, Op.steps_append]
  rw [List.zip_append (by simp [Op.steps_length])]
  simp only [List.flatMap_append]
  refine ⟨_, rfl, ?_⟩
  intro p hp
  simp only [List.mem_flatMap, List.mem_map] at hp
  obtain ⟨q, hq, n, _, rfl⟩ := hp
  exact List.mem_map.mpr (by
    have := (List.of_mem_zip hq).1
    simpa using this)

/-- a stamped list whose stamps are all `t` is determined by its untimed image -/
theorem stamped_eq {τ β} (r : List (τ × Notif β)) (t : τ) (o : List (Notif β)) (hu : r.map (·.2) = o)
    (ht : ∀ p ∈ r, p.1 = t) : r = o.map (fun n => (t, n)) := by
  induction r generalizing o with
  | nil => subst hu; rfl
  | cons p ps ih =>
    subst hu
    obtain ⟨p1, p2⟩ := p
    have h1 : p1 = t := ht (p1, p2) List.mem_cons_self
    subst h1
    simp only [List.map_cons, List.cons.injEq, true_and]
    exact ih _ rfl (fun q hq => ht q (List.mem_cons_of_mem _ hq))

/-! ### tie to the C01 model: `cut` is exactly what `Core.Ado` delivers when callbacks do not raise -/

def toCall {β} : Notif β → ObsCall β
  | .next v => .next v
  | .error e => .error e
  | .completed => .completed

theorem ado_stopped_delivers_nothing {β} (k : Nat) (ns : List (Notif β)) :
    Ado.delivered (fun _ => false) { stopped := true, cbs := k } (ns.map toCall) = [] := by
  induction ns with
  | nil => rfl
  | cons n ns ih => cases n <;> simpa [Ado.delivered, Ado.runOuts, Ado.step, toCall] using ih

theorem cut_eq_ado {β} (k : Nat) (ns : List (Notif β)) :
    cut ns = Ado.delivered (fun _ => false) { stopped := false, cbs := k } (ns.map toCall) := by
  induction ns generalizing k with
  | nil => rfl
  | cons n ns ih =>
    cases n with
    | next v =>
      have := ih (k + 1)
      simp only [Ado.delivered] at this
      simp [Ado.delivered, Ado.runOuts, Ado.step, toCall, this]
    | error e =>
      have := ado_stopped_delivers_nothing (k + 1) ns
      simp only [Ado.delivered] at this
      simp [Ado.delivered, Ado.runOuts, Ado.step, toCall, this]
    | completed =>
      have := ado_stopped_delivers_nothing (k + 1) ns
      simp only [Ado.delivered] at this
      simp [Ado.delivered, Ado.runOuts, Ado.step, toCall, this]

end Agg

import RxProofs.Lemmas.Win
/-!
# The plumbing invariant `Rel`: RefCountDisposable count = attached window subscribers; released ⇒ nothing live.
-/
namespace Win
variable {α : Type}

/-- **plumbing invariant**: the RefCountDisposable counts exactly the attached window subscribers; the underlying
disposable (all source / boundary / closing subscriptions and timers) is disposed exactly when the primary was
disposed (outer terminal or dispose) and no subscriber is attached; after that nothing is live. -/
structure Rel (b : Base α) : Prop where
  cnt : b.rcDisposed = false → b.count = b.attachedCount
  disp_prim : b.rcDisposed = true → b.primary = true
  prim_iff : b.primary = b.outerStopped
  dead : b.rcDisposed = true → b.live = []
  zero : b.primary = true → b.rcDisposed = false → 0 < b.count
  hold : b.rcDisposed = true → b.attachedCount = 0

theorem modify_eq_set {β : Type} (l : List β) (i : Nat) (f : β → β) (w : β) (h : l[i]? = some w) :
    l.modify i f = l.set i (f w) := by
  apply List.ext_getElem?
  intro j
  rw [List.getElem?_modify, List.getElem?_set]
  have hi : i < l.length := (List.getElem?_eq_some_iff.mp h).1
  by_cases hij : i = j
  · subst hij
    have : l[i] = w := (List.getElem?_eq_some_iff.mp h).2
    simp [hi, this]
  · simp [hij]

namespace Base

theorem live_foldl_unsub (l : List Nat) (b : Base α) : (l.foldl unsub b).live = l.foldl List.erase b.live := by
  induction l generalizing b with
  | nil => rfl
  | cons k l ih =>
    rw [List.foldl_cons, ih, List.foldl_cons]
    congr 1
    unfold unsub; split
    · rfl
    · rename_i h
      have : k ∉ b.live := by simpa using h
      exact (List.erase_of_not_mem this).symm

theorem live_disposeUnderlying (b : Base α) : b.disposeUnderlying.live = [] := by
  unfold disposeUnderlying; rw [live_foldl_unsub]
  generalize b.live = l
  induction l with
  | nil => rfl
  | cons k t ih => simp [List.foldl_cons, ih]

/-- fields other than `live` / `log` are untouched by unsubscribing. -/
theorem unsub_fields (b : Base α) (k : Nat) :
    (b.unsub k).wins = b.wins ∧ (b.unsub k).count = b.count ∧ (b.unsub k).primary = b.primary ∧
    (b.unsub k).rcDisposed = b.rcDisposed ∧ (b.unsub k).outerStopped = b.outerStopped := by
  unfold unsub; split <;> exact ⟨rfl, rfl, rfl, rfl, rfl⟩

theorem foldl_unsub_fields (l : List Nat) (b : Base α) :
    (l.foldl unsub b).wins = b.wins ∧ (l.foldl unsub b).count = b.count ∧ (l.foldl unsub b).primary = b.primary ∧
    (l.foldl unsub b).rcDisposed = b.rcDisposed ∧ (l.foldl unsub b).outerStopped = b.outerStopped := by
  induction l generalizing b with
  | nil => exact ⟨rfl, rfl, rfl, rfl, rfl⟩
  | cons k l ih =>
    obtain ⟨a1, a2, a3, a4, a5⟩ := ih (b.unsub k)
    obtain ⟨b1, b2, b3, b4, b5⟩ := unsub_fields b k
    exact ⟨a1.trans b1, a2.trans b2, a3.trans b3, a4.trans b4, a5.trans b5⟩

theorem Rel_of_fields {b b' : Base α} (hw : b'.wins = b.wins) (hc : b'.count = b.count) (hp : b'.primary = b.primary)
    (hr : b'.rcDisposed = b.rcDisposed) (ho : b'.outerStopped = b.outerStopped)
    (hl : b.rcDisposed = true → b'.live = []) (h : Rel b) : Rel b' := by
  refine ⟨?_, ?_, ?_, ?_, ?_, ?_⟩
  · intro h1; rw [hc, attachedCount, hw]; exact h.cnt (hr ▸ h1)
  · intro h1; rw [hp]; exact h.disp_prim (hr ▸ h1)
  · rw [hp, ho]; exact h.prim_iff
  · intro h1; exact hl (hr ▸ h1)
  · intro h1 h2; rw [hc]; exact h.zero (hp ▸ h1) (hr ▸ h2)
  · intro h1; rw [attachedCount, hw]; exact h.hold (hr ▸ h1)

theorem Rel_emit (b : Base α) (o) (h : Rel b) : Rel (b.emit o) :=
  Rel_of_fields (b := b) rfl rfl rfl rfl rfl h.dead h
theorem Rel_now (b : Base α) (t) (h : Rel b) : Rel ({ b with now := t } : Base α) :=
  Rel_of_fields (b := b) rfl rfl rfl rfl rfl h.dead h

theorem Rel_unsub (b : Base α) (k) (h : Rel b) : Rel (b.unsub k) := by
  obtain ⟨b1, b2, b3, b4, b5⟩ := unsub_fields b k
  refine Rel_of_fields b1 b2 b3 b4 b5 ?_ h
  intro hd
  have := h.dead hd
  unfold unsub; rw [this]; simp [this]

/-- subscribing is only done while the underlying disposable is alive … -/
theorem Rel_subscribe (b : Base α) (k) (hnd : b.rcDisposed = false) (h : Rel b) : Rel (b.subscribe k) :=
  Rel_of_fields (b := b) rfl rfl rfl rfl rfl (by intro hd; rw [hnd] at hd; cases hd) h

/-- … or the fresh subscription is disposed as soon as it is assigned. -/
theorem Rel_subscribe_unsub (b : Base α) (k) (hd : b.rcDisposed = true) (h : Rel b) : Rel ((b.subscribe k).unsub k) := by
  obtain ⟨b1, b2, b3, b4, b5⟩ := unsub_fields (b.subscribe k) k
  refine Rel_of_fields (b := b) b1 b2 b3 b4 b5 ?_ h
  intro _
  have hl := h.dead hd
  simp [unsub, subscribe, emit, hl]

theorem Rel_disposeUnderlying_of (b : Base α) (hp : b.primary = true) (ho : b.outerStopped = true)
    (hr : b.rcDisposed = true) (ha : b.attachedCount = 0) : Rel b.disposeUnderlying := by
  obtain ⟨a1, a2, a3, a4, a5⟩ := foldl_unsub_fields b.live b
  have hl := live_disposeUnderlying b
  unfold disposeUnderlying at hl ⊢
  refine ⟨?_, ?_, ?_, ?_, ?_, ?_⟩
  · intro h1; rw [a4, hr] at h1; cases h1
  · intro _; rw [a3]; exact hp
  · rw [a3, a5, hp, ho]
  · intro _; exact hl
  · intro _ h2; rw [a4, hr] at h2; cases h2
  · intro _; rw [attachedCount, a1]; exact ha

end Base
end Win
namespace Win
variable {α : Type}
namespace Base

theorem Rel_outerStop (b : Base α) (l : List (Nat × Out α)) (h : Rel b) (hos : b.outerStopped = false) :
    Rel (rcDispose ({ b with outerStopped := true, log := l } : Base α)) := by
  have hp : b.primary = false := by rw [h.prim_iff]; exact hos
  have hr : b.rcDisposed = false := by
    cases hd : b.rcDisposed with
    | false => rfl
    | true => have := h.disp_prim hd; rw [hp] at this; cases this
  unfold rcDispose
  simp only [hr, hp, Bool.false_eq_true, if_false]
  by_cases hc : (b.count == 0) = true
  · simp only [hc, if_true]
    refine Rel_disposeUnderlying_of _ rfl rfl rfl ?_
    show b.attachedCount = 0
    rw [← h.cnt hr]; simpa using hc
  · simp only [hc, Bool.false_eq_true, if_false]
    refine ⟨fun _ => h.cnt hr, fun h1 => by simp [hr] at h1, rfl, fun h1 => by simp [hr] at h1, fun _ _ => ?_, fun h1 => by simp [hr] at h1⟩
    have : b.count ≠ 0 := by simpa using hc
    exact Nat.pos_of_ne_zero this

theorem Rel_outerEnd (b : Base α) (e) (h : Rel b) : Rel (b.outerEnd e) := by
  unfold outerEnd
  by_cases hos : b.outerStopped = true
  · simp [hos]; exact h
  · have hos' : b.outerStopped = false := by simpa using hos
    simp only [hos', Bool.false_eq_true, if_false, emit]
    exact Rel_outerStop b _ h hos'

theorem Rel_outerDispose (b : Base α) (h : Rel b) : Rel b.outerDispose := by
  unfold outerDispose
  by_cases hos : b.outerStopped = true
  · have hp : b.primary = true := by rw [h.prim_iff]; exact hos
    have : ({ b with outerStopped := true } : Base α) = b := by cases b; simp_all
    rw [this]
    unfold rcDispose; split
    · exact h
    · first | exact h | (split; exact h; rename_i h2; exact absurd hp h2)
  · have hos' : b.outerStopped = false := by simpa using hos
    exact Rel_outerStop b b.log h hos'

/-- a subscriber of window `i` goes away (window terminal or explicit dispose): `attached := false`, then `release`. -/
theorem Rel_detach (b b' : Base α) (i : Nat) (w w' : W α) (hw : b.wins[i]? = some w) (ha : w.attached = true)
    (ha' : w'.attached = false) (hwins : b'.wins = b.wins.set i w') (hc : b'.count = b.count) (hp : b'.primary = b.primary)
    (hr : b'.rcDisposed = b.rcDisposed) (ho : b'.outerStopped = b.outerStopped) (hl : b'.live = b.live) (h : Rel b) :
    Rel b'.rcRelease := by
  have hi : i < b.wins.length := (List.getElem?_eq_some_iff.mp hw).1
  have hwi : b.wins[i] = w := (List.getElem?_eq_some_iff.mp hw).2
  have hcount : b'.attachedCount + 1 = b.attachedCount := by
    unfold attachedCount; rw [hwins, List.countP_set hi, hwi]
    simp only [ha, ha', if_true, Bool.false_eq_true, if_false, Nat.add_zero]
    have : 0 < List.countP (fun x => x.attached) b.wins := by
      apply List.countP_pos_iff.mpr
      exact ⟨w, hwi ▸ List.getElem_mem hi, ha⟩
    omega
  unfold rcRelease
  by_cases hd : b.rcDisposed = true
  · simp only [hr, hd, if_true]
    refine ⟨fun h1 => ?_, fun _ => ?_, ?_, fun _ => ?_, fun _ h2 => ?_, fun _ => ?_⟩
    · rw [hr, hd] at h1; cases h1
    · rw [hp]; exact h.disp_prim hd
    · rw [hp, ho]; exact h.prim_iff
    · rw [hl]; exact h.dead hd
    · rw [hr, hd] at h2; cases h2
    · have := h.hold hd; omega
  · have hd' : b.rcDisposed = false := by simpa using hd
    have hcnt := h.cnt hd'
    simp only [hr, hd', Bool.false_eq_true, if_false]
    by_cases hz : (b'.count - 1 == 0 && b'.primary) = true
    · simp only [hz, if_true]
      have hpp : b'.primary = true := by simp only [Bool.and_eq_true] at hz; exact hz.2
      refine Rel_disposeUnderlying_of _ hpp (by show b'.outerStopped = true; rw [ho, ← h.prim_iff, ← hp]; exact hpp) rfl ?_
      show b'.attachedCount = 0
      have hz1 : b'.count - 1 = 0 := by simp only [Bool.and_eq_true] at hz; simpa using hz.1
      omega
    · simp only [hz, Bool.false_eq_true, if_false]
      refine ⟨fun _ => ?_, fun h1 => by simp [hr, hd'] at h1, by show b'.primary = b'.outerStopped; rw [hp, ho]; exact h.prim_iff,
        fun h1 => by simp [hr, hd'] at h1, fun h1 _ => ?_, fun h1 => by simp [hr, hd'] at h1⟩
      · show b'.count - 1 = b'.attachedCount
        rw [hc, hcnt]; omega
      · show 0 < b'.count - 1
        have h1' : b'.primary = true := h1
        have : ¬ (b'.count - 1 == 0) = true := by
          intro hh; apply hz; simp [hh, h1']
        have : b'.count - 1 ≠ 0 := by simpa using this
        omega

end Base
end Win
namespace Win
variable {α : Type}
namespace Base

theorem Rel_foldl {β : Type} (f : Base α → β → Base α) (hf : ∀ b x, Rel b → Rel (f b x)) (l : List β) (b : Base α) (h : Rel b) :
    Rel (l.foldl f b) := by
  induction l generalizing b with
  | nil => exact h
  | cons x l ih => exact ih _ (hf b x h)

theorem countP_set_same_attached (l : List (W α)) (i : Nat) (w w' : W α) (hw : l[i]? = some w) (ha : w'.attached = w.attached) :
    (l.set i w').countP (·.attached) = l.countP (·.attached) := by
  have hi : i < l.length := (List.getElem?_eq_some_iff.mp hw).1
  have hwi : l[i] = w := (List.getElem?_eq_some_iff.mp hw).2
  rw [List.countP_set hi, hwi, ha]
  by_cases h : w.attached = true
  · have : 0 < List.countP (fun x => x.attached) l :=
      List.countP_pos_iff.mpr ⟨w, hwi ▸ List.getElem_mem hi, h⟩
    simp [h]; omega
  · simp [h]

theorem Rel_winNext (b : Base α) (i : Nat) (x : α) (h : Rel b) : Rel (b.winNext i x) := by
  unfold winNext
  cases hw : b.wins[i]? with
  | none => exact h
  | some w =>
    simp only []
    split
    · exact h
    · have key : ∀ b' : Base α, b'.wins = b.wins.set i { w with pushed := w.pushed ++ [x] } → b'.count = b.count →
          b'.primary = b.primary → b'.rcDisposed = b.rcDisposed → b'.outerStopped = b.outerStopped → b'.live = b.live → Rel b' := by
        intro b' h1 h2 h3 h4 h5 h6
        refine ⟨fun hd => ?_, fun hd => ?_, ?_, fun hd => ?_, fun hp hd => ?_, fun hd => ?_⟩
        · rw [h2, attachedCount, h1, countP_set_same_attached b.wins i w { w with pushed := w.pushed ++ [x] } hw rfl]; exact h.cnt (h4 ▸ hd)
        · rw [h3]; exact h.disp_prim (h4 ▸ hd)
        · rw [h3, h5]; exact h.prim_iff
        · rw [h6]; exact h.dead (h4 ▸ hd)
        · rw [h2]; exact h.zero (h3 ▸ hp) (h4 ▸ hd)
        · rw [attachedCount, h1, countP_set_same_attached b.wins i w { w with pushed := w.pushed ++ [x] } hw rfl]; exact h.hold (h4 ▸ hd)
      split <;> exact key _ rfl rfl rfl rfl rfl rfl

theorem Rel_winEnd (b : Base α) (i : Nat) (e : Option Err) (h : Rel b) : Rel (b.winEnd i e) := by
  unfold winEnd
  cases hw : b.wins[i]? with
  | none => exact h
  | some w =>
    simp only []
    split
    · exact h
    · by_cases ha : w.attached = true
      · simp only [ha, if_true]
        exact Rel_detach b _ i w _ hw ha rfl rfl rfl rfl rfl rfl rfl h
      · have ha' : w.attached = false := by simpa using ha
        simp only [ha', Bool.false_eq_true, if_false]
        refine ⟨fun hd => ?_, h.disp_prim, h.prim_iff, h.dead, h.zero, fun hd => ?_⟩
        · show b.count = (b.wins.set i _).countP _
          rw [countP_set_same_attached b.wins i w { w with ended := some e, attached := false } hw (by simp [ha'])]; exact h.cnt hd
        · show (b.wins.set i _).countP _ = 0
          rw [countP_set_same_attached b.wins i w { w with ended := some e, attached := false } hw (by simp [ha'])]; exact h.hold hd

theorem Rel_winDetach (b : Base α) (i : Nat) (h : Rel b) : Rel (b.winDetach i) := by
  unfold winDetach
  cases hw : b.wins[i]? with
  | none => exact h
  | some w =>
    simp only []
    split
    · rename_i ha; exact Rel_detach b _ i w _ hw ha rfl rfl rfl rfl rfl rfl rfl h
    · exact h

theorem Rel_disposeEv (b : Base α) (w : Bool) (h : Rel b) : Rel (b.disposeEv w) := by
  unfold disposeEv; simp only []; split
  · exact Rel_foldl _ (fun b i hb => Rel_winDetach b i hb) _ _ (Rel_outerDispose b h)
  · exact Rel_outerDispose b h

/-- a fresh window handed to the outer observer: attached and counted (or, if the outer observer is stopped, neither). -/
theorem Rel_open (b : Base α) (h : Rel b) : Rel (b.newWin.1.outerNext b.newWin.2) := by
  have hcnt0 : b.newWin.1.attachedCount = b.attachedCount := by
    simp [attachedCount, newWin, List.countP_append]
  have hnew : Rel b.newWin.1 :=
    ⟨fun hd => by rw [hcnt0]; exact h.cnt hd, h.disp_prim, h.prim_iff, h.dead, h.zero, fun hd => by rw [hcnt0]; exact h.hold hd⟩
  have hget : b.newWin.1.wins[b.wins.length]? = some {} := by simp [newWin]
  show Rel (b.newWin.1.outerNext b.wins.length)
  generalize b.newWin.1 = b1 at hnew hget
  unfold outerNext
  by_cases hos : b1.outerStopped = true
  · simp only [hos, if_true]; exact hnew
  · have hos' : b1.outerStopped = false := by simpa using hos
    have hp : b1.primary = false := by rw [hnew.prim_iff]; exact hos'
    have hr : b1.rcDisposed = false := by
      cases hd : b1.rcDisposed with
      | false => rfl
      | true => have := hnew.disp_prim hd; rw [hp] at this; cases this
    simp only [hos', Bool.false_eq_true, if_false, emit, hr]
    have hac : (List.modify b1.wins b.wins.length fun w => { w with attached := true }).countP (·.attached)
        = b1.wins.countP (·.attached) + 1 := by
      rw [modify_eq_set _ _ _ _ hget]
      have hi : b.wins.length < b1.wins.length := (List.getElem?_eq_some_iff.mp hget).1
      have hwi : b1.wins[b.wins.length] = {} := (List.getElem?_eq_some_iff.mp hget).2
      rw [List.countP_set hi, hwi]; simp
    refine ⟨fun _ => ?_, fun hd => by simp [hr] at hd, ?_, fun hd => by simp [hr] at hd, fun hp' _ => ?_, fun hd => by simp [hr] at hd⟩
    · show b1.count + 1 = _
      unfold attachedCount; simp only []; rw [hac, hnew.cnt hr]; rfl
    · exact hp
    · show 0 < b1.count + 1; omega

end Base
end Win

import RxModel.Thr2Lock
/-!
# Lemmas for C43 — invariants of the interleaving model `Thr2`

* `Eff`: what one atomic step can do to the observer-related part of the state (four kinds);
* `step_AG`: if at most one thread is inside the downstream observer (`X`), one step preserves
  "at most one thread is inside a user callback" (`A`) and the grammar of the delivered sequence (`G`);
* `LInv`: the lock invariant (a thread in a locked block owns the lock) for programs that never call
  downstream outside the lock; it implies `X`;
* `SInv`: the simulation by the sequential block machine for programs made of locked blocks only;
* `AmbInv`: the invariant of `amb` (only the chosen side is ever inside the observer).
-/

set_option linter.unusedSimpArgs false

namespace Thr2

variable {σ α : Type}

/-! ### grammar helpers -/

theorem grammar_snoc (l : List (Notif α)) (c : Notif α) (hn : ∀ n ∈ l, n.isTerminal = false) :
    Grammar (l ++ [c]) := by
  induction l with
  | nil => simp [Grammar]
  | cons a l ih =>
    have ha : a.isTerminal = false := hn a (by simp)
    have := ih (fun n hn' => hn n (by simp [hn']))
    cases l with
    | nil => simp [Grammar, ha]
    | cons b l => simpa [Grammar, ha] using this

theorem grammar_prefix (a b : List (Notif α)) (h : Grammar (a ++ b)) : Grammar a := by
  induction a with
  | nil => simp [Grammar]
  | cons x a ih =>
    cases a with
    | nil => simp [Grammar]
    | cons y a =>
      simp only [List.cons_append, Grammar] at h ⊢
      exact ⟨h.1, ih h.2⟩

/-! ### generic induction over schedules -/

theorem runSched_inv (P : Sys σ α → Prop)
    (hstep : ∀ S i S', P S → step S i = some S' → P S') :
    ∀ (sch : List Nat) (S : Sys σ α), P S → P (runSched S sch) := by
  intro sch
  induction sch with
  | nil => intro S h; exact h
  | cons i is ih =>
    intro S h
    simp only [runSched]
    cases hs : step S i with
    | none => simpa using ih S h
    | some S' => simpa using ih S' (hstep S i S' h hs)

/-! ### what a step does to the observer-related fields -/

theorem TS.isChk_inObs {t : TS σ α} (h : t.isChk = true) : t.inObs = true := by
  cases t <;> simp_all [TS.isChk, TS.inObs]
theorem TS.isIn_inObs {t : TS σ α} (h : t.isIn = true) : t.inObs = true := by
  cases t <;> simp_all [TS.isIn, TS.inObs]
theorem TS.isIn_not_isChk {t : TS σ α} (h : t.isIn = true) : t.isChk = false := by
  cases t <;> simp_all [TS.isIn, TS.isChk]
theorem TS.isChk_not_isIn {t : TS σ α} (h : t.isChk = true) : t.isIn = false := by
  cases t <;> simp_all [TS.isIn, TS.isChk]
theorem TS.not_inObs {t : TS σ α} (h : t.inObs = false) : t.isChk = false ∧ t.isIn = false := by
  cases t <;> simp_all [TS.isIn, TS.isChk, TS.inObs]

/-- thread `i` moves from local state `t` to `t'`; nobody else moves -/
structure Move (S S' : Sys σ α) (i : Nat) (t t' : TS σ α) : Prop where
  here : S.thr i = t
  thr' : S'.thr = upd S.thr i t'

inductive Eff (S : Sys σ α) (i : Nat) (S' : Sys σ α) : Prop
  | silent (t t' : TS σ α) (m : Move S S' i t t') (h1 : t.inObs = false) (h2 : t'.inObs = false)
      (e1 : S'.stopped = S.stopped) (e2 : S'.delivered = S.delivered) (e3 : S'.active = S.active)
      (e4 : S'.maxActive = S.maxActive)
  | check (t t' : TS σ α) (m : Move S S' i t t') (h1 : t.inObs = false) (h2 : t'.isChk = true)
      (h3 : S.stopped = false)
      (e1 : S'.stopped = S.stopped) (e2 : S'.delivered = S.delivered) (e3 : S'.active = S.active)
      (e4 : S'.maxActive = S.maxActive)
  | commit (t t' : TS σ α) (c : Notif α) (m : Move S S' i t t') (h1 : t.isChk = true) (h2 : t'.isIn = true)
      (e1 : S'.stopped = (S.stopped || c.isTerminal)) (e2 : S'.delivered = S.delivered ++ [c])
      (e3 : S'.active = S.active + 1) (e4 : S'.maxActive = max S.maxActive (S.active + 1))
  | ret (t t' : TS σ α) (m : Move S S' i t t') (h1 : t.isIn = true) (h2 : t'.inObs = false)
      (e1 : S'.stopped = S.stopped) (e2 : S'.delivered = S.delivered) (e3 : S'.active = S.active - 1)
      (e4 : S'.maxActive = S.maxActive)

theorem step_eff (S S' : Sys σ α) (i : Nat) (hs : step S i = some S') : Eff S i S' := by
  unfold step at hs
  split at hs
  · cases hs
  · next u n h =>
    cases hs
    exact .silent _ (.run (n S.st)) ⟨h, rfl⟩ (by simp [TS.inObs]) (by simp [TS.inObs]) rfl rfl rfl rfl
  · next b k h =>
    split at hs
    · cases hs
      exact .silent _ (.crit b k) ⟨h, rfl⟩ (by simp [TS.inObs]) (by simp [TS.inObs]) rfl rfl rfl rfl
    · cases hs
  · next o k h =>
    split at hs
    · cases hs
      exact .silent _ (.run k) ⟨h, rfl⟩ (by simp [TS.inObs]) (by simp [TS.inObs]) rfl rfl rfl rfl
    · next c hc =>
      cases hs
      cases hst : S.stopped
      · exact .check _ (.uChk c k) ⟨h, by simp [Sys.callStep, hst]⟩ (by simp [TS.inObs]) (by simp [TS.isChk]) hst
          (by simp [Sys.callStep, hst]) (by simp [Sys.callStep, hst]) (by simp [Sys.callStep, hst])
          (by simp [Sys.callStep, hst])
      · exact .silent _ (.run k) ⟨h, by simp [Sys.callStep, hst]⟩ (by simp [TS.inObs]) (by simp [TS.inObs])
          (by simp [Sys.callStep, hst]) (by simp [Sys.callStep, hst]) (by simp [Sys.callStep, hst])
          (by simp [Sys.callStep, hst])
  · next c k h =>
    cases hs
    exact .commit _ (.uIn k) c ⟨h, rfl⟩ (by simp [TS.isChk]) (by simp [TS.isIn]) rfl rfl rfl rfl
  · next k h =>
    cases hs
    exact .ret _ (.run k) ⟨h, rfl⟩ (by simp [TS.isIn]) (by simp [TS.inObs]) rfl rfl rfl rfl
  · next k h =>
    cases hs
    exact .silent _ (.run k) ⟨h, rfl⟩ (by simp [TS.inObs]) (by simp [TS.inObs]) rfl rfl rfl rfl
  · next u o n k h =>
    split at hs
    · cases hs
      exact .silent _ (.crit (n S.st) k) ⟨h, rfl⟩ (by simp [TS.inObs]) (by simp [TS.inObs]) rfl rfl rfl rfl
    · next c hc =>
      cases hs
      cases hst : S.stopped
      · exact .check _ (.critChk c (n S.st) k) ⟨h, by simp [Sys.callStep, hst]⟩ (by simp [TS.inObs])
          (by simp [TS.isChk]) hst
          (by simp [Sys.callStep, hst]) (by simp [Sys.callStep, hst]) (by simp [Sys.callStep, hst])
          (by simp [Sys.callStep, hst])
      · exact .silent _ (.crit (n S.st) k) ⟨h, by simp [Sys.callStep, hst]⟩ (by simp [TS.inObs])
          (by simp [TS.inObs])
          (by simp [Sys.callStep, hst]) (by simp [Sys.callStep, hst]) (by simp [Sys.callStep, hst])
          (by simp [Sys.callStep, hst])
  · next c b k h =>
    cases hs
    exact .commit _ (.critIn b k) c ⟨h, rfl⟩ (by simp [TS.isChk]) (by simp [TS.isIn]) rfl rfl rfl rfl
  · next b k h =>
    cases hs
    exact .ret _ (.crit b k) ⟨h, rfl⟩ (by simp [TS.isIn]) (by simp [TS.inObs]) rfl rfl rfl rfl

/-! ### exclusion ⇒ one callback at a time and a well-formed delivered sequence -/

/-- at most one thread is inside the downstream observer -/
def X (S : Sys σ α) : Prop := ∀ j k, (S.thr j).inObs = true → (S.thr k).inObs = true → j = k

/-- at most one thread is inside a user callback, and `active` counts it -/
def A (S : Sys σ α) : Prop :=
  S.maxActive ≤ 1 ∧
    ((S.active = 0 ∧ ∀ j, (S.thr j).isIn = false) ∨ (S.active = 1 ∧ ∃ i, (S.thr i).isIn = true))

/-- the delivered sequence is `next* terminal?`, the flag is up once a terminal was delivered, and a
thread that read `is_stopped = False` and has not yet entered the callback still finds it down -/
def G (S : Sys σ α) : Prop :=
  Grammar S.delivered ∧ (S.stopped = false → ∀ n ∈ S.delivered, n.isTerminal = false) ∧
    (∀ j, (S.thr j).isChk = true → S.stopped = false)

theorem step_AG (S S' : Sys σ α) (i : Nat) (hX : X S) (hA : A S) (hG : G S) (hs : step S i = some S') :
    A S' ∧ G S' := by
  obtain ⟨hmax, hact⟩ := hA
  obtain ⟨hgr, hnt, hchk⟩ := hG
  have others : ∀ t t', Move S S' i t t' → ∀ j, j ≠ i → S'.thr j = S.thr j := by
    intro t t' m j hj; rw [m.thr']; exact upd_other _ _ _ _ hj
  have self : ∀ t t', Move S S' i t t' → S'.thr i = t' := by
    intro t t' m; rw [m.thr']; simp
  cases step_eff S S' i hs with
  | silent t t' m h1 h2 e1 e2 e3 e4 =>
    have hti := TS.not_inObs h1
    have hti' := TS.not_inObs h2
    refine ⟨⟨by omega, ?_⟩, by rw [e2]; exact hgr, by rw [e1, e2]; exact hnt, ?_⟩
    · rcases hact with ⟨h0, hall⟩ | ⟨h1', k, hk⟩
      · left; refine ⟨by omega, fun j => ?_⟩
        by_cases hj : j = i
        · subst hj; rw [self t t' m]; exact hti'.2
        · rw [others t t' m j hj]; exact hall j
      · right; refine ⟨by omega, k, ?_⟩
        have : k ≠ i := by
          intro hki; subst hki; rw [m.here] at hk; simp [hti.2] at hk
        rw [others t t' m k this]; exact hk
    · intro j hj
      rw [e1]
      by_cases hji : j = i
      · subst hji; rw [self t t' m] at hj; simp [hti'.1] at hj
      · rw [others t t' m j hji] at hj; exact hchk j hj
  | check t t' m h1 h2 h3 e1 e2 e3 e4 =>
    have hti := TS.not_inObs h1
    refine ⟨⟨by omega, ?_⟩, by rw [e2]; exact hgr, by rw [e1, e2]; exact hnt, ?_⟩
    · rcases hact with ⟨h0, hall⟩ | ⟨h1', k, hk⟩
      · left; refine ⟨by omega, fun j => ?_⟩
        by_cases hj : j = i
        · subst hj; rw [self t t' m]; exact TS.isChk_not_isIn h2
        · rw [others t t' m j hj]; exact hall j
      · right; refine ⟨by omega, k, ?_⟩
        have : k ≠ i := by
          intro hki; subst hki; rw [m.here] at hk; simp [hti.2] at hk
        rw [others t t' m k this]; exact hk
    · intro j _; rw [e1]; exact h3
  | commit t t' c m h1 h2 e1 e2 e3 e4 =>
    -- thread i is inside the observer, so nobody else is: nobody is in a callback
    have hi_in : (S.thr i).inObs = true := by rw [m.here]; exact TS.isChk_inObs h1
    have hst : S.stopped = false := hchk i (by rw [m.here]; exact h1)
    have hnoin : ∀ j, (S.thr j).isIn = false := by
      intro j
      by_cases hj : j = i
      · subst hj; rw [m.here]; exact TS.isChk_not_isIn h1
      · cases hin : (S.thr j).isIn with
        | false => rfl
        | true => exact absurd (hX j i (TS.isIn_inObs hin) hi_in) hj
    have hact0 : S.active = 0 := by
      rcases hact with ⟨h0, _⟩ | ⟨_, k, hk⟩
      · exact h0
      · rw [hnoin k] at hk; cases hk
    refine ⟨⟨by rw [e4, hact0]; omega, ?_⟩, ?_, ?_, ?_⟩
    · right; exact ⟨by omega, i, by rw [self t t' m]; exact h2⟩
    · rw [e2]; exact grammar_snoc _ _ (hnt hst)
    · intro hs' n hn
      rw [e1, hst] at hs'
      rw [e2] at hn
      rcases List.mem_append.1 hn with h | h
      · exact hnt hst n h
      · simp at h; subst h; simpa using hs'
    · intro j hj
      by_cases hji : j = i
      · subst hji; rw [self t t' m] at hj; rw [TS.isIn_not_isChk h2] at hj; cases hj
      · rw [others t t' m j hji] at hj
        exact absurd (hX j i (TS.isChk_inObs hj) hi_in) hji
  | ret t t' m h1 h2 e1 e2 e3 e4 =>
    have hi_in : (S.thr i).inObs = true := by rw [m.here]; exact TS.isIn_inObs h1
    have hact1 : S.active = 1 := by
      rcases hact with ⟨_, hall⟩ | ⟨h1', _⟩
      · have := hall i; rw [m.here, h1] at this; cases this
      · exact h1'
    have hti' := TS.not_inObs h2
    refine ⟨⟨by omega, ?_⟩, by rw [e2]; exact hgr, by rw [e1, e2]; exact hnt, ?_⟩
    · left; refine ⟨by omega, fun j => ?_⟩
      by_cases hj : j = i
      · subst hj; rw [self t t' m]; exact hti'.2
      · rw [others t t' m j hj]
        cases hin : (S.thr j).isIn with
        | false => rfl
        | true => exact absurd (hX j i (TS.isIn_inObs hin) hi_in) hj
    · intro j hj
      rw [e1]
      by_cases hji : j = i
      · subst hji; rw [self t t' m] at hj; simp [hti'.1] at hj
      · rw [others t t' m j hji] at hj; exact hchk j hj

theorem init_AG (s0 : σ) (progs : Nat → TProg σ α) : A (init s0 progs) ∧ G (init s0 progs) := by
  refine ⟨⟨by simp [init], Or.inl ⟨rfl, fun j => by simp [init, TS.isIn]⟩⟩, by simp [init, Grammar], ?_, ?_⟩
  · intro _ n hn; simp [init] at hn
  · intro j hj; simp [init, TS.isChk] at hj

/-! ### the lock invariant (programs that never call downstream outside the lock) -/

def NoUCallTS : TS σ α → Prop
  | .run p => NoUCall p
  | .crit _ k | .critChk _ _ k | .critIn _ k => NoUCall k
  | .uChk .. | .uIn .. => False

/-- a thread inside a locked block owns the lock; no thread is, or will be, calling outside it -/
def LInv (S : Sys σ α) : Prop :=
  (∀ j, (S.thr j).holds = true → S.lock = some j) ∧ (∀ j, NoUCallTS (S.thr j))

theorem LInv_X (S : Sys σ α) (h : LInv S) : X S := by
  intro j k hj hk
  have hj' : (S.thr j).holds = true := by
    have := h.2 j
    cases ht : S.thr j <;> simp_all [TS.inObs, TS.holds, NoUCallTS]
  have hk' : (S.thr k).holds = true := by
    have := h.2 k
    cases ht : S.thr k <;> simp_all [TS.inObs, TS.holds, NoUCallTS]
  have := h.1 j hj'
  rw [h.1 k hk'] at this
  exact (Option.some.inj this).symm

theorem init_LInv (s0 : σ) (progs : Nat → TProg σ α) (hp : ∀ i, NoUCall (progs i)) : LInv (init s0 progs) :=
  ⟨fun j hj => by simp [init, TS.holds] at hj, fun j => by simpa [init, NoUCallTS] using hp j⟩

theorem step_LInv (S S' : Sys σ α) (i : Nat) (hL : LInv S) (hs : step S i = some S') : LInv S' := by
  obtain ⟨hown, hnu⟩ := hL
  have hnui := hnu i
  have howni := hown i
  -- generic re-establishment once the new lock and the new local state of `i` are known
  have mk : ∀ (t' : TS σ α) (lk : Option Nat) (S'' : Sys σ α), S''.thr = upd S.thr i t' → S''.lock = lk →
      (t'.holds = true → lk = some i) → (∀ j, j ≠ i → (S.thr j).holds = true → lk = some j) →
      NoUCallTS t' → LInv S'' := by
    intro t' lk S'' ht hl h1 h2 h3
    refine ⟨fun j hj => ?_, fun j => ?_⟩
    · rw [hl]
      by_cases hji : j = i
      · subst hji; rw [ht] at hj; simp at hj; exact h1 hj
      · rw [ht, upd_other _ _ _ _ hji] at hj; exact h2 j hji hj
    · by_cases hji : j = i
      · subst hji; rw [ht]; simpa using h3
      · rw [ht, upd_other _ _ _ _ hji]; exact hnu j
  unfold step at hs
  split at hs
  · cases hs
  · next u n h =>
    cases hs
    rw [h] at hnui
    refine mk (.run (n S.st)) S.lock _ rfl rfl (by simp [TS.holds]) (fun j _ hj => hown j hj) ?_
    cases hnui with | free hh => exact hh _
  · next b k h =>
    split at hs
    · next hl =>
      cases hs
      rw [h] at hnui
      refine mk (.crit b k) (some i) _ rfl rfl (fun _ => rfl) (fun j _ hj => ?_) ?_
      · have := hown j hj; rw [hl] at this; cases this
      · cases hnui with | crit hh => exact hh
    · cases hs
  · next o k h => rw [h] at hnui; cases hnui
  · next c k h => rw [h] at hnui; cases hnui
  · next k h => rw [h] at hnui; cases hnui
  · next k h =>
    cases hs
    rw [h] at hnui howni
    have hli : S.lock = some i := howni (by simp [TS.holds])
    refine mk (.run k) none _ rfl rfl (by simp [TS.holds]) (fun j hji hj => ?_) hnui
    have := hown j hj; rw [hli] at this; exact absurd (Option.some.inj this).symm hji
  · next u o n k h =>
    rw [h] at hnui howni
    split at hs
    · cases hs
      exact mk (.crit (n S.st) k) S.lock _ rfl rfl (fun _ => howni (by simp [TS.holds])) (fun j _ hj => hown j hj) hnui
    · next c hc =>
      cases hs
      cases hst : S.stopped
      · exact mk (.critChk c (n S.st) k) S.lock _ (by simp [Sys.callStep, hst]) (by simp [Sys.callStep, hst])
          (fun _ => howni (by simp [TS.holds])) (fun j _ hj => hown j hj) hnui
      · exact mk (.crit (n S.st) k) S.lock _ (by simp [Sys.callStep, hst]) (by simp [Sys.callStep, hst])
          (fun _ => howni (by simp [TS.holds])) (fun j _ hj => hown j hj) hnui
  · next c b k h =>
    cases hs
    rw [h] at hnui howni
    exact mk (.critIn b k) S.lock _ rfl rfl (fun _ => howni (by simp [TS.holds])) (fun j _ hj => hown j hj) hnui
  · next b k h =>
    cases hs
    rw [h] at hnui howni
    exact mk (.crit b k) S.lock _ rfl rfl (fun _ => howni (by simp [TS.holds])) (fun j _ hj => hown j hj) hnui

/-! ### simulation by the sequential block machine (programs made of locked blocks only) -/

def cont : TS σ α → TProg σ α
  | .run p => p
  | .crit _ k | .critChk _ _ k | .critIn _ k | .uChk _ k | .uIn k => k

/-- what the block in progress (if any) still does when run to its end from the current state -/
def pending (S : Sys σ α) : σ × List (Notif α) :=
  match S.lock with
  | none => (S.st, [])
  | some i =>
    match S.thr i with
    | .crit b _ | .critChk _ b _ | .critIn b _ => b.exec S.st
    | _ => (S.st, [])

def AllLockedTS : TS σ α → Prop
  | .run p => AllLocked p
  | .crit _ k | .critChk _ _ k | .critIn _ k => AllLocked k
  | .uChk .. | .uIn .. => False

def SInv (q0 : Seq σ α) (S : Sys σ α) : Prop :=
  (∀ j, (S.thr j).holds = true → S.lock = some j) ∧ (∀ j, AllLockedTS (S.thr j)) ∧
  (∀ j, (Seq.run q0 S.acq).thr j = cont (S.thr j)) ∧
  (Seq.run q0 S.acq).st = (pending S).1 ∧ (Seq.run q0 S.acq).calls = S.calls ++ (pending S).2

theorem Seq.run_snoc (q : Seq σ α) (l : List Nat) (i : Nat) : Seq.run q (l ++ [i]) = Seq.step (Seq.run q l) i := by
  simp [Seq.run, List.foldl_append]

theorem init_SInv (s0 : σ) (progs : Nat → TProg σ α) (hp : ∀ i, AllLocked (progs i)) :
    SInv { st := s0, calls := [], thr := progs } (init s0 progs) := by
  refine ⟨fun j hj => by simp [init, TS.holds] at hj, fun j => by simpa [init, AllLockedTS] using hp j, ?_, ?_, ?_⟩
    <;> simp [init, Seq.run, cont, pending]

theorem step_SInv (q0 : Seq σ α) (S S' : Sys σ α) (i : Nat) (hI : SInv q0 S) (hs : step S i = some S') :
    SInv q0 S' := by
  obtain ⟨hown, hal, hthr, hst, hcalls⟩ := hI
  have hali := hal i
  have howni := hown i
  -- steps of the lock holder that keep `acq` and the lock
  have holder : ∀ (t' : TS σ α) (S'' : Sys σ α), S''.thr = upd S.thr i t' → S''.lock = S.lock → S''.acq = S.acq →
      S.lock = some i → t'.holds = true → AllLockedTS t' → cont t' = cont (S.thr i) →
      (pending S'').1 = (pending S).1 → S''.calls ++ (pending S'').2 = S.calls ++ (pending S).2 → SInv q0 S'' := by
    intro t' S'' ht hl ha hli hh hall hc hp1 hp2
    refine ⟨fun j hj => ?_, fun j => ?_, fun j => ?_, ?_, ?_⟩
    · rw [hl]
      by_cases hji : j = i
      · subst hji; exact hli
      · rw [ht, upd_other _ _ _ _ hji] at hj; exact hown j hj
    · by_cases hji : j = i
      · subst hji; rw [ht]; simpa using hall
      · rw [ht, upd_other _ _ _ _ hji]; exact hal j
    · rw [ha]
      by_cases hji : j = i
      · subst hji; rw [ht]; simp only [upd_same]; rw [hc]; exact hthr j
      · rw [ht, upd_other _ _ _ _ hji]; exact hthr j
    · rw [ha, hp1]; exact hst
    · rw [ha, hp2]; exact hcalls
  unfold step at hs
  split at hs
  · cases hs
  · next u n h => rw [h] at hali; cases hali
  · next b k h =>
    split at hs
    · next hl =>
      cases hs
      rw [h] at hali
      have hq : (Seq.run q0 S.acq).thr i = .crit b k := by rw [hthr i, h]; rfl
      have hp : pending S = (S.st, []) := by simp [pending, hl]
      rw [hp] at hst hcalls
      refine ⟨fun j hj => ?_, fun j => ?_, fun j => ?_, ?_, ?_⟩
      · by_cases hji : j = i
        · subst hji; rfl
        · simp only [upd_other _ _ _ _ hji] at hj
          have := hown j hj; rw [hl] at this; cases this
      · by_cases hji : j = i
        · subst hji; simp only [upd_same]; cases hali with | crit hh => exact hh
        · simp only [upd_other _ _ _ _ hji]; exact hal j
      · simp only [Seq.run_snoc, Seq.step, hq]
        by_cases hji : j = i
        · subst hji; simp [cont]
        · simp only [upd_other _ _ _ _ hji]; exact hthr j
      · simp only [Seq.run_snoc, Seq.step, hq, pending, upd_same, hst]
      · simp only [Seq.run_snoc, Seq.step, hq, pending, upd_same, hst, hcalls, List.append_nil]
    · cases hs
  · next o k h => rw [h] at hali; cases hali
  · next c k h => rw [h] at hali; cases hali
  · next k h => rw [h] at hali; cases hali
  · next k h =>
    cases hs
    rw [h] at hali howni
    have hli : S.lock = some i := howni (by simp [TS.holds])
    have hp : pending S = (S.st, []) := by simp [pending, hli, h, Prog.exec]
    rw [hp] at hst hcalls
    refine ⟨fun j hj => ?_, fun j => ?_, fun j => ?_, ?_, ?_⟩
    · by_cases hji : j = i
      · subst hji; simp [TS.holds] at hj
      · simp only [upd_other _ _ _ _ hji] at hj
        have := hown j hj; rw [hli] at this; exact absurd (Option.some.inj this).symm hji
    · by_cases hji : j = i
      · subst hji; simp only [upd_same]; exact hali
      · simp only [upd_other _ _ _ _ hji]; exact hal j
    · by_cases hji : j = i
      · subst hji; simp only [upd_same]; rw [hthr j, h]; rfl
      · simp only [upd_other _ _ _ _ hji]; exact hthr j
    · simpa [pending] using hst
    · simpa [pending] using hcalls
  · next u o n k h =>
    rw [h] at hali howni
    have hli : S.lock = some i := howni (by simp [TS.holds])
    have hp : pending S = (((n S.st).exec (u S.st)).1, (o S.st).toList ++ ((n S.st).exec (u S.st)).2) := by
      simp [pending, hli, h, Prog.exec]
    split at hs
    · next ho =>
      cases hs
      refine holder (.crit (n S.st) k) _ rfl rfl rfl hli (by simp [TS.holds]) hali (by rw [h]; rfl) ?_ ?_
      · rw [hp]; simp [pending, hli]
      · rw [hp]; simp [pending, hli, ho]
    · next c hc =>
      cases hs
      cases hst' : S.stopped
      · refine holder (.critChk c (n S.st) k) _ (by simp [Sys.callStep, hst']) (by simp [Sys.callStep, hst'])
          (by simp [Sys.callStep, hst']) hli (by simp [TS.holds]) hali (by rw [h]; rfl) ?_ ?_
        · rw [hp]; simp [pending, hli, Sys.callStep, hst']
        · rw [hp]; simp [pending, hli, Sys.callStep, hst', hc]
      · refine holder (.crit (n S.st) k) _ (by simp [Sys.callStep, hst']) (by simp [Sys.callStep, hst'])
          (by simp [Sys.callStep, hst']) hli (by simp [TS.holds]) hali (by rw [h]; rfl) ?_ ?_
        · rw [hp]; simp [pending, hli, Sys.callStep, hst']
        · rw [hp]; simp [pending, hli, Sys.callStep, hst', hc]
  · next c b k h =>
    cases hs
    rw [h] at hali howni
    have hli : S.lock = some i := howni (by simp [TS.holds])
    refine holder (.critIn b k) _ rfl rfl rfl hli (by simp [TS.holds]) hali (by rw [h]; rfl) ?_ ?_
    · simp [pending, hli, h, Sys.commit]
    · simp [pending, hli, h, Sys.commit]
  · next b k h =>
    cases hs
    rw [h] at hali howni
    have hli : S.lock = some i := howni (by simp [TS.holds])
    refine holder (.crit b k) _ rfl rfl rfl hli (by simp [TS.holds]) hali (by rw [h]; rfl) ?_ ?_
    · simp [pending, hli, h]
    · simp [pending, hli, h]

/-! ### `amb`: only the chosen side is ever inside the observer -/

/-- the local states a thread running `ambProg d _` goes through; inside the observer only when the
choice is its own side -/
inductive AmbOK (d : Bool) (st : Option Bool) : TS (Option Bool) α → Prop
  | prog (ns) : AmbOK d st (.run (ambProg d ns))
  | critA (n ns) : AmbOK d st (.crit (.step (ambChoose d) (fun _ => none) (fun _ => .done)) (.ucall (ambGuard d n) (ambProg d ns)))
  | critB (n ns) : st.isSome = true → AmbOK d st (.crit .done (.ucall (ambGuard d n) (ambProg d ns)))
  | pre (n ns) : st.isSome = true → AmbOK d st (.run (.ucall (ambGuard d n) (ambProg d ns)))
  | chk (n ns) : st = some d → AmbOK d st (.uChk n (ambProg d ns))
  | inn (ns) : st = some d → AmbOK d st (.uIn (ambProg d ns))

def side : Nat → Bool
  | 0 => false
  | _ => true

def AmbInv (S : Sys (Option Bool) α) : Prop :=
  AmbOK false S.st (S.thr 0) ∧ AmbOK true S.st (S.thr 1) ∧ (∀ j, 2 ≤ j → S.thr j = .run .halt) ∧
  (∀ j, (S.thr j).holds = true → S.lock = some j)

theorem AmbOK.inObs_choice {d : Bool} {st : Option Bool} {t : TS (Option Bool) α} (h : AmbOK d st t)
    (hi : t.inObs = true) : st = some d := by
  cases h <;> simp_all [TS.inObs]

theorem AmbInv_X (S : Sys (Option Bool) α) (h : AmbInv S) : X S := by
  obtain ⟨h0, h1, h2, _⟩ := h
  have key : ∀ j, (S.thr j).inObs = true → j < 2 ∧ S.st = some (side j) := by
    intro j hj
    match j with
    | 0 => exact ⟨by omega, h0.inObs_choice hj⟩
    | 1 => exact ⟨by omega, h1.inObs_choice hj⟩
    | j + 2 => rw [h2 (j + 2) (by omega)] at hj; simp [TS.inObs] at hj
  intro j k hj hk
  obtain ⟨hj2, hjs⟩ := key j hj
  obtain ⟨hk2, hks⟩ := key k hk
  rw [hjs] at hks
  have : side j = side k := Option.some.inj hks
  match j, k, hj2, hk2 with
  | 0, 0, _, _ => rfl
  | 1, 1, _, _ => rfl
  | 0, 1, _, _ => simp [side] at this
  | 1, 0, _, _ => simp [side] at this

theorem AmbOK.mono {d : Bool} {st st' : Option Bool} {t : TS (Option Bool) α} (h : AmbOK d st t)
    (hm : ∀ x, st = some x → st' = some x) : AmbOK d st' t := by
  cases h with
  | prog ns => exact .prog ns
  | critA n ns => exact .critA n ns
  | critB n ns hs =>
    refine .critB n ns ?_
    cases st with
    | none => simp at hs
    | some x => rw [hm x rfl]; rfl
  | pre n ns hs =>
    refine .pre n ns ?_
    cases st with
    | none => simp at hs
    | some x => rw [hm x rfl]; rfl
  | chk n ns hs => exact .chk n ns (hm _ hs)
  | inn ns hs => exact .inn ns (hm _ hs)

theorem init_AmbInv (ls rs : List (Notif α)) : AmbInv (init none (ambProgs ls rs)) := by
  refine ⟨by simpa [init, ambProgs] using AmbOK.prog ls, by simpa [init, ambProgs] using AmbOK.prog rs, ?_, ?_⟩
  · intro j hj
    match j, hj with
    | j + 2, _ => simp [init, ambProgs]
  · intro j hj; simp [init, TS.holds] at hj

/-- one step of a thread whose local state is `AmbOK d`: its new local state is `AmbOK d` for the new
shared state, the shared state only ever goes from `none` to `some _`, and lock ownership is as the
local states say. -/
theorem step_AmbOK (S S' : Sys (Option Bool) α) (i : Nat) (d : Bool) (hi : AmbOK d S.st (S.thr i))
    (hown : ∀ j, (S.thr j).holds = true → S.lock = some j)
    (hs : step S i = some S') :
    AmbOK d S'.st (S'.thr i) ∧ (∀ x, S.st = some x → S'.st = some x) ∧
    (∀ j, j ≠ i → S'.thr j = S.thr j) ∧ (∀ j, (S'.thr j).holds = true → S'.lock = some j) := by
  have hown' : ∀ (t' : TS (Option Bool) α) (lk : Option Nat) (S'' : Sys (Option Bool) α),
      S''.thr = upd S.thr i t' → S''.lock = lk →
      (t'.holds = true → lk = some i) → (∀ j, j ≠ i → (S.thr j).holds = true → lk = some j) →
      (∀ j, (S''.thr j).holds = true → S''.lock = some j) := by
    intro t' lk S'' ht hl h1 h2 j hj
    rw [hl]
    by_cases hji : j = i
    · subst hji; rw [ht] at hj; simp at hj; exact h1 hj
    · rw [ht, upd_other _ _ _ _ hji] at hj; exact h2 j hji hj
  have oth : ∀ (t' : TS (Option Bool) α) (S'' : Sys (Option Bool) α), S''.thr = upd S.thr i t' →
      ∀ j, j ≠ i → S''.thr j = S.thr j := by
    intro t' S'' ht j hj; rw [ht]; exact upd_other _ _ _ _ hj
  generalize hti : S.thr i = ti at hi
  cases hi with
  | prog ns =>
    cases ns with
    | nil => simp [step, hti, ambProg] at hs
    | cons n ns =>
      simp only [step, hti, ambProg, ambHandler] at hs
      split at hs
      · next hl =>
        cases hs
        refine ⟨by simpa using AmbOK.critA n ns, fun x hx => hx, oth _ _ rfl, ?_⟩
        refine hown' _ (some i) _ rfl rfl (fun _ => rfl) (fun j _ hj => ?_)
        have := hown j hj; rw [hl] at this; cases this
      · cases hs
  | critA n ns =>
    have hli : S.lock = some i := hown i (by rw [hti]; simp [TS.holds])
    simp only [step, hti] at hs
    cases hs
    refine ⟨?_, ?_, oth _ _ rfl, hown' _ S.lock _ rfl rfl (fun _ => hli) (fun j _ hj => hown j hj)⟩
    · simp only [upd_same]
      refine .critB n ns ?_
      cases S.st <;> simp [ambChoose]
    · intro x hx; simp [hx, ambChoose]
  | critB n ns hsome =>
    have hli : S.lock = some i := hown i (by rw [hti]; simp [TS.holds])
    simp only [step, hti] at hs
    cases hs
    refine ⟨by simpa using AmbOK.pre n ns hsome, fun x hx => hx, oth _ _ rfl, ?_⟩
    refine hown' _ none _ rfl rfl (by simp [TS.holds]) (fun j hji hj => ?_)
    have := hown j hj; rw [hli] at this; exact absurd (Option.some.inj this).symm hji
  | pre n ns hsome =>
    simp only [step, hti] at hs
    split at hs
    · cases hs
      exact ⟨by simpa using AmbOK.prog ns, fun x hx => hx, oth _ _ rfl,
        hown' _ S.lock _ rfl rfl (by simp [TS.holds]) (fun j _ hj => hown j hj)⟩
    · next c hc =>
      cases hs
      have hch : S.st = some d := by
        simp only [ambGuard] at hc
        split at hc
        · assumption
        · cases hc
      have hcn : c = n := by
        simp only [ambGuard, hch, if_true] at hc; exact (Option.some.inj hc).symm
      subst hcn
      cases hst : S.stopped
      · exact ⟨by simpa [Sys.callStep, hst] using AmbOK.chk c ns hch, fun x hx => by simpa [Sys.callStep, hst] using hx,
          oth (.uChk c (ambProg d ns)) _ (by simp [Sys.callStep, hst]),
          hown' (.uChk c (ambProg d ns)) S.lock _ (by simp [Sys.callStep, hst]) (by simp [Sys.callStep, hst])
            (by simp [TS.holds]) (fun j _ hj => hown j hj)⟩
      · exact ⟨by simpa [Sys.callStep, hst] using AmbOK.prog ns, fun x hx => by simpa [Sys.callStep, hst] using hx,
          oth (.run (ambProg d ns)) _ (by simp [Sys.callStep, hst]),
          hown' (.run (ambProg d ns)) S.lock _ (by simp [Sys.callStep, hst]) (by simp [Sys.callStep, hst])
            (by simp [TS.holds]) (fun j _ hj => hown j hj)⟩
  | chk n ns hch =>
    simp only [step, hti] at hs
    cases hs
    exact ⟨by simpa [Sys.commit] using AmbOK.inn ns hch, fun x hx => by simpa [Sys.commit] using hx, oth _ _ rfl,
      hown' _ S.lock _ rfl rfl (by simp [TS.holds]) (fun j _ hj => hown j hj)⟩
  | inn ns hch =>
    simp only [step, hti] at hs
    cases hs
    exact ⟨by simpa using AmbOK.prog ns, fun x hx => hx, oth _ _ rfl,
      hown' _ S.lock _ rfl rfl (by simp [TS.holds]) (fun j _ hj => hown j hj)⟩

theorem step_AmbInv (S S' : Sys (Option Bool) α) (i : Nat) (hI : AmbInv S) (hs : step S i = some S') :
    AmbInv S' := by
  obtain ⟨h0, h1, h2, hown⟩ := hI
  match i with
  | 0 =>
    obtain ⟨a, m, o, w⟩ := step_AmbOK S S' 0 false h0 hown hs
    refine ⟨a, ?_, fun j hj => ?_, w⟩
    · rw [o 1 (by omega)]; exact h1.mono m
    · rw [o j (by omega)]; exact h2 j hj
  | 1 =>
    obtain ⟨a, m, o, w⟩ := step_AmbOK S S' 1 true h1 hown hs
    refine ⟨?_, a, fun j hj => ?_, w⟩
    · rw [o 0 (by omega)]; exact h0.mono m
    · rw [o j (by omega)]; exact h2 j hj
  | i + 2 =>
    simp [step, h2 (i + 2) (by omega)] at hs

end Thr2

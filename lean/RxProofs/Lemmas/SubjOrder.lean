import RxProofs.Lemmas.SubjThm
/-!
# Per-observer order = call order, each call at most once (plain Subject)

`emits tr` — the notifications the subject accepted, oldest first.  Invariant: what an observer has been
handed is a subsequence of it (a pending delivery carries the latest accepted notification and its
observer has so far only been handed earlier ones; pending deliveries are for pairwise distinct
observers).
-/

namespace Subj
variable {α : Type}

def emits : List (Ev α) → List (Notif α)
  | [] => []
  | .emit n :: tr => emits tr ++ [n]
  | _ :: tr => emits tr

def deliverId : Task α → Option Id
  | .deliver i _ => some i
  | _ => none

theorem lastEmit_eq (tr : List (Ev α)) : lastEmit tr = (emits tr).getLast? := by
  induction tr with
  | nil => rfl
  | cons e tr ih => cases e <;> simp [lastEmit, emits, ih]

structure OInv (st : St α) (ag : List (Task α)) : Prop where
  sub : ∀ i, List.Sublist (recvs i st.tr) (emits st.tr) ∨ (recvs i st.tr = [.error disposedExn] ∧ st.disposed = true)
  pend : ∀ i n, Task.deliver i n ∈ ag →
    (emits st.tr).getLast? = some n ∧ List.Sublist (recvs i st.tr) (emits st.tr).dropLast
  distinct : (ag.filterMap deliverId).Nodup
  unseen : ∀ j, st.seen j = false → recvs j st.tr = []
  shape : ∀ n, Task.emit n ∈ ag → ag = [Task.emit n]

theorem sublist_snoc_of_dropLast {l e : List (Notif α)} {n : Notif α} (h1 : e.getLast? = some n)
    (h2 : List.Sublist l e.dropLast) : List.Sublist (l ++ [n]) e := by
  have : e = e.dropLast ++ [n] := by
    rcases List.eq_nil_or_concat e with rfl | ⟨e0, x, rfl⟩
    · simp at h1
    · simp at h1 ⊢; exact h1
  rw [this]
  exact List.Sublist.append h2 (List.Sublist.refl _)

theorem filterMap_deliverId_map (l : List Id) (n : Notif α) :
    (l.map (Task.deliver · n)).filterMap deliverId = l := by
  induction l with
  | nil => rfl
  | cons i is ih => simp [deliverId, ih]

theorem filterMap_deliverId_reactions (cfg : Cfg) (st : St α) (i : Id) :
    (reactions cfg st i).filterMap deliverId = [] := by
  simp [reactions, List.filterMap_map, Function.comp_def, deliverId]

theorem mem_filterMap_deliverId {ag : List (Task α)} {i : Id} :
    i ∈ ag.filterMap deliverId ↔ ∃ n, Task.deliver i n ∈ ag := by
  simp only [List.mem_filterMap]
  constructor
  · rintro ⟨t, ht, hd⟩
    cases t <;> simp [deliverId] at hd
    subst hd
    exact ⟨_, ht⟩
  · rintro ⟨n, hn⟩
    exact ⟨_, hn, rfl⟩

theorem OInv.congr {st st' : St α} {ag : List (Task α)} (h : OInv st ag) (e1 : st'.tr = st.tr)
    (e2 : st.disposed = true → st'.disposed = true) (e3 : ∀ j, st'.seen j = false → st.seen j = false) : OInv st' ag := by
  obtain ⟨o1, o2, o3, o4, o5⟩ := h
  refine ⟨?_, ?_, o3, ?_, o5⟩
  · intro i; rw [e1]
    rcases o1 i with h' | h'
    · exact Or.inl h'
    · exact Or.inr ⟨h'.1, e2 h'.2⟩
  · rw [e1]; exact o2
  · intro j hj; rw [e1]; exact o4 j (e3 j hj)

/-- One step, for a plain Subject. -/
theorem step1_oinv (cfg : Cfg) (v : Option α) (hv : InitOK cfg v) (hk : cfg.kind = .subject) {st : St α} {t : Task α}
    {ts : List (Task α)} (hr : Reachable cfg v st (t :: ts)) (h : OInv st (t :: ts)) :
    OInv (step1 cfg st t).1 (nextAgenda (step1 cfg st t) ts) := by
  have hI := (reachable_inv hr).1
  have hT := (reachable_inv hr).2
  have hV := reachable_vinv hv hr
  obtain ⟨o1, o2, o3, o4, o5⟩ := h
  -- the tail keeps its properties whenever the trace gains no recv/emit for its observers
  have htail_distinct : (ts.filterMap deliverId).Nodup := by
    have := o3
    simp only [List.filterMap_cons] at this
    split at this
    · exact this
    · exact (List.nodup_cons.mp this).2
  have htail_noemit : ∀ n, Task.emit n ∉ ts := by
    intro n hn
    have := o5 n (List.mem_cons_of_mem _ hn)
    have hlen := congrArg List.length this
    simp at hlen
    subst hlen
    simp at hn
  cases t with
  | emit n =>
    have hts : ts = [] := by
      have := o5 n (by simp)
      simpa using this
    subst hts
    have hnil : OInv st [] := ⟨o1, by simp, by simp, o4, by simp⟩
    by_cases hd : st.disposed = true
    · simp only [step1, emit, hd, if_true, nextAgenda, Bool.false_eq_true, if_false, List.append_nil]
      exact hnil.congr rfl (fun _ => rfl) (fun _ h => h)
    · have hd : st.disposed = false := by simpa using hd
      by_cases hs : st.stopped = true
      · simp only [step1, emit, hd, hs, if_true, nextAgenda, Bool.false_eq_true, if_false, List.append_nil]
        exact hnil
      · have hs : st.stopped = false := by simpa using hs
        have hobs : ∀ i ∈ st.observers, List.Sublist (recvs i st.tr) (emits st.tr) := by
          intro i hi
          rcases o1 i with h' | h'
          · exact h'
          · rw [hd] at h'; exact absurd h'.2 (by simp)
        have key : ∀ (st' : St α), st'.tr = .emit n :: st.tr → st'.seen = st.seen → st'.disposed = st.disposed →
            OInv st' (st.observers.map (Task.deliver · n) ++ []) := by
          intro st' htr hseen hdisp
          refine ⟨?_, ?_, ?_, ?_, ?_⟩
          · intro i
            rw [htr, hdisp]
            simp only [recvs, emits]
            rcases o1 i with h' | h'
            · exact Or.inl (h'.trans (List.sublist_append_left _ _))
            · exact Or.inr h'
          · intro i m hm
            simp only [List.append_nil, List.mem_map] at hm
            obtain ⟨a, ha, he⟩ := hm
            simp only [Task.deliver.injEq] at he
            obtain ⟨rfl, rfl⟩ := he
            rw [htr]
            simp only [recvs, emits]
            exact ⟨by simp, by simpa using hobs a ha⟩
          · simp only [List.append_nil]
            rw [filterMap_deliverId_map]
            exact hI.nodup
          · intro j hj
            rw [htr]; simp only [recvs]
            exact o4 j (by rw [← hseen]; exact hj)
          · intro m hm
            simp at hm
        cases n with
        | next x =>
          simp only [step1, emit, hd, hs, hk, nextAgenda, Bool.false_eq_true, if_false]
          exact key _ rfl rfl (by simp [hd])
        | error e =>
          simp only [step1, emit, hd, hs, nextAgenda, Bool.false_eq_true, if_false]
          exact key _ rfl rfl (by simp [hd])
        | completed =>
          simp only [step1, emit, hd, hs, hk, nextAgenda, Bool.false_eq_true, if_false]
          exact key _ rfl rfl (by simp [hd])
  | deliver i n =>
    have hp := o2 i n (by simp)
    have hi_seen : st.seen i = true := by
      have := hT (Task.deliver i n) (by simp)
      simp only [TaskOK] at this
      exact this.1
    have hnotin : ∀ m, Task.deliver i m ∉ ts := by
      intro m hm
      have := o3
      simp only [List.filterMap_cons, deliverId] at this
      exact (List.nodup_cons.mp this).1 (mem_filterMap_deliverId.mpr ⟨m, hm⟩)
    -- generic: the state after a callback / default_error for i
    have key : ∀ (st' : St α) (new : List (Task α)), st'.tr = .recv i n :: st.tr → st'.seen = st.seen →
        st'.disposed = st.disposed → new.filterMap deliverId = [] → (∀ m, Task.emit m ∉ new) →
        OInv st' (new ++ ts) := by
      intro st' new htr hseen hdisp hnew hnoemit
      refine ⟨?_, ?_, ?_, ?_, ?_⟩
      · intro k
        rw [htr, hdisp]
        simp only [recvs, emits]
        by_cases hki : i = k
        · subst hki
          simp only [if_true]
          exact Or.inl (sublist_snoc_of_dropLast hp.1 hp.2)
        · simpa [hki] using o1 k
      · intro k m hm
        rcases List.mem_append.mp hm with hm | hm
        · have : k ∈ new.filterMap deliverId := mem_filterMap_deliverId.mpr ⟨m, hm⟩
          rw [hnew] at this; exact absurd this (by simp)
        · have hki : i ≠ k := fun e => hnotin m (e ▸ hm)
          rw [htr]
          simp only [recvs, emits, hki, if_false]
          exact o2 k m (List.mem_cons_of_mem _ hm)
      · rw [List.filterMap_append, hnew]; exact htail_distinct
      · intro j hj
        have hji : i ≠ j := fun e => by subst e; rw [hseen, hi_seen] at hj; exact absurd hj (by simp)
        rw [htr]
        simp only [recvs, hji, if_false]
        exact o4 j (by rw [← hseen]; exact hj)
      · intro m hm
        rcases List.mem_append.mp hm with hm | hm
        · exact absurd hm (hnoemit m)
        · exact absurd hm (htail_noemit m)
    have hnoemit_r : ∀ (s : St α) m, Task.emit m ∉ reactions cfg s i := by
      intro s m; simp [reactions]
    by_cases hst : st.adoStopped i = true
    · simp only [step1, deliver, hst, if_true, nextAgenda, Bool.false_eq_true, if_false, List.nil_append]
      exact ⟨o1, fun k m hm => o2 k m (List.mem_cons_of_mem _ hm), htail_distinct, o4,
        fun m hm => absurd hm (htail_noemit m)⟩
    · have hst : st.adoStopped i = false := by simpa using hst
      cases n with
      | next x =>
        simp only [step1, deliver, hst, nextAgenda, Bool.false_eq_true, if_false]
        exact key _ _ rfl rfl rfl (filterMap_deliverId_reactions _ _ _) (hnoemit_r _)
      | completed =>
        simp only [step1, deliver, hst, nextAgenda, Bool.false_eq_true, if_false]
        refine key _ _ rfl rfl rfl ?_ ?_
        · rw [List.filterMap_append, filterMap_deliverId_reactions]; rfl
        · intro m hm
          rcases List.mem_append.mp hm with hm | hm
          · exact hnoemit_r _ m hm
          · simp at hm
      | error e =>
        by_cases he : cfg.hasErr i = true
        · simp only [step1, deliver, hst, nextAgenda, Bool.false_eq_true, if_false, he, if_true]
          refine key _ _ rfl rfl rfl ?_ ?_
          · rw [List.filterMap_append, filterMap_deliverId_reactions]; rfl
          · intro m hm
            rcases List.mem_append.mp hm with hm | hm
            · exact hnoemit_r _ m hm
            · simp at hm
        · simp only [step1, deliver, hst, nextAgenda, Bool.false_eq_true, if_false, he, if_true]
          have hs : ∀ s : St α, (sadDispose s i).tr = s.tr ∧ (sadDispose s i).seen = s.seen ∧ (sadDispose s i).disposed = s.disposed := by
            intro s
            unfold sadDispose innerDispose
            dsimp only
            repeat' split
            all_goals simp
          have := key { (sadDispose { st with adoStopped := upd st.adoStopped i true, tr := .recv i (.error e) :: st.tr } i) with raisedNow := some e } []
            (by simp [(hs _).1]) (by simp [(hs _).2.1]) (by simp [(hs _).2.2]) rfl (by simp)
          exact ⟨this.sub, by simp, by simp, this.unseen, by simp⟩
  | act who a =>
    -- steps whose trace gains neither recv nor emit, and that push no deliveries
    have key : ∀ (st' : St α) (new : List (Task α)), (∀ k, recvs k st'.tr = recvs k st.tr) → emits st'.tr = emits st.tr →
        (∀ j, st'.seen j = false → st.seen j = false) → (st.disposed = true → st'.disposed = true) →
        new.filterMap deliverId = [] → (∀ m, Task.emit m ∉ new) → OInv st' (new ++ ts) := by
      intro st' new hre hem hseen hdisp hnew hnoemit
      refine ⟨?_, ?_, ?_, ?_, ?_⟩
      · intro k
        rw [hre, hem]
        rcases o1 k with h' | h'
        · exact Or.inl h'
        · exact Or.inr ⟨h'.1, hdisp h'.2⟩
      · intro k m hm
        rcases List.mem_append.mp hm with hm | hm
        · have : k ∈ new.filterMap deliverId := mem_filterMap_deliverId.mpr ⟨m, hm⟩
          rw [hnew] at this; exact absurd this (by simp)
        · rw [hre, hem]; exact o2 k m (List.mem_cons_of_mem _ hm)
      · rw [List.filterMap_append, hnew]; exact htail_distinct
      · intro j hj; rw [hre]; exact o4 j (hseen j hj)
      · intro m hm
        rcases List.mem_append.mp hm with hm | hm
        · exact absurd hm (hnoemit m)
        · exact absurd hm (htail_noemit m)
    cases a with
    | unsub j =>
      have hu : (doUnsub st j).tr = st.tr ∨ (doUnsub st j).tr = .unsub j :: st.tr := by
        unfold doUnsub adoDispose sadDispose innerDispose
        dsimp only
        repeat' split
        all_goals simp
      have hu2 : (doUnsub st j).seen = st.seen ∧ (doUnsub st j).disposed = st.disposed := by
        unfold doUnsub adoDispose sadDispose innerDispose
        dsimp only
        repeat' split
        all_goals simp
      simp only [step1, nextAgenda, Bool.false_eq_true, if_false]
      refine key _ [] ?_ ?_ (fun j hj => by rw [← hu2.1]; exact hj) (fun hd => by rw [hu2.2]; exact hd) rfl (by simp)
      · intro k; rcases hu with h' | h' <;> simp [h', recvs]
      · rcases hu with h' | h' <;> simp [h', emits]
    | dispose =>
      simp only [step1, nextAgenda, Bool.false_eq_true, if_false]
      exact key _ [] (fun k => by simp [subjDispose, recvs]) (by simp [subjDispose, emits]) (fun j hj => hj)
        (fun _ => by simp [subjDispose]) rfl (by simp)
    | sub j =>
      by_cases hj : st.seen j = true
      · simp only [step1, doSub, hj, if_true, nextAgenda, Bool.false_eq_true, if_false]
        exact key st [] (fun _ => rfl) rfl (fun _ h => h) (fun h => h) rfl (by simp)
      · have hj : st.seen j = false := by simpa using hj
        have hrj := o4 j hj
        have hts_ne : ∀ m, Task.deliver j m ∉ ts := by
          intro m hm
          have := hT (Task.deliver j m) (List.mem_cons_of_mem _ hm)
          simp only [TaskOK] at this
          rw [hj] at this; exact absurd this.1 (by simp)
        have hseen_upd : ∀ k, upd st.seen j true k = false → st.seen k = false := by
          intro k hk
          by_cases hkj : k = j
          · subst hkj; simp at hk
          · simpa [hkj] using hk
        by_cases hd : st.disposed = true
        · -- refused: DisposedException through the fail path
          have base : ∀ (st' : St α) (new : List (Task α)), st'.tr = .recv j (.error disposedExn) :: st.tr →
              st'.seen = upd st.seen j true → st'.disposed = st.disposed → new.filterMap deliverId = [] →
              (∀ m, Task.emit m ∉ new) → OInv st' (new ++ ts) := by
            intro st' new htr hseen hdisp hnew hnoemit
            refine ⟨?_, ?_, ?_, ?_, ?_⟩
            · intro k
              rw [htr, hdisp]
              simp only [recvs, emits]
              by_cases hkj : j = k
              · subst hkj
                simp only [if_true, hrj, List.nil_append]
                right
                exact ⟨by simp, hd⟩
              · simpa [hkj] using o1 k
            · intro k m hm
              rcases List.mem_append.mp hm with hm | hm
              · have : k ∈ new.filterMap deliverId := mem_filterMap_deliverId.mpr ⟨m, hm⟩
                rw [hnew] at this; exact absurd this (by simp)
              · have hkj : j ≠ k := fun e => hts_ne m (e ▸ hm)
                rw [htr]
                simp only [recvs, emits, hkj, if_false]
                exact o2 k m (List.mem_cons_of_mem _ hm)
            · rw [List.filterMap_append, hnew]; exact htail_distinct
            · intro k hk
              rw [hseen] at hk
              have hkj : j ≠ k := fun e => by subst e; simp at hk
              rw [htr]
              simp only [recvs, hkj, if_false]
              exact o4 k (hseen_upd k hk)
            · intro m hm
              rcases List.mem_append.mp hm with hm | hm
              · exact absurd hm (hnoemit m)
              · exact absurd hm (htail_noemit m)
          by_cases he : cfg.hasErr j = true
          · simp only [step1, doSub, hj, hd, he, if_true, nextAgenda, Bool.false_eq_true, if_false]
            refine base _ _ rfl rfl (by simp [callback, hd]) ?_ ?_
            · rw [List.filterMap_append, filterMap_deliverId_reactions]; rfl
            · intro m hm
              rcases List.mem_append.mp hm with hm | hm
              · simp [reactions] at hm
              · simp at hm
          · simp only [step1, doSub, hj, hd, he, if_true, nextAgenda, Bool.false_eq_true, if_false]
            cases who <;> exact base _ [] rfl rfl (by simp [raiseTo, hd]) rfl (by simp)
        · have hd : st.disposed = false := by simpa using hd
          by_cases hs : st.stopped = true
          · -- late subscriber
            have hterm := (hV.term hd).1 hs
            have hlast : (emits st.tr).getLast? = some (termOf st) := by
              rw [← lastEmit_eq]
              unfold terminated at hterm
              split at hterm <;> simp_all
            have late : ∀ (st' : St α) (n : Notif α), n = termOf st → st'.tr = st.tr → st'.seen = upd st.seen j true →
                st'.disposed = st.disposed →
                OInv st' ([Task.deliver j n, Task.finish j (some .noop)] ++ ts) := by
              intro st' n hn htr hseen hdisp
              refine ⟨?_, ?_, ?_, ?_, ?_⟩
              · rw [htr, hdisp]; exact o1
              · intro k m hm
                rw [htr]
                simp only [List.cons_append, List.nil_append, List.mem_cons, Task.deliver.injEq, reduceCtorEq, false_or] at hm
                rcases hm with ⟨rfl, rfl⟩ | hm
                · rw [hn, hrj]; exact ⟨hlast, List.nil_sublist _⟩
                · exact o2 k m (List.mem_cons_of_mem _ hm)
              · simp only [List.cons_append, List.nil_append, List.filterMap_cons, deliverId]
                refine List.nodup_cons.mpr ⟨?_, htail_distinct⟩
                intro hm
                obtain ⟨m, hm⟩ := mem_filterMap_deliverId.mp hm
                exact hts_ne m hm
              · intro k hk
                rw [htr]; rw [hseen] at hk
                exact o4 k (hseen_upd k hk)
              · intro m hm
                simp only [List.cons_append, List.nil_append, List.mem_cons, reduceCtorEq, false_or] at hm
                exact absurd hm (htail_noemit m)
            cases hx : st.exception with
            | none =>
              have := late { st with seen := upd st.seen j true } .completed (by simp [termOf, hx]) rfl rfl rfl
              simpa [step1, doSub, hj, hd, hs, hx, hk, nextAgenda] using this
            | some e =>
              by_cases he : cfg.hasErr j = true
              · have := late { st with seen := upd st.seen j true } (.error e) (by simp [termOf, hx]) rfl rfl rfl
                simpa [step1, doSub, hj, hd, hs, hx, he, nextAgenda] using this
              · -- no handler: default_error raises; the AutoDetachObserver was handed the error
                have hmem : Notif.error e ∈ emits st.tr := by
                  have := List.mem_of_getLast? hlast
                  simpa [termOf, hx] using this
                have base : ∀ (st' : St α), st'.tr = .recv j (.error e) :: st.tr → st'.seen = upd st.seen j true →
                    st'.disposed = st.disposed → OInv st' ([] ++ ts) := by
                  intro st' htr hseen hdisp
                  refine ⟨?_, ?_, ?_, ?_, ?_⟩
                  · intro k
                    rw [htr, hdisp]
                    simp only [recvs, emits]
                    by_cases hkj : j = k
                    · subst hkj
                      simp only [if_true, hrj, List.nil_append]
                      exact Or.inl (List.singleton_sublist.mpr hmem)
                    · simpa [hkj] using o1 k
                  · intro k m hm
                    have hkj : j ≠ k := fun e' => hts_ne m (e' ▸ (by simpa using hm))
                    rw [htr]
                    simp only [recvs, emits, hkj, if_false]
                    exact o2 k m (List.mem_cons_of_mem _ (by simpa using hm))
                  · simpa using htail_distinct
                  · intro k hk
                    rw [hseen] at hk
                    have hkj : j ≠ k := fun e' => by subst e'; simp at hk
                    rw [htr]
                    simp only [recvs, hkj, if_false]
                    exact o4 k (hseen_upd k hk)
                  · intro m hm
                    exact absurd (by simpa using hm) (htail_noemit m)
                simp only [step1, doSub, hj, hd, hs, hx, he, nextAgenda, Bool.false_eq_true, if_false, Bool.not_true]
                cases who <;> exact base _ rfl rfl (by simp [raiseTo, hd])
          · have hs : st.stopped = false := by simpa using hs
            have := key { st with seen := upd st.seen j true, observers := st.observers ++ [j], tr := .sub j :: st.tr }
              [Task.finish j (some .inner)] (fun k => by simp [recvs]) (by simp [emits]) hseen_upd (fun h => h) rfl (by simp)
            simpa [step1, doSub, hj, hd, hs, hk, nextAgenda] using this
  | finish j hh =>
    have hf : (finish st j hh).tr = st.tr ∧ (finish st j hh).seen = st.seen ∧ (finish st j hh).disposed = st.disposed := by
      unfold finish innerDispose
      dsimp only
      repeat' split
      all_goals simp
    simp only [step1, nextAgenda, Bool.false_eq_true, if_false, List.nil_append]
    refine ⟨?_, ?_, htail_distinct, ?_, fun m hm => absurd hm (htail_noemit m)⟩
    · rw [hf.1, hf.2.2]; exact o1
    · intro k m hm; rw [hf.1]; exact o2 k m (List.mem_cons_of_mem _ hm)
    · intro k hk; rw [hf.1]; exact o4 k (by rw [← hf.2.1]; exact hk)
  | sadDispose i =>
    have hf : (sadDispose st i).tr = st.tr ∧ (sadDispose st i).seen = st.seen ∧ (sadDispose st i).disposed = st.disposed := by
      unfold sadDispose innerDispose
      dsimp only
      repeat' split
      all_goals simp
    simp only [step1, nextAgenda, Bool.false_eq_true, if_false, List.nil_append]
    refine ⟨?_, ?_, htail_distinct, ?_, fun m hm => absurd hm (htail_noemit m)⟩
    · rw [hf.1, hf.2.2]; exact o1
    · intro k m hm; rw [hf.1]; exact o2 k m (List.mem_cons_of_mem _ hm)
    · intro k hk; rw [hf.1]; exact o4 k (by rw [← hf.2.1]; exact hk)

end Subj

namespace Subj
variable {α : Type}

theorem reachable_oinv {cfg : Cfg} {v : Option α} (hv : InitOK cfg v) (hk : cfg.kind = .subject) {st : St α}
    {ag : List (Task α)} (h : Reachable cfg v st ag) : OInv st ag := by
  induction h with
  | init =>
    have : (init cfg v).tr = [] ∧ (init cfg v).seen = fun _ => false := by simp [init, hk]
    exact ⟨fun i => Or.inl (by rw [this.1]; simp [recvs]), by simp, by simp,
      fun j _ => by rw [this.1]; rfl, by simp⟩
  | @call st c hr ih =>
    have hnil : OInv st [] := ih
    refine ⟨?_, ?_, ?_, ?_, ?_⟩
    · exact hnil.sub
    · intro i n hm
      simp only [List.mem_singleton] at hm
      cases c <;> simp [Call.toTask] at hm
    · cases c <;> simp [Call.toTask, deliverId, List.filterMap_cons]
    · exact hnil.unseen
    · intro n hn
      simp only [List.mem_singleton] at hn
      rw [hn]
  | @step st t ts hr ih => exact step1_oinv cfg v hv hk hr ih
  | @oof st ag hr ih => exact ⟨ih.sub, by simp, by simp, ih.unseen, by simp⟩

end Subj

import RxProofs.Lemmas.StructConnRc
/-!
# auto_connect invariants over the Connectable model (C24)

As written in `ConnectableObservable.auto_connect`: `count` is the number of subscribers currently
present, `is_connected` is reset by every unsubscribe, the connection is never disposed.
-/

namespace Conn
namespace World
variable {α : Type}

structure AcInv (n : Nat) (w : World α) : Prop where
  conn : ConnInv w
  wrap : w.wrap = .autoConnect n
  cnt : w.count = (w.live.length : Int)
  ic : w.isConnected = true → w.hasSub = true
  lt : w.hasSub = false → w.count < (n : Int)

theorem AcInv.congr {n : Nat} {w w' : World α} (h : AcInv n w) (h1 : w'.hasSub = w.hasSub) (h2 : w'.srcOpen = w.srcOpen)
    (h3 : w'.curHandle = w.curHandle) (h4 : w'.curSrc = w.curSrc) (h5 : w'.wrap = w.wrap)
    (h6 : w'.count = w.count) (h7 : w'.live = w.live) (h8 : w'.isConnected = w.isConnected) : AcInv n w' :=
  ⟨h.conn.congr h1 h2 h3 h4, by rw [h5]; exact h.wrap, by rw [h6, h7]; exact h.cnt,
   by rw [h1, h8]; exact h.ic, by rw [h1, h6]; exact h.lt⟩

theorem ac_closeSrc {n : Nat} {w : World α} (h : AcInv n w) (t sid : Nat) : AcInv n (w.closeSrc t sid) :=
  ⟨closeSrc_inv h.conn t sid, by simp [h.wrap], by simp [h.cnt], by simpa using h.ic, by simpa using h.lt⟩

theorem ac_disposeSub {n : Nat} {w : World α} (h : AcInv n w) (t i : Nat) :
    AcInv n (w.disposeSub t i) ∧ (w.disposeSub t i).hasSub = w.hasSub := by
  cases hi : w.live.contains i with
  | false => rw [disposeSub_absent t i hi]; exact ⟨h, rfl⟩
  | true =>
    rw [disposeSub_ac h.wrap t i hi]
    obtain ⟨hlen, hpos⟩ := length_erase_mem w.live i hi
    have hcnt := h.cnt
    refine ⟨⟨h.conn.congr rfl rfl rfl rfl, h.wrap, ?_, ?_, ?_⟩, rfl⟩
    · show w.count - 1 = ((w.live.erase i).length : Int); omega
    · intro hh; cases hh
    · intro hh
      have := h.lt hh
      show w.count - 1 < (n : Int); omega

theorem ac_deliver {n : Nat} (t : Nat) (dl : List (Nat × Notif α)) : ∀ {w : World α}, AcInv n w →
    AcInv n (w.deliver t dl) ∧ (w.deliver t dl).hasSub = w.hasSub := by
  induction dl with
  | nil => intro w h; exact ⟨h, rfl⟩
  | cons d rest ih =>
    intro w h
    obtain ⟨i, x⟩ := d
    simp only [deliver]
    have h1 : AcInv n ({ w with out := w.out ++ [(i, t, x)] } : World α) := h.congr rfl rfl rfl rfl rfl rfl rfl rfl
    split
    · have h2 := ac_disposeSub h1 t i
      have h3 := ih h2.1
      exact ⟨h3.1, by rw [h3.2, h2.2]⟩
    · have h3 := ih h1
      exact ⟨h3.1, by rw [h3.2]⟩

theorem ac_srcDeliver {n : Nat} {w : World α} (h : AcInv n w) (t sid : Nat) (x : Notif α) :
    AcInv n (w.srcDeliver t sid x) ∧ (w.srcDeliver t sid x).hasSub = w.hasSub := by
  unfold srcDeliver
  have h1 := ac_deliver (n := n) t (w.subj.onNotif x).2 (w := ({ w with subj := (w.subj.onNotif x).1 } : World α))
    (h.congr rfl rfl rfl rfl rfl rfl rfl rfl)
  split
  · exact ⟨ac_closeSrc h1.1 t sid, by rw [closeSrc_hasSub, h1.2]⟩
  · exact h1

theorem ac_foldl_srcDeliver {n : Nat} (t : Nat) (x : Notif α) (subs : List (SrcSub α)) :
    ∀ {w : World α}, AcInv n w →
      AcInv n (subs.foldl (fun (acc : World α) (s : SrcSub α) => acc.srcDeliver t s.id x) w) ∧
      (subs.foldl (fun (acc : World α) (s : SrcSub α) => acc.srcDeliver t s.id x) w).hasSub = w.hasSub := by
  induction subs with
  | nil => intro w h; exact ⟨h, rfl⟩
  | cons s rest ih =>
    intro w h
    have h1 := ac_srcDeliver h t s.id x
    have h2 := ih h1.1
    exact ⟨h2.1, by rw [List.foldl_cons, h2.2, h1.2]⟩

theorem ac_popCold {n : Nat} {w : World α} (h : AcInv n w) (sid' : Nat) :
    AcInv n ({ w with srcOpen := popCold w.srcOpen sid' } : World α) :=
  ⟨popCold_inv h.conn sid', h.wrap, h.cnt, h.ic, h.lt⟩

theorem ac_advance {n : Nat} (limit : Nat) : ∀ (fuel : Nat) {w : World α}, AcInv n w →
    AcInv n (advance limit fuel w) ∧ (advance limit fuel w).hasSub = w.hasSub := by
  intro fuel
  induction fuel with
  | zero => intro w h; exact ⟨h, rfl⟩
  | succ k ih =>
    intro w h
    unfold advance
    simp only []
    split
    · exact ⟨h, rfl⟩
    · rename_i _ _ tt xx _ _
      have h1 := ac_foldl_srcDeliver (n := n) tt xx w.srcOpen (w := ({ w with hot := w.hot.map (fun (l : List (Nat × Notif α)) => l.drop 1) } : World α))
        (h.congr rfl rfl rfl rfl rfl rfl rfl rfl)
      have h2 := ih h1.1
      exact ⟨h2.1, by rw [h2.2, h1.2]⟩
    · rename_i _ _ sid tt xx _ _
      have h1 := ac_srcDeliver (ac_popCold h sid) tt sid xx
      have h2 := ih h1.1
      exact ⟨h2.1, by rw [h2.2, h1.2]⟩
    · rename_i _ _ th xh sid tc xc _ _
      split
      · have h1 := ac_foldl_srcDeliver (n := n) th xh w.srcOpen (w := ({ w with hot := w.hot.map (fun (l : List (Nat × Notif α)) => l.drop 1) } : World α))
          (h.congr rfl rfl rfl rfl rfl rfl rfl rfl)
        have h2 := ih h1.1
        exact ⟨h2.1, by rw [h2.2, h1.2]⟩
      · have h1 := ac_srcDeliver (ac_popCold h sid) tc sid xc
        have h2 := ih h1.1
        exact ⟨h2.1, by rw [h2.2, h1.2]⟩

theorem opSub_ac {n : Nat} {w : World α} (hw : w.wrap = .autoConnect n) (t i : Nat) :
    w.opSub t i =
      (let w1 := ({ w with count := w.count + 1, subj := (w.subj.subscribe i).1, live := w.live ++ [i] } : World α).record t (w.subj.subscribe i).2
       let w2 := if (w.count + 1 == (n : Int) && !w.isConnected) = true then { (w1.connect t) with isConnected := true } else w1
       if ((w.subj.subscribe i).2.any (fun d => d.2.isTerminal)) = true then w2.disposeSub t i else w2) := by
  unfold opSub
  split
  · rename_i h; rw [hw] at h; cases h
  · rename_i h; rw [hw] at h; cases h
  · rename_i m h; rw [hw] at h; cases h; rfl

/-- subscribing under `auto_connect(n)`: the invariant is kept, a connected observable stays
connected, and an unconnected one becomes connected exactly when this subscriber is the n-th present -/
theorem ac_opSub {n : Nat} {w : World α} (h : AcInv n w) (t i : Nat) :
    AcInv n (w.opSub t i) ∧ (w.hasSub = true → (w.opSub t i).hasSub = true) ∧
    (w.hasSub = false → ((w.opSub t i).hasSub = true ↔ w.count + 1 = (n : Int))) := by
  rw [opSub_ac h.wrap t i]
  simp only []
  have hcnt := h.cnt
  have hc1 : AcInv n (({ w with count := w.count + 1, subj := (w.subj.subscribe i).1, live := w.live ++ [i] } : World α).record t (w.subj.subscribe i).2)
      ∨ True := Or.inr trivial
  have conn1 : ConnInv (({ w with count := w.count + 1, subj := (w.subj.subscribe i).1, live := w.live ++ [i] } : World α).record t (w.subj.subscribe i).2) :=
    h.conn.congr rfl rfl rfl rfl
  -- the world before the deferred dispose
  have key : ∀ w2 : World α, w2 = (if (w.count + 1 == (n : Int) && !w.isConnected) = true then
        { ((({ w with count := w.count + 1, subj := (w.subj.subscribe i).1, live := w.live ++ [i] } : World α).record t (w.subj.subscribe i).2).connect t) with isConnected := true }
      else (({ w with count := w.count + 1, subj := (w.subj.subscribe i).1, live := w.live ++ [i] } : World α).record t (w.subj.subscribe i).2)) →
      AcInv n w2 ∧ (w.hasSub = true → w2.hasSub = true) ∧ (w.hasSub = false → (w2.hasSub = true ↔ w.count + 1 = (n : Int))) := by
    intro w2 hw2
    subst hw2
    split
    · rename_i hsh
      have hsh' : w.count + 1 = (n : Int) ∧ w.isConnected = false := by simpa using hsh
      refine ⟨⟨(connect_inv conn1 t).congr rfl rfl rfl rfl, ?_, ?_, ?_, ?_⟩, ?_, ?_⟩
      · simp [record, h.wrap]
      · simp [record]; omega
      · intro _; simp
      · intro hh; simp at hh
      · intro _; simp
      · intro _; simp [hsh'.1]
    · rename_i hsh
      refine ⟨⟨conn1, ?_, ?_, ?_, ?_⟩, ?_, ?_⟩
      · simp [record, h.wrap]
      · simp [record]; omega
      · intro hh; exact h.ic (by simpa [record] using hh)
      · intro hh
        have hns : w.hasSub = false := by simpa [record] using hh
        have hlt := h.lt hns
        have hic : w.isConnected = false := by
          cases hx : w.isConnected with
          | false => rfl
          | true => have := h.ic hx; rw [hns] at this; cases this
        have : ¬ (w.count + 1 = (n : Int)) := by
          intro he; apply hsh; simp [he, hic]
        show w.count + 1 < (n : Int); omega
      · intro hh; simpa [record] using hh
      · intro hns
        have hic : w.isConnected = false := by
          cases hx : w.isConnected with
          | false => rfl
          | true => have := h.ic hx; rw [hns] at this; cases this
        have : ¬ (w.count + 1 = (n : Int)) := by
          intro he; apply hsh; simp [he, hic]
        constructor
        · intro hh
          have : w.hasSub = true := by simpa [record] using hh
          rw [hns] at this; cases this
        · intro he; exact absurd he this
  split
  · have k := key _ rfl
    have d := ac_disposeSub k.1 t i
    exact ⟨d.1, fun hs => by rw [d.2]; exact k.2.1 hs, fun hs => by rw [d.2]; exact k.2.2 hs⟩
  · exact key _ rfl

theorem ac_runOps {n : Nat} (ops : List (Nat × Op)) : ∀ {w : World α} (hs : List (Option Nat)), AcInv n w →
    subOnly ops = true → AcInv n (w.runOps hs ops).1 ∧ (w.hasSub = true → (w.runOps hs ops).1.hasSub = true) := by
  induction ops with
  | nil => intro w hs h _; exact ⟨h, id⟩
  | cons o rest ih =>
    intro w hs h hso
    obtain ⟨t, op⟩ := o
    have ha := ac_advance (n := n) t (w.pendingCount + 1) h
    cases op with
    | sub i =>
      simp only [runOps, applyOp]
      have h1 := ac_opSub ha.1 t i
      have h2 := ih hs h1.1 (by simpa [subOnly] using hso)
      exact ⟨h2.1, fun hh => h2.2 (h1.2.1 (by rw [ha.2]; exact hh))⟩
    | unsub i =>
      simp only [runOps, applyOp]
      have h1 := ac_disposeSub ha.1 t i
      have h2 := ih hs h1.1 (by simpa [subOnly] using hso)
      exact ⟨h2.1, fun hh => h2.2 (by rw [h1.2, ha.2]; exact hh)⟩
    | connect => simp [subOnly] at hso
    | disconnect k => simp [subOnly] at hso

theorem Fresh.ac {n : Nat} {w : World α} (h : Fresh w) (hw : w.wrap = .autoConnect n) (hn : 0 < n) : AcInv n w := by
  refine ⟨h.inv, hw, ?_, ?_, ?_⟩
  · rw [h.2.2.2.2.1, h.2.2.2.2.2.1]; rfl
  · intro hh; rw [h.2.2.2.2.2.2.1] at hh; cases hh
  · intro _; rw [h.2.2.2.2.1]; omega

end World
end Conn

import RxProofs.Lemmas.DispBase
/-!
# Invariants behind C26 (Composite, Serial, SingleAssignment (fixed), MultipleAssignment)

For every item `i`, in every reachable state of the thread system:
`cnt i + (#pending call-outs for i in threads) + (#times the container holds i) [+ dropped i] = given i`.
-/
namespace Disp

theorem count_bump (c : Nat → Nat) (i j : Nat) : bump c j i = c i + [j].count i := by
  by_cases h : i = j
  · subst h; simp
  · have : j ≠ i := fun e => h e.symm
    simp [bump, h, this]

/-! ### CompositeDisposable -/

/-- pending call-outs `item_i.dispose()` in a thread -/
def cPendW (i : Nat) : CTh → Nat
  | (.pend l _, _) => l.count i
  | _ => 0

/-- `add i` operations not yet executed by a thread -/
def cProgAdds (i : Nat) : CTh → Nat
  | (_, p) => p.count (.add i)

/-- `dispose()` calls of a thread that have not yet got past their first step(s) -/
def cProgDisp : CTh → Nat
  | (.chk0, p) => 1 + p.count .dispose
  | (_, p) => p.count .dispose

theorem cOut_sh (s : CSh) (ev l r p) : (CSh.out s ev l r p).1.cnt = s.cnt ∧ (CSh.out s ev l r p).1.items = s.items
   ∧ (CSh.out s ev l r p).1.given = s.given ∧ (CSh.out s ev l r p).1.isDisposed = s.isDisposed
   ∧ (CSh.out s ev l r p).1.dcalls = s.dcalls := by
  cases l <;> simp [CSh.out]

theorem cOut_pend (i : Nat) (s : CSh) (ev l r p) : cPendW i (CSh.out s ev l r p).2 = l.count i := by
  cases l <;> simp [CSh.out, cPendW]

theorem cOut_prog (s : CSh) (ev l r p) : (CSh.out s ev l r p).2.2 = p := by
  cases l <;> simp [CSh.out]

theorem cOut_adds (i : Nat) (s : CSh) (ev l r p) : cProgAdds i (CSh.out s ev l r p).2 = p.count (.add i) := by
  cases l <;> simp [CSh.out, cProgAdds]

theorem cOut_disp (s : CSh) (ev l r p) : cProgDisp (CSh.out s ev l r p).2 = p.count .dispose := by
  cases l <;> simp [CSh.out, cProgDisp]

def CInv1 (s : Sys CSh CTh) : Prop :=
  ∀ i, s.sh.cnt i + wsum (cPendW i) s.pcs + s.sh.items.count i = s.sh.given i

theorem c1_step (s : Sys CSh CTh) (tid : Nat) (h1 : CInv1 s) : CInv1 (s.step cStep tid) := by
  apply Sys.step_cases cStep s tid CInv1 h1
  intro p hp i
  obtain ⟨rest, e1, e2⟩ := wsum_split (cPendW i) s.pcs tid p hp
  have h := h1 i; rw [e1] at h
  simp only [e2]
  obtain ⟨pc, prog⟩ := p
  cases pc with
  | idle =>
    cases prog with
    | nil => simpa [cStep] using h
    | cons op prog =>
      cases op with
      | add j =>
        simp only [cStep]
        split <;> simp only [cOut_sh, cOut_pend] <;> simp [cPendW, count_bump, List.count_append] at h ⊢ <;> omega
      | remove j =>
        simp only [cStep]
        split <;> simp only [cOut_sh, cOut_pend] <;> simp [cPendW] at h ⊢ <;> omega
      | clear =>
        simp only [cStep, cOut_sh, cOut_pend]; simp [cPendW] at h ⊢; omega
      | dispose =>
        simp only [cStep]
        split <;> simp only [cOut_sh, cOut_pend] <;> simp [cPendW] at h ⊢ <;> omega
      | len => simp only [cStep, cOut_sh, cOut_pend]; simp [cPendW] at h ⊢; omega
      | contains j => simp only [cStep, cOut_sh, cOut_pend]; simp [cPendW] at h ⊢; omega
  | pend l r =>
    match l with
    | [] => simpa [cStep, cPendW] using h
    | [j] => simp [cStep, cPendW, count_bump] at h ⊢; omega
    | j :: k :: l => simp [cStep, cPendW, count_bump, List.count_cons] at h ⊢; omega
  | chk1 j =>
    simp only [cStep]
    split
    · rename_i hj
      simp only [cOut_sh, cOut_pend]
      simp [cPendW] at h ⊢
      by_cases hij : i = j
      · subst hij
        have := List.count_pos_iff.mpr hj
        simp [List.count_erase_self]; omega
      · have : j ≠ i := fun e => hij e.symm
        simp [List.count_erase_of_ne hij, this]; omega
    · simp only [cOut_sh, cOut_pend]; simp [cPendW] at h ⊢; omega
  | chk0 => simp only [cStep, cOut_sh, cOut_pend]; simp [cPendW] at h ⊢; omega
  | after j => simpa [cStep, cPendW] using h

/-- flag ⇒ empty list; a `dispose()` call that got past its first steps ⇒ flag -/
def CInv2 (s : Sys CSh CTh) : Prop :=
  (s.sh.isDisposed = true → s.sh.items = []) ∧ (0 < s.sh.dcalls → s.sh.isDisposed = true)

theorem c2_step (s : Sys CSh CTh) (tid : Nat) (h : CInv2 s) : CInv2 (s.step cStep tid) := by
  apply Sys.step_cases cStep s tid CInv2 h
  intro p _
  obtain ⟨h1, h2⟩ := h
  obtain ⟨pc, prog⟩ := p
  unfold CInv2
  cases pc with
  | idle =>
    cases prog with
    | nil => exact ⟨h1, h2⟩
    | cons op prog =>
      cases op <;> simp only [cStep] <;> (try split) <;> simp only [cOut_sh] <;> simp_all
  | pend l r =>
    match l with
    | [] => exact ⟨h1, h2⟩
    | [j] => exact ⟨h1, h2⟩
    | j :: k :: l => exact ⟨h1, h2⟩
  | chk1 j =>
    simp only [cStep]; split <;> simp only [cOut_sh]
    · refine ⟨fun hd => ?_, h2⟩
      rename_i hj; rw [h1 hd] at hj; simp at hj
    · exact ⟨h1, h2⟩
  | chk0 => simp only [cStep, cOut_sh]; simp
  | after j => exact ⟨h1, h2⟩

/-- bookkeeping against the programs: hand-overs done + `add`s still to run = constant; same for dispose() calls -/
def CInv3 (G : Nat → Nat) (D : Nat) (s : Sys CSh CTh) : Prop :=
  (∀ i, s.sh.given i + wsum (cProgAdds i) s.pcs = G i) ∧ s.sh.dcalls + wsum cProgDisp s.pcs = D

theorem c3_step (G : Nat → Nat) (D : Nat) (s : Sys CSh CTh) (tid : Nat) (h : CInv3 G D s) :
    CInv3 G D (s.step cStep tid) := by
  apply Sys.step_cases cStep s tid (CInv3 G D) h
  intro p hp
  obtain ⟨hg, hd⟩ := h
  obtain ⟨rd, d1, d2⟩ := wsum_split cProgDisp s.pcs tid p hp
  rw [d1] at hd
  refine ⟨fun i => ?_, ?_⟩
  · obtain ⟨rest, e1, e2⟩ := wsum_split (cProgAdds i) s.pcs tid p hp
    have h := hg i; rw [e1] at h
    simp only [e2]
    obtain ⟨pc, prog⟩ := p
    cases pc with
    | idle =>
      cases prog with
      | nil => simpa [cStep] using h
      | cons op prog =>
        cases op with
        | add j =>
          simp only [cStep]
          split <;> simp only [cOut_sh, cOut_adds] <;> simp only [cProgAdds, List.count_cons] at h <;>
            by_cases hij : j = i <;> simp [count_bump, hij] at h ⊢ <;> omega
        | remove j => simp only [cStep]; split <;> simp only [cOut_sh, cOut_adds] <;> simp [cProgAdds] at h ⊢ <;> omega
        | clear => simp only [cStep, cOut_sh, cOut_adds]; simp [cProgAdds] at h ⊢; omega
        | dispose => simp only [cStep]; split <;> simp only [cOut_sh, cOut_adds] <;> simp [cProgAdds] at h ⊢ <;> omega
        | len => simp only [cStep, cOut_sh, cOut_adds]; simp [cProgAdds] at h ⊢; omega
        | contains j => simp only [cStep, cOut_sh, cOut_adds]; simp [cProgAdds] at h ⊢; omega
    | pend l r =>
      match l with
      | [] => simpa [cStep, cProgAdds] using h
      | [j] => simpa [cStep, cProgAdds] using h
      | j :: k :: l => simpa [cStep, cProgAdds] using h
    | chk1 j => simp only [cStep]; split <;> simp only [cOut_sh, cOut_adds] <;> simp [cProgAdds] at h ⊢ <;> omega
    | chk0 => simp only [cStep, cOut_sh, cOut_adds]; simp [cProgAdds] at h ⊢; omega
    | after j => simpa [cStep, cProgAdds] using h
  · simp only [d2]
    obtain ⟨pc, prog⟩ := p
    cases pc with
    | idle =>
      cases prog with
      | nil => simpa [cStep] using hd
      | cons op prog =>
        cases op <;> simp only [cStep] <;> (try split) <;> simp only [cOut_sh, cOut_disp] <;>
          simp [cProgDisp] at hd ⊢ <;> omega
    | pend l r =>
      match l with
      | [] => simpa [cStep, cProgDisp] using hd
      | [j] => simpa [cStep, cProgDisp] using hd
      | j :: k :: l => simpa [cStep, cProgDisp] using hd
    | chk1 j => simp only [cStep]; split <;> simp only [cOut_sh, cOut_disp] <;> simp [cProgDisp] at hd ⊢ <;> omega
    | chk0 => simp only [cStep, cOut_sh, cOut_disp]; simp [cProgDisp] at hd ⊢; omega
    | after j => simpa [cStep, cProgDisp] using hd

/-- totals over the initial programs -/
def cTotalAdds (init : List Nat) (progs : List (List COp)) (i : Nat) : Nat :=
  init.count i + wsum (fun p => p.count (COp.add i)) progs
def cTotalDisp (progs : List (List COp)) : Nat := wsum (fun p => p.count COp.dispose) progs

theorem cInv_init (init : List Nat) (progs : List (List COp)) :
    CInv1 (cInit init progs) ∧ CInv2 (cInit init progs) ∧
      CInv3 (cTotalAdds init progs) (cTotalDisp progs) (cInit init progs) := by
  refine ⟨fun i => ?_, ⟨by simp [cInit], by simp [cInit]⟩, fun i => ?_, ?_⟩
  · have : wsum (cPendW i) (cInit init progs).pcs = 0 := by
      apply wsum_eq_zero; intro a ha; simp [cInit] at ha; obtain ⟨p, _, rfl⟩ := ha; rfl
    rw [this]; simp [cInit]
  · simp [cInit, cTotalAdds, wsum_map, cProgAdds]
  · simp [cInit, cTotalDisp, wsum_map, cProgDisp]

theorem cInv_run (init : List Nat) (progs : List (List COp)) (sched : List Nat) :
    CInv1 ((cInit init progs).run cStep sched) ∧ CInv2 ((cInit init progs).run cStep sched) ∧
      CInv3 (cTotalAdds init progs) (cTotalDisp progs) ((cInit init progs).run cStep sched) := by
  obtain ⟨a, b, c⟩ := cInv_init init progs
  exact ⟨Sys.run_inv cStep CInv1 c1_step _ sched a, Sys.run_inv cStep CInv2 c2_step _ sched b,
    Sys.run_inv cStep (CInv3 _ _) (c3_step _ _) _ sched c⟩

/-- all threads have finished their programs -/
def cQuiet (s : Sys CSh CTh) : Prop := ∀ t ∈ s.pcs, t = (CPc.idle, [])
instance (s : Sys CSh CTh) : Decidable (cQuiet s) := by unfold cQuiet; infer_instance

theorem cQuiet_zero (s : Sys CSh CTh) (h : cQuiet s) (i : Nat) :
    wsum (cPendW i) s.pcs = 0 ∧ wsum (cProgAdds i) s.pcs = 0 ∧ wsum cProgDisp s.pcs = 0 := by
  refine ⟨?_, ?_, ?_⟩ <;> (apply wsum_eq_zero; intro a ha; rw [h a ha]; rfl)

end Disp

import RxProofs.Lemmas.C02WinGrp
namespace WinGrp
variable {α κ β : Type}

/-! ### when exactly is the source subscription closed -/
variable {keyEq : κ → κ → Bool}

theorem aErrorAll_disposed {c : Core κ} (h : WFc keyEq c) (hes : ESc c) :
    (aErrorAll c).rcdDisposed = true ∧ (aErrorAll c).outStopped = true := by
  have hw := wf_aTermAll h
  have hall := aTermAll_all_stopped h hes
  have hcnt : (aTermAll c).rcdDisposed = false → (aTermAll c).count = 0 := by
    intro hd
    rw [hw.cnt hd]
    apply countP_eq_zero_of
    intro r hr
    cases hh : r.holdsRef with
    | false => rfl
    | true =>
      have := hw.act_open r hr (hw.ref_act r hr hh)
      rw [hall r hr] at this; cases this
  unfold aErrorAll aOuterTerm aDispose aGd
  generalize aTermAll c = d at *
  obtain ⟨_, _, _, _, _, hl, ho, hd, hp, _⟩ := hw
  by_cases h0 : d.outStopped <;> by_cases h1 : d.rcdDisposed <;> by_cases h2 : d.primary <;> by_cases h3 : d.count = 0 <;>
    simp_all

theorem errorAll_disposed {cfg : Cfg α κ β} {s : St κ β} (hw : WF cfg s) (hes : ES s) (e : Err) :
    (errorAll s e).rcdDisposed = true ∧ (errorAll s e).outStopped = true := by
  have := aErrorAll_disposed hw (ESc_of_ES hes)
  have hc := core_errorAll s e
  constructor
  · have := congrArg Core.rcdDisposed hc; simp only [core_rcdDisposed] at this; rw [this]; exact ‹_ ∧ _›.1
  · have := congrArg Core.outStopped hc; simp only [core_outStopped] at this; rw [this]; exact ‹_ ∧ _›.2

/-- how the flags may change under the operator's internal transformers -/
structure Rel (s s' : St κ β) : Prop where
  r1 : s.srcOpen = false → s'.srcOpen = false
  r2 : s.rcdDisposed = true → s'.rcdDisposed = true
  r3 : s'.srcOpen = false → s.srcOpen = false ∨ s'.rcdDisposed = true
  r4 : s'.srcDone = s.srcDone
  r5 : s'.failed = s.failed ∨ (s'.failed = true ∧ s'.rcdDisposed = true ∧ s'.outStopped = true)
  r6 : s'.primary = true → s.primary = true ∨ s'.outStopped = true
  r7 : s.outStopped = true → s'.outStopped = true

theorem Rel.refl (s : St κ β) : Rel s s := ⟨id, id, Or.inl, rfl, Or.inl rfl, Or.inl, id⟩

theorem Rel.trans {a b c : St κ β} (h1 : Rel a b) (h2 : Rel b c) : Rel a c := by
  refine ⟨fun h => h2.r1 (h1.r1 h), fun h => h2.r2 (h1.r2 h), ?_, h2.r4.trans h1.r4, ?_, ?_, fun h => h2.r7 (h1.r7 h)⟩
  · intro h
    rcases h2.r3 h with hb | hc
    · rcases h1.r3 hb with ha | hb'
      · exact Or.inl ha
      · exact Or.inr (h2.r2 hb')
    · exact Or.inr hc
  · rcases h2.r5 with e2 | ⟨f, d, o⟩
    · rcases h1.r5 with e1 | ⟨f, d, o⟩
      · exact Or.inl (e2.trans e1)
      · exact Or.inr ⟨e2.trans f, h2.r2 d, h2.r7 o⟩
    · exact Or.inr ⟨f, d, o⟩
  · intro h
    rcases h2.r6 h with hb | hc
    · rcases h1.r6 hb with ha | hb'
      · exact Or.inl ha
      · exact Or.inr (h2.r7 hb')
    · exact Or.inr hc

/-- a transformer that leaves all seven flags alone -/
theorem Rel_of_flags {s s' : St κ β} (h1 : s'.srcOpen = s.srcOpen) (h2 : s'.rcdDisposed = s.rcdDisposed)
    (h4 : s'.srcDone = s.srcDone) (h5 : s'.failed = s.failed) (h6 : s'.primary = s.primary) (h7 : s'.outStopped = s.outStopped) :
    Rel s s' :=
  ⟨fun h => h1 ▸ h, fun h => h2 ▸ h, fun h => Or.inl (h1 ▸ h), h4, Or.inl h5, fun h => Or.inl (h6 ▸ h), fun h => h7 ▸ h⟩

theorem Rel_emit (s : St κ β) (e) : Rel s (emit s e) := Rel_of_flags rfl rfl rfl rfl rfl rfl
theorem Rel_modGrp (s : St κ β) (g f) : Rel s (modGrp s g f) := Rel_of_flags rfl rfl rfl rfl rfl rfl

theorem Rel_closeDur (s : St κ β) (g : Nat) : Rel s (closeDur s g) := by
  unfold closeDur; split
  · split
    · exact (Rel_modGrp s g _).trans (Rel_emit _ _)
    · exact Rel.refl _
  · exact Rel.refl _

theorem Rel_foldl_closeDur (s : St κ β) (l : List Nat) : Rel s (l.foldl closeDur s) := by
  induction l generalizing s with
  | nil => exact Rel.refl _
  | cons a l ih => exact (Rel_closeDur s a).trans (ih _)

/-- `group_disposable.dispose()` right after `is_disposed = True` -/
theorem Rel_gdDispose (s : St κ β) (hd : s.rcdDisposed = true) : Rel s (gdDispose s) := by
  unfold gdDispose
  refine Rel.trans ?_ (Rel_foldl_closeDur _ _)
  unfold closeSrc
  split
  · exact ⟨fun _ => rfl, fun h => h, fun _ => Or.inr hd, rfl, Or.inl rfl, Or.inl, id⟩
  · exact Rel_of_flags rfl rfl rfl rfl rfl rfl

theorem Rel_rcdDispose (s : St κ β) (ho : s.outStopped = true) : Rel s (rcdDispose s) := by
  unfold rcdDispose; split
  · exact Rel.refl _
  · split
    · simp only; split
      · refine Rel.trans (b := { s with primary := true, rcdDisposed := true }) ?_ (Rel_gdDispose _ rfl)
        exact ⟨id, fun _ => rfl, fun h => Or.inl h, rfl, Or.inl rfl, fun _ => Or.inr ho, id⟩
      · exact ⟨id, id, Or.inl, rfl, Or.inl rfl, fun _ => Or.inr ho, id⟩
    · exact Rel.refl _

theorem Rel_rcdRelease (s : St κ β) : Rel s (rcdRelease s) := by
  unfold rcdRelease; split
  · exact Rel.refl _
  · simp only; split
    · refine Rel.trans (b := { s with count := s.count - 1, rcdDisposed := true }) ?_ (Rel_gdDispose _ rfl)
      exact ⟨id, fun _ => rfl, fun h => Or.inl h, rfl, Or.inl rfl, Or.inl, id⟩
    · exact Rel_of_flags rfl rfl rfl rfl rfl rfl

macro "rel" : tactic => `(tactic| repeat (first
  | exact Rel.refl _
  | exact Rel_of_flags rfl rfl rfl rfl rfl rfl
  | refine Rel.trans ?_ (Rel_emit _ _)
  | refine Rel.trans ?_ (Rel_modGrp _ _ _)))

theorem Rel_subEnd (s : St κ β) (g : Nat) : Rel s (subEnd s g) := by
  unfold subEnd; split
  · simp only; split
    · refine Rel.trans ?_ (Rel_rcdRelease _); rel
    · rel
  · exact Rel.refl _

theorem Rel_writerNext (s : St κ β) (g : Nat) (v : β) : Rel s (writerNext s g v) := by
  unfold writerNext; split
  · split
    · exact Rel.refl _
    · simp only; split <;> rel
  · exact Rel.refl _

theorem Rel_writerTerm (s : St κ β) (g : Nat) (n : Notif β) : Rel s (writerTerm s g n) := by
  unfold writerTerm; split
  · split
    · exact Rel.refl _
    · simp only; split
      · refine Rel.trans ?_ (Rel_subEnd _ _); rel
      · rel
  · exact Rel.refl _

theorem Rel_foldl_writerTerm (s : St κ β) (l : List Nat) (n : Notif β) : Rel s (l.foldl (fun s g => writerTerm s g n) s) := by
  induction l generalizing s with
  | nil => exact Rel.refl _
  | cons a l ih => exact (Rel_writerTerm s a n).trans (ih _)

theorem Rel_termAll (s : St κ β) (n : Notif β) : Rel s (termAll s n) := Rel_foldl_writerTerm _ _ _

theorem Rel_outerTerm (s : St κ β) (n) : Rel s (outerTerm s n) := by
  unfold outerTerm; split
  · exact Rel.refl _
  · refine Rel.trans (b := emit { s with outStopped := true } (.outer n)) ?_ (Rel_rcdDispose _ rfl)
    exact ⟨id, id, Or.inl, rfl, Or.inl rfl, Or.inl, fun _ => rfl⟩

theorem Rel_subscribeGroup (s : St κ β) (g : Nat) : Rel s (subscribeGroup s g) := by
  unfold subscribeGroup; split
  · split
    · exact Rel.refl _
    · simp only; split
      · rel
      · refine Rel.trans ?_ (Rel_subEnd _ _); rel
  · exact Rel.refl _

theorem Rel_expire (cfg : Cfg α κ β) (s : St κ β) (g : Nat) : Rel s (expire cfg s g) := by
  unfold expire; split
  · split
    · exact Rel_emit _ _
    · simp only; split
      · refine Rel.trans ?_ (Rel_writerTerm _ _ _); rel
      · refine Rel.trans ?_ (Rel_closeDur _ _); refine Rel.trans ?_ (Rel_writerTerm _ _ _); rel
  · exact Rel.refl _

/-- an error-all: afterwards the RefCountDisposable is disposed and the outer subscriber stopped -/
theorem Rel_errorAll {cfg : Cfg α κ β} {s : St κ β} (hw : WF cfg s) (hes : ES s) (e : Err) : Rel s (errorAll s e) := by
  have hd := errorAll_disposed hw hes e
  have h0 : Rel s (errorAll s e) ∨ True := Or.inr trivial
  have hr : Rel { s with failed := true } (errorAll s e) := (Rel_termAll _ _).trans (Rel_outerTerm _ _)
  exact ⟨hr.r1, hr.r2, hr.r3, hr.r4, Or.inr ⟨by have := hr.r5; rcases this with h | h; exact h; exact h.1, hd.1, hd.2⟩, hr.r6, hr.r7⟩

theorem Rel_durFire {cfg : Cfg α κ β} {s : St κ β} (h : Inv cfg s) (g : Nat) (n : Notif Unit) : Rel s (durFire cfg s g n) := by
  cases n with
  | error e => exact (Rel_errorAll h.wf h.es e).trans (Rel_closeDur _ _)
  | next v => exact (Rel_expire cfg s g).trans (Rel_closeDur _ _)
  | completed => exact (Rel_expire cfg s g).trans (Rel_closeDur _ _)

theorem Rel_pushElem {cfg : Cfg α κ β} {s : St κ β} (h : Inv cfg s) (g : Nat) (x : α) : Rel s (pushElem cfg s g x) := by
  unfold pushElem; split
  · exact Rel_errorAll h.wf h.es _
  · exact Rel_writerNext _ _ _

theorem Rel_announce {cfg : Cfg α κ β} (hrefl : ∀ k, cfg.keyEq k k = true) {s : St κ β} (h : Inv cfg s) (g : Nat) (k : κ) :
    Rel s (announce cfg s g k) := by
  unfold announce
  have ha : Rel s (if s.outStopped then s else
      if cfg.imm g then subscribeGroup (emit (modGrp s g fun r => { r with announced := true }) (.outer (.next (g, k)))) g
      else emit (modGrp s g fun r => { r with announced := true }) (.outer (.next (g, k)))) ∧
      Inv cfg (if s.outStopped then s else
      if cfg.imm g then subscribeGroup (emit (modGrp s g fun r => { r with announced := true }) (.outer (.next (g, k)))) g
      else emit (modGrp s g fun r => { r with announced := true }) (.outer (.next (g, k)))) := by
    have h1 : Inv cfg (emit (modGrp s g fun r => { r with announced := true }) (.outer (.next (g, k)))) := by
      apply inv_emit
      apply inv_modGrp_same h
      · unfold WF; rw [core_modGrp _ _ _ (fun r => { r with announced := true }) (fun _ => rfl)]
        exact wf_announced h.wf g
      · intro _; rfl
      · intro _; exact ⟨id, rfl⟩
    split
    · exact ⟨Rel.refl _, h⟩
    · split
      · refine ⟨?_, inv_subscribeGroup h1 g⟩
        refine Rel.trans ?_ (Rel_subscribeGroup _ _); rel
      · refine ⟨?_, h1⟩; rel
  generalize (if s.outStopped then s else
      if cfg.imm g then subscribeGroup (emit (modGrp s g fun r => { r with announced := true }) (.outer (.next (g, k)))) g
      else emit (modGrp s g fun r => { r with announced := true }) (.outer (.next (g, k)))) = s2 at ha
  obtain ⟨hr2, hi2⟩ := ha
  split
  · exact hr2.trans (Rel_durFire hi2 g _)
  · simp only; split
    · refine hr2.trans ?_; refine Rel.trans ?_ (Rel_closeDur _ _); rel
    · refine hr2.trans ?_; rel

theorem Rel_addGroup (s : St κ β) (k : κ) : Rel s (addGroup s k) := Rel_of_flags rfl rfl rfl rfl rfl rfl

theorem Rel_srcNext {cfg : Cfg α κ β} (hrefl : ∀ k, cfg.keyEq k k = true) {s : St κ β} (h : Inv cfg s) (x : α) :
    Rel s (srcNext cfg s x) := by
  unfold srcNext
  split
  · exact Rel_errorAll h.wf h.es _
  · rename_i k _
    split
    · exact Rel_pushElem h _ x
    · rename_i hf
      simp only
      split
      · exact Rel_errorAll h.wf h.es _
      · have h1 : Inv cfg (addGroup s k) := inv_addGroup h k hf
        split
        · exact (Rel_addGroup s k).trans (Rel_errorAll h1.wf h1.es _)
        · have h2 := inv_announce hrefl h1 s.groups.length k (addGroup_fresh s k)
          exact ((Rel_addGroup s k).trans (Rel_announce hrefl h1 _ k)).trans (Rel_pushElem h2 _ x)

/-- the flag invariant at event boundaries -/
structure FlagInv (s : St κ β) : Prop where
  f1 : s.srcOpen = false → s.srcDone = true ∨ s.rcdDisposed = true
  f2 : s.srcDone = true → s.srcOpen = false
  f3 : s.failed = true → s.rcdDisposed = true
  f4 : s.primary = true → s.outStopped = true

theorem flagInv_of_rel {s s' : St κ β} (h : FlagInv s) (hr : Rel s s') : FlagInv s' := by
  refine ⟨?_, ?_, ?_, ?_⟩
  · intro ho
    rcases hr.r3 ho with h1 | h1
    · rcases h.f1 h1 with h2 | h2
      · exact Or.inl (hr.r4 ▸ h2)
      · exact Or.inr (hr.r2 h2)
    · exact Or.inr h1
  · intro hd; exact hr.r1 (h.f2 (hr.r4 ▸ hd))
  · intro hf
    rcases hr.r5 with e | ⟨_, d, _⟩
    · exact hr.r2 (h.f3 (e ▸ hf))
    · exact d
  · intro hp
    rcases hr.r6 hp with h1 | h1
    · exact hr.r7 (h.f4 h1)
    · exact h1

theorem closeSrc_closed (s : St κ β) : (closeSrc s).srcOpen = false := by
  unfold closeSrc; split <;> simp_all [emit]

theorem flagInv_step {cfg : Cfg α κ β} (hrefl : ∀ k, cfg.keyEq k k = true) {s : St κ β} (hi : Inv cfg s) (h : FlagInv s)
    (e : Ev α) : FlagInv (step cfg s e) := by
  cases e with
  | src n =>
    cases n with
    | next x =>
      simp only [step]; split
      · exact h
      · exact flagInv_of_rel h (Rel_srcNext hrefl hi x)
    | error e =>
      simp only [step]; split
      · exact h
      · have h0 := inv_srcStop hi
        have hd := errorAll_disposed h0.wf h0.es e
        have hr : Rel { s with srcStopped := true, srcDone := true, failed := true } (errorAll { s with srcStopped := true, srcDone := true } e) :=
          (Rel_termAll _ _).trans (Rel_outerTerm _ _)
        refine ⟨fun _ => Or.inl ?_, fun _ => closeSrc_closed _, fun _ => ?_, ?_⟩
        · have := hr.r4; unfold closeSrc; split <;> simpa [emit] using this
        · have := hd.1; unfold closeSrc; split <;> simpa [emit] using this
        · intro _; have := hd.2; unfold closeSrc; split <;> simpa [emit] using this
    | completed =>
      simp only [step]; split
      · exact h
      · have hr : Rel { s with srcStopped := true, srcDone := true } (outerTerm (termAll { s with srcStopped := true, srcDone := true } .completed) .completed) :=
          (Rel_termAll _ _).trans (Rel_outerTerm _ _)
        have hf : FlagInv { s with srcStopped := true, srcDone := true } → True := fun _ => trivial
        refine ⟨fun _ => Or.inl ?_, fun _ => closeSrc_closed _, ?_, ?_⟩
        · have := hr.r4; unfold closeSrc; split <;> simpa [emit] using this
        · intro hfl
          have hfl' : (outerTerm (termAll { s with srcStopped := true, srcDone := true } .completed) .completed).failed = true := by
            unfold closeSrc at hfl; split at hfl <;> simpa [emit] using hfl
          have hd : (outerTerm (termAll { s with srcStopped := true, srcDone := true } .completed) .completed).rcdDisposed = true := by
            rcases hr.r5 with e | ⟨_, d, _⟩
            · exact hr.r2 (h.f3 (by rw [e] at hfl'; exact hfl'))
            · exact d
          unfold closeSrc; split <;> simpa [emit] using hd
        · intro hp
          have hp' : (outerTerm (termAll { s with srcStopped := true, srcDone := true } .completed) .completed).primary = true := by
            unfold closeSrc at hp; split at hp <;> simpa [emit] using hp
          have ho : (outerTerm (termAll { s with srcStopped := true, srcDone := true } .completed) .completed).outStopped = true := by
            rcases hr.r6 hp' with h1 | h1
            · exact hr.r7 (h.f4 h1)
            · exact h1
          unfold closeSrc; split <;> simpa [emit] using ho
  | dur g n =>
    simp only [step, durEvent]
    split
    · split
      · exact flagInv_of_rel h (Rel_durFire hi g n)
      · exact h
    · exact h
  | disposeOuter =>
    simp only [step]
    refine flagInv_of_rel h (Rel.trans (b := { s with outStopped := true }) ?_ (Rel_rcdDispose _ rfl))
    exact ⟨id, id, Or.inl, rfl, Or.inl rfl, Or.inl, fun _ => rfl⟩
  | subGroup g =>
    simp only [step]
    rcases subscribeLate_cases s g with e | e <;> rw [e]
    · exact h
    · exact flagInv_of_rel h ((Rel_subscribeGroup s g).trans (Rel_modGrp _ _ _))
  | disposeGroup g =>
    simp only [step]
    split
    · split
      · exact flagInv_of_rel h (Rel_subEnd s g)
      · exact h
    · exact h

theorem flagInv_init : FlagInv (init : St κ β) := by
  refine ⟨?_, ?_, ?_, ?_⟩ <;> simp [init]

theorem flagInv_run {cfg : Cfg α κ β} (hrefl : ∀ k, cfg.keyEq k k = true) {s : St κ β} (hi : Inv cfg s) (h : FlagInv s)
    (evs : List (Ev α)) : FlagInv (run cfg s evs) := by
  induction evs generalizing s with
  | nil => exact h
  | cons e es ih => exact ih (inv_step hrefl hi e) (flagInv_step hrefl hi h e)

theorem run_snoc (cfg : Cfg α κ β) (s : St κ β) (evs : List (Ev α)) (e : Ev α) :
    run cfg s (evs ++ [e]) = step cfg (run cfg s evs) e := by
  induction evs generalizing s with
  | nil => rfl
  | cons a l ih => simp [run, ih]

theorem run_append (cfg : Cfg α κ β) (s : St κ β) (a b : List (Ev α)) :
    run cfg s (a ++ b) = run cfg (run cfg s a) b := by
  induction a generalizing s with
  | nil => rfl
  | cons x l ih => simp [run, ih]

/-- **source_released_iff** (state form, every event list).  The source subscription is closed exactly when the source's
terminal reached the operator, or an operator failure (error-all: raising mapper, failing duration, source error)
happened, or the outer subscriber is stopped (terminated or its subscription disposed) and no group subscriber holds a
reference of the RefCountDisposable. -/
theorem source_released_iff (cfg : Cfg α κ β) (hrefl : ∀ k, cfg.keyEq k k = true) (evs : List (Ev α)) :
    let s := run cfg (init : St κ β) evs
    s.srcOpen = false ↔
      (s.srcDone = true ∨ s.failed = true ∨ (s.outStopped = true ∧ ∀ r ∈ s.groups, r.holdsRef = false)) := by
  intro s
  have hi := inv_reach hrefl (cfg := cfg) (β := β) evs
  have hf : FlagInv s := flagInv_run hrefl (inv_init cfg) flagInv_init evs
  have hr1 : R1 s := R1_run cfg R1_init evs
  constructor
  · intro ho
    rcases hf.f1 ho with h1 | h1
    · exact Or.inl h1
    · right; right
      have hp := hi.wf.disp_prim h1
      refine ⟨hf.f4 hp, ?_⟩
      intro r hr
      have := hi.wf.nr h1 (cg r) (List.mem_map.mpr ⟨r, hr, rfl⟩)
      simpa [cg] using this
  · rintro (h1 | h1 | ⟨h1, h2⟩)
    · exact hf.f2 h1
    · exact (hr1 (hf.f3 h1)).1
    · exact (terminal_releases_all cfg hrefl evs h1 h2).1

/-- **source_kept_while_holder** ("not earlier"): as long as the source has not terminated, no failure happened and some
group subscriber still holds its reference, the source is subscribed — whether or not the outer subscription is disposed. -/
theorem source_kept_while_holder (cfg : Cfg α κ β) (hrefl : ∀ k, cfg.keyEq k k = true) (evs : List (Ev α)) (r : Grp κ β) :
    let s := run cfg (init : St κ β) evs
    s.srcDone = false → s.failed = false → r ∈ s.groups → r.holdsRef = true → s.srcOpen = true := by
  intro s hd hf hr hh
  cases ho : s.srcOpen with
  | true => rfl
  | false =>
    rcases (source_released_iff cfg hrefl evs).mp ho with h | h | ⟨_, h⟩
    · rw [hd] at h; cases h
    · rw [hf] at h; cases h
    · rw [h r hr] at hh; cases hh

/-- **source_released_with_last_holder** ("not later"): whatever event `e` leaves the outer subscriber stopped and no group
subscriber holding a reference — the last holder's group terminating, the last holder unsubscribing, or the outer dispose
itself when nobody holds a reference — the source subscription is closed in the resulting state, and so is every
duration subscription. -/
theorem source_released_with_last_holder (cfg : Cfg α κ β) (hrefl : ∀ k, cfg.keyEq k k = true) (evs : List (Ev α)) (e : Ev α) :
    let s' := step cfg (run cfg (init : St κ β) evs) e
    s'.outStopped = true → (∀ r ∈ s'.groups, r.holdsRef = false) → Released s' := by
  intro s' ho hn
  have := terminal_releases_all cfg hrefl (evs ++ [e])
  rw [run_snoc] at this
  exact this ho hn

/-! ### what the subscriber of one group sees -/
/-- group `g` keeps its subscriber state, record, writer state and log -/
def GF (g : Nat) (s s' : St κ β) : Prop :=
  ∀ r : Grp κ β, s.groups[g]? = some r → ∃ r' : Grp κ β, s'.groups[g]? = some r' ∧ r'.sub = r.sub ∧ r'.seen = r.seen ∧
    r'.stopped = r.stopped ∧ r'.wlog = r.wlog ∧ r'.holdsRef = r.holdsRef ∧ r'.key = r.key ∧ r'.expired = r.expired

theorem GF.refl (g : Nat) (s : St κ β) : GF g s s := fun r h => ⟨r, h, rfl, rfl, rfl, rfl, rfl, rfl, rfl⟩
theorem GF.trans {g : Nat} {a b c : St κ β} (h1 : GF g a b) (h2 : GF g b c) : GF g a c := by
  intro r hr
  obtain ⟨r1, hr1, a1, a2, a3, a4, a5, a6, a7⟩ := h1 r hr
  obtain ⟨r2, hr2, b1, b2, b3, b4, b5, b6, b7⟩ := h2 r1 hr1
  exact ⟨r2, hr2, b1.trans a1, b2.trans a2, b3.trans a3, b4.trans a4, b5.trans a5, b6.trans a6, b7.trans a7⟩
theorem GF_of_groups_eq {g : Nat} {s s' : St κ β} (h : s'.groups = s.groups) : GF g s s' := by
  intro r hr; rw [← h] at hr; exact ⟨r, hr, rfl, rfl, rfl, rfl, rfl, rfl, rfl⟩
theorem GF_emit (g : Nat) (s : St κ β) (e) : GF g s (emit s e) := GF_of_groups_eq rfl
theorem GF_modGrp_ne (g j : Nat) (s : St κ β) (f) (h : j ≠ g) : GF g s (modGrp s j f) := by
  intro r hr
  refine ⟨r, ?_, rfl, rfl, rfl, rfl, rfl, rfl, rfl⟩
  simp [modGrp, List.getElem?_modify, hr, h]
theorem GF_modGrp_same (g j : Nat) (s : St κ β) (f : Grp κ β → Grp κ β)
    (hf : ∀ r, (f r).sub = r.sub ∧ (f r).seen = r.seen ∧ (f r).stopped = r.stopped ∧ (f r).wlog = r.wlog ∧
      (f r).holdsRef = r.holdsRef ∧ (f r).key = r.key ∧ (f r).expired = r.expired) : GF g s (modGrp s j f) := by
  intro r hr
  by_cases h : j = g
  · subst h
    obtain ⟨a1, a2, a3, a4, a5, a6, a7⟩ := hf r
    exact ⟨f r, by simp [modGrp, List.getElem?_modify, hr], a1, a2, a3, a4, a5, a6, a7⟩
  · exact GF_modGrp_ne g j s f h r hr

theorem GF_closeDur (g j : Nat) (s : St κ β) : GF g s (closeDur s j) := by
  unfold closeDur; split
  · split
    · refine GF.trans ?_ (GF_emit _ _ _)
      apply GF_modGrp_same; intro _; exact ⟨rfl, rfl, rfl, rfl, rfl, rfl, rfl⟩
    · exact GF.refl _ _
  · exact GF.refl _ _
theorem GF_foldl_closeDur (g : Nat) (s : St κ β) (l : List Nat) : GF g s (l.foldl closeDur s) := by
  induction l generalizing s with
  | nil => exact GF.refl _ _
  | cons a l ih => exact (GF_closeDur g a s).trans (ih _)
theorem GF_gdDispose (g : Nat) (s : St κ β) : GF g s (gdDispose s) := by
  unfold gdDispose
  refine GF.trans ?_ (GF_foldl_closeDur _ _ _)
  unfold closeSrc; split
  · exact GF_of_groups_eq rfl
  · exact GF_of_groups_eq rfl
theorem GF_rcdRelease (g : Nat) (s : St κ β) : GF g s (rcdRelease s) := by
  unfold rcdRelease; split
  · exact GF.refl _ _
  · simp only; split
    · exact (GF_of_groups_eq rfl : GF g s { s with count := s.count - 1, rcdDisposed := true }).trans (GF_gdDispose _ _)
    · exact GF_of_groups_eq rfl
theorem GF_rcdDispose (g : Nat) (s : St κ β) : GF g s (rcdDispose s) := by
  unfold rcdDispose; split
  · exact GF.refl _ _
  · split
    · simp only; split
      · exact (GF_of_groups_eq rfl : GF g s { s with primary := true, rcdDisposed := true }).trans (GF_gdDispose _ _)
      · exact GF_of_groups_eq rfl
    · exact GF.refl _ _
theorem GF_subEnd_ne (g j : Nat) (s : St κ β) (h : j ≠ g) : GF g s (subEnd s j) := by
  unfold subEnd; split
  · simp only; split
    · exact (GF_modGrp_ne g j s _ h).trans (GF_rcdRelease _ _)
    · exact GF_modGrp_ne g j s _ h
  · exact GF.refl _ _
theorem GF_writerTerm_ne (g j : Nat) (s : St κ β) (n : Notif β) (h : j ≠ g) : GF g s (writerTerm s j n) := by
  unfold writerTerm; split
  · split
    · exact GF.refl _ _
    · simp only; split
      · exact ((((GF_modGrp_ne g j s _ h).trans (GF_emit _ _ _)).trans (GF_modGrp_ne g j _ _ h)).trans (GF_emit _ _ _)).trans
          (GF_subEnd_ne g j _ h)
      · exact (GF_modGrp_ne g j s _ h).trans (GF_emit _ _ _)
  · exact GF.refl _ _
theorem GF_outerTerm (g : Nat) (s : St κ β) (n) : GF g s (outerTerm s n) := by
  unfold outerTerm; split
  · exact GF.refl _ _
  · exact ((GF_of_groups_eq rfl : GF g s { s with outStopped := true }).trans (GF_emit _ _ _)).trans (GF_rcdDispose _ _)
theorem GF_closeSrc (g : Nat) (s : St κ β) : GF g s (closeSrc s) := by
  unfold closeSrc; split <;> exact GF_of_groups_eq rfl

/-- the terminal `n` delivered by writer g to its active subscriber -/
theorem writerTerm_at (s : St κ β) (g : Nat) (n : Notif β) (r : Grp κ β) (hg : s.groups[g]? = some r)
    (hst : r.stopped = false) (hsub : r.sub = .active) :
    ∃ r', (writerTerm s g n).groups[g]? = some r' ∧ r'.seen = r.seen ++ [n] ∧ r'.sub = .ended ∧ r'.stopped = true ∧
      r'.wlog = r.wlog ++ [n] := by
  unfold writerTerm
  simp only [hg, hst, Bool.false_eq_true, if_false, hsub, if_true]
  generalize hu : (emit (modGrp (emit (modGrp s g fun r => { r with stopped := true, exc := excOf n, wlog := r.wlog ++ [n] })
    (Eff.tap g n)) g fun r => { r with seen := r.seen ++ [n] }) (Eff.grp g n)) = u
  have hug : u.groups[g]? = some { r with stopped := true, exc := excOf n, wlog := r.wlog ++ [n], seen := r.seen ++ [n] } := by
    rw [← hu]; simp [modGrp, emit, List.getElem?_modify, hg]
  unfold subEnd
  simp only [hug]
  have hmg : (modGrp u g fun r => { r with sub := .ended, holdsRef := false }).groups[g]? =
      some { r with stopped := true, exc := excOf n, wlog := r.wlog ++ [n], seen := r.seen ++ [n], sub := .ended, holdsRef := false } := by
    simp [modGrp, List.getElem?_modify, hug]
  split
  · obtain ⟨r', hr', a1, a2, a3, a4, _⟩ := GF_rcdRelease g _ _ hmg
    exact ⟨r', hr', a2, a1, a3, a4⟩
  · exact ⟨_, hmg, rfl, rfl, rfl, rfl⟩

/-- the terminal loop: group g (open, subscribed, registered in `writers`) gets `n` -/
theorem foldl_writerTerm_at (l : List Nat) (s : St κ β) (g : Nat) (n : Notif β) (r : Grp κ β) (hmem : g ∈ l)
    (hg : s.groups[g]? = some r) (hst : r.stopped = false) (hsub : r.sub = .active) :
    ∃ r', (l.foldl (fun s j => writerTerm s j n) s).groups[g]? = some r' ∧ r'.seen = r.seen ++ [n] ∧ r'.sub = .ended ∧
      r'.stopped = true ∧ r'.wlog = r.wlog ++ [n] := by
  induction l generalizing s r with
  | nil => cases hmem
  | cons a l ih =>
    simp only [List.foldl]
    by_cases hag : a = g
    · subst hag
      obtain ⟨r1, hr1, b1, b2, b3, b4⟩ := writerTerm_at s a n r hg hst hsub
      -- afterwards the group is stopped: every later writerTerm leaves it alone
      have hrest : ∀ (l : List Nat) (t : St κ β) (r1 : Grp κ β), t.groups[a]? = some r1 → r1.stopped = true →
          ∃ r2, (l.foldl (fun s j => writerTerm s j n) t).groups[a]? = some r2 ∧ r2.seen = r1.seen ∧ r2.sub = r1.sub ∧
            r2.stopped = true ∧ r2.wlog = r1.wlog := by
        intro l
        induction l with
        | nil => intro t r1 h1 h2; exact ⟨r1, h1, rfl, rfl, h2, rfl⟩
        | cons b l ih2 =>
          intro t r1 h1 h2
          simp only [List.foldl]
          by_cases hb : b = a
          · subst hb
            have : writerTerm t b n = t := by unfold writerTerm; simp [h1, h2]
            rw [this]; exact ih2 t r1 h1 h2
          · obtain ⟨r2, hr2, c1, c2, c3, c4, _⟩ := GF_writerTerm_ne a b t n hb r1 h1
            obtain ⟨r3, hr3, d1, d2, d3, d4⟩ := ih2 _ r2 hr2 (c3.trans h2)
            exact ⟨r3, hr3, d1.trans c2, d2.trans c1, d3, d4.trans c4⟩
      obtain ⟨r2, hr2, c1, c2, c3, c4⟩ := hrest l _ r1 hr1 b3
      exact ⟨r2, hr2, c1.trans b1, c2.trans b2, c3, c4.trans b4⟩
    · have hmem' : g ∈ l := by
        rcases List.mem_cons.mp hmem with h | h
        · exact absurd h.symm hag
        · exact h
      obtain ⟨r1, hr1, c1, c2, c3, c4, _⟩ := GF_writerTerm_ne g a s n hag r hg
      obtain ⟨r2, hr2, d1, d2, d3, d4⟩ := ih _ r1 hmem' hr1 (c3.trans hst) (c1.trans hsub)
      exact ⟨r2, hr2, by rw [d1, c2], d2, d3, by rw [d4, c4]⟩

theorem outStopped_step {cfg : Cfg α κ β} (hrefl : ∀ k, cfg.keyEq k k = true) {s : St κ β} (hi : Inv cfg s)
    (h : s.outStopped = true) (e : Ev α) : (step cfg s e).outStopped = true := by
  cases e with
  | src n =>
    cases n with
    | next x => simp only [step]; split; exact h; exact (Rel_srcNext hrefl hi x).r7 h
    | error e =>
      simp only [step]; split
      · exact h
      · have h0 := inv_srcStop hi
        have := (errorAll_disposed h0.wf h0.es e).2
        unfold closeSrc; split <;> simpa [emit] using this
    | completed =>
      simp only [step]; split
      · exact h
      · have := ((Rel_termAll { s with srcStopped := true, srcDone := true } (.completed : Notif β)).trans
          (Rel_outerTerm _ (.completed))).r7 h
        unfold closeSrc; split <;> simpa [emit] using this
  | dur g n =>
    simp only [step, durEvent]; split
    · split
      · exact (Rel_durFire hi g n).r7 h
      · exact h
    · exact h
  | disposeOuter => simp only [step]; exact (Rel_rcdDispose { s with outStopped := true } rfl).r7 rfl
  | subGroup g =>
    simp only [step]
    rcases subscribeLate_cases s g with e | e <;> rw [e]
    · exact h
    · exact ((Rel_subscribeGroup s g).trans (Rel_modGrp _ _ _)).r7 h
  | disposeGroup g =>
    simp only [step]; split
    · split
      · exact (Rel_subEnd s g).r7 h
      · exact h
    · exact h

theorem outStopped_run {cfg : Cfg α κ β} (hrefl : ∀ k, cfg.keyEq k k = true) {s : St κ β} (hi : Inv cfg s)
    (h : s.outStopped = true) (evs : List (Ev α)) : (run cfg s evs).outStopped = true := by
  induction evs generalizing s with
  | nil => exact h
  | cons e es ih => exact ih (inv_step hrefl hi e) (outStopped_step hrefl hi h e)

/-- **live_subscriber_keeps_receiving.**  On every run `pre ++ [disposeOuter] ++ post`: the outer subscriber stays
stopped, and a group subscriber that is still attached (`sub = active`) to its group, while the source is still
subscribed, (i) receives every further element whose key equals the group's key — mapped by `element_mapper`, appended
to its record and to the writer's log, i.e. in arrival order — and stays attached, and (ii) receives the source's
terminal (error / completion) as its last notification, after which the source subscription is closed. -/
theorem live_subscriber_keeps_receiving (cfg : Cfg α κ β) (hrefl : ∀ k, cfg.keyEq k k = true)
    (hsymm : ∀ a b, cfg.keyEq a b = true → cfg.keyEq b a = true)
    (htrans : ∀ a b c, cfg.keyEq a b = true → cfg.keyEq b c = true → cfg.keyEq a c = true)
    (pre post : List (Ev α)) (g : Nat) (r : Grp κ β) :
    let s := run cfg (init : St κ β) (pre ++ .disposeOuter :: post)
    s.groups[g]? = some r → r.sub = .active → s.srcStopped = false →
      s.outStopped = true ∧ s.primary = true ∧
      (∀ (x : α) (k : κ) (v : β), cfg.keyMapper x = .ok k → cfg.elemMapper x = .ok v → cfg.keyEq r.key k = true →
        ∃ r', (step cfg s (.src (.next x))).groups[g]? = some r' ∧ r'.seen = r.seen ++ [.next v] ∧
          r'.wlog = r.wlog ++ [.next v] ∧ r'.sub = .active ∧ r'.stopped = false) ∧
      (∀ n : Notif α, n.isTerminal = true →
        ∃ r', (step cfg s (.src n)).groups[g]? = some r' ∧
          r'.seen = r.seen ++ [match n with | .error e => .error e | _ => .completed] ∧ r'.sub = .ended ∧
          (step cfg s (.src n)).srcOpen = false) := by
  intro s hg hsub hs
  have hi : Inv cfg s := inv_reach hrefl _
  have hout : s.outStopped = true := by
    show (run cfg init (pre ++ .disposeOuter :: post)).outStopped = true
    rw [run_append]
    simp only [run]
    apply outStopped_run hrefl (inv_step hrefl (inv_reach hrefl pre) _)
    exact (Rel_rcdDispose { run cfg init pre with outStopped := true } rfl).r7 rfl
  have hmem : cg r ∈ (core s).gs := List.mem_map.mpr ⟨r, mem_of_getElem? hg, rfl⟩
  have hst : r.stopped = false := hi.wf.act_open (cg r) hmem hsub
  have hexp : r.expired = false := by
    cases he : r.expired with
    | false => rfl
    | true =>
      have := hi.es (tg r) (List.mem_map.mpr ⟨r, mem_of_getElem? hg, rfl⟩) he
      simp only [tg] at this; rw [hst] at this; cases this
  refine ⟨hout, hi.wf.out_prim hout, ?_, ?_⟩
  · intro x k v hk hv hkey
    have hlive : LiveFor cfg s k g := ⟨r, hg, hkey, hexp⟩
    rw [step_src_next cfg s x hs]
    rcases srcNext_cases cfg s x k hk with ⟨p, hf, e⟩ | ⟨hf, _⟩
    · have hp := find_some_live hi.wf k p hf
      have hpg : p.2 = g := live_unique hsymm htrans hi.wf k p.2 g hp hlive
      rw [e, hpg]
      unfold pushElem; rw [hv]
      unfold writerNext
      simp [hg, hst, hsub, modGrp, emit]
    · exact absurd ⟨g, hlive⟩ ((find_none_iff hi.wf k).mp hf)
  · intro n hn
    have hgw : g ∈ s.writers.map (·.2) :=
      List.mem_map.mpr ⟨(r.key, g), (mem_writers_iff hi.wf _).mpr ⟨r, hg, hexp, rfl⟩, rfl⟩
    cases n with
    | next v => cases hn
    | error e =>
      simp only [step, hs, Bool.false_eq_true, if_false, errorAll, termAll]
      obtain ⟨r1, hr1, a1, a2, _, _⟩ := foldl_writerTerm_at (s.writers.map (·.2))
        { s with srcStopped := true, srcDone := true, failed := true } g (.error e) r hgw hg hst hsub
      obtain ⟨r2, hr2, b1, b2, _⟩ := ((GF_outerTerm g _ (.error e)).trans (GF_closeSrc g _)) r1 hr1
      exact ⟨r2, hr2, b2.trans a1, b1.trans a2, closeSrc_closed _⟩
    | completed =>
      simp only [step, hs, Bool.false_eq_true, if_false, termAll]
      obtain ⟨r1, hr1, a1, a2, _, _⟩ := foldl_writerTerm_at (s.writers.map (·.2))
        { s with srcStopped := true, srcDone := true } g .completed r hgw hg hst hsub
      obtain ⟨r2, hr2, b1, b2, _⟩ := ((GF_outerTerm g _ .completed).trans (GF_closeSrc g _)) r1 hr1
      exact ⟨r2, hr2, b2.trans a1, b1.trans a2, closeSrc_closed _⟩
end WinGrp

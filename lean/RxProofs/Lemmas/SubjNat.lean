import RxModel.Subj
/-!
# Naturality in the value type (C08 for subjects): no value is special

The machine never inspects a value.  Renaming all values with any `g : α → β` (injective or not) in the
initial value, the history and hence the state commutes with every step: observer logs, the ghost
trace and the current value are renamed, everything else (who is subscribed, what is raised, …) is
identical.  In particular `None`, `0`, `False`, `''` behave like any other element.
-/

set_option linter.unusedSimpArgs false

namespace Subj
variable {α β : Type}

def Ev.map (g : α → β) : Ev α → Ev β
  | .sub i => .sub i
  | .unsub i => .unsub i
  | .emit n => .emit (n.map g)
  | .recv i n => .recv i (n.map g)
  | .disp => .disp

def Task.map (g : α → β) : Task α → Task β
  | .emit n => .emit (n.map g)
  | .act w a => .act w a
  | .deliver i n => .deliver i (n.map g)
  | .finish j h => .finish j h
  | .sadDispose i => .sadDispose i

def Call.map (g : α → β) : Call α → Call β
  | .sub i => .sub i
  | .unsub i => .unsub i
  | .next v => .next (g v)
  | .error e => .error e
  | .completed => .completed
  | .dispose => .dispose

def St.map (g : α → β) (st : St α) : St β :=
  { stopped := st.stopped, disposed := st.disposed, observers := st.observers, exception := st.exception,
    value := st.value.map g, hasValue := st.hasValue, seen := st.seen, adoStopped := st.adoStopped,
    sadDisposed := st.sadDisposed, cur := st.cur, handle := st.handle, cbs := st.cbs,
    log := fun i => (st.log i).map (Notif.map g), raisedNow := st.raisedNow, xlog := st.xlog,
    tr := st.tr.map (Ev.map g), oof := st.oof }

theorem St.ext' {a b : St α} (h1 : a.stopped = b.stopped) (h2 : a.disposed = b.disposed)
    (h3 : a.observers = b.observers) (h4 : a.exception = b.exception) (h5 : a.value = b.value)
    (h6 : a.hasValue = b.hasValue) (h7 : a.seen = b.seen) (h8 : a.adoStopped = b.adoStopped)
    (h9 : a.sadDisposed = b.sadDisposed) (h10 : a.cur = b.cur) (h11 : a.handle = b.handle) (h12 : a.cbs = b.cbs)
    (h13 : ∀ i, a.log i = b.log i) (h14 : a.raisedNow = b.raisedNow) (h15 : a.xlog = b.xlog) (h16 : a.tr = b.tr)
    (h17 : a.oof = b.oof) : a = b := by
  cases a; cases b
  simp only [St.mk.injEq]
  simp_all
  funext i; exact h13 i

macro "nat_fields" : tactic => `(tactic| (
  apply St.ext'
  all_goals first
    | rfl
    | (intro i; simp only [St.map, upd]; split <;> simp [Notif.map])
    | simp [St.map, Ev.map, Notif.map]))

theorem callback_map (g : α → β) (st : St α) (i : Id) (n : Notif α) :
    callback (st.map g) i (n.map g) = (callback st i n).map g := by
  unfold callback
  nat_fields

theorem reactions_map (cfg : Cfg) (g : α → β) (st : St α) (i : Id) :
    reactions cfg (st.map g) i = (reactions cfg st i).map (Task.map g) := by
  simp [reactions, St.map, Task.map, Function.comp_def]

theorem innerDispose_map (g : α → β) (st : St α) (i : Id) : innerDispose (st.map g) i = (innerDispose st i).map g := by
  unfold innerDispose
  by_cases h : st.disposed = true <;> simp [St.map, h]

theorem sadDispose_map (g : α → β) (st : St α) (i : Id) : sadDispose (st.map g) i = (sadDispose st i).map g := by
  unfold sadDispose
  by_cases h : st.sadDisposed i = true
  · simp [St.map, h]
  · have h' : st.sadDisposed i = false := by simpa using h
    have e : ∀ s : St α, innerDispose (s.map g) i = (innerDispose s i).map g := fun s => innerDispose_map g s i
    cases hc : st.cur i with
    | none => simp [St.map, h', hc]
    | some hh =>
      cases hh with
      | noop => simp [St.map, h', hc]
      | inner =>
        simp only [St.map, h', hc, Bool.false_eq_true, if_false]
        exact e { st with sadDisposed := upd st.sadDisposed i true, cur := upd st.cur i none }

theorem adoDispose_map (g : α → β) (st : St α) (i : Id) : adoDispose (st.map g) i = (adoDispose st i).map g := by
  unfold adoDispose
  exact sadDispose_map g { st with adoStopped := upd st.adoStopped i true } i

theorem subjDispose_map (g : α → β) (st : St α) : subjDispose (st.map g) = (subjDispose st).map g := by
  simp [subjDispose, St.map, Ev.map]

theorem raiseTo_map (g : α → β) (who : Option Id) (e : Err) (st : St α) :
    raiseTo who e (st.map g) = (raiseTo who e st).map g := by
  cases who <;> simp [raiseTo, St.map]

theorem doUnsub_map (g : α → β) (st : St α) (j : Id) : doUnsub (st.map g) j = (doUnsub st j).map g := by
  unfold doUnsub
  by_cases h : st.handle j = true
  · simp only [St.map, h, if_true]
    exact adoDispose_map g { st with tr := .unsub j :: st.tr } j
  · simp [St.map, h]

theorem finish_map (g : α → β) (st : St α) (j : Id) (h : Option Held) : finish (st.map g) j h = (finish st j h).map g := by
  unfold finish
  cases h with
  | none => simp [St.map]
  | some hh =>
    by_cases hs : st.sadDisposed j = true
    · cases hh with
      | noop => simp [St.map, hs]
      | inner =>
        simp only [St.map, hs, if_true]
        have := innerDispose_map g st j
        simp only [St.map] at this
        rw [this]
    · simp [St.map, hs]

@[simp] theorem map_seen (g : α → β) (st : St α) : (st.map g).seen = st.seen := rfl
@[simp] theorem map_disposed (g : α → β) (st : St α) : (st.map g).disposed = st.disposed := rfl
@[simp] theorem map_stopped (g : α → β) (st : St α) : (st.map g).stopped = st.stopped := rfl
@[simp] theorem map_exception (g : α → β) (st : St α) : (st.map g).exception = st.exception := rfl
@[simp] theorem map_adoStopped (g : α → β) (st : St α) : (st.map g).adoStopped = st.adoStopped := rfl
@[simp] theorem map_sadDisposed (g : α → β) (st : St α) : (st.map g).sadDisposed = st.sadDisposed := rfl
@[simp] theorem map_observers (g : α → β) (st : St α) : (st.map g).observers = st.observers := rfl
@[simp] theorem map_hasValue (g : α → β) (st : St α) : (st.map g).hasValue = st.hasValue := rfl
@[simp] theorem map_value (g : α → β) (st : St α) : (st.map g).value = st.value.map g := rfl
@[simp] theorem map_tr (g : α → β) (st : St α) : (st.map g).tr = st.tr.map (Ev.map g) := rfl

theorem callback_map_error (g : α → β) (st : St α) (i : Id) (e : Err) :
    callback (st.map g) i (.error e) = (callback st i (.error e)).map g := callback_map g st i (.error e)
theorem callback_map_completed (g : α → β) (st : St α) (i : Id) :
    callback (st.map g) i .completed = (callback st i .completed).map g := callback_map g st i .completed
theorem callback_map_next (g : α → β) (st : St α) (i : Id) (x : α) :
    callback (st.map g) i (.next (g x)) = (callback st i (.next x)).map g := callback_map g st i (.next x)

theorem doSub_map (cfg : Cfg) (g : α → β) (st : St α) (who : Option Id) (j : Id) :
    doSub cfg (st.map g) who j = ((doSub cfg st who j).1.map g, (doSub cfg st who j).2.map (Task.map g)) := by
  unfold doSub
  by_cases hj : st.seen j = true
  · rw [if_pos (show (st.map g).seen j = true from hj), if_pos hj]; rfl
  · rw [if_neg (show ¬(st.map g).seen j = true from hj), if_neg hj]
    dsimp only
    by_cases hd : st.disposed = true
    · rw [if_pos (show (st.map g).disposed = true from hd), if_pos hd]
      by_cases he : cfg.hasErr j = true
      · rw [if_pos he, if_pos he]
        show (callback (St.map g { st with seen := upd st.seen j true, adoStopped := upd st.adoStopped j true }) j (.error disposedExn),
          reactions cfg (St.map g { st with seen := upd st.seen j true, adoStopped := upd st.adoStopped j true }) j ++ [Task.finish j none]) = _
        rw [callback_map_error, reactions_map]
        simp [Task.map]
      · rw [if_neg he, if_neg he]
        show (raiseTo who disposedExn (St.map g { st with seen := upd st.seen j true, adoStopped := upd st.adoStopped j true, tr := .recv j (.error disposedExn) :: st.tr }), []) = _
        rw [raiseTo_map]
        simp
    · rw [if_neg (show ¬(st.map g).disposed = true from hd), if_neg hd]
      by_cases hs : st.stopped = true
      · have c1 : ¬((!(st.map g).stopped) = true) := by simp [hs]
        have c2 : ¬((!st.stopped) = true) := by simp [hs]
        rw [if_neg c1, if_neg c2]
        show (match st.exception with
          | some e => if cfg.hasErr j = true then (St.map g { st with seen := upd st.seen j true }, [Task.deliver j (.error e), Task.finish j (some .noop)])
              else (raiseTo who e (St.map g { st with seen := upd st.seen j true, adoStopped := upd st.adoStopped j true, sadDisposed := upd st.sadDisposed j true, tr := .recv j (.error e) :: st.tr }), [])
          | none => match cfg.kind, st.hasValue, st.value.map g with
            | .async, true, some v => (St.map g { st with seen := upd st.seen j true }, [Task.deliver j (.next v), Task.deliver j .completed, Task.finish j (some .noop)])
            | _, _, _ => (St.map g { st with seen := upd st.seen j true }, [Task.deliver j .completed, Task.finish j (some .noop)])) = _
        cases hx : st.exception with
        | some e =>
          by_cases he : cfg.hasErr j = true
          · simp [he, Task.map, Notif.map]
          · simp [he, raiseTo_map]
        | none =>
          cases hk : cfg.kind <;> cases hv : st.value <;> cases hh : st.hasValue <;> simp [Task.map, Notif.map]
      · have hs' : st.stopped = false := by simpa using hs
        have c1 : (!(st.map g).stopped) = true := by simp [hs']
        have c2 : (!st.stopped) = true := by simp [hs']
        rw [if_pos c1, if_pos c2]
        show (match cfg.kind, st.value.map g with
          | .behavior, some v => (St.map g { st with seen := upd st.seen j true, observers := st.observers ++ [j], tr := .sub j :: st.tr }, [Task.deliver j (.next v), Task.finish j (some .inner)])
          | _, _ => (St.map g { st with seen := upd st.seen j true, observers := st.observers ++ [j], tr := .sub j :: st.tr }, [Task.finish j (some .inner)])) = _
        cases hk : cfg.kind <;> cases hv : st.value <;> simp [Task.map, Notif.map]

theorem deliver_map (cfg : Cfg) (g : α → β) (st : St α) (i : Id) (n : Notif α) :
    deliver cfg (st.map g) i (n.map g) =
      ((deliver cfg st i n).1.map g, (deliver cfg st i n).2.1.map (Task.map g), (deliver cfg st i n).2.2) := by
  unfold deliver
  by_cases hs : st.adoStopped i = true
  · rw [if_pos (show (st.map g).adoStopped i = true from hs), if_pos hs]; rfl
  · rw [if_neg (show ¬(st.map g).adoStopped i = true from hs), if_neg hs]
    cases n with
    | next x =>
      show (callback (St.map g st) i (.next (g x)), reactions cfg (St.map g st) i, false) = _
      rw [callback_map_next, reactions_map]
    | completed =>
      show (callback (St.map g { st with adoStopped := upd st.adoStopped i true }) i .completed,
        reactions cfg (St.map g st) i ++ [Task.sadDispose i], false) = _
      rw [callback_map_completed, reactions_map]
      simp [Task.map]
    | error e =>
      show (if cfg.hasErr i = true then
          (callback (St.map g { st with adoStopped := upd st.adoStopped i true }) i (.error e),
            reactions cfg (St.map g { st with adoStopped := upd st.adoStopped i true }) i ++ [Task.sadDispose i], false)
        else
          ({ (sadDispose (St.map g { st with adoStopped := upd st.adoStopped i true, tr := .recv i (.error e) :: st.tr }) i) with raisedNow := some e }, [], true)) = _
      by_cases he : cfg.hasErr i = true
      · rw [if_pos he, callback_map_error, reactions_map]
        simp [he, Task.map]
      · rw [if_neg he, sadDispose_map]
        simp [he, St.map]

theorem emit_map (cfg : Cfg) (g : α → β) (st : St α) (n : Notif α) :
    emit cfg (st.map g) (n.map g) = ((emit cfg st n).1.map g, (emit cfg st n).2.map (Task.map g)) := by
  unfold emit
  by_cases hd : st.disposed = true
  · simp [St.map, hd]
  · have hd' : st.disposed = false := by simpa using hd
    by_cases hs : st.stopped = true
    · simp [St.map, hd', hs]
    · have hs' : st.stopped = false := by simpa using hs
      cases n with
      | next x =>
        cases hk : cfg.kind <;>
          simp [St.map, hd', hs', hk, Notif.map, Ev.map, Task.map, Function.comp_def]
      | error e => simp [St.map, hd', hs', Notif.map, Ev.map, Task.map, Function.comp_def]
      | completed =>
        cases hk : cfg.kind <;> cases hv : st.value <;> cases hh : st.hasValue <;>
          simp [St.map, hd', hs', hk, hv, hh, Notif.map, Ev.map, Task.map, Function.comp_def, List.map_flatMap, List.flatMap_map]

/-- **Every step commutes with renaming the values.** -/
theorem step1_map (cfg : Cfg) (g : α → β) (st : St α) (t : Task α) :
    step1 cfg (st.map g) (t.map g) =
      ((step1 cfg st t).1.map g, (step1 cfg st t).2.1.map (Task.map g), (step1 cfg st t).2.2) := by
  cases t with
  | emit n => simp [step1, Task.map, emit_map]
  | act who a =>
    cases a with
    | sub j => simp [step1, Task.map, doSub_map]
    | unsub j => simp [step1, Task.map, doUnsub_map]
    | dispose => simp [step1, Task.map, subjDispose_map]
  | deliver i n => simp [step1, Task.map, deliver_map]
  | finish j h => simp [step1, Task.map, finish_map]
  | sadDispose i => simp [step1, Task.map, sadDispose_map]

theorem exec_map (cfg : Cfg) (g : α → β) (f : Nat) (st : St α) (ag : List (Task α)) :
    exec cfg f (st.map g) (ag.map (Task.map g)) = (exec cfg f st ag).map g := by
  induction f generalizing st ag with
  | zero =>
    cases ag with
    | nil => simp [exec]
    | cons t ts => simp [exec, St.map]
  | succ f ih =>
    cases ag with
    | nil => simp [exec]
    | cons t ts =>
      simp only [List.map_cons, exec, step1_map]
      rw [← ih]
      congr 1
      unfold nextAgenda
      dsimp only
      split <;> simp

theorem run_map (cfg : Cfg) (g : α → β) (f : Nat) (st : St α) (cs : List (Call α)) :
    run cfg f (st.map g) (cs.map (Call.map g)) = ((run cfg f st cs).1.map g, (run cfg f st cs).2) := by
  induction cs generalizing st with
  | nil => simp [run]
  | cons c cs ih =>
    have hc : call cfg f (st.map g) (c.map g) = (call cfg f st c).map g := by
      have : (Call.map g c).toTask = (c.toTask).map g := by cases c <;> rfl
      unfold call
      rw [this]
      exact exec_map cfg g f { st with raisedNow := none } [c.toTask]
    simp only [List.map_cons, run, hc, ih]
    simp [St.map]

theorem init_map (cfg : Cfg) (g : α → β) (v : Option α) : init cfg (v.map g) = (init cfg v).map g := by
  unfold init
  split <;> simp [St.map]

/-- A whole history run on renamed values = the renamed run; exceptions per call are identical. -/
theorem run_natural (cfg : Cfg) (g : α → β) (f : Nat) (v : Option α) (cs : List (Call α)) :
    run cfg f (init cfg (v.map g)) (cs.map (Call.map g)) =
      ((run cfg f (init cfg v) cs).1.map g, (run cfg f (init cfg v) cs).2) := by
  rw [init_map, run_map]

theorem run_natural_log (cfg : Cfg) (g : α → β) (f : Nat) (v : Option α) (cs : List (Call α)) (i : Id) :
    (run cfg f (init cfg (v.map g)) (cs.map (Call.map g))).1.log i =
      ((run cfg f (init cfg v) cs).1.log i).map (Notif.map g) ∧
    (run cfg f (init cfg (v.map g)) (cs.map (Call.map g))).2 = (run cfg f (init cfg v) cs).2 ∧
    (run cfg f (init cfg (v.map g)) (cs.map (Call.map g))).1.xlog = (run cfg f (init cfg v) cs).1.xlog ∧
    (run cfg f (init cfg (v.map g)) (cs.map (Call.map g))).1.observers = (run cfg f (init cfg v) cs).1.observers := by
  rw [run_natural]
  exact ⟨rfl, rfl, rfl, rfl⟩

end Subj

import RxProofs.Lemmas.AggBase
import RxModel.AggRef
/-!
# Primitive operators: what the subscriber sees, as a function of the conforming input
-/

namespace Agg

theorem Op.out_conf {α β} (op : Op α β) (lag : Bool) (raw : List (Notif α)) :
    op.out lag raw = cut (op.feed op.init ((elems raw).map .next ++ (ending raw).notifs)) := by
  rw [Op.out_eq, cut_eq_elems_ending raw]

@[simp] theorem elems_conf_notifs {α} (c : Conf α) : elems c.notifs = c.1 := by
  simp [Conf.notifs]
@[simp] theorem ending_conf_notifs {α} (c : Conf α) : ending c.notifs = c.2 := by
  simp [Conf.notifs]

@[simp] theorem atEnd_open {β} (l : List (Notif β)) : atEnd .open l = [] := rfl
@[simp] theorem atEnd_done {β} (l : List (Notif β)) : atEnd .done l = l := rfl
@[simp] theorem atEnd_err {β} (e : Err) (l : List (Notif β)) : atEnd (.err e) l = [.error e] := rfl

/-! ### map, filter, scan -/

theorem mapO_feed {α β} (f : α → Except Err β) (xs : List α) (t : Ending) :
    cut ((mapO f).feed () (xs.map .next ++ t.notifs)) = (mapC f xs t).notifs := by
  induction xs with
  | nil => cases t <;> rfl
  | cons x xs ih =>
    simp only [List.map_cons, List.cons_append, Op.feed, Op.handle, mapO, mapC]
    cases h : f x with
    | error e => simp [Conf.notifs, Ending.notifs]
    | ok v =>
      simp only [List.singleton_append, cut_next, Conf.notifs, List.map_cons, List.cons_append]
      congr 1

theorem mapO_out {α β} (f : α → Except Err β) (lag : Bool) (raw : List (Notif α)) :
    (mapO f).out lag raw = (mapC f (elems raw) (ending raw)).notifs := by
  rw [Op.out_conf]; exact mapO_feed f _ _

theorem filterO_feed {α} (p : α → Except Err Bool) (xs : List α) (t : Ending) :
    cut ((filterO p).feed () (xs.map .next ++ t.notifs)) = (filterC p xs t).notifs := by
  induction xs with
  | nil => cases t <;> rfl
  | cons x xs ih =>
    simp only [List.map_cons, List.cons_append, Op.feed, Op.handle, filterO, filterC]
    cases h : p x with
    | error e => simp [Conf.notifs, Ending.notifs]
    | ok b =>
      cases b
      · have := ih
        simp only [filterO] at this
        simpa using this
      · simp only [if_true, List.singleton_append, cut_next, Conf.notifs, List.map_cons, List.cons_append]
        congr 1

theorem filterO_out {α} (p : α → Except Err Bool) (lag : Bool) (raw : List (Notif α)) :
    (filterO p).out lag raw = (filterC p (elems raw) (ending raw)).notifs := by
  rw [Op.out_conf]; exact filterO_feed p _ _

theorem scanO_feed {α β} (f : β → α → Except Err β) (seed : Option β) (inj : α → β) (s : Option β)
    (xs : List α) (t : Ending) :
    cut ((scanO f seed inj).feed s (xs.map .next ++ t.notifs)) = (scanC f seed inj s xs t).notifs := by
  induction xs generalizing s with
  | nil => cases t <;> rfl
  | cons x xs ih =>
    simp only [List.map_cons, List.cons_append, Op.feed, Op.handle, scanO, scanC]
    cases h : scanProj f seed inj s x with
    | error e => simp [Conf.notifs, Ending.notifs]
    | ok v =>
      simp only [List.singleton_append, cut_next, Conf.notifs, List.map_cons, List.cons_append]
      congr 1
      exact ih (some v)

theorem scanO_out {α β} (f : β → α → Except Err β) (seed : Option β) (inj : α → β) (lag : Bool)
    (raw : List (Notif α)) :
    (scanO f seed inj).out lag raw = (scanC f seed inj none (elems raw) (ending raw)).notifs := by
  rw [Op.out_conf]; exact scanO_feed f seed inj none _ _

/-! ### last / first / single (+ default) -/

theorem lastO_feed_seen {α} (dflt : Option α) (y : α) (xs : List α) (t : Ending) :
    cut ((lastOrDefaultO dflt).feed (some y, true) (xs.map .next ++ t.notifs))
      = atEnd t [.next ((y :: xs).getLast (by simp)), .completed] := by
  induction xs generalizing y with
  | nil => cases t <;> simp [Op.feed, Op.handle, lastOrDefaultO, Ending.notifs]
  | cons x xs ih =>
    simp only [List.map_cons, List.cons_append, Op.feed, Op.handle, lastOrDefaultO, List.nil_append]
    have := ih x
    simp only [lastOrDefaultO] at this
    rw [this]; simp [List.getLast_cons]

theorem lastOrDefaultO_out {α} (dflt : Option α) (lag : Bool) (raw : List (Notif α)) :
    (lastOrDefaultO dflt).out lag raw = lastRef dflt (elems raw) (ending raw) := by
  rw [Op.out_conf]
  generalize elems raw = xs; generalize ending raw = t
  cases xs with
  | nil =>
    cases t <;> cases dflt <;> simp [Op.feed, Op.handle, lastOrDefaultO, Ending.notifs, lastRef, valueOrDefault]
  | cons x xs =>
    have := lastO_feed_seen dflt x xs t
    simp only [List.map_cons, List.cons_append, Op.feed, Op.handle, List.nil_append]
    show cut ((lastOrDefaultO dflt).feed (some x, true) _) = _
    rw [this, lastRef, List.getLast?_eq_some_getLast (by simp)]
    rfl

theorem firstOrDefaultO_out {α} (dflt : Option α) (lag : Bool) (raw : List (Notif α)) :
    (firstOrDefaultO dflt).out lag raw = firstRef dflt (elems raw) (ending raw) := by
  rw [Op.out_conf]
  generalize elems raw = xs; generalize ending raw = t
  cases xs with
  | nil => cases t <;> cases dflt <;> simp [Op.feed, Op.handle, firstOrDefaultO, Ending.notifs, firstRef, valueOrDefault]
  | cons x xs => simp [Op.feed, Op.handle, firstOrDefaultO, firstRef]

theorem singleOrDefaultO_out {α} (dflt : Option α) (lag : Bool) (raw : List (Notif α)) :
    (singleOrDefaultO dflt).out lag raw = singleRef dflt (elems raw) (ending raw) := by
  rw [Op.out_conf]
  generalize elems raw = xs; generalize ending raw = t
  match xs with
  | [] => cases t <;> cases dflt <;> simp [Op.feed, Op.handle, singleOrDefaultO, Ending.notifs, singleRef, valueOrDefault]
  | [x] => cases t <;> simp [Op.feed, Op.handle, singleOrDefaultO, Ending.notifs, singleRef]
  | x :: y :: xs => simp [Op.feed, Op.handle, singleOrDefaultO, singleRef]

theorem someOp_out {α} (lag : Bool) (raw : List (Notif α)) :
    (someOp : Op α Bool).out lag raw = someRef (elems raw) (ending raw) := by
  rw [Op.out_conf]
  generalize elems raw = xs; generalize ending raw = t
  cases xs with
  | nil => cases t <;> simp [Op.feed, Op.handle, someOp, Ending.notifs, someRef]
  | cons x xs => simp [Op.feed, Op.handle, someOp, someRef]

/-! ### folds: extrema_by, to_list, to_set, to_dict -/

theorem extremaByO_feed {α κ} (key : α → Except Err κ) (cmp : κ → κ → Except Err Int) (s : Option κ × List α)
    (xs : List α) (t : Ending) :
    cut ((extremaByO key cmp).feed s (xs.map .next ++ t.notifs))
      = foldRef (xs.foldlM (extremaStep key cmp) s) (·.2) t := by
  induction xs generalizing s with
  | nil => cases t <;> simp [Op.feed, Op.handle, extremaByO, Ending.notifs, foldRef, pure, Except.pure]
  | cons x xs ih =>
    simp only [List.map_cons, List.cons_append, Op.feed, Op.handle, extremaByO, List.foldlM_cons]
    cases h : extremaStep key cmp s x with
    | error e => simp [foldRef, bind, Except.bind]
    | ok s' =>
      have := ih s'
      simp only [extremaByO] at this
      simp only [List.nil_append, bind, Except.bind]
      exact this

theorem extremaByO_out {α κ} (key : α → Except Err κ) (cmp : κ → κ → Except Err Int) (lag : Bool)
    (raw : List (Notif α)) :
    (extremaByO key cmp).out lag raw
      = foldRef ((elems raw).foldlM (extremaStep key cmp) (none, [])) (·.2) (ending raw) := by
  rw [Op.out_conf]; exact extremaByO_feed key cmp _ _ _

theorem toListO_feed {α} (q xs : List α) (t : Ending) :
    cut ((toListO : Op α (List α)).feed q (xs.map .next ++ t.notifs)) = atEnd t [.next (q ++ xs), .completed] := by
  induction xs generalizing q with
  | nil => cases t <;> simp [Op.feed, Op.handle, toListO, Ending.notifs]
  | cons x xs ih =>
    simp only [List.map_cons, List.cons_append, Op.feed, Op.handle, toListO, List.nil_append]
    have := ih (q ++ [x])
    simp only [toListO] at this
    rw [this]; simp

theorem toListO_out {α} (lag : Bool) (raw : List (Notif α)) :
    (toListO : Op α (List α)).out lag raw = atEnd (ending raw) [.next (elems raw), .completed] := by
  rw [Op.out_conf]; have := toListO_feed [] (elems raw) (ending raw)
  simp only [List.nil_append] at this; exact this

theorem toSetO_feed {α} (eq : α → α → Bool) (s xs : List α) (t : Ending) :
    cut ((toSetO eq).feed s (xs.map .next ++ t.notifs)) = atEnd t [.next (xs.foldl (setAdd eq) s), .completed] := by
  induction xs generalizing s with
  | nil => cases t <;> simp [Op.feed, Op.handle, toSetO, Ending.notifs]
  | cons x xs ih =>
    simp only [List.map_cons, List.cons_append, Op.feed, Op.handle, toSetO, List.nil_append, List.foldl_cons]
    have := ih (setAdd eq s x)
    simp only [toSetO] at this
    exact this

theorem toSetO_out {α} (eq : α → α → Bool) (lag : Bool) (raw : List (Notif α)) :
    (toSetO eq).out lag raw = atEnd (ending raw) [.next ((elems raw).foldl (setAdd eq) []), .completed] := by
  rw [Op.out_conf]; exact toSetO_feed eq [] _ _

theorem toDictO_feed {α κ ν} (eq : κ → κ → Bool) (key : α → Except Err κ) (elem : α → Except Err ν)
    (s : List (κ × ν)) (xs : List α) (t : Ending) :
    cut ((toDictO eq key elem).feed s (xs.map .next ++ t.notifs))
      = foldRef (xs.foldlM (dictStep eq key elem) s) id t := by
  induction xs generalizing s with
  | nil => cases t <;> simp [Op.feed, Op.handle, toDictO, Ending.notifs, foldRef, pure, Except.pure]
  | cons x xs ih =>
    simp only [List.map_cons, List.cons_append, Op.feed, Op.handle, toDictO, List.foldlM_cons]
    cases h : dictStep eq key elem s x with
    | error e => simp [foldRef, bind, Except.bind]
    | ok s' =>
      have := ih s'
      simp only [toDictO] at this
      simp only [List.nil_append, bind, Except.bind]
      exact this

theorem toDictO_out {α κ ν} (eq : κ → κ → Bool) (key : α → Except Err κ) (elem : α → Except Err ν) (lag : Bool)
    (raw : List (Notif α)) :
    (toDictO eq key elem).out lag raw
      = foldRef ((elems raw).foldlM (dictStep eq key elem) []) id (ending raw) := by
  rw [Op.out_conf]; exact toDictO_feed eq key elem _ _ _

end Agg

import RxProofs.Lemmas.ThrELC
/-!
# EventLoopScheduler model: preservation of the order/time/cancellation/disposal invariants by every step — C31
-/
namespace Thr.EL
open Thr

theorem ra_same (s : Sys) (h1 : E1 s) (i : Nat) (th th' : Th) (hi : s.ths[i]? = some th)
    (hle : nLoopT th' ≤ nLoopT th) (hr : readyT th' = readyT th) : readyAll (s.ths.set i th') = readyAll s.ths := by
  by_cases h0 : nLoopT th = 0
  · exact ra_client _ _ _ _ hi h0 (by omega)
  · obtain ⟨a, b⟩ := ra_loop s.ths i th th' hi (by omega) h1.mx.1
    rw [a, b, hr]

macro "frame2" h:ident h1:ident hi:ident es:term : tactic => `(tactic| (
  apply e2_frame _ _ $h $es
  all_goals (try simp [neutral])
  all_goals (try omega)
  all_goals (try (intro _ hk; exact hk.symm))
  all_goals (try (apply ra_same _ $h1 _ _ _ $hi <;> simp [nLoopT, nLoop, readyT, readyOf]))))

/-- steps of a thread whose top frame is an action body / a `schedule*` call in progress -/
theorem e2_top (xie : Bool) (s : Sys) (i dt : Nat) (h1 : E1 s) (h : E2 s) (f : Frame) (rest : List Frame)
    (hi : s.ths[i]? = some { stack := f :: rest }) (hf : ∀ ph r, f ≠ .loop ph r) : E2 (s.step xie i dt) := by
  cases f with
  | act id ops =>
    cases ops with
    | nil =>
      cases id with
      | none => simp only [Sys.step, hi, thStep]; frame2 h h1 hi []
      | some j => simp only [Sys.step, hi, thStep]; frame2 h h1 hi [Ev.fin i j]
    | cons op ops =>
      cases op with
      | tick d => simp only [Sys.step, hi, thStep]; frame2 h h1 hi []
      | cancel k => simp only [Sys.step, hi, thStep]; frame2 h h1 hi [Ev.cancel i k]
      | dispose =>
        by_cases hd : s.sh.disposed = true
        · simp only [Sys.step, hi, thStep, hd, if_true]; frame2 h h1 hi [Ev.dispose i false]
        · simp only [Sys.step, hi, thStep, hd]; frame2 h h1 hi [Ev.dispose i true]
      | sched l b => simp only [Sys.step, hi, thStep]; frame2 h h1 hi [Ev.sched i l (s.sh.clock + dt) (s.sh.clock + dt)]
      | schedRel l d b => simp only [Sys.step, hi, thStep]; frame2 h h1 hi [Ev.sched i l (s.sh.clock + dt + max d 0) (s.sh.clock + dt)]
      | schedAbs l t b => simp only [Sys.step, hi, thStep]; frame2 h h1 hi [Ev.sched i l t (s.sh.clock + dt)]
  | chk id it ops =>
    by_cases hd : s.sh.disposed = true
    · simp only [Sys.step, hi, thStep, hd, if_true]; frame2 h h1 hi [Ev.raised i it.id]
    · simp only [Sys.step, hi, thStep, hd]; frame2 h h1 hi [Ev.passed i it.id]
      all_goals (cases hdd : s.sh.disposed <;> simp_all)
  | enq id it ops =>
    simp only [Sys.step, hi, thStep]
    apply e2_enq s _ h i it (if s.sh.thread.isNone = true then some s.ths.length else none) (s.sh.clock + dt)
    all_goals (try simp)
    all_goals (try omega)
    · have hr : readyAll (s.ths.set i { stack := Frame.act id ops :: rest }) = readyAll s.ths := by
        apply ra_same _ h1 _ _ _ hi <;> simp [nLoopT, nLoop, readyT, readyOf]
      split
      · rw [ra_append_new, hr]
      · exact hr
  | loop ph r => exact absurd rfl (hf ph r)


theorem e2_loop (xie : Bool) (s : Sys) (i dt : Nat) (h1 : E1 s) (h : E2 s) (ph : LPh) (ready : List Item)
    (hi : s.ths[i]? = some { stack := [.loop ph ready] }) (hre : ph ≠ .exec → ready = []) : E2 (s.step xie i dt) := by
  have hl := ra_loop s.ths i { stack := [.loop ph ready] } 
  cases ph with
  | top =>
    have : ready = [] := hre (by simp)
    subst this
    by_cases hd : s.sh.disposed = true
    · simp only [Sys.step, hi, thStep, hd, if_true]; frame2 h h1 hi [Ev.exitDisposed i]
    · have hd' : s.sh.disposed = false := by cases hdd : s.sh.disposed <;> simp_all
      simp only [Sys.step, hi, thStep, hd]
      obtain ⟨a, b⟩ := hl { stack := [.loop .exec (merge (s.sh.clock + dt) s.sh.queue s.sh.readyList).1] } hi (by simp [nLoopT, nLoop]) h1.mx.1
      apply e2_collect s _ h i (s.sh.clock + dt)
      all_goals (try simp)
      all_goals (try omega)
      all_goals (first | exact hd' | (rw [a]; simp [readyT, readyOf]) | (rw [b]; simp [readyT, readyOf]))
  | exec =>
    cases ready with
    | nil => simp only [Sys.step, hi, thStep]; frame2 h h1 hi []
    | cons it ready =>
      by_cases hc : it.id ∈ s.sh.cancelled
      · simp only [Sys.step, hi, thStep, hc, if_true]
        obtain ⟨a, b⟩ := hl { stack := [.loop .exec ready] } hi (by simp [nLoopT, nLoop]) h1.mx.1
        apply e2_pop s _ h i it ready (s.sh.clock + dt) false
        all_goals (try simp)
        all_goals (try omega)
        all_goals (first | (rw [a]; simp [readyT, readyOf]) | (rw [b]; simp [readyT, readyOf]))
      · simp only [Sys.step, hi, thStep, hc, if_false]
        obtain ⟨a, b⟩ := hl { stack := [.act (some it.id) it.body, .loop .exec ready] } hi (by simp [nLoopT, nLoop]) h1.mx.1
        apply e2_pop s _ h i it ready (s.sh.clock + dt) true
        all_goals (try simp)
        all_goals (try omega)
        all_goals (first | exact hc | (rw [a]; simp [readyT, readyOf]) | (rw [b]; simp [readyT, readyOf]))
  | check =>
    have : ready = [] := hre (by simp)
    subst this
    cases hrl : s.sh.readyList with
    | cons r rs => simp only [Sys.step, hi, thStep, hrl]; frame2 h h1 hi [Ev.cont i] <;> simp [hrl]
    | nil =>
      cases hq : s.sh.queue with
      | cons q qs =>
        by_cases hdue : q.due > s.sh.clock + dt
        · simp only [Sys.step, hi, thStep, hrl, hq, hdue, if_true]; frame2 h h1 hi [Ev.waitT i q.due] <;> simp [hrl, hq]
        · simp only [Sys.step, hi, thStep, hrl, hq, hdue, if_false]; frame2 h h1 hi [Ev.recheck i] <;> simp [hrl, hq]
      | nil =>
        cases xie
        · simp only [Sys.step, hi, thStep, hrl, hq]; frame2 h h1 hi [Ev.waitU i] <;> simp [hrl, hq]
        · simp only [Sys.step, hi, thStep, hrl, hq]; frame2 h h1 hi [Ev.exitEmpty i] <;> simp [hrl, hq]
  | waitU =>
    have : ready = [] := hre (by simp)
    subst this
    by_cases hn : s.sh.wstate = .notified
    · simp only [Sys.step, hi, thStep, hn, if_true]; frame2 h h1 hi [Ev.woke i]
    · simp only [Sys.step, hi, thStep, hn, if_false]; frame2 h h1 hi []
  | waitT =>
    have : ready = [] := hre (by simp)
    subst this
    simp only [Sys.step, hi, thStep]; frame2 h h1 hi [Ev.woke i]

theorem e2_step (xie : Bool) (s : Sys) (i dt : Nat) (h1 : E1 s) (h : E2 s) : E2 (s.step xie i dt) := by
  cases hi : s.ths[i]? with
  | none => simp [Sys.step, hi]; exact h
  | some th =>
    have hmem : th ∈ s.ths := List.mem_of_getElem? hi
    have hshape := h1.shapes th hmem
    rcases th with ⟨stack⟩
    cases hshape with
    | nil => simp only [Sys.step, hi, thStep]; frame2 h h1 hi []
    | client m hm =>
      apply e2_top xie s i dt h1 h m [] hi
      intro ph r hh; subst hh; simp [isClient] at hm
    | loop ph ready hre => exact e2_loop xie s i dt h1 h ph ready hi hre
    | inner f ready hf =>
      apply e2_top xie s i dt h1 h f _ hi
      intro ph r hh; subst hh; simp [isInner] at hf
end Thr.EL

import RxProofs.Lemmas.VtsPeriodic
/-! Periodic model, part 2: the `Dead` invariant (a disposed task is never invoked again), what a raising
tick does, and the closed form of a single live periodic task. -/

namespace Per
open Vts
variable {σ : Type}

/-- task `pid` is disposed and every pending `tick` of it is cancelled -/
def Dead (pid : Nat) (s : St σ) : Prop :=
  (∃ t, getTask s pid = some t ∧ t.disposed = true) ∧
  ∀ e ∈ s.queue.items, isTick pid e.1.kind = true → e.1.cancelled = true

/-- the invocations of task `pid` -/
def logOf (pid : Nat) (s : St σ) : List (Ran σ) := s.log.filter (fun r => r.pid == pid)

theorem dead_congr {pid : Nat} {s s' : St σ} (ht : s'.tasks = s.tasks) (hq : s'.queue.items = s.queue.items)
    (h : Dead pid s) : Dead pid s' := by
  simp only [Dead, getTask] at h ⊢
  rw [ht, hq]; exact h

theorem dead_setTask_other {pid pid' : Nat} {s : St σ} (t : Task) (hne : pid' ≠ pid) (h : Dead pid s) :
    Dead pid (setTask s pid' t) := by
  obtain ⟨⟨t0, h1, h2⟩, h3⟩ := h
  refine ⟨⟨t0, ?_, h2⟩, h3⟩
  rw [getTask_setTask, if_neg (fun h => hne h.symm)]; exact h1

theorem cancelEntry_cancelled (pid' : Nat) (e : Item σ × Int) (h : e.1.cancelled = true) :
    (cancelEntry pid' e).1.cancelled = true := by
  simp only [cancelEntry]; split <;> simp [h]

theorem cancelEntry_kind (pid' : Nat) (e : Item σ × Int) : (cancelEntry pid' e).1.kind = e.1.kind := by
  simp only [cancelEntry]; split <;> rfl

theorem dead_disposeTask {pid : Nat} (pid' : Nat) {s : St σ} (h : Dead pid s) : Dead pid (disposeTask s pid') := by
  simp only [disposeTask]
  cases hg : getTask s pid' with
  | none => exact h
  | some t' =>
    simp only
    obtain ⟨⟨t0, h1, h2⟩, h3⟩ := h
    refine ⟨?_, ?_⟩
    · show ∃ t, getTask (setTask s pid' { t' with disposed := true }) pid = some t ∧ t.disposed = true
      rw [getTask_setTask]
      by_cases hp : pid = pid'
      · subst hp; rw [if_pos rfl, h1]; exact ⟨_, rfl, rfl⟩
      · rw [if_neg hp]; exact ⟨t0, h1, h2⟩
    · intro e he hk
      simp only [setTask, List.mem_map] at he
      obtain ⟨e0, he0, rfl⟩ := he
      rw [cancelEntry_kind] at hk
      exact cancelEntry_cancelled _ _ (h3 e0 he0 hk)

theorem dead_enqueue {pid : Nat} {s : St σ} (it : Item σ) (hit : isTick pid it.kind = true → it.cancelled = true)
    (h : Dead pid s) : Dead pid (enqueue s it) := by
  obtain ⟨h1, h3⟩ := h
  refine ⟨h1, ?_⟩
  intro e he hk
  simp only [enqueue, PQ.enqueue, List.mem_append, List.mem_singleton] at he
  rcases he with he | rfl
  · exact h3 e he hk
  · exact hit hk

theorem disposeTask_log (s : St σ) (pid : Nat) : (disposeTask s pid).log = s.log := by
  simp only [disposeTask]; split <;> rfl

theorem disposeTask_hlog (s : St σ) (pid : Nat) : (disposeTask s pid).hlog = s.hlog := by
  simp only [disposeTask]; split <;> rfl

/-- disposing an existing task makes it `Dead` -/
theorem disposeTask_dead (s : St σ) (pid : Nat) (t : Task) (hg : getTask s pid = some t) :
    Dead pid (disposeTask s pid) := by
  simp only [disposeTask, hg]
  refine ⟨⟨{ t with disposed := true }, ?_, rfl⟩, ?_⟩
  · show getTask (setTask s pid { t with disposed := true }) pid = _
    rw [getTask_setTask, if_pos rfl, hg]; rfl
  · intro e he hk
    simp only [setTask, List.mem_map] at he
    obtain ⟨e0, he0, rfl⟩ := he
    rw [cancelEntry_kind] at hk
    simp only [cancelEntry, hk, if_true]

theorem isTick_tick (pid pid' : Nat) (st : σ) : isTick pid (Kind.tick pid' st) = (pid' == pid) := rfl

/-- a tick of another task does not revive a dead task, nor invoke it -/
theorem runTick_other (handler : Err → Bool) (f : Nat → σ → Tick σ) (s : St σ) (pid pid' : Nat) (t : Task) (st : σ)
    (hne : pid' ≠ pid) (h : Dead pid s) :
    Dead pid (runTick handler f s pid' t st).1 ∧ logOf pid (runTick handler f s pid' t st).1 = logOf pid s := by
  have hk : ∀ (st' : σ) (c : Bool) (d : Int), isTick pid ({ due := d, kind := .tick pid' st', cancelled := c } : Item σ).kind = true →
      ({ due := d, kind := .tick pid' st', cancelled := c } : Item σ).cancelled = true := by
    intro st' c d hh
    simp only [isTick_tick, beq_iff_eq] at hh
    exact absurd hh hne
  have hb : (pid' == pid) = false := by simp [hne]
  simp only [runTick]
  split
  · exact ⟨h, rfl⟩
  · split
    · exact ⟨dead_enqueue _ (hk _ _ _) h, rfl⟩
    · -- state after the user action
      have hs1 : Dead pid { s with log := s.log ++ [{ pid := pid', at_ := s.clock, st := st }],
                                   clock := s.clock + ↑(f pid' st).sleep } := dead_congr rfl rfl h
      have hl1 : logOf pid { s with log := s.log ++ [{ pid := pid', at_ := s.clock, st := st }],
                                    clock := s.clock + ↑(f pid' st).sleep } = logOf pid s := by
        simp [logOf, List.filter_append, hb]
      generalize hs2 : (if (f pid' st).dispose = true then
          disposeTask { s with log := s.log ++ [{ pid := pid', at_ := s.clock, st := st }],
                               clock := s.clock + ↑(f pid' st).sleep } pid'
        else { s with log := s.log ++ [{ pid := pid', at_ := s.clock, st := st }],
                      clock := s.clock + ↑(f pid' st).sleep }) = s2
      have hd2 : Dead pid s2 := by
        rw [← hs2]; split
        · exact dead_disposeTask _ hs1
        · exact hs1
      have hl2 : logOf pid s2 = logOf pid s := by
        rw [← hs2, ← hl1]; split
        · simp only [logOf, disposeTask_log]
        · rfl
      split
      · exact ⟨dead_enqueue _ (hk _ _ _) hd2, hl2⟩
      · next e _ =>
        split
        · have hd3 : Dead pid (setTask { s2 with hlog := s2.hlog ++ [e] } pid' { ((getTask s2 pid').getD t) with failed := true }) :=
            dead_setTask_other _ hne (dead_congr (s := s2) rfl rfl hd2)
          split
          · refine ⟨dead_enqueue _ (fun _ => rfl) (dead_disposeTask _ hd3), ?_⟩
            simp only [logOf, enqueue, disposeTask_log, setTask]
            exact hl2
          · refine ⟨dead_disposeTask _ hd3, ?_⟩
            simp only [logOf, disposeTask_log, setTask]
            exact hl2
        · refine ⟨dead_disposeTask _ hd2, ?_⟩
          simp only [logOf, disposeTask_log]
          exact hl2

theorem dequeue_mem' {q q' : PQ (Item σ)} {x : Item σ} (h : q.dequeue? Item.due = some (x, q')) :
    (∃ c, (x, c) ∈ q.items) ∧ ∀ e ∈ q'.items, e ∈ q.items := by
  simp only [PQ.dequeue?] at h
  cases hp : popMinBy (PQ.entryLt Item.due) q.items with
  | none => rw [hp] at h; simp at h
  | some mr =>
    obtain ⟨m, r⟩ := mr
    rw [hp] at h
    simp at h
    obtain ⟨rfl, rfl⟩ := h
    obtain ⟨pre, post, hl, hr, _, _⟩ :=
      popMinBy_split _ (PQ.entryLt_trans Item.due) (PQ.entryLt_negtrans Item.due) _ _ _ hp
    refine ⟨⟨m.2, by rw [hl]; simp⟩, ?_⟩
    intro e he
    simp only at he
    rw [hr] at he
    rw [hl]
    simp only [List.mem_append, List.mem_cons] at he ⊢
    rcases he with he | he
    · exact Or.inl he
    · exact Or.inr (Or.inr he)

/-- one iteration keeps a dead task dead and does not invoke it -/
theorem iter_dead (handler : Err → Bool) (f : Nat → σ → Tick σ) (T : Int) (pid : Nat) (s : St σ) (h : Dead pid s) :
    Dead pid (iter handler f T s).st ∧ logOf pid (iter handler f T s).st = logOf pid s := by
  simp only [iter]
  split
  · exact ⟨h, rfl⟩
  · split
    · exact ⟨h, rfl⟩
    · next x q' hd =>
      obtain ⟨⟨c, hxc⟩, hq'⟩ := dequeue_mem' hd
      have h1 : Dead pid { s with clock := if x.due > s.clock then x.due else s.clock, queue := q' } :=
        ⟨h.1, fun e he hk => h.2 e (hq' e he) hk⟩
      split
      · exact ⟨h, rfl⟩
      · split
        · exact ⟨h1, rfl⟩
        · next hnc =>
          split
          · exact ⟨dead_disposeTask _ h1, by simp only [Iter.st, logOf, disposeTask_log]⟩
          · next pid' st hkind =>
            have hne : pid' ≠ pid := by
              intro heq
              subst heq
              have := h.2 _ hxc (by rw [hkind]; simp [isTick])
              exact hnc this
            split
            · exact ⟨h1, rfl⟩
            · next t ht =>
              split
              · exact ⟨h, rfl⟩
              · have := runTick_other handler f
                  { s with clock := if x.due > s.clock then x.due else s.clock, queue := q' } pid pid' t st hne h1
                split
                · next s2 heq => rw [heq] at this; exact this
                · next s2 e heq => rw [heq] at this; exact this

/-- **stops (loop).** Once a task is disposed (and its pending tick cancelled) no run of `advance_to` invokes it. -/
theorem loopFuel_dead (handler : Err → Bool) (f : Nat → σ → Tick σ) (T : Int) (pid : Nat) :
    ∀ (n : Nat) (s : St σ), Dead pid s →
      Dead pid (loopFuel handler f T n s).1 ∧ logOf pid (loopFuel handler f T n s).1 = logOf pid s := by
  intro n
  induction n with
  | zero => intro s h; exact ⟨h, rfl⟩
  | succ n ih =>
    intro s h
    have hi := iter_dead handler f T pid s h
    simp only [loopFuel]
    cases hit : iter handler f T s with
    | exit s' => rw [hit] at hi; exact hi
    | next s' =>
      rw [hit] at hi
      have := ih s' hi.1
      exact ⟨this.1, this.2.trans hi.2⟩
    | raised s' e => rw [hit] at hi; exact hi
    | stuck s' => rw [hit] at hi; exact hi

theorem advanceTo_dead (handler : Err → Bool) (f : Nat → σ → Tick σ) (T : Int) (pid : Nat) (s : St σ)
    (h : Dead pid s) :
    Dead pid (advanceTo handler f T s).1 ∧ logOf pid (advanceTo handler f T s).1 = logOf pid s := by
  simp only [advanceTo]
  split
  · exact ⟨h, rfl⟩
  · split
    · exact ⟨h, rfl⟩
    · have := loopFuel_dead handler f T pid (weight T s.queue.items + 1) { s with enabled := true } (dead_congr rfl rfl h)
      split
      · next s' heq =>
        rw [heq] at this
        exact ⟨dead_congr rfl rfl this.1, this.2⟩
      · next r hr =>
        exact this


theorem getTask_disposeTask_self (s : St σ) (pid : Nat) (t : Task) (hg : getTask s pid = some t) :
    getTask (disposeTask s pid) pid = some { t with disposed := true } := by
  simp only [disposeTask, hg]
  show getTask (setTask s pid { t with disposed := true }) pid = _
  rw [getTask_setTask, if_pos rfl, hg]; rfl

theorem afterAction (f : Nat → σ → Tick σ) (s : St σ) (pid : Nat) (t : Task) (st : σ) (hg : getTask s pid = some t) :
    ∀ s2, (if (f pid st).dispose = true then
        disposeTask { s with log := s.log ++ [{ pid := pid, at_ := s.clock, st := st }],
                             clock := s.clock + ↑(f pid st).sleep } pid
      else { s with log := s.log ++ [{ pid := pid, at_ := s.clock, st := st }],
                    clock := s.clock + ↑(f pid st).sleep }) = s2 →
    (∃ t2, getTask s2 pid = some t2) ∧ s2.log = s.log ++ [{ pid := pid, at_ := s.clock, st := st }] ∧ s2.hlog = s.hlog := by
  intro s2 hs2
  have hg1 : getTask { s with log := s.log ++ [{ pid := pid, at_ := s.clock, st := st }],
                              clock := s.clock + ↑(f pid st).sleep } pid = some t := hg
  subst hs2
  split
  · exact ⟨⟨_, getTask_disposeTask_self _ pid t hg1⟩, by rw [disposeTask_log], by rw [disposeTask_hlog]⟩
  · exact ⟨⟨t, hg1⟩, rfl, rfl⟩

/-- **what a raising tick does (plain scheduler).** A live task whose action raises `e`: the invocation is
logged, the task is disposed (`Dead`: never invoked again, `loopFuel_dead`), and the exception propagates. -/
theorem runTick_raise_plain (handler : Err → Bool) (f : Nat → σ → Tick σ) (s : St σ) (pid : Nat) (t : Task) (st : σ)
    (e : Err) (hg : getTask s pid = some t) (hl : t.disposed = false) (hc : t.catch_ = false)
    (he : (f pid st).next = .error e) :
    Dead pid (runTick handler f s pid t st).1 ∧
    (runTick handler f s pid t st).1.log = s.log ++ [{ pid, at_ := s.clock, st }] ∧
    (runTick handler f s pid t st).2 = some e ∧ (runTick handler f s pid t st).1.hlog = s.hlog := by
  simp only [runTick, hl, hc, Bool.false_and, Bool.false_eq_true, if_false, he]
  generalize hs2 : (if (f pid st).dispose = true then
      disposeTask { s with log := s.log ++ [{ pid := pid, at_ := s.clock, st := st }],
                           clock := s.clock + ↑(f pid st).sleep } pid
    else { s with log := s.log ++ [{ pid := pid, at_ := s.clock, st := st }],
                  clock := s.clock + ↑(f pid st).sleep }) = s2
  obtain ⟨⟨t2, hg2⟩, hl2, hh2⟩ := afterAction f s pid t st hg s2 hs2
  exact ⟨disposeTask_dead s2 pid t2 hg2, by rw [disposeTask_log, hl2], by first | rfl | trivial, by rw [disposeTask_hlog, hh2]⟩

/-- **what a raising tick does (through a CatchScheduler).** The handler is called with `e`; the task is
disposed either way; the exception propagates iff the handler returns a falsy value. -/
theorem runTick_raise_catch (handler : Err → Bool) (f : Nat → σ → Tick σ) (s : St σ) (pid : Nat) (t : Task) (st : σ)
    (e : Err) (hg : getTask s pid = some t) (hl : t.disposed = false) (hc : t.catch_ = true) (hnf : t.failed = false)
    (he : (f pid st).next = .error e) :
    Dead pid (runTick handler f s pid t st).1 ∧
    (runTick handler f s pid t st).1.log = s.log ++ [{ pid, at_ := s.clock, st }] ∧
    (runTick handler f s pid t st).1.hlog = s.hlog ++ [e] ∧
    (runTick handler f s pid t st).2 = if handler e then none else some e := by
  simp only [runTick, hl, hc, hnf, Bool.and_false, Bool.false_eq_true, if_false, he, if_true]
  generalize hs2 : (if (f pid st).dispose = true then
      disposeTask { s with log := s.log ++ [{ pid := pid, at_ := s.clock, st := st }],
                           clock := s.clock + ↑(f pid st).sleep } pid
    else { s with log := s.log ++ [{ pid := pid, at_ := s.clock, st := st }],
                  clock := s.clock + ↑(f pid st).sleep }) = s2
  obtain ⟨⟨t2, hg2⟩, hl2, hh2⟩ := afterAction f s pid t st hg s2 hs2
  have hg3 : getTask (setTask { s2 with hlog := s2.hlog ++ [e] } pid { ((getTask s2 pid).getD t) with failed := true }) pid
      = some { ((getTask s2 pid).getD t) with failed := true } := by
    rw [getTask_setTask, if_pos rfl]
    show (getTask s2 pid).map _ = _
    rw [hg2]; rfl
  cases hh : handler e with
  | true =>
    simp only [if_true]
    refine ⟨dead_enqueue _ (fun _ => rfl) (disposeTask_dead _ pid _ hg3), ?_, ?_, by first | rfl | trivial⟩
    · simp only [enqueue, disposeTask_log, setTask]; exact hl2
    · simp only [enqueue, disposeTask_hlog, setTask, hh2]
  | false =>
    simp only [Bool.false_eq_true, if_false]
    refine ⟨disposeTask_dead _ pid _ hg3, ?_, ?_, by first | rfl | trivial⟩
    · simp only [disposeTask_log, setTask]; exact hl2
    · simp only [disposeTask_hlog, setTask, hh2]

/-! ### closed form for one live periodic task on an otherwise idle scheduler -/

/-- `iterate F i st = F (F … (F st))`, `i` times -/
def iterate (F : σ → σ) : Nat → σ → σ
  | 0, a => a
  | n + 1, a => iterate F n (F a)

/-- the ideal invocation sequence: `k` ticks starting at due time `d` with state `st` -/
def ideal (pid : Nat) (p : Int) (F : σ → σ) : Int → σ → Nat → List (Ran σ)
  | _, _, 0 => []
  | d, st, k + 1 => { pid, at_ := d, st } :: ideal pid p F (d + p) (F st) k

/-- `Ticks T p d k`: starting with a tick due at `d`, exactly `k` ticks are due at or before `T` -/
inductive Ticks (T p : Int) : Int → Nat → Prop where
  | done (d : Int) : d > T → Ticks T p d 0
  | step (d : Int) (k : Nat) : d ≤ T → Ticks T p (d + p) k → Ticks T p d (k + 1)

/-- the scheduler is running, the only pending item is the live tick of task `pid` (due `d`, state `st`),
and the clock has not passed `d` -/
structure Solo (pid : Nat) (t : Task) (s : St σ) (d : Int) (st : σ) : Prop where
  en : s.enabled = true
  q : ∃ c, s.queue.items = [({ due := d, kind := .tick pid st, cancelled := false }, c)]
  task : getTask s pid = some t
  clk : s.clock ≤ d

theorem solo_iter (handler : Err → Bool) (f : Nat → σ → Tick σ) (T : Int) (pid : Nat) (t : Task) (F : σ → σ)
    (hp : 1 ≤ t.period) (hlive : t.disposed = false) (hnf : t.failed = false)
    (hf : ∀ st, (f pid st).next = .ok (F st) ∧ (f pid st).dispose = false ∧ ((f pid st).sleep : Int) ≤ t.period)
    (s : St σ) (d : Int) (st : σ) (hs : Solo pid t s d st) :
    (d > T → iter handler f T s = .exit s) ∧
    (d ≤ T → ∃ s2, iter handler f T s = .next s2 ∧ Solo pid t s2 (d + t.period) (F st) ∧
      s2.log = s.log ++ [{ pid, at_ := d, st }] ∧ s2.hlog = s.hlog) := by
  obtain ⟨hen, ⟨c, hq⟩, htask, hclk⟩ := hs
  have hdq : s.queue.dequeue? Item.due = some (({ due := d, kind := .tick pid st, cancelled := false } : Item σ),
      { items := [], count := PQ.MIN_COUNT }) := by
    simp [PQ.dequeue?, hq, popMinBy]
  obtain ⟨hf1, hf2, hf3⟩ := hf st
  refine ⟨fun hgt => ?_, fun hle => ?_⟩
  · simp [iter, hen, hdq, hgt]
  · have hngt : ¬ d > T := by omega
    have hcl : (if d > s.clock then d else s.clock) = d := by split <;> omega
    have hper : ¬ t.period ≤ 0 := by omega
    have hcf : (t.catch_ && t.failed) = false := by simp [hnf]
    have htask' : (s.tasks.find? (·.1 == pid)).map (·.2) = some t := htask
    simp only [iter, hen, hdq, hngt, hcl, getTask, htask', hper, runTick, hlive, hcf, hf1, hf2]
    simp only [Bool.false_eq_true, if_false, Option.map_some, Option.getD_some, hlive]
    refine ⟨_, rfl, ⟨rfl, ⟨PQ.MIN_COUNT, ?_⟩, htask, ?_⟩, rfl, rfl⟩
    · simp only [enqueue, PQ.enqueue, List.nil_append]
      rw [htask']
      simp only [Option.map_some, Option.getD_some, hlive]
      congr 3
      omega
    · simp only [enqueue]; omega

theorem solo_loop (handler : Err → Bool) (f : Nat → σ → Tick σ) (T : Int) (pid : Nat) (t : Task) (F : σ → σ)
    (hp : 1 ≤ t.period) (hlive : t.disposed = false) (hnf : t.failed = false)
    (hf : ∀ st, (f pid st).next = .ok (F st) ∧ (f pid st).dispose = false ∧ ((f pid st).sleep : Int) ≤ t.period) :
    ∀ (k : Nat) (d : Int), Ticks T t.period d k → ∀ (s : St σ) (st : σ), Solo pid t s d st → ∀ n, k < n →
      (loopFuel handler f T n s).2 = .ok ∧
      (loopFuel handler f T n s).1.log = s.log ++ ideal pid t.period F d st k ∧
      (loopFuel handler f T n s).1.hlog = s.hlog := by
  intro k d hk
  induction hk with
  | done d hgt =>
    intro s st hs n hn
    cases n with
    | zero => omega
    | succ n =>
      have := (solo_iter handler f T pid t F hp hlive hnf hf s d st hs).1 hgt
      simp [loopFuel, this, ideal]
  | step d k hle _ ih =>
    intro s st hs n hn
    cases n with
    | zero => omega
    | succ n =>
      obtain ⟨s2, hi, hs2, hl2, hh2⟩ := (solo_iter handler f T pid t F hp hlive hnf hf s d st hs).2 hle
      have := ih s2 (F st) hs2 n (by omega)
      simp only [loopFuel, hi]
      refine ⟨this.1, ?_, by rw [this.2.2, hh2]⟩
      rw [this.2.1, hl2]
      simp [ideal]

theorem ideal_length (pid : Nat) (p : Int) (F : σ → σ) : ∀ (k : Nat) (d : Int) (st : σ), (ideal pid p F d st k).length = k := by
  intro k
  induction k with
  | zero => intros; rfl
  | succ k ih => intro d st; simp [ideal, ih]

/-- the `i`-th ideal tick happens at `d + i·p` with the state threaded `i` times through the action -/
theorem ideal_get (pid : Nat) (p : Int) (F : σ → σ) : ∀ (k : Nat) (d : Int) (st : σ) (i : Nat), i < k →
    (ideal pid p F d st k)[i]? = some { pid, at_ := d + i * p, st := iterate F i st } := by
  intro k
  induction k with
  | zero => intro d st i h; omega
  | succ k ih =>
    intro d st i h
    cases i with
    | zero => simp [ideal, iterate]
    | succ i =>
      simp only [ideal, List.getElem?_cons_succ]
      rw [ih (d + p) (F st) i (by omega)]
      simp only [iterate]
      congr 2
      push_cast
      rw [Int.add_mul]; omega


end Per

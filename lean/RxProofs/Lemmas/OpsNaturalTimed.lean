import RxProofs.C15
import RxProofs.C16
import RxProofs.C18
/-!
# Naturality of the timed operators' models (C08): renaming the elements of the source timeline commutes with
timestamp, time_interval, delay, throttle_first, debounce and sample.  The models (`RxModel/Timed*.lean`) belong to
the Timed family and are only read here; the proofs go through that family's `Run = Spec` theorems where a spec exists.
-/
namespace Timed
variable {α β : Type}

/-- rename every element of a timeline -/
def mapTL (ρ : α → β) (l : TL α) : TL β := l.map (fun m => (m.1, m.2.map ρ))

@[simp] theorem mapTL_nil (ρ : α → β) : mapTL ρ ([] : TL α) = [] := rfl
@[simp] theorem mapTL_cons (ρ : α → β) (t : Nat) (n : Notif α) (r : TL α) :
    mapTL ρ ((t, n) :: r) = (t, n.map ρ) :: mapTL ρ r := rfl
theorem mapTL_append (ρ : α → β) (a b : TL α) : mapTL ρ (a ++ b) = mapTL ρ a ++ mapTL ρ b := by
  simp [mapTL]

theorem conform_mapTL (ρ : α → β) (l : TL α) : conform (mapTL ρ l) = mapTL ρ (conform l) := by
  induction l with
  | nil => rfl
  | cons m r ih => obtain ⟨t, n⟩ := m; cases n <;> simp_all [conform, Notif.map]

theorem nexts_mapTL (ρ : α → β) (l : TL α) : nexts (mapTL ρ l) = (nexts l).map (fun e => (e.1, ρ e.2)) := by
  induction l with
  | nil => rfl
  | cons m r ih => obtain ⟨t, n⟩ := m; cases n <;> simp_all [nexts, Notif.map]

theorem firstTerminal_mapTL (ρ : α → β) (l : TL α) :
    firstTerminal (mapTL ρ l) = (firstTerminal l).map (fun m => (m.1, m.2.map ρ)) := by
  induction l with
  | nil => rfl
  | cons m r ih => obtain ⟨t, n⟩ := m; cases n <;> simp_all [firstTerminal, Notif.map]

theorem mono_mapTL (ρ : α → β) (lo : Nat) (l : TL α) (h : Mono lo l) : Mono lo (mapTL ρ l) := by
  induction l generalizing lo with
  | nil => trivial
  | cons m r ih => obtain ⟨t, n⟩ := m; exact ⟨h.1, ih t h.2⟩

/-! ### timestamp / time_interval -/
theorem tsRun_natural (ρ : α → β) (l : TL α) :
    tsRun (mapTL ρ l) = mapTL (Prod.map ρ id) (tsRun l) := by
  induction l with
  | nil => rfl
  | cons m r ih => obtain ⟨t, n⟩ := m; cases n <;> simp_all [tsRun, Notif.map]

theorem tiRun_natural (ρ : α → β) (last : Nat) (l : TL α) :
    tiRun last (mapTL ρ l) = mapTL (Prod.map ρ id) (tiRun last l) := by
  induction l generalizing last with
  | nil => rfl
  | cons m r ih => obtain ⟨t, n⟩ := m; cases n <;> simp_all [tiRun, Notif.map]

/-! ### throttle_first -/
theorem tfRun_natural (ρ : α → β) (w : Nat) (last : Option Nat) (l : TL α) :
    tfRun w last (mapTL ρ l) = mapTL ρ (tfRun w last l) := by
  induction l generalizing last with
  | nil => rfl
  | cons m r ih =>
    obtain ⟨t, n⟩ := m
    cases n with
    | next x =>
      simp only [mapTL_cons, Notif.map, tfRun, mapTL_append]
      cases last with
      | none => simp only [tfOnNext]; rw [ih]; rfl
      | some l0 =>
        by_cases h : l0 + w ≤ t
        · simp only [tfOnNext, h, if_true]; rw [ih]; rfl
        · simp only [tfOnNext, h, if_false]; rw [ih]; rfl
    | error e => simp [tfRun, Notif.map]
    | completed => simp [tfRun, Notif.map]

theorem throttleFirst_natural (ρ : α → β) (w sub : Nat) (l : TL α) :
    throttleFirst w sub (mapTL ρ l) = mapTL ρ (throttleFirst w sub l) := by
  unfold throttleFirst
  split
  · simp [mapTL, Notif.map]
  · exact tfRun_natural ρ w none l

/-! ### debounce (through `debRun = debSpec`) -/
theorem debSpec_cons_cons (d t : Nat) (x : α) (t' : Nat) (n' : Notif α) (r' : TL α) :
    debSpec d ((t, .next x) :: (t', n') :: r') =
      if t + d < t' then (t + d, .next x) :: debSpec d ((t', n') :: r')
      else match n' with
        | .completed => (t', .next x) :: debSpec d ((t', n') :: r')
        | _ => debSpec d ((t', n') :: r') := by
  cases n' <;> simp [debSpec]

theorem debSpec_natural (ρ : α → β) (d : Nat) (l : TL α) :
    debSpec d (mapTL ρ l) = mapTL ρ (debSpec d l) := by
  induction l with
  | nil => rfl
  | cons m r ih =>
    obtain ⟨t, n⟩ := m
    cases n with
    | error e => simp [debSpec, Notif.map]
    | completed => simp [debSpec, Notif.map]
    | next x =>
      cases r with
      | nil => simp [debSpec, Notif.map]
      | cons m' r' =>
        obtain ⟨t', n'⟩ := m'
        rw [mapTL_cons, mapTL_cons] at *
        rw [show Notif.map ρ (Notif.next x) = Notif.next (ρ x) from rfl, debSpec_cons_cons, debSpec_cons_cons, ih]
        by_cases h : t + d < t'
        · simp only [h, if_true]; rfl
        · simp only [h, if_false]
          cases n' <;> rfl

theorem debounce_natural (ρ : α → β) (d : Nat) (l : TL α) :
    debRun d {} (mapTL ρ l) = mapTL ρ (debRun d {} l) := by
  rw [C16.debounce_emits_iff_quiet, C16.debounce_emits_iff_quiet, debSpec_natural]

/-! ### delay (through `delayRun = delaySpec`, timelines with non-decreasing times) -/
theorem delaySpec_natural (ρ : α → β) (d : Nat) (l : TL α) :
    delaySpec d (mapTL ρ l) = mapTL ρ (delaySpec d l) := by
  unfold delaySpec
  rw [firstTerminal_mapTL, nexts_mapTL]
  cases firstTerminal l with
  | none => simp [mapTL, shiftEl, Notif.map, Function.comp_def]
  | some m =>
    obtain ⟨t, n⟩ := m
    cases n <;>
      simp [mapTL, shiftEl, Notif.map, Function.comp_def, List.filter_map]

theorem delay_natural (ρ : α → β) (d lo : Nat) (l : TL α) (h : Mono lo l) :
    delayRun d (mapTL ρ l) = mapTL ρ (delayRun d l) := by
  rw [C15.delay_shift d lo _ (mono_mapTL ρ lo l h), C15.delay_shift d lo l h, delaySpec_natural]


/-! ### sample (through `sampRun = sampSpec`) -/
theorem takeWhile_time_mapTL (ρ : α → β) (q : Nat → Bool) (l : TL α) :
    (mapTL ρ l).takeWhile (fun m => q m.1) = mapTL ρ (l.takeWhile (fun m => q m.1)) := by
  induction l with
  | nil => rfl
  | cons m r ih => obtain ⟨t, n⟩ := m; cases h : q t <;> simp [mapTL_cons, List.takeWhile_cons, h, ih]

theorem dropWhile_time_mapTL (ρ : α → β) (q : Nat → Bool) (l : TL α) :
    (mapTL ρ l).dropWhile (fun m => q m.1) = mapTL ρ (l.dropWhile (fun m => q m.1)) := by
  induction l with
  | nil => rfl
  | cons m r ih => obtain ⟨t, n⟩ := m; cases h : q t <;> simp [mapTL_cons, List.dropWhile_cons, h, ih]

theorem latestOf_mapTL (ρ : α → β) (pend : Option α) (pre : TL α) :
    latestOf (pend.map ρ) (mapTL ρ pre) = (latestOf pend pre).map ρ := by
  unfold latestOf
  rw [nexts_mapTL, List.foldl_map]
  generalize nexts pre = es
  induction es generalizing pend with
  | nil => rfl
  | cons e es ih => simpa using ih (some e.2)

theorem emitAt_map (ρ : α → β) (k : Nat) (o : Option α) : emitAt k (o.map ρ) = mapTL ρ (emitAt k o) := by
  cases o <;> rfl

theorem sampSpec_natural (ρ : α → β) (tf : Bool) (pend : Option α) (l : TL α) (ticks : List (Nat × SampEv)) :
    sampSpec tf (pend.map ρ) (mapTL ρ l) ticks = mapTL ρ (sampSpec tf pend l ticks) := by
  induction ticks generalizing pend l with
  | nil =>
    simp only [sampSpec, firstTerminal_mapTL]
    cases firstTerminal l with
    | none => rfl
    | some m => obtain ⟨t, n⟩ := m; cases n <;> rfl
  | cons tk ticks ih =>
    obtain ⟨k, ev⟩ := tk
    simp only [sampSpec]
    rw [takeWhile_time_mapTL ρ (fun t => !timerBefore tf k t), dropWhile_time_mapTL ρ (fun t => !timerBefore tf k t),
      firstTerminal_mapTL, latestOf_mapTL, emitAt_map]
    have ih0 := ih none (l.dropWhile (fun m => !timerBefore tf k m.1))
    simp only [Option.map_none] at ih0
    cases firstTerminal (l.takeWhile (fun m => !timerBefore tf k m.1)) with
    | none => cases ev <;> simp [ih0, mapTL_append] <;> rfl
    | some m =>
      obtain ⟨t, n⟩ := m
      cases n <;> cases ev <;> simp [Notif.map, ih0, mapTL_append] <;> rfl

theorem sample_natural (ρ : α → β) (tf : Bool) (l : TL α) (ticks : List (Nat × SampEv)) :
    sampRun tf {} (mapTL ρ l) ticks = mapTL ρ (sampRun tf {} l ticks) := by
  rw [C16.sample_latest_unsampled, C16.sample_latest_unsampled]
  exact sampSpec_natural ρ tf none l ticks

end Timed

/-! ### window_with_count / buffer_with_count contents (through `C18.wwc_window_k`) -/
namespace Win
variable {α β : Type}

theorem window_with_count_natural (ρ : α → β) (count skip t0 : Nat) (hc : 0 < count) (hs : 0 < skip)
    (tx : List (Nat × α)) (k : Nat) (hk : k * skip ≤ tx.length) :
    (Cnt.run count skip (Cnt.init t0) (Cnt.nexts (tx.map (fun e => (e.1, ρ e.2))))).b.pushedOf k
      = ((Cnt.run count skip (Cnt.init t0) (Cnt.nexts tx)).b.pushedOf k).map ρ := by
  have h1 := (C18.wwc_window_k count skip t0 hc hs (tx.map (fun e => (e.1, ρ e.2))) k (by simpa using hk)).2
  have h2 := (C18.wwc_window_k count skip t0 hc hs tx k hk).2
  rw [h1, h2]
  simp [List.map_take, List.map_drop, Function.comp_def]

end Win

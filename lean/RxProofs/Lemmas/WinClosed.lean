import RxProofs.Lemmas.WinEnd
/-!
# Every window outside the operator's open set has already ended (boundaries / when / time / time_or_count).
-/
namespace Win
variable {α : Type}

/-- every window the operator ever created is either in its open set or has already ended. -/
def ClosedB (b : Base α) (open_ : List Nat) : Prop :=
  ∀ id, id < b.wins.length → id ∈ open_ ∨ (b.endedOf id).isSome = true

namespace Base

theorem closed_frame {b b' : Base α} {o : List Nat} (hl : b'.wins.length = b.wins.length)
    (hm : ∀ id, (b.endedOf id).isSome = true → (b'.endedOf id).isSome = true) (h : ClosedB b o) : ClosedB b' o := by
  intro id hid
  rcases h id (hl ▸ hid) with h1 | h1
  · exact Or.inl h1
  · exact Or.inr (hm id h1)

/-- close the current window and open a fresh one (boundary / closing fired / timer or count roll). -/
theorem closed_roll (b : Base α) (cur : Nat) (e : Option Err) (hc : cur < b.wins.length) (h : ClosedB b [cur]) :
    ClosedB ((b.winEnd cur e).newWin.1.outerNext (b.winEnd cur e).newWin.2) [(b.winEnd cur e).wins.length] := by
  intro id hid
  simp only [length_outerNext, length_newWin, length_winEnd] at hid
  simp only [length_winEnd, endedOf_outerNext, endedOf_newWin, List.mem_singleton]
  by_cases h1 : id = b.wins.length
  · exact Or.inl h1
  · right
    have hlt : id < b.wins.length := by omega
    rcases h id hlt with h2 | h2
    · have : id = cur := by simpa using h2
      subst this; exact endedOf_winEnd_self b id e hc
    · exact endedOf_winEnd_mono b cur id e h2

theorem closed_winEnd (b : Base α) (i : Nat) (e : Option Err) (o : List Nat) (h : ClosedB b o) : ClosedB (b.winEnd i e) o :=
  closed_frame (by simp) (fun id hh => endedOf_winEnd_mono b i id e hh) h

end Base

namespace Bnd
def KInv (s : Bnd α) : Prop := s.cur < s.b.wins.length ∧ ClosedB s.b [s.cur]

theorem kinv_init (t0 : Nat) (bsync : Option (Notif Unit) := none) : KInv (Bnd.init (α := α) t0 bsync) := by
  have hbase : KInv ({ b := (({ now := t0 } : Base α).newWin.1.outerNext ({ now := t0 } : Base α).newWin.2).subscribe 0,
                       cur := ({ now := t0 } : Base α).newWin.2 } : Bnd α) := by
    refine ⟨by simp [Base.newWin], ?_⟩
    intro id hid
    simp [Base.newWin] at hid
    left; simp [Base.newWin, hid]
  cases bsync with
  | none =>
    exact ⟨by simpa [init] using hbase.1, Base.closed_frame (by simp [init]) (fun id hh => by simpa [init] using hh) hbase.2⟩
  | some n =>
    cases n with
    | next u => exact ⟨by simp [init, onBoundary], Base.closed_roll _ _ none hbase.1 hbase.2⟩
    | error e =>
      exact ⟨by simpa [init, onEnd] using hbase.1, Base.closed_frame (by simp [init, onEnd])
        (fun id hh => by simp only [init, onEnd, Base.endedOf_outerEnd]; exact Base.endedOf_winEnd_mono _ _ _ _ hh) hbase.2⟩
    | completed =>
      exact ⟨by simpa [init, onEnd] using hbase.1, Base.closed_frame (by simp [init, onEnd])
        (fun id hh => by simp only [init, onEnd, Base.endedOf_outerEnd]; exact Base.endedOf_winEnd_mono _ _ _ _ hh) hbase.2⟩

theorem kinv_step (s : Bnd α) (t : Nat) (e : Ev α) (h : KInv s) : KInv (Bnd.mach.step s t e) := by
  have h' : KInv ({ s with b := { s.b with now := t } } : Bnd α) := h
  simp only [mach]
  cases e with
  | src k n =>
    simp only [step]; split
    · cases n with
      | next x =>
        by_cases hk : (k == 0) = true
        · simp only [hk, if_true]
          exact ⟨by simpa using h.1, Base.closed_frame (by simp) (fun id hh => by simpa using hh) h'.2⟩
        · simp only [hk, Bool.false_eq_true, if_false, onBoundary]
          refine ⟨by simp, ?_⟩
          have := Base.closed_roll ({ s.b with now := t } : Base α) s.cur none h.1 h'.2
          simpa using this
      | error e =>
        exact ⟨by simpa [onEnd] using h.1, Base.closed_frame (by simp [onEnd])
          (fun id hh => by simp only [onEnd, Base.endedOf_unsub, Base.endedOf_outerEnd]; exact Base.endedOf_winEnd_mono _ _ _ _ hh) h'.2⟩
      | completed =>
        exact ⟨by simpa [onEnd] using h.1, Base.closed_frame (by simp [onEnd])
          (fun id hh => by simp only [onEnd, Base.endedOf_unsub, Base.endedOf_outerEnd]; exact Base.endedOf_winEnd_mono _ _ _ _ hh) h'.2⟩
    · exact h'
  | dispose w => exact ⟨by simpa [step] using h.1, Base.closed_frame (by simp [step]) (fun id hh => by simpa [step] using hh) h'.2⟩
  | tick => exact h'
end Bnd

end Win
namespace Win
variable {α : Type}

namespace Whn
def KInv (s : Whn α) : Prop := s.cur < s.b.wins.length ∧ ClosedB s.b [s.cur]

theorem kinv_onEnd (s : Whn α) (e) (h : KInv s) : KInv (onEnd s e) :=
  ⟨by simpa [onEnd] using h.1, Base.closed_frame (by simp [onEnd])
    (fun id hh => by simp only [onEnd, Base.endedOf_outerEnd]; exact Base.endedOf_winEnd_mono _ _ _ _ hh) h.2⟩

theorem kinv_setb (s : Whn α) (b' : Base α) (hl : b'.wins.length = s.b.wins.length)
    (hm : ∀ id, (s.b.endedOf id).isSome = true → (b'.endedOf id).isSome = true) (h : KInv s) :
    KInv ({ s with b := b' } : Whn α) :=
  ⟨by show s.cur < b'.wins.length; rw [hl]; exact h.1, Base.closed_frame hl hm h.2⟩

theorem kinv_createClosingF (r : Option Nat) (pool : Nat) (fuel : Nat) (s : Whn α) (h : KInv s) :
    KInv (createClosingF r pool fuel s) := by
  induction fuel generalizing s with
  | zero => exact h
  | succ fuel ih =>
    have hc : KInv ({ s with calls := s.calls + 1 } : Whn α) := h
    simp only [createClosingF]
    split
    · exact kinv_onEnd _ _ hc
    · have h1 : KInv ({ s with calls := s.calls + 1, b := (if s.calls ≥ 1 then s.b.unsub s.calls else s.b) } : Whn α) := by
        apply kinv_setb { s with calls := s.calls + 1 } _ _ _ hc
        · split <;> simp
        · intro id hh; split <;> simpa using hh
      generalize (if s.calls ≥ 1 then s.b.unsub s.calls else s.b) = b1 at h1 ⊢
      split
      · apply ih
        exact ⟨by simp, Base.closed_roll b1 s.cur none h1.1 h1.2⟩
      · exact kinv_onEnd _ _ h1
      · apply kinv_setb { s with calls := s.calls + 1, b := b1 } _ _ _ h1
        · split <;> (try split) <;> simp
        · intro id hh; split <;> (try split) <;> simpa using hh

theorem kinv_createClosing (r : Option Nat) (pool : Nat) (s : Whn α) (h : KInv s) : KInv (createClosing r pool s) :=
  kinv_createClosingF r pool _ s h

theorem kinv_init (r : Option Nat) (pool t0 : Nat) (sync : List (Option (Option Err)) := []) : KInv (Whn.init (α := α) r pool t0 sync) := by
  apply kinv_createClosing
  refine ⟨by simp [Base.newWin], ?_⟩
  intro id hid
  simp [Base.newWin] at hid
  left; simp [Base.newWin, hid]

theorem kinv_unsub (s : Whn α) (k) (h : KInv s) : KInv ({ s with b := s.b.unsub k } : Whn α) :=
  ⟨by simpa using h.1, Base.closed_frame (by simp) (fun id hh => by simpa using hh) h.2⟩

theorem kinv_onClose (r : Option Nat) (pool : Nat) (s : Whn α) (h : KInv s) : KInv (onClose r pool s) := by
  apply kinv_createClosing
  exact ⟨by simp, Base.closed_roll s.b s.cur none h.1 h.2⟩

theorem kinv_step (r : Option Nat) (pool : Nat) (s : Whn α) (t : Nat) (e : Ev α) (h : KInv s) :
    KInv ((Whn.mach r pool).step s t e) := by
  have h' : KInv ({ s with b := { s.b with now := t } } : Whn α) := h
  simp only [mach]
  cases e with
  | src k n =>
    simp only [step]; split
    · split
      · cases n with
        | next x => exact ⟨by simpa using h.1, Base.closed_frame (by simp) (fun id hh => by simpa using hh) h'.2⟩
        | error e => exact kinv_unsub _ _ (kinv_onEnd _ _ h')
        | completed => exact kinv_unsub _ _ (kinv_onEnd _ _ h')
      · cases n with
        | next x => exact kinv_unsub _ _ (kinv_onClose _ _ _ h')
        | error e => exact kinv_unsub _ _ (kinv_onEnd _ _ h')
        | completed => exact kinv_unsub _ _ (kinv_onClose _ _ _ h')
    · exact h'
  | dispose w => exact ⟨by simpa [step] using h.1, Base.closed_frame (by simp [step]) (fun id hh => by simpa [step] using hh) h'.2⟩
  | tick => exact h'
end Whn

namespace Toc
def KInv (st : Toc α) : Prop := st.s < st.b.wins.length ∧ ClosedB st.b [st.s]

theorem kinv_b {st st' : Toc α} (hb : st'.b = st.b) (hs : st'.s = st.s) (h : KInv st) : KInv st' := by
  unfold KInv; rw [hb, hs]; exact h

theorem kinv_roll (st : Toc α) (h : KInv st) : KInv (roll st) := by
  refine ⟨by simp [roll], ?_⟩
  have := Base.closed_roll st.b st.s none h.1 h.2
  simpa [roll] using this

theorem kinv_init (span t0 : Nat) : KInv (Toc.init (α := α) span t0) := by
  refine ⟨by simp [init, createTimer, Base.newWin], ?_⟩
  intro id hid
  simp [init, createTimer, Base.newWin] at hid
  left; simp [init, createTimer, Base.newWin, hid]

theorem kinv_step (span count : Nat) (s : Toc α) (t : Nat) (e : Ev α) (h : KInv s) :
    KInv ((Toc.mach span count).step s t e) := by
  have h' : KInv ({ s with b := { s.b with now := t } } : Toc α) := h
  simp only [mach]
  cases e with
  | src k n =>
    cases k with
    | zero =>
      simp only [step]; split
      · cases n with
        | next x =>
          have h1 : KInv ({ s with b := ({ s.b with now := t } : Base α).winNext s.s x, n := s.n + 1 } : Toc α) :=
            ⟨by simpa using h.1, Base.closed_frame (by simp) (fun id hh => by simpa using hh) h'.2⟩
          apply kinv_b (sync_b _) (sync_s _)
          simp only [onNext]; split
          · exact kinv_b (by simp) (by simp [createTimer]) (kinv_roll _ h1)
          · exact h1
        | error e =>
          apply kinv_b (sync_b _) (sync_s _)
          exact ⟨by simpa [onEnd] using h.1, Base.closed_frame (by simp [onEnd])
            (fun id hh => by simp only [onEnd, Base.endedOf_unsub, Base.endedOf_outerEnd]; exact Base.endedOf_winEnd_mono _ _ _ _ hh) h'.2⟩
        | completed =>
          apply kinv_b (sync_b _) (sync_s _)
          exact ⟨by simpa [onEnd] using h.1, Base.closed_frame (by simp [onEnd])
            (fun id hh => by simp only [onEnd, Base.endedOf_unsub, Base.endedOf_outerEnd]; exact Base.endedOf_winEnd_mono _ _ _ _ hh) h'.2⟩
      · exact h'
    | succ k => exact h'
  | dispose w =>
    apply kinv_b (sync_b _) (sync_s _)
    exact ⟨by simpa [step] using h.1, Base.closed_frame (by simp) (fun id hh => by simpa using hh) h'.2⟩
  | tick =>
    apply kinv_b (sync_b _) (sync_s _)
    simp only [onTick]; split
    · exact h'
    · split
      · exact h'
      · have h2 : KInv ({ ({ s with b := { s.b with now := t } } : Toc α) with timer := none } : Toc α) := h'
        exact kinv_b (by simp [createTimer]) (by simp [createTimer]) (kinv_roll _ h2)
end Toc

end Win
namespace Win
variable {α : Type}

namespace Base
theorem closed_push (b : Base α) (q : List Nat) (h : ClosedB b q) :
    ClosedB (b.newWin.1.outerNext b.newWin.2) (q ++ [b.wins.length]) := by
  intro id hid
  simp only [length_outerNext, length_newWin] at hid
  simp only [endedOf_outerNext, endedOf_newWin, List.mem_append, List.mem_singleton]
  by_cases h1 : id = b.wins.length
  · exact Or.inl (Or.inr h1)
  · rcases h id (by omega) with h2 | h2
    · exact Or.inl (Or.inl h2)
    · exact Or.inr h2

theorem closed_pop (b : Base α) (i : Nat) (q : List Nat) (e : Option Err) (hi : i < b.wins.length) (h : ClosedB b (i :: q)) :
    ClosedB (b.winEnd i e) q := by
  intro id hid
  simp only [length_winEnd] at hid
  rcases h id hid with h2 | h2
  · rcases List.mem_cons.mp h2 with h3 | h3
    · subst h3; exact Or.inr (endedOf_winEnd_self b id e hi)
    · exact Or.inl h3
  · exact Or.inr (endedOf_winEnd_mono b i id e h2)
end Base

namespace Tim
def KInv (s : Tim α) : Prop := (∀ id ∈ s.queue, id < s.b.wins.length) ∧ ClosedB s.b s.queue

theorem kinv_b {s s' : Tim α} (hb : s'.b = s.b) (hq : s'.queue = s.queue) (h : KInv s) : KInv s' := by
  unfold KInv; rw [hb, hq]; exact h

theorem kinv_init (span shift t0 : Nat) : KInv (Tim.init (α := α) span shift t0) := by
  refine ⟨by simp [init, createTimer, Base.newWin], ?_⟩
  intro id hid
  simp [init, createTimer, Base.newWin] at hid
  left; simp [init, createTimer, Base.newWin, hid]

theorem kinv_onTick (shift : Nat) (s : Tim α) (h : KInv s) : KInv (onTick shift s) := by
  unfold onTick; split
  · exact h
  · rename_i tk _
    simp only []
    have hnew : KInv ({ s with timer := none, b := (s.b.newWin.1).outerNext s.b.newWin.2,
                               queue := s.queue ++ [s.b.newWin.2] } : Tim α) := by
      refine ⟨?_, Base.closed_push s.b s.queue h.2⟩
      intro id hid
      simp only [Base.length_outerNext, Base.length_newWin]
      rcases List.mem_append.mp hid with h1 | h1
      · have := h.1 id h1; omega
      · simp at h1; omega
    have hpop : ∀ s' : Tim α, KInv s' →
        KInv (match s'.queue with
          | [] => { s' with b := s'.b.emit (.escaped "IndexError") }
          | id :: q => createTimer shift { s' with b := s'.b.winEnd id none, queue := q }) := by
      intro s' hs'
      cases hq : s'.queue with
      | nil =>
        refine ⟨by simp [hq], ?_⟩
        have := hs'.2; rw [hq] at this
        exact Base.closed_frame (by simp) (fun id hh => by simpa using hh) this
      | cons id q =>
        have h1 := hs'.1; have h2 := hs'.2; rw [hq] at h1 h2
        refine ⟨fun i hi => ?_, ?_⟩
        · have := h1 i (List.mem_cons_of_mem _ hi); simpa using this
        · exact Base.closed_pop s'.b id q none (h1 id List.mem_cons_self) h2
    cases tk.isShift <;> cases tk.isSpan <;> simp only [Bool.false_eq_true, if_false, if_true]
    · exact h
    · exact hpop { s with timer := none } h
    · exact hnew
    · exact hpop _ hnew

theorem kinv_step (shift : Nat) (s : Tim α) (t : Nat) (e : Ev α) (h : KInv s) : KInv ((Tim.mach shift).step s t e) := by
  have h' : KInv ({ s with b := { s.b with now := t } } : Tim α) := h
  simp only [mach]
  cases e with
  | src k n =>
    cases k with
    | zero =>
      simp only [step]; split
      · cases n with
        | next x =>
          exact ⟨fun i hi => by simpa using h.1 i hi, Base.closed_frame (by simp) (fun id hh => by simpa using hh) h'.2⟩
        | error e =>
          apply kinv_b (sync_b _) (sync_queue _)
          refine ⟨fun i hi => ?_, Base.closed_frame ?_ ?_ h'.2⟩
          · have := h.1 i hi; simpa [onEnd_len] using this
          · simp [onEnd_len]
          · intro id hh
            simp only [onEnd, Base.endedOf_unsub, Base.endedOf_outerEnd]
            rw [(Base.foldl_winEnd s.queue (some e) ({ s.b with now := t } : Base α)).2.2.1 id hh]; exact hh
        | completed =>
          apply kinv_b (sync_b _) (sync_queue _)
          refine ⟨fun i hi => ?_, Base.closed_frame ?_ ?_ h'.2⟩
          · have := h.1 i hi; simpa [onEnd_len] using this
          · simp [onEnd_len]
          · intro id hh
            simp only [onEnd, Base.endedOf_unsub, Base.endedOf_outerEnd]
            rw [(Base.foldl_winEnd s.queue none ({ s.b with now := t } : Base α)).2.2.1 id hh]; exact hh
      · exact h'
    | succ k => exact h'
  | dispose w =>
    apply kinv_b (sync_b _) (sync_queue _)
    exact ⟨fun i hi => by simpa using h.1 i hi, Base.closed_frame (by simp) (fun id hh => by simpa using hh) h'.2⟩
  | tick =>
    apply kinv_b (sync_b _) (sync_queue _)
    exact kinv_onTick shift _ h'
end Tim

/-- the invariant along any run. -/
theorem fold_inv {σ : Type} (m : Mach σ α) (P : σ → Prop) (hstep : ∀ s t e, P s → P (m.step s t e))
    (evs : List (Nat × Ev α)) (s : σ) (h : P s) : P (m.fold s evs) := by
  induction evs generalizing s with
  | nil => exact h
  | cons te es ih => exact ih _ (hstep s te.1 te.2 h)

end Win
namespace Win
variable {α : Type}

/-- generic: closed-set invariant + "open ones get the terminal" + "ended ones stay ended" ⇒ everything has ended. -/
theorem all_ended_of {b b' : Base α} {o : List Nat} {e : Option Err} (hc : ClosedB b o) (hl : b'.wins.length = b.wins.length)
    (hends : EndsAll b b' o e) (hmono : ∀ id, (b.endedOf id).isSome = true → (b'.endedOf id).isSome = true) :
    ∀ id, id < b'.wins.length → (b'.endedOf id).isSome = true := by
  intro id hid
  rw [hl] at hid
  cases hn : b.endedOf id with
  | some x => exact hmono id (by rw [hn]; rfl)
  | none =>
    rcases hc id hid with h1 | h1
    · rw [hends id h1 hid hn]; rfl
    · rw [hn] at h1; cases h1

namespace Bnd
theorem all_ended (s : Bnd α) (t k : Nat) (hk : k = 0 ∨ k = 1) (e : Option Err) (hl : s.b.live.contains k = true) (h : KInv s) :
    ∀ id, id < (Bnd.mach.step s t (.src k (endNotif e))).b.wins.length →
      ((Bnd.mach.step s t (.src k (endNotif e))).b.endedOf id).isSome = true := by
  have hl' : ({ s with b := { s.b with now := t } } : Bnd α).b.live.contains k = true := hl
  have hk' : (k == 0 || k == 1) = true := by rcases hk with rfl | rfl <;> rfl
  apply all_ended_of h.2 _ (Bnd.ends s t k _ e hk rfl hl).1
  · intro id hh
    cases e <;> (simp only [mach, step, hl', hk', Bool.and_self, if_true, endNotif, onEnd, Base.endedOf_unsub, Base.endedOf_outerEnd]
                 exact Base.endedOf_winEnd_mono _ _ _ _ hh)
  · cases e <;> (simp only [mach, step, hl', hk', Bool.and_self, if_true, endNotif, onEnd]; simp)
end Bnd

namespace Whn
theorem all_ended (r : Option Nat) (pool : Nat) (s : Whn α) (t : Nat) (e : Option Err) (hl : s.b.live.contains 0 = true) (h : KInv s) :
    ∀ id, id < ((Whn.mach r pool).step s t (.src 0 (endNotif e))).b.wins.length →
      (((Whn.mach r pool).step s t (.src 0 (endNotif e))).b.endedOf id).isSome = true := by
  have hl' : ({ s with b := { s.b with now := t } } : Whn α).b.live.contains 0 = true := hl
  apply all_ended_of h.2 _ (Whn.ends r pool s t _ e rfl hl).1
  · intro id hh
    cases e <;> (simp only [mach, step, hl', if_true, beq_self_eq_true, endNotif, onEnd, Base.endedOf_unsub, Base.endedOf_outerEnd]
                 exact Base.endedOf_winEnd_mono _ _ _ _ hh)
  · cases e <;> (simp only [mach, step, hl', if_true, beq_self_eq_true, endNotif, onEnd]; simp)
end Whn

namespace Toc
theorem all_ended (span count : Nat) (s : Toc α) (t : Nat) (e : Option Err) (hl : s.b.live.contains 0 = true) (h : KInv s) :
    ∀ id, id < ((Toc.mach span count).step s t (.src 0 (endNotif e))).b.wins.length →
      (((Toc.mach span count).step s t (.src 0 (endNotif e))).b.endedOf id).isSome = true := by
  have hl' : ({ s with b := { s.b with now := t } } : Toc α).b.live.contains 0 = true := hl
  apply all_ended_of h.2 _ (Toc.ends span count s t _ e rfl hl).1
  · intro id hh
    cases e <;> (simp only [mach, step, hl', if_true, endNotif, onEnd, sync_b, Base.endedOf_unsub, Base.endedOf_outerEnd]
                 exact Base.endedOf_winEnd_mono _ _ _ _ hh)
  · cases e <;> (simp only [mach, step, hl', if_true, endNotif, onEnd, sync_b]; simp)
end Toc

namespace Tim
theorem all_ended (shift : Nat) (s : Tim α) (t : Nat) (e : Option Err) (hl : s.b.live.contains 0 = true) (h : KInv s) :
    ∀ id, id < ((Tim.mach shift).step s t (.src 0 (endNotif e))).b.wins.length →
      (((Tim.mach shift).step s t (.src 0 (endNotif e))).b.endedOf id).isSome = true := by
  have hl' : ({ s with b := { s.b with now := t } } : Tim α).b.live.contains 0 = true := hl
  apply all_ended_of h.2 _ (Tim.ends shift s t _ e rfl hl).1
  · intro id hh
    cases e with
    | none =>
      simp only [mach, step, hl', if_true, endNotif, onEnd, sync_b, Base.endedOf_unsub, Base.endedOf_outerEnd]
      rw [(Base.foldl_winEnd s.queue none ({ s.b with now := t } : Base α)).2.2.1 id hh]; exact hh
    | some err =>
      simp only [mach, step, hl', if_true, endNotif, onEnd, sync_b, Base.endedOf_unsub, Base.endedOf_outerEnd]
      rw [(Base.foldl_winEnd s.queue (some err) ({ s.b with now := t } : Base α)).2.2.1 id hh]; exact hh
  · cases e <;> (simp only [mach, step, hl', if_true, endNotif, sync_b]; simp [onEnd_len])
end Tim

end Win

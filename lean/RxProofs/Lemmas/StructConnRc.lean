import RxProofs.Lemmas.StructConn
/-!
# ref_count and auto_connect invariants over the Connectable model (C24)
-/

namespace Conn
namespace World
variable {α : Type}

/-- the world right after `count -= 1` in a subscriber's dispose -/
def dec (w : World α) (i : Nat) : World α :=
  { w with live := w.live.erase i, subj := w.subj.unsubscribe i, count := w.count - 1 }

theorem disposeSub_rc {w : World α} (hw : w.wrap = .refCount) (t i : Nat) (hi : w.live.contains i = true) :
    w.disposeSub t i =
      if (w.count - 1 == 0) = true then
        (match w.connSub with
         | some h => if w.curHandle = some h then (w.dec i).disposeHandle t h else w.dec i
         | none => w.dec i)
      else w.dec i := by
  unfold disposeSub
  rw [if_pos hi]
  split
  · rename_i h; rw [hw] at h; cases h
  · rfl
  · rename_i h; rw [hw] at h; cases h

theorem disposeSub_ac {w : World α} {n : Nat} (hw : w.wrap = .autoConnect n) (t i : Nat) (hi : w.live.contains i = true) :
    w.disposeSub t i = { (w.dec i) with isConnected := false } := by
  unfold disposeSub
  rw [if_pos hi]
  split
  · rename_i h; rw [hw] at h; cases h
  · rename_i h; rw [hw] at h; cases h
  · rfl

theorem disposeSub_absent {w : World α} (t i : Nat) (hi : w.live.contains i = false) : w.disposeSub t i = w := by
  unfold disposeSub
  simp only [hi, Bool.false_eq_true, if_false]

/-- `ref_count`: the count is the number of live subscribers, the connectable is connected exactly
while it is positive, and `connectable_subscription` is the live connection handle. -/
structure RcInv (w : World α) : Prop where
  conn : ConnInv w
  wrap : w.wrap = .refCount
  cnt : w.count = (w.live.length : Int)
  iff : w.hasSub = decide (w.count > 0)
  hdl : w.hasSub = true → w.connSub = w.curHandle

theorem RcInv.congr {w w' : World α} (h : RcInv w) (h1 : w'.hasSub = w.hasSub) (h2 : w'.srcOpen = w.srcOpen)
    (h3 : w'.curHandle = w.curHandle) (h4 : w'.curSrc = w.curSrc) (h5 : w'.wrap = w.wrap)
    (h6 : w'.count = w.count) (h7 : w'.live = w.live) (h8 : w'.connSub = w.connSub) : RcInv w' :=
  ⟨h.conn.congr h1 h2 h3 h4, by rw [h5]; exact h.wrap, by rw [h6, h7]; exact h.cnt,
   by rw [h1, h6]; exact h.iff, by rw [h1, h8, h3]; exact h.hdl⟩

theorem rc_closeSrc {w : World α} (h : RcInv w) (t sid : Nat) : RcInv (w.closeSrc t sid) :=
  ⟨closeSrc_inv h.conn t sid, by simp [h.wrap], by simp [h.cnt], by simp [h.iff], by simpa using h.hdl⟩

theorem length_erase_mem (l : List Nat) (i : Nat) (h : l.contains i = true) :
    ((l.erase i).length : Int) = (l.length : Int) - 1 ∧ (0 : Int) < (l.length : Int) := by
  have hm : i ∈ l := by simpa using h
  have := List.length_erase_of_mem hm
  have hpos : 0 < l.length := List.length_pos_of_mem hm
  omega

theorem rc_disposeSub {w : World α} (h : RcInv w) (t i : Nat) : RcInv (w.disposeSub t i) := by
  cases hi : w.live.contains i with
  | false => rw [disposeSub_absent t i hi]; exact h
  | true =>
    rw [disposeSub_rc h.wrap t i hi]
    obtain ⟨hlen, hpos⟩ := length_erase_mem w.live i hi
    have hcnt := h.cnt
    have base : ConnInv (w.dec i) := h.conn.congr rfl rfl rfl rfl
    have hdec_cnt : (w.dec i).count = ((w.dec i).live.length : Int) := by
      simp only [dec]; omega
    split
    · rename_i hz
      have hz' : w.count - 1 = 0 := by simpa using hz
      -- an unconnected state with count 0
      have unconnected : w.hasSub = false → RcInv (w.dec i) := fun hns =>
        ⟨base, h.wrap, hdec_cnt, by show w.hasSub = decide (w.count - 1 > 0); rw [hns]; simp; omega,
          fun hh => by have : w.hasSub = true := hh; rw [hns] at this; cases this⟩
      cases hcs : w.connSub with
      | none =>
        simp only []
        apply unconnected
        cases hs : w.hasSub with
        | false => rfl
        | true =>
          have h1 := h.hdl hs
          have h2 := (h.conn.2 hs).1
          rw [← h1, hcs] at h2; cases h2
      | some hd =>
        simp only []
        split
        · rename_i hcur
          have hcur' : (w.dec i).curHandle = some hd := hcur
          refine ⟨disposeHandle_inv base t hd, by simp [dec, h.wrap], by simp; exact hdec_cnt, ?_, ?_⟩
          · rw [disposeHandle_hasSub_cur _ t hd hcur', disposeHandle_count]
            show false = decide (w.count - 1 > 0)
            simp; omega
          · intro hh; rw [disposeHandle_hasSub_cur _ t hd hcur'] at hh; cases hh
        · rename_i hcur
          apply unconnected
          cases hs : w.hasSub with
          | false => rfl
          | true =>
            have h1 := h.hdl hs
            rw [hcs] at h1
            exact absurd h1.symm hcur
    · rename_i hz
      have hz' : w.count - 1 ≠ 0 := by simpa using hz
      refine ⟨base, h.wrap, hdec_cnt, ?_, h.hdl⟩
      show w.hasSub = decide (w.count - 1 > 0)
      rw [h.iff]
      simp only [decide_eq_decide]
      omega

theorem rc_deliver (t : Nat) (dl : List (Nat × Notif α)) : ∀ {w : World α}, RcInv w → RcInv (w.deliver t dl) := by
  induction dl with
  | nil => intro w h; exact h
  | cons d rest ih =>
    intro w h
    obtain ⟨i, n⟩ := d
    simp only [deliver]
    apply ih
    have h1 : RcInv ({ w with out := w.out ++ [(i, t, n)] } : World α) := h.congr rfl rfl rfl rfl rfl rfl rfl rfl
    split
    · exact rc_disposeSub h1 t i
    · exact h1

theorem rc_srcDeliver {w : World α} (h : RcInv w) (t sid : Nat) (n : Notif α) : RcInv (w.srcDeliver t sid n) := by
  unfold srcDeliver
  have h1 : RcInv (({ w with subj := (w.subj.onNotif n).1 } : World α).deliver t (w.subj.onNotif n).2) :=
    rc_deliver t _ (h.congr rfl rfl rfl rfl rfl rfl rfl rfl)
  split
  · exact rc_closeSrc h1 t sid
  · exact h1

theorem opSub_rc {w : World α} (hw : w.wrap = .refCount) (t i : Nat) :
    w.opSub t i =
      (let w1 := ({ w with count := w.count + 1, subj := (w.subj.subscribe i).1, live := w.live ++ [i] } : World α).record t (w.subj.subscribe i).2
       let w2 := if (w.count + 1 == 1) = true then { (w1.connect t) with connSub := (w1.connect t).curHandle } else w1
       if ((w.subj.subscribe i).2.any (fun d => d.2.isTerminal)) = true then w2.disposeSub t i else w2) := by
  unfold opSub
  split
  · rename_i h; rw [hw] at h; cases h
  · rfl
  · rename_i h; rw [hw] at h; cases h

theorem rc_opSub {w : World α} (h : RcInv w) (t i : Nat) : RcInv (w.opSub t i) := by
  rw [opSub_rc h.wrap t i]
  simp only []
  have hcnt := h.cnt
  have hnonneg : (0 : Int) ≤ w.count := by rw [hcnt]; omega
  -- after `count += 1` and the inner subscribe
  have key : RcInv (if (w.count + 1 == 1) = true then
      { ((({ w with count := w.count + 1, subj := (w.subj.subscribe i).1, live := w.live ++ [i] } : World α).record t (w.subj.subscribe i).2).connect t) with
        connSub := ((({ w with count := w.count + 1, subj := (w.subj.subscribe i).1, live := w.live ++ [i] } : World α).record t (w.subj.subscribe i).2).connect t).curHandle }
      else (({ w with count := w.count + 1, subj := (w.subj.subscribe i).1, live := w.live ++ [i] } : World α).record t (w.subj.subscribe i).2)) := by
    have hc1 : ConnInv (({ w with count := w.count + 1, subj := (w.subj.subscribe i).1, live := w.live ++ [i] } : World α).record t (w.subj.subscribe i).2) :=
      h.conn.congr rfl rfl rfl rfl
    split
    · rename_i h1
      have h1' : w.count = 0 := by
        have : w.count + 1 = 1 := by simpa using h1
        omega
      refine ⟨(connect_inv hc1 t).congr rfl rfl rfl rfl, ?_, ?_, ?_, ?_⟩
      · simp [record, h.wrap]
      · simp [record]; omega
      · simp [record]; omega
      · intro _; rfl
    · rename_i h1
      have h1' : w.count ≠ 0 := by
        intro hz; apply h1; simp [hz]
      have hs : w.hasSub = true := by rw [h.iff]; simp; omega
      refine ⟨hc1, ?_, ?_, ?_, ?_⟩
      · simp [record, h.wrap]
      · simp [record]; omega
      · simp [record, hs]; omega
      · intro _; simpa [record] using h.hdl hs
  split
  · exact rc_disposeSub key t i
  · exact key

theorem rc_foldl_srcDeliver (t : Nat) (n : Notif α) (subs : List (SrcSub α)) :
    ∀ {w : World α}, RcInv w →
      RcInv (subs.foldl (fun (acc : World α) (s : SrcSub α) => acc.srcDeliver t s.id n) w) := by
  induction subs with
  | nil => intro w h; exact h
  | cons s rest ih => intro w h; exact ih (rc_srcDeliver h t s.id n)

theorem rc_popCold {w : World α} (h : RcInv w) (sid' : Nat) :
    RcInv ({ w with srcOpen := popCold w.srcOpen sid' } : World α) :=
  ⟨popCold_inv h.conn sid', h.wrap, h.cnt, h.iff, h.hdl⟩

theorem rc_advance (limit : Nat) : ∀ (fuel : Nat) {w : World α}, RcInv w → RcInv (advance limit fuel w) := by
  intro fuel
  induction fuel with
  | zero => intro w h; exact h
  | succ k ih =>
    intro w h
    unfold advance
    simp only []
    split
    · exact h
    · apply ih
      apply rc_foldl_srcDeliver
      exact h.congr rfl rfl rfl rfl rfl rfl rfl rfl
    · apply ih
      apply rc_srcDeliver
      exact rc_popCold h _
    · split
      · apply ih
        apply rc_foldl_srcDeliver
        exact h.congr rfl rfl rfl rfl rfl rfl rfl rfl
      · apply ih
        apply rc_srcDeliver
        exact rc_popCold h _

/-- a history that only subscribes and unsubscribes (everything a user of `ref_count` / `share` /
`auto_connect` can do) -/
def subOnly : List (Nat × Op) → Bool
  | [] => true
  | (_, .sub _) :: rest => subOnly rest
  | (_, .unsub _) :: rest => subOnly rest
  | _ => false

theorem rc_runOps (ops : List (Nat × Op)) : ∀ {w : World α} (hs : List (Option Nat)), RcInv w →
    subOnly ops = true → RcInv (w.runOps hs ops).1 := by
  induction ops with
  | nil => intro w hs h _; exact h
  | cons o rest ih =>
    intro w hs h hso
    obtain ⟨t, op⟩ := o
    cases op with
    | sub i =>
      simp only [runOps, applyOp]
      exact ih _ (rc_opSub (rc_advance t _ h) t i) (by simpa [subOnly] using hso)
    | unsub i =>
      simp only [runOps, applyOp]
      exact ih _ (rc_disposeSub (rc_advance t _ h) t i) (by simpa [subOnly] using hso)
    | connect => simp [subOnly] at hso
    | disconnect k => simp [subOnly] at hso

theorem Fresh.rc {w : World α} (h : Fresh w) (hw : w.wrap = .refCount) : RcInv w :=
  ⟨h.inv, hw, by rw [h.2.2.2.2.1, h.2.2.2.2.2.1]; rfl, by rw [h.1, h.2.2.2.2.1]; rfl,
   fun hs => by rw [h.1] at hs; cases hs⟩

/-- the 0→1 edge: subscribing connects (makes a new source subscription) iff nobody was subscribed -/
theorem rc_sub_edge {w : World α} (h : RcInv w) (t i : Nat) :
    (w.hasSub = false ↔ w.count = 0) ∧
    ((w.opSub t i).srcLog.length = w.srcLog.length + (if w.count = 0 then 1 else 0)) := by
  have hcnt := h.cnt
  refine ⟨?_, ?_⟩
  · rw [h.iff]; simp; omega
  · rw [opSub_rc h.wrap t i]
    simp only []
    have hlog_ds : ∀ (v : World α), (v.disposeSub t i).srcLog.length = v.srcLog.length :=
      fun v => disposeSub_srcLog_length v t i
    by_cases hz : w.count = 0
    · have hns : w.hasSub = false := by rw [h.iff]; simp; omega
      simp only [hz, if_true]
      split
      · rw [hlog_ds]; simp [connect, record, hns]
      · simp [connect, record, hns]
    · have hne : (w.count + 1 == 1) = false := by simp; omega
      simp only [hz, if_false, hne]
      split
      · rw [hlog_ds]; simp [record]
      · simp [record]

/-- the →0 edge: after an unsubscribe the connectable is connected iff subscribers remain -/
theorem rc_unsub_edge {w : World α} (h : RcInv w) (t i : Nat) :
    (w.disposeSub t i).hasSub = decide ((w.disposeSub t i).count > 0) ∧
    (w.live.contains i = true → (w.disposeSub t i).count = w.count - 1) := by
  refine ⟨(rc_disposeSub h t i).iff, fun hi => ?_⟩
  rw [disposeSub_rc h.wrap t i hi]
  split
  · split
    · split
      · simp [dec]
      · rfl
    · rfl
  · rfl

end World
end Conn

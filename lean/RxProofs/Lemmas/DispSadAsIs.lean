import RxProofs.Lemmas.DispC26A
/-!
# DEFECT DOCUMENTATION — SingleAssignmentDisposable *as written in the pinned tree* (DESIGN §6 #5)

This file is **not** about the code the C26 theorems cover (those are about the fixed class,
`Disp.sadStep`, see `fixes/C26_sad_lock_and_none.patch`).  It keeps machine-checked counter-examples
(`decide` on concrete histories / schedules of `Disp.sadAsIsStep`, the line-by-line model of the unfixed
`singleassignmentdisposable.py`) showing that the property C26 is false of the unfixed class.  Each
counter-example was replayed on the real unfixed class (sequentially, and under the interleaving
controller for the two races) — `harness/props/C26.py` reproduces them on every run against a tree
without the fix.

Item 0 is *falsy* (an empty CompositeDisposable: `__len__() == 0`), items 1, 2 are ordinary.
-/
namespace Disp.SadAsIs

def falsy0 : Nat → Bool := fun i => i == 0

/-- **sad_falsy_leak.** History `dispose(); set(empty composite)`: the item assigned after the disposal is
never disposed (`if self.is_disposed and value:` is false for a falsy value) and is not held either. -/
theorem sad_falsy_leak :
    let s := (aInit [[.dispose, .set 0]]).run (sadAsIsStep falsy0) (List.replicate 4 0)
    aQuiet s ∧ s.sh.isDisposed = true ∧ s.sh.given 0 = 1 ∧ s.sh.cnt 0 = 0 ∧ s.sh.current = none := by decide

/-- **sad_falsy_second_assignment_accepted.** History `set(empty composite); set(1); dispose()`: the second
assignment is accepted (`if self.current:` is false for a falsy current) although the container is neither
disposed nor unassigned, and the first item is lost: never disposed, not even by `dispose()`. -/
theorem sad_falsy_second_assignment_accepted :
    let s := (aInit [[.set 0, .set 1, .dispose]]).run (sadAsIsStep falsy0) (List.replicate 8 0)
    aQuiet s ∧ s.sh.rej 1 = 0 ∧ s.sh.accepted = 2 ∧ s.sh.cnt 0 = 0 ∧ s.sh.dropped 0 = 1 ∧ s.sh.cnt 1 = 1 := by decide

/-- **sad_double_assign_race.** Two threads assign ordinary items; both pass the unlocked `if self.current:`
test before either takes the lock: both assignments are accepted, item 1 is overwritten and never disposed. -/
theorem sad_double_assign_race :
    let s := (aInit [[.set 1], [.set 2], [.dispose]]).run (sadAsIsStep falsy0) [0, 1, 0, 1, 0, 1, 2, 2]
    aQuiet s ∧ s.sh.accepted = 2 ∧ s.sh.rej 1 = 0 ∧ s.sh.rej 2 = 0 ∧ s.sh.cnt 1 = 0 ∧ s.sh.cnt 2 = 1 := by decide

/-- **sad_double_dispose_race.** Thread 0 assigns item 1 and is preempted after its lock block; thread 1
disposes the container (disposing item 1); thread 0 then re-reads `self.is_disposed` (now true) and disposes
item 1 a second time. -/
theorem sad_double_dispose_race :
    let s := (aInit [[.set 1], [.dispose]]).run (sadAsIsStep falsy0) [0, 0, 1, 1, 0, 0]
    aQuiet s ∧ s.sh.given 1 = 1 ∧ s.sh.cnt 1 = 2 := by decide

/-- the same schedules on the fixed model satisfy the property -/
example : let s := (aInit [[.dispose, .set 0]]).run sadStep (List.replicate 4 0)
    aQuiet s ∧ s.sh.cnt 0 = 1 := by decide
example : let s := (aInit [[.set 0, .set 1, .dispose]]).run sadStep (List.replicate 8 0)
    aQuiet s ∧ s.sh.rej 1 = 1 ∧ s.sh.cnt 0 = 1 ∧ s.sh.cnt 1 = 0 := by decide

end Disp.SadAsIs

import RxProofs.Lemmas.AggOps
import RxProofs.Lemmas.AggSeqEq
import RxModel.AggC09
/-!
# Lemmas for C09: handlers that never raise into the emitter; an `on_error` call made by a live
operator reaches the subscriber and stops the run.
-/

namespace Agg

/-- no handler of `op` lets an exception escape to its caller -/
def Op.NoEsc {α β} (op : Op α β) : Prop := ∀ s n, (op.handle s n).esc = none

/-- `on_error` of the source is forwarded as one `on_error` -/
def Op.FwdErr {α β} (op : Op α β) : Prop := ∀ s e, (op.onError s e).calls = [.error e]

theorem Op.NoEsc.of_handlers {α β} {op : Op α β} (h1 : ∀ s x, (op.onNext s x).esc = none)
    (h2 : ∀ s e, (op.onError s e).esc = none) (h3 : ∀ s, (op.onCompleted s).esc = none) : op.NoEsc := by
  intro s n; cases n <;> simp [Op.handle, h1, h2, h3]

theorem pump_noEsc {β γ} (g : Op β γ) (hg : g.NoEsc) (m : Bool) (s : g.σ) (ns : List (Notif β)) :
    (pump g m s ns).2.2 = none := by
  induction ns generalizing m s with
  | nil => rfl
  | cons n ns ih =>
    cases m
    · simp only [pump, hg s n, ih]; rfl
    · rfl

theorem Op.NoEsc.comp {α β γ} {f : Op α β} {g : Op β γ} (hf : f.NoEsc) (hg : g.NoEsc) : (f ⨾ g).NoEsc := by
  intro s n
  have hh : (f ⨾ g).handle s n = compH g s.2.1 s.2.2 (f.handle s.1 n) := by cases n <;> rfl
  rw [hh]; simp only [compH, hf s.1 n, pump_noEsc g hg]; rfl

theorem Op.escapes_nil {α β} (op : Op α β) (h : op.NoEsc) (lag : Bool) (raw : List (Notif α)) :
    op.escapes lag raw = [] := by
  unfold Op.escapes
  generalize op.start = st
  induction raw generalizing st with
  | nil => rfl
  | cons n ns ih =>
    simp only [Op.steps, List.filterMap_cons]
    have : (op.step lag st n).esc = none := by
      unfold Op.step; split
      · rfl
      · exact h _ _
    rw [this]; exact ih _

/-- a raising first-stage callback in `source.pipe(f, g)`: `f` calls `on_error` on `g`'s (live) observer, `g` forwards it -/
theorem comp_raise {α β γ} (f : Op α β) (g : Op β γ) (sf : f.σ) (sg : g.σ) (n : Notif α) (e : Err)
    (hg : (g.onError sg e).calls = [.error e])
    (h : (f.handle sf n).calls = [.error e]) :
    ((f ⨾ g).handle (sf, false, sg) n).calls = [.error e] := by
  have hh : (f ⨾ g).handle (sf, false, sg) n = compH g false sg (f.handle sf n) := by cases n <;> rfl
  rw [hh]
  show (pump g false sg (f.handle sf n).calls).2.1 = [.error e]
  rw [h]
  show (g.onError sg e).calls ++ _ = _
  rw [hg]; simp [pump]

theorem Op.FwdErr.comp {α β γ} {f : Op α β} {g : Op β γ} (hf : f.FwdErr) (hg : g.FwdErr) (sf : f.σ) (sg : g.σ) (e : Err) :
    ((f ⨾ g).onError (sf, false, sg) e).calls = [.error e] :=
  comp_raise f g sf sg (.error e) e (hg sg e) (hf sf e)

/-! ### an `on_error` made by a live operator is delivered and stops the run -/

theorem Op.outFrom_down {α β} (op : Op α β) (lag : Bool) (st : RunSt op.σ) (h : st.down = true) (raw : List (Notif α)) :
    op.outFrom lag st raw = [] := by
  induction raw generalizing st with
  | nil => rfl
  | cons n ns ih =>
    rw [Op.outFrom_cons]
    unfold Op.step
    split
    · simp [ih st h]
    · simp only [h, deliver_true, List.nil_append]
      apply ih; rfl

theorem Op.finalFrom_down {α β} (op : Op α β) (lag : Bool) (st : RunSt op.σ) (h : st.down = true) (raw : List (Notif α)) :
    (op.finalFrom lag st raw).down = true := by
  induction raw generalizing st with
  | nil => exact h
  | cons n ns ih =>
    simp only [Op.finalFrom]; apply ih
    unfold Op.step; split
    · exact h
    · simp [h]

theorem Op.finalFrom_up {α β} (op : Op α β) (lag : Bool) (st : RunSt op.σ) (h : st.up = true) (raw : List (Notif α)) :
    (op.finalFrom lag st raw).up = true := by
  induction raw generalizing st with
  | nil => exact h
  | cons n ns ih =>
    simp only [Op.finalFrom]; apply ih
    unfold Op.step; simp [h]

theorem Op.finalFrom_append {α β} (op : Op α β) (lag : Bool) (st : RunSt op.σ) (a b : List (Notif α)) :
    op.finalFrom lag st (a ++ b) = op.finalFrom lag (op.finalFrom lag st a) b := by
  induction a generalizing st with
  | nil => rfl
  | cons n ns ih => simp [Op.finalFrom, ih]

theorem deliver_nonterminals_error {β} (cs : List (Notif β)) (e : Err) (hcs : ∀ c ∈ cs, c.isTerminal = false) :
    deliver false (cs ++ [.error e]) = (true, cs ++ [.error e]) := by
  induction cs with
  | nil => rfl
  | cons c cs ih =>
    have hc : c.isTerminal = false := hcs c List.mem_cons_self
    simp only [List.cons_append, deliver_false_cons, hc]
    rw [ih (fun c' h => hcs c' (List.mem_cons_of_mem _ h))]

/-- **Generic delivery theorem.**  After `pre` the source is live (`up = false`) and the subscriber has not been
terminated (`down = false`).  If the handler run for `n` makes the downstream calls `cs ++ [on_error e]` (`cs`
non-terminal), then the subscriber receives exactly those after what it had, nothing afterwards, the downstream
observer is stopped, and (prompt disposal) so is the source's observer. -/
theorem Op.raise_delivered {α β} (op : Op α β) (lag : Bool) (pre post : List (Notif α)) (n : Notif α)
    (cs : List (Notif β)) (e : Err)
    (hup : (op.final lag pre).up = false) (hdown : (op.final lag pre).down = false)
    (hcalls : (op.handle (op.final lag pre).s n).calls = cs ++ [.error e]) (hcs : ∀ c ∈ cs, c.isTerminal = false) :
    op.out lag (pre ++ n :: post) = op.out lag pre ++ (cs ++ [.error e])
    ∧ (op.final lag (pre ++ n :: post)).down = true
    ∧ (lag = false → (op.final lag (pre ++ n :: post)).up = true) := by
  have hstep : (op.step lag (op.final lag pre) n).out = cs ++ [.error e]
      ∧ (op.step lag (op.final lag pre) n).st.down = true
      ∧ (lag = false → (op.step lag (op.final lag pre) n).st.up = true) := by
    unfold Op.step
    simp only [hup, Bool.false_eq_true, if_false, hdown, hcalls, deliver_nonterminals_error cs e hcs]
    refine ⟨by simp, by simp, ?_⟩
    intro hl; subst hl; simp
  refine ⟨?_, ?_, ?_⟩
  · rw [Op.out_prefix, Op.outFrom_cons, hstep.1, Op.outFrom_down _ _ _ hstep.2.1]; simp
  · simp only [Op.final, Op.finalFrom_append, Op.finalFrom]
    exact Op.finalFrom_down _ _ _ hstep.2.1 _
  · intro hl
    simp only [Op.final, Op.finalFrom_append, Op.finalFrom]
    exact Op.finalFrom_up _ _ _ (hstep.2.2 hl) _

/-- the downstream observer is stopped exactly when the subscriber has received a terminal -/
theorem Op.final_down_iff {α β} (op : Op α β) (lag : Bool) (raw : List (Notif α)) :
    (op.final lag raw).down = (op.out lag raw).any (·.isTerminal) := by
  have key : ∀ (st : RunSt op.σ), (op.finalFrom lag st raw).down = (st.down || (op.outFrom lag st raw).any (·.isTerminal)) := by
    induction raw with
    | nil => intro st; simp [Op.finalFrom, Op.outFrom, Op.steps]
    | cons n ns ih =>
      intro st
      simp only [Op.finalFrom, Op.outFrom_cons, List.any_append, ih]
      unfold Op.step
      split
      · simp
      · simp only
        have hd : ∀ (d : Bool) (l : List (Notif β)), (deliver d l).1 = (d || (deliver d l).2.any (·.isTerminal)) := by
          intro d l
          induction l generalizing d with
          | nil => simp
          | cons c cs ihc =>
            cases d
            · simp only [deliver_false_cons, List.any_cons, Bool.false_or]
              rw [ihc]
            · simp
        rw [hd]; simp [Bool.or_assoc]
  have := key op.start
  simpa [Op.final, Op.out, Op.outFrom, Op.start] using this

/-- the source observer is live as long as the source sent no terminal and (prompt case) the subscriber got none -/
theorem Op.final_up_false {α β} (op : Op α β) (lag : Bool) (pre : List (Notif α))
    (hpre : ∀ n ∈ pre, n.isTerminal = false) (hdown : (op.final lag pre).down = false) :
    (op.final lag pre).up = false := by
  have key : ∀ (pre : List (Notif α)), (∀ n ∈ pre, n.isTerminal = false) →
      ∀ (st : RunSt op.σ), st.up = false → (op.finalFrom lag st pre).down = false →
      (op.finalFrom lag st pre).up = false := by
    intro pre
    induction pre with
    | nil => intro _ st h _; exact h
    | cons n ns ih =>
      intro hpre st hup hd
      simp only [Op.finalFrom] at hd ⊢
      apply ih (fun m hm => hpre m (List.mem_cons_of_mem _ hm)) _ ?_ hd
      have hn : n.isTerminal = false := hpre n List.mem_cons_self
      unfold Op.step
      simp only [hup, Bool.false_eq_true, if_false, hn, Bool.false_or]
      cases hdd : (deliver st.down (op.handle st.s n).calls).1
      · simp
      · -- downstream stopped at this step: it stays stopped, contradicting `hd`
        exfalso
        have := Op.finalFrom_down op lag (op.step lag st n).st (by unfold Op.step; simp [hup, hdd]) ns
        rw [this] at hd; cases hd
  exact key pre hpre op.start rfl hdown

/-! ### the catalogue: no handler raises into the emitter; errors are forwarded -/

theorem mapO_noEsc {α β} (f : α → Except Err β) : (mapO f).NoEsc :=
  Op.NoEsc.of_handlers (fun s x => by simp only [mapO]; cases f x <;> rfl) (fun _ _ => rfl) (fun _ => rfl)
theorem filterO_noEsc {α} (p : α → Except Err Bool) : (filterO p).NoEsc :=
  Op.NoEsc.of_handlers (fun s x => by simp only [filterO]; cases p x with | error e => rfl | ok b => cases b <;> rfl)
    (fun _ _ => rfl) (fun _ => rfl)
theorem scanO_noEsc {α β} (f : β → α → Except Err β) (seed : Option β) (inj : α → β) : (scanO f seed inj).NoEsc :=
  Op.NoEsc.of_handlers (fun s x => by simp only [scanO]; cases scanProj f seed inj s x <;> rfl) (fun _ _ => rfl) (fun _ => rfl)
theorem lastOrDefaultO_noEsc {α} (d : Option α) : (lastOrDefaultO d).NoEsc :=
  Op.NoEsc.of_handlers (fun _ _ => rfl) (fun _ _ => rfl)
    (fun s => by simp only [lastOrDefaultO]; split; rfl; split <;> rfl)
theorem firstOrDefaultO_noEsc {α} (d : Option α) : (firstOrDefaultO d).NoEsc :=
  Op.NoEsc.of_handlers (fun (s : Bool) _ => by cases s <;> rfl) (fun (s : Bool) _ => by cases s <;> rfl)
    (fun (s : Bool) => by cases s <;> cases d <;> rfl)
theorem singleOrDefaultO_noEsc {α} (d : Option α) : (singleOrDefaultO d).NoEsc :=
  Op.NoEsc.of_handlers (fun s x => by simp only [singleOrDefaultO]; split <;> rfl) (fun _ _ => rfl)
    (fun s => by simp only [singleOrDefaultO]; split; rfl; split <;> rfl)
theorem extremaByO_noEsc {α κ} (key : α → Except Err κ) (cmp : κ → κ → Except Err Int) : (extremaByO key cmp).NoEsc :=
  Op.NoEsc.of_handlers (fun s x => by simp only [extremaByO]; cases extremaStep key cmp s x <;> rfl) (fun _ _ => rfl) (fun _ => rfl)
theorem toListO_noEsc {α} : (toListO : Op α (List α)).NoEsc :=
  Op.NoEsc.of_handlers (fun _ _ => rfl) (fun _ _ => rfl) (fun _ => rfl)
theorem toSetO_noEsc {α} (eq : α → α → Bool) : (toSetO eq).NoEsc :=
  Op.NoEsc.of_handlers (fun _ _ => rfl) (fun _ _ => rfl) (fun _ => rfl)
theorem toDictO_noEsc {α κ ν} (eq : κ → κ → Bool) (key : α → Except Err κ) (elem : α → Except Err ν) : (toDictO eq key elem).NoEsc :=
  Op.NoEsc.of_handlers (fun s x => by simp only [toDictO]; cases dictStep eq key elem s x <;> rfl) (fun _ _ => rfl) (fun _ => rfl)
theorem someOp_noEsc {α} : (someOp : Op α Bool).NoEsc :=
  Op.NoEsc.of_handlers (fun (s : Bool) _ => by cases s <;> rfl) (fun (s : Bool) _ => by cases s <;> rfl)
    (fun (s : Bool) => by cases s <;> rfl)
theorem takeWhileO_noEsc {α} (p : α → Except Err Bool) (incl : Bool) : (takeWhileO p incl).NoEsc :=
  Op.NoEsc.of_handlers (fun s x => by
      simp only [takeWhileO]; split
      · rfl
      · cases p x with
        | error e => rfl
        | ok b => cases b <;> rfl)
    (fun _ _ => rfl) (fun _ => rfl)
theorem distinctO_noEsc {α κ} (key : α → Except Err κ) (cmp : κ → κ → Except Err Bool) : (distinctO key cmp).NoEsc :=
  Op.NoEsc.of_handlers (fun s x => by
      simp only [distinctO]
      cases key x with
      | error e => rfl
      | ok k =>
        simp only
        cases memCmp cmp s k with
        | error e => rfl
        | ok b => cases b <;> rfl)
    (fun _ _ => rfl) (fun _ => rfl)
theorem findO_noEsc {α} (p : α → Int → Except Err Bool) (yi : Bool) : (findO p yi).NoEsc :=
  Op.NoEsc.of_handlers (fun s x => by
      simp only [findO]
      cases p x s with
      | error e => rfl
      | ok b => cases b <;> rfl)
    (fun _ _ => rfl) (fun _ => rfl)

theorem seqHandle_noEsc {α} (cmp : α → α → Except Err Bool) (s : SeqSt α) (sd : Side) (n : Notif α) :
    (seqHandle cmp s sd n).esc = none := by
  unfold seqHandle
  split
  · rfl
  · cases sd <;> cases n <;> simp only [seqHandleU, emitD]
    all_goals (repeat' split) <;> rfl

theorem seqEscapes_nil {α} (cmp : α → α → Except Err Bool) (lag : Bool) (tr : List (Side × Notif α)) :
    seqEscapes cmp lag tr = [] := by
  unfold seqEscapes
  generalize ({} : SeqRun α) = st
  induction tr generalizing st with
  | nil => rfl
  | cons ev tr ih =>
    simp only [seqSteps, List.filterMap_cons]
    have : (seqStep cmp lag st ev).esc = none := by
      unfold seqStep; split
      · rfl
      · exact seqHandle_noEsc _ _ _ _
    rw [this]; exact ih _

theorem lastOrDefaultO_fwd {α} (d : Option α) : (lastOrDefaultO d).FwdErr := fun _ _ => rfl
/-- a live (not yet decided) `first` forwards the source's error; once decided it ignores it (ace7822) -/
theorem firstOrDefaultO_fwd_live {α} (d : Option α) (e : Err) : ((firstOrDefaultO d).onError false e).calls = [.error e] := rfl
theorem singleOrDefaultO_fwd {α} (d : Option α) : (singleOrDefaultO d).FwdErr := fun _ _ => rfl
theorem someOp_fwd_live {α} (e : Err) : ((someOp : Op α Bool).onError false e).calls = [.error e] := rfl
theorem mapO_fwd {α β} (f : α → Except Err β) : (mapO f).FwdErr := fun _ _ => rfl
theorem scanO_fwd {α β} (f : β → α → Except Err β) (seed : Option β) (inj : α → β) : (scanO f seed inj).FwdErr := fun _ _ => rfl

theorem reduceO_noEsc {α β} (f : β → α → Except Err β) (seed : Option β) (inj : α → β) : (reduceO f seed inj).NoEsc := by
  cases seed <;> exact (scanO_noEsc f _ inj).comp (lastOrDefaultO_noEsc _)

theorem mapC_ok_no_terminal {α β} (f : α → Except Err β) (ys : List α) (hok : ∀ y ∈ ys, ∃ v, f y = .ok v) :
    ((mapC f ys .open).notifs).any (·.isTerminal) = false := by
  induction ys with
  | nil => rfl
  | cons y ys ih =>
    obtain ⟨v, hv⟩ := hok y List.mem_cons_self
    have := ih (fun z hz => hok z (List.mem_cons_of_mem _ hz))
    simp only [mapC, hv, Conf.notifs, List.map_cons, List.cons_append, List.any_cons] at this ⊢
    simpa [Notif.isTerminal] using this

theorem foldlM_raise {α β} (f : β → α → Except Err β) (ys : List α) (sd a : β) (x : α) (rest : List α) (e : Err)
    (hys : ys.foldlM f sd = .ok a) (hx : f a x = .error e) : (ys ++ x :: rest).foldlM f sd = .error e := by
  rw [List.foldlM_append, hys]
  simp [List.foldlM_cons, hx, bind, Except.bind]


end Agg

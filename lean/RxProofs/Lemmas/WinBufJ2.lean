import RxProofs.Lemmas.WinBufJ
import RxProofs.Lemmas.WinEnd
/-!
# `J` is preserved by every step of every window machine.
-/
namespace Win
variable {α : Type}
open Base

theorem J_empty (t0 : Nat) : J ({ now := t0 } : Base α) :=
  ⟨by intro id w hg; simp at hg, by rintro id ⟨t, n, hm, _⟩; simp at hm, by intro id _; exact ⟨rfl, by rintro ⟨t, n, hm, _⟩; simp at hm⟩⟩

namespace Cnt
theorem J_createWindow (s : Cnt α) (h : J s.b) : J s.createWindow.b := J_open s.b h
theorem J_init (t0 : Nat) : J (Cnt.init (α := α) t0).b := J_subscribe _ _ (J_open _ (J_empty t0))
theorem J_fin (skip : Nat) (s : Cnt α) (h : J s.b) : J (fin skip s).b := by
  unfold fin; split
  · exact J_createWindow s h
  · exact h
theorem J_onNext (count skip : Nat) (s : Cnt α) (x : α) (h : J s.b) : J (onNext count skip s x).b := by
  have h1 : J (s.q.foldl (fun b id => b.winNext id x) s.b) := J_foldl _ (fun b i hb => J_winNext b i x hb) _ _ h
  rw [onNext_eq]; split
  · split
    · exact J_emit _ _ (fun i n e => by cases e) h1
    · exact J_fin _ _ (J_winEnd _ _ _ (by assumption))
  · exact J_fin _ _ h1
theorem J_onEnd (s : Cnt α) (e) (h : J s.b) : J (onEnd s e).b :=
  J_outerEnd _ _ (J_foldl _ (fun b i hb => J_winEnd b i e hb) _ _ h)
theorem J_step (count skip : Nat) (s : Cnt α) (t : Nat) (ev : Ev α) (h : J s.b) : J ((Cnt.mach count skip).step s t ev).b := by
  have h' : J ({ s with b := { s.b with now := t } } : Cnt α).b := J_now _ _ h
  simp only [mach]
  cases ev with
  | src k n =>
    cases k with
    | zero =>
      simp only [step]; split
      · cases n with
        | next x => exact J_onNext _ _ _ _ h'
        | error e => exact J_unsub _ _ (J_onEnd _ _ h')
        | completed => exact J_unsub _ _ (J_onEnd _ _ h')
      · exact h'
    | succ k => exact h'
  | dispose w => exact J_disposeEv _ _ h'
  | tick => exact h'
end Cnt

end Win
namespace Win
variable {α : Type}
open Base

namespace Bnd
theorem J_init (t0 : Nat) (bsync : Option (Notif Unit) := none) : J (Bnd.init (α := α) t0 bsync).b := by
  have h0 : J ((({ now := t0 } : Base α).newWin.1.outerNext ({ now := t0 } : Base α).newWin.2).subscribe 0) :=
    J_subscribe _ _ (J_open _ (J_empty t0))
  cases bsync with
  | none => simp only [Bnd.init]; exact J_subscribe _ _ h0
  | some n =>
    cases n with
    | next u => simp only [Bnd.init, Bnd.onBoundary]; exact J_open _ (J_winEnd _ _ _ h0)
    | error e => simp only [Bnd.init, Bnd.onEnd]; exact J_outerEnd _ _ (J_winEnd _ _ _ h0)
    | completed => simp only [Bnd.init, Bnd.onEnd]; exact J_outerEnd _ _ (J_winEnd _ _ _ h0)
theorem J_step (s : Bnd α) (t : Nat) (ev : Ev α) (h : J s.b) : J (Bnd.mach.step s t ev).b := by
  have h' : J ({ s with b := { s.b with now := t } } : Bnd α).b := J_now _ _ h
  simp only [mach]
  cases ev with
  | src k n =>
    simp only [step]; split
    · cases n with
      | next x =>
        by_cases hk : (k == 0) = true
        · simp only [hk, if_true]; exact J_winNext _ _ _ h'
        · simp only [hk, Bool.false_eq_true, if_false, onBoundary]; exact J_open _ (J_winEnd _ _ _ h')
      | error e => exact J_unsub _ _ (J_outerEnd _ _ (J_winEnd _ _ _ h'))
      | completed => exact J_unsub _ _ (J_outerEnd _ _ (J_winEnd _ _ _ h'))
    · exact h'
  | dispose w => exact J_disposeEv _ _ h'
  | tick => exact h'
end Bnd

namespace Whn
theorem J_onEnd (s : Whn α) (e) (h : J s.b) : J (onEnd s e).b := J_outerEnd _ _ (J_winEnd _ _ _ h)
theorem J_createClosingF (r : Option Nat) (pool : Nat) (fuel : Nat) (s : Whn α) (h : J s.b) : J (createClosingF r pool fuel s).b := by
  induction fuel generalizing s with
  | zero => exact h
  | succ fuel ih =>
    simp only [createClosingF]
    split
    · exact J_outerEnd _ _ (J_winEnd _ _ _ h)
    · have h1 : J (if s.calls ≥ 1 then s.b.unsub s.calls else s.b) := by split; exact J_unsub _ _ h; exact h
      generalize (if s.calls ≥ 1 then s.b.unsub s.calls else s.b) = b1 at h1 ⊢
      split
      · exact ih _ (J_open _ (J_winEnd _ _ _ h1))
      · exact J_outerEnd _ _ (J_winEnd _ _ _ h1)
      · simp only []
        split
        · split
          · exact J_unsub _ _ (J_subscribe _ _ h1)
          · exact J_subscribe _ _ h1
        · exact h1
theorem J_createClosing (r : Option Nat) (pool : Nat) (s : Whn α) (h : J s.b) : J (createClosing r pool s).b :=
  J_createClosingF r pool _ s h
theorem J_init (r : Option Nat) (pool t0 : Nat) (sync : List (Option (Option Err)) := []) : J (Whn.init (α := α) r pool t0 sync).b :=
  J_createClosing _ _ _ (J_subscribe _ _ (J_open _ (J_empty t0)))
theorem J_onClose (r : Option Nat) (pool : Nat) (s : Whn α) (h : J s.b) : J (onClose r pool s).b :=
  J_createClosing _ _ _ (J_open _ (J_winEnd _ _ _ h))
theorem J_step (r : Option Nat) (pool : Nat) (s : Whn α) (t : Nat) (ev : Ev α) (h : J s.b) :
    J ((Whn.mach r pool).step s t ev).b := by
  have h' : J ({ s with b := { s.b with now := t } } : Whn α).b := J_now _ _ h
  simp only [mach]
  cases ev with
  | src k n =>
    simp only [step]; split
    · split
      · cases n with
        | next x => exact J_winNext _ _ _ h'
        | error e => exact J_unsub _ _ (J_onEnd _ _ h')
        | completed => exact J_unsub _ _ (J_onEnd _ _ h')
      · cases n with
        | next x => exact J_unsub _ _ (J_onClose _ _ _ h')
        | error e => exact J_unsub _ _ (J_onEnd _ _ h')
        | completed => exact J_unsub _ _ (J_onClose _ _ _ h')
    · exact h'
  | dispose w => exact J_disposeEv _ _ h'
  | tick => exact h'
end Whn

namespace Tgl
theorem J_init (t0 : Nat) (sync : List (Option (Option Err)) := []) : J (Tgl.init (α := α) t0 sync).b := J_subscribe _ _ (J_subscribe _ _ (J_empty t0))
theorem J_errAll (s : Tgl α) (e) (h : J s.b) : J (errAll s e).b :=
  J_outerEnd _ _ (J_foldl _ (fun b p hb => J_winEnd b p.2 (some e) hb) _ _ h)
theorem J_expire (s : Tgl α) (i) (h : J s.b) : J (expire s i).b := by
  unfold expire; split
  · exact J_winEnd _ _ _ h
  · exact h
theorem J_onOpen (r : Option Nat) (pool : Nat) (s : Tgl α) (h : J s.b) : J (onOpen r pool s).b := by
  have h1 : J (s.b.newWin.1.outerNext s.b.newWin.2) := J_open _ h
  unfold onOpen; simp only []
  split
  · exact J_errAll _ _ h1
  · split
    · exact J_expire _ _ h1
    · exact J_errAll _ _ h1
    · split
      · split
        · exact J_unsub _ _ (J_subscribe _ _ h1)
        · exact J_subscribe _ _ h1
      · exact h1
theorem J_step (r : Option Nat) (pool : Nat) (s : Tgl α) (t : Nat) (ev : Ev α) (h : J s.b) :
    J ((Tgl.mach r pool).step s t ev).b := by
  have h' : J ({ s with b := { s.b with now := t } } : Tgl α).b := J_now _ _ h
  simp only [mach]
  cases ev with
  | src k n =>
    simp only [step]; split
    · split
      · cases n with
        | next x => exact J_foldl _ (fun b p hb => J_winNext b p.2 x hb) _ _ h'
        | error e => exact J_unsub _ _ (J_errAll _ _ h')
        | completed => exact J_unsub _ _ h'
      · split
        · cases n with
          | next x => exact J_onOpen _ _ _ h'
          | error e => exact J_unsub _ _ (J_errAll _ _ h')
          | completed => exact J_unsub _ _ (J_outerEnd _ _ h')
        · cases n with
          | next x => exact J_unsub _ _ (J_expire _ _ h')
          | error e => exact J_unsub _ _ (J_errAll _ _ h')
          | completed => exact J_unsub _ _ (J_expire _ _ h')
    · exact h'
  | dispose w => exact J_disposeEv _ _ h'
  | tick => exact h'
end Tgl

namespace Tim
theorem J_init (span shift t0 : Nat) : J (Tim.init (α := α) span shift t0).b := by
  simp only [init, createTimer_b]; exact J_subscribe _ _ (J_open _ (J_empty t0))
theorem J_onEnd (s : Tim α) (e) (h : J s.b) : J (onEnd s e).b :=
  J_outerEnd _ _ (J_foldl _ (fun b i hb => J_winEnd b i e hb) _ _ h)
theorem J_onTick (shift : Nat) (s : Tim α) (h : J s.b) : J (onTick shift s).b := by
  unfold onTick; split
  · exact h
  · rename_i tk _
    simp only []
    have hnew : J (s.b.newWin.1.outerNext s.b.newWin.2) := J_open _ h
    cases tk.isShift <;> cases tk.isSpan <;> simp only [Bool.false_eq_true, if_false, if_true]
    · exact h
    · split
      · exact J_emit _ _ (fun i n e => by cases e) h
      · exact J_winEnd _ _ _ h
    · exact hnew
    · split
      · exact J_emit _ _ (fun i n e => by cases e) hnew
      · exact J_winEnd _ _ _ hnew
theorem J_step (shift : Nat) (s : Tim α) (t : Nat) (ev : Ev α) (h : J s.b) : J ((Tim.mach shift).step s t ev).b := by
  have h' : J ({ s with b := { s.b with now := t } } : Tim α).b := J_now _ _ h
  simp only [mach]
  cases ev with
  | src k n =>
    cases k with
    | zero =>
      simp only [step]; split
      · cases n with
        | next x => exact J_foldl _ (fun b i hb => J_winNext b i x hb) _ _ h'
        | error e => rw [sync_b]; exact J_unsub _ _ (J_onEnd _ _ h')
        | completed => rw [sync_b]; exact J_unsub _ _ (J_onEnd _ _ h')
      · exact h'
    | succ k => exact h'
  | dispose w => simp only [step, sync_b]; exact J_disposeEv _ _ h'
  | tick => simp only [step, sync_b]; exact J_onTick _ _ h'
end Tim

namespace Toc
theorem J_init (span t0 : Nat) : J (Toc.init (α := α) span t0).b := by
  simp only [init, createTimer_b]; exact J_subscribe _ _ (J_open _ (J_empty t0))
theorem J_roll (st : Toc α) (h : J st.b) : J (roll st).b := J_open _ (J_winEnd _ _ _ h)
theorem J_step (span count : Nat) (s : Toc α) (t : Nat) (ev : Ev α) (h : J s.b) :
    J ((Toc.mach span count).step s t ev).b := by
  have h' : J ({ s with b := { s.b with now := t } } : Toc α).b := J_now _ _ h
  simp only [mach]
  cases ev with
  | src k n =>
    cases k with
    | zero =>
      simp only [step]; split
      · cases n with
        | next x =>
          simp only [sync_b, onNext]; split
          · simp only [createTimer_b, sync_b]; exact J_roll _ (J_winNext _ _ _ h')
          · exact J_winNext _ _ _ h'
        | error e => simp only [sync_b, onEnd]; exact J_unsub _ _ (J_outerEnd _ _ (J_winEnd _ _ _ h'))
        | completed => simp only [sync_b, onEnd]; exact J_unsub _ _ (J_outerEnd _ _ (J_winEnd _ _ _ h'))
      · exact h'
    | succ k => exact h'
  | dispose w => simp only [step, sync_b]; exact J_disposeEv _ _ h'
  | tick =>
    simp only [step, sync_b, onTick]; split
    · exact h'
    · split
      · exact h'
      · simp only [createTimer_b, sync_b]; exact J_roll _ h'
end Toc

/-- `J` holds along every run of a machine whose steps preserve it. -/
theorem J_fold {σ : Type} (m : Mach σ α) (base : σ → Base α) (hstep : ∀ s t e, J (base s) → J (base (m.step s t e)))
    (evs : List (Nat × Ev α)) (s : σ) (h : J (base s)) : J (base (m.fold s evs)) := by
  induction evs generalizing s with
  | nil => exact h
  | cons te es ih => exact ih _ (hstep s te.1 te.2 h)

end Win

import RxModel.PipeHeap
import RxProofs.Lemmas.DispBase
/-!
# `Pipe.apply` on a heap of `k` leaves followed by one container (C26Heap)

`mkH K k df cd co` is the heap `leaf_0 … leaf_{k-1}, container` where leaf `i` has `done = df i` and the container
(kind `K`) has `done = cd`, owning edges `co`.  On such heaps `settle` is one round of propagation, and every
`Pipe.Op` on the container has a closed form.
-/
namespace Pipe

def leafN (d : Bool) : Node := { kind := .leaf, done := d }

def mkH (K : Kind) (k : Nat) (df : Nat → Bool) (cd : Bool) (co : List Nat) : Heap :=
  (List.range k).map (fun i => leafN (df i)) ++ [{ kind := K, done := cd, owned := co }]

def IsCont (K : Kind) : Prop := K = .comp ∨ K = .serial ∨ K = .single ∨ K = .multi

theorem zipIdx_range_map {α} (f : Nat → α) (k : Nat) :
    ((List.range k).map f).zipIdx = (List.range k).map (fun i => (f i, i)) := by
  apply List.ext_getElem?
  intro i
  simp only [List.getElem?_zipIdx, List.getElem?_map, List.getElem?_range]
  by_cases h : i < k <;> simp [h]

theorem settle_of_idem (h : Heap) (hidem : propagate (propagate h) = propagate h) : settle h = propagate h := by
  unfold settle
  by_cases he : propagate h = h
  · cases pending h <;> simp [settleFuel, he]
  · have hlt := pending_propagate_lt h he
    cases hp : pending h with
    | zero => omega
    | succ n =>
      simp only [settleFuel, he, if_false]
      cases n <;> simp [settleFuel, hidem]

theorem obf_mkH (K : Kind) (hK : IsCont K) (k : Nat) (df : Nat → Bool) (cd : Bool) (co : List Nat) (y : Nat) :
    ownedByFiring (mkH K k df cd co) y = (cd && co.contains y) := by
  rcases hK with rfl | rfl | rfl | rfl <;>
  simp [ownedByFiring, mkH, leafN, Node.fires, List.any_append, List.any_map, Function.comp_def]

theorem not_contains_k (k : Nat) (co : List Nat) (hco : ∀ x ∈ co, x < k) : co.contains k = false := by
  cases h : co.contains k
  · rfl
  · simp at h; exact absurd (hco _ h) (Nat.lt_irrefl _)

theorem propDone_mkH (K : Kind) (hK : IsCont K) (k : Nat) (df : Nat → Bool) (cd : Bool) (co : List Nat)
    (hco : ∀ x ∈ co, x < k) :
    propDone (mkH K k df cd co) = mkH K k (fun i => df i || (cd && co.contains i)) cd co := by
  have hk := not_contains_k k co hco
  have hob := obf_mkH K hK k df cd co
  unfold propDone
  generalize hH : mkH K k df cd co = H at hob
  rw [← hH]
  simp only [mkH, List.zipIdx_append, List.map_append, zipIdx_range_map, List.map_map, List.length_map,
    List.length_range, List.zipIdx_cons, List.zipIdx_nil, List.map_cons, List.map_nil, Nat.zero_add]
  congr 1
  · apply List.map_congr_left
    intro i _
    simp [stepDone, hob, leafN]
  · simp [stepDone, hob, hk]

theorem propReleased_mkH (K : Kind) (hK : IsCont K) (k : Nat) (df : Nat → Bool) (cd : Bool) (co : List Nat) :
    propReleased (mkH K k df cd co) = mkH K k df cd co := by
  unfold propReleased
  generalize hH : mkH K k df cd co = H
  rw [← hH]
  simp only [mkH, List.zipIdx_append, List.map_append, zipIdx_range_map, List.map_map, List.length_map,
    List.length_range, List.zipIdx_cons, List.zipIdx_nil, List.map_cons, List.map_nil, Nat.zero_add]
  congr 1
  · apply List.map_congr_left
    intro i _
    simp [stepReleased, leafN]
  · rcases hK with rfl | rfl | rfl | rfl <;> simp [stepReleased]

theorem propagate_mkH (K : Kind) (hK : IsCont K) (k : Nat) (df : Nat → Bool) (cd : Bool) (co : List Nat)
    (hco : ∀ x ∈ co, x < k) :
    propagate (mkH K k df cd co) = mkH K k (fun i => df i || (cd && co.contains i)) cd co := by
  unfold propagate
  rw [propDone_mkH K hK k df cd co hco, propReleased_mkH K hK]

/-- on these heaps nested disposal is one round: the leaves owned by a disposed container are disposed -/
theorem settle_mkH (K : Kind) (hK : IsCont K) (k : Nat) (df : Nat → Bool) (cd : Bool) (co : List Nat)
    (hco : ∀ x ∈ co, x < k) :
    settle (mkH K k df cd co) = mkH K k (fun i => df i || (cd && co.contains i)) cd co := by
  rw [settle_of_idem, propagate_mkH K hK k df cd co hco]
  rw [propagate_mkH K hK k df cd co hco, propagate_mkH K hK k _ cd co hco]
  congr 1
  funext i
  cases df i <;> cases cd <;> cases co.contains i <;> rfl

theorem getCont_mkH (K : Kind) (k : Nat) (df : Nat → Bool) (cd : Bool) (co : List Nat) :
    (mkH K k df cd co)[k]? = some { kind := K, done := cd, owned := co } := by
  simp [mkH]

theorem setNode_mkH (K : Kind) (k : Nat) (df : Nat → Bool) (cd : Bool) (co co' : List Nat) :
    setNode (mkH K k df cd co) k (fun n => { n with owned := co' }) = mkH K k df cd co' := by
  unfold setNode
  simp only [mkH, List.zipIdx_append, List.map_append, zipIdx_range_map, List.map_map, List.length_map,
    List.length_range, List.zipIdx_cons, List.zipIdx_nil, List.map_cons, List.map_nil, Nat.zero_add]
  congr 1
  · apply List.map_congr_left
    intro i hi
    have : i < k := List.mem_range.mp hi
    have : (i == k) = false := by simp; omega
    simp [this]
  · simp

theorem markDone_mkH (K : Kind) (k : Nat) (df : Nat → Bool) (cd : Bool) (co ids : List Nat) :
    markDone (mkH K k df cd co) ids = mkH K k (fun i => df i || ids.contains i) (cd || ids.contains k) co := by
  unfold markDone
  simp only [mkH, List.zipIdx_append, List.map_append, zipIdx_range_map, List.map_map, List.length_map,
    List.length_range, List.zipIdx_cons, List.zipIdx_nil, List.map_cons, List.map_nil, Nat.zero_add]
  congr 1
  · apply List.map_congr_left
    intro i _
    cases h : ids.contains i <;> simp [leafN, h]
  · cases h : ids.contains k <;> simp [h]

/-- results of a whole history -/
def runRes (h : Heap) : List Op → List Res
  | [] => []
  | op :: ops => (apply h op).2 :: runRes (apply h op).1 ops

end Pipe

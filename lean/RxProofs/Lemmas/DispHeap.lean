import RxModel.PipeHeap
import RxProofs.Lemmas.DispBase
/-!
# `Pipe.apply` on a heap of `k` leaves followed by one container (C26Heap)

`mkH K k df cd co` is the heap `leaf_0 … leaf_{k-1}, container` where leaf `i` has `done = df i` and the container
(kind `K`) has `done = cd`, owning edges `co`.  On such heaps `settle` is one round of propagation, and every
`Pipe.Op` on the container has a closed form.
-/
namespace Pipe

def leafN (d : Bool) : Node := { kind := .leaf, done := d }

def mkH (K : Kind) (k : Nat) (df : Nat → Bool) (cd : Bool) (co : List Nat) : Heap :=
  (List.range k).map (fun i => leafN (df i)) ++ [{ kind := K, done := cd, owned := co }]

def IsCont (K : Kind) : Prop := K = .comp ∨ K = .serial ∨ K = .single ∨ K = .multi

theorem zipIdx_range_map {α} (f : Nat → α) (k : Nat) :
    ((List.range k).map f).zipIdx = (List.range k).map (fun i => (f i, i)) := by
  apply List.ext_getElem?
  intro i
  simp only [List.getElem?_zipIdx, List.getElem?_map]
  by_cases h : i < k <;> simp [h]

theorem settle_of_idem (h : Heap) (hidem : propagate (propagate h) = propagate h) : settle h = propagate h := by
  unfold settle
  by_cases he : propagate h = h
  · cases pending h <;> simp [settleFuel, he]
  · have hlt := pending_propagate_lt h he
    cases hp : pending h with
    | zero => omega
    | succ n =>
      simp only [settleFuel, he, if_false]
      cases n <;> simp [settleFuel, hidem]

theorem obf_mkH (K : Kind) (hK : IsCont K) (k : Nat) (df : Nat → Bool) (cd : Bool) (co : List Nat) (y : Nat) :
    ownedByFiring (mkH K k df cd co) y = (cd && co.contains y) := by
  rcases hK with rfl | rfl | rfl | rfl <;>
  simp [ownedByFiring, mkH, leafN, Node.fires, List.any_append, List.any_map, Function.comp_def]

theorem not_contains_k (k : Nat) (co : List Nat) (hco : ∀ x ∈ co, x < k) : co.contains k = false := by
  cases h : co.contains k
  · rfl
  · simp at h; exact absurd (hco _ h) (Nat.lt_irrefl _)

theorem zipIdx_mkH_aux (K : Kind) (k : Nat) (df : Nat → Bool) (cd : Bool) (co : List Nat) (H : Heap)
    (hH : mkH K k df cd co = H) :
    H.zipIdx = (List.range k).map (fun i => (leafN (df i), i)) ++ [({ kind := K, done := cd, owned := co }, k)] := by
  rw [← hH]
  simp [mkH, List.zipIdx_append, zipIdx_range_map]

theorem propDone_mkH (K : Kind) (hK : IsCont K) (k : Nat) (df : Nat → Bool) (cd : Bool) (co : List Nat)
    (hco : ∀ x ∈ co, x < k) :
    propDone (mkH K k df cd co) = mkH K k (fun i => df i || (cd && co.contains i)) cd co := by
  have hk := not_contains_k k co hco
  have hob := obf_mkH K hK k df cd co
  unfold propDone
  generalize hH : mkH K k df cd co = H at hob ⊢
  rw [zipIdx_mkH_aux K k df cd co H hH]
  simp only [List.map_append, List.map_map, List.map_cons, List.map_nil, mkH]
  congr 1
  · apply List.map_congr_left
    intro i _
    simp [stepDone, hob, leafN]
  · simp [stepDone, hob]; intro h _; exact h

theorem propReleased_mkH (K : Kind) (hK : IsCont K) (k : Nat) (df : Nat → Bool) (cd : Bool) (co : List Nat) :
    propReleased (mkH K k df cd co) = mkH K k df cd co := by
  unfold propReleased
  generalize hH : mkH K k df cd co = H
  rw [zipIdx_mkH_aux K k df cd co H hH, ← hH]
  simp only [List.map_append, List.map_map, List.map_cons, List.map_nil, mkH]
  congr 1
  all_goals first
    | (apply List.map_congr_left; intro i _; simp [stepReleased, leafN])
    | (rcases hK with rfl | rfl | rfl | rfl <;> simp [stepReleased])

theorem propagate_mkH (K : Kind) (hK : IsCont K) (k : Nat) (df : Nat → Bool) (cd : Bool) (co : List Nat)
    (hco : ∀ x ∈ co, x < k) :
    propagate (mkH K k df cd co) = mkH K k (fun i => df i || (cd && co.contains i)) cd co := by
  unfold propagate
  rw [propDone_mkH K hK k df cd co hco, propReleased_mkH K hK]

/-- on these heaps nested disposal is one round: the leaves owned by a disposed container are disposed -/
theorem settle_mkH (K : Kind) (hK : IsCont K) (k : Nat) (df : Nat → Bool) (cd : Bool) (co : List Nat)
    (hco : ∀ x ∈ co, x < k) :
    settle (mkH K k df cd co) = mkH K k (fun i => df i || (cd && co.contains i)) cd co := by
  rw [settle_of_idem, propagate_mkH K hK k df cd co hco]
  rw [propagate_mkH K hK k df cd co hco, propagate_mkH K hK k _ cd co hco]
  congr 1
  funext i
  cases df i <;> cases cd <;> cases co.contains i <;> rfl

theorem getCont_mkH (K : Kind) (k : Nat) (df : Nat → Bool) (cd : Bool) (co : List Nat) :
    (mkH K k df cd co)[k]? = some { kind := K, done := cd, owned := co } := by
  simp [mkH]

theorem setNode_mkH (K : Kind) (k : Nat) (df : Nat → Bool) (cd : Bool) (co co' : List Nat) :
    setNode (mkH K k df cd co) k (fun n => { n with owned := co' }) = mkH K k df cd co' := by
  unfold setNode
  simp only [mkH, List.zipIdx_append, List.map_append, zipIdx_range_map, List.map_map, List.length_map,
    List.length_range, List.zipIdx_cons, List.zipIdx_nil, List.map_cons, List.map_nil, Nat.zero_add]
  congr 1
  · apply List.map_congr_left
    intro i hi
    have : i < k := List.mem_range.mp hi
    have : (i == k) = false := by simp; omega
    simp; intro h; omega
  · simp

theorem markDone_mkH (K : Kind) (k : Nat) (df : Nat → Bool) (cd : Bool) (co ids : List Nat) :
    markDone (mkH K k df cd co) ids = mkH K k (fun i => df i || ids.contains i) (cd || ids.contains k) co := by
  unfold markDone
  simp only [mkH, List.zipIdx_append, List.map_append, zipIdx_range_map, List.map_map, List.length_map,
    List.length_range, List.zipIdx_cons, List.zipIdx_nil, List.map_cons, List.map_nil, Nat.zero_add]
  congr 1
  · apply List.map_congr_left
    intro i _
    by_cases h : i ∈ ids <;> simp [leafN, h]
  · by_cases h : k ∈ ids <;> simp [h]

theorem mkH_congr (K : Kind) (k : Nat) (df df' : Nat → Bool) (cd : Bool) (co : List Nat)
    (h : ∀ i, i < k → df i = df' i) : mkH K k df cd co = mkH K k df' cd co := by
  unfold mkH
  congr 1
  apply List.map_congr_left
  intro i hi
  rw [h i (List.mem_range.mp hi)]

/-- closed form of "raw effect, then nested disposal" for an effect on the container of a leaves+container heap -/
theorem settle_applyEff (K : Kind) (hK : IsCont K) (k : Nat) (df : Nat → Bool) (cd : Bool) (co co' ids : List Nat)
    (hco' : ∀ x ∈ co', x < k) (upd : Option (Nat × List Nat))
    (hupd : upd = some (k, co') ∨ (upd = none ∧ co' = co)) :
    settle (applyEff (mkH K k df cd co) { upd := upd, marks := ids }) =
      mkH K k (fun i => df i || ids.contains i || ((cd || ids.contains k) && co'.contains i)) (cd || ids.contains k) co' := by
  rcases hupd with rfl | ⟨rfl, rfl⟩
  · simp only [applyEff, setNode_mkH, markDone_mkH]
    rw [settle_mkH K hK _ _ _ _ hco']
  · simp only [applyEff, markDone_mkH]
    rw [settle_mkH K hK _ _ _ _ hco']

/-! ### closed forms of every call on the container -/

theorem apply_dispose (K : Kind) (hK : IsCont K) (k : Nat) (df : Nat → Bool) (cd : Bool) (co : List Nat)
    (hco : ∀ x ∈ co, x < k) :
    apply (mkH K k df cd co) (.dispose k) = (mkH K k (fun j => df j || co.contains j) true co, .ok) := by
  simp only [apply, applyRaw, effect]
  rw [settle_applyEff K hK k df cd co co [k] hco none (Or.inr ⟨rfl, rfl⟩)]
  simp only [List.contains_cons, List.contains_nil, Bool.or_false, beq_self_eq_true, Bool.or_true, Bool.true_and]
  congr 1
  apply mkH_congr
  intro j hj
  have : (j == k) = false := by simp; omega
  simp [this]

theorem apply_add (k : Nat) (df : Nat → Bool) (cd : Bool) (co : List Nat) (x : Nat)
    (hco : ∀ y ∈ co, y < k) (hx : x < k) :
    apply (mkH .comp k df cd co) (.add k x) =
      (mkH .comp k (fun j => df j || (cd && (co ++ [x]).contains j)) cd (co ++ [x]), .ok) := by
  have hco' : ∀ y ∈ co ++ [x], y < k := by
    intro y hy; rcases List.mem_append.mp hy with h | h
    · exact hco y h
    · simp at h; omega
  simp only [apply, applyRaw, effect, getCont_mkH, beq_self_eq_true, if_true]
  rw [settle_applyEff .comp (Or.inl rfl) k df cd co (co ++ [x]) [] hco' _ (Or.inl rfl)]
  simp

theorem apply_remove_hit (k : Nat) (df : Nat → Bool) (co : List Nat) (x : Nat)
    (hco : ∀ y ∈ co, y < k) (hx : x < k) (hmem : x ∈ co) :
    apply (mkH .comp k df false co) (.remove k x) =
      (mkH .comp k (fun j => df j || decide (j = x)) false (co.erase x), .ok) := by
  have hco' : ∀ y ∈ co.erase x, y < k := fun y hy => hco y (List.mem_of_mem_erase hy)
  have hc : co.contains x = true := by simp [hmem]
  have hkx : k ≠ x := by omega
  simp only [apply, applyRaw, effect, getCont_mkH, bne_self_eq_false, Bool.false_eq_true, if_false, hc, if_true]
  rw [settle_applyEff .comp (Or.inl rfl) k df false co (co.erase x) [x] hco' _ (Or.inl rfl)]
  simp [hkx]

theorem apply_remove_miss (k : Nat) (df : Nat → Bool) (cd : Bool) (co : List Nat) (x : Nat)
    (hco : ∀ y ∈ co, y < k) (hmiss : cd = true ∨ x ∉ co) :
    apply (mkH .comp k df cd co) (.remove k x) =
      (mkH .comp k (fun j => df j || (cd && co.contains j)) cd co, .ok) := by
  have hres : effect (mkH .comp k df cd co) (.remove k x) = {} := by
    simp only [effect, getCont_mkH, bne_self_eq_false, Bool.false_eq_true, if_false]
    rcases hmiss with h | h
    · simp [h]
    · cases cd <;> simp [h]
  simp only [apply, applyRaw, hres]
  rw [settle_applyEff .comp (Or.inl rfl) k df cd co co [] hco none (Or.inr ⟨rfl, rfl⟩)]
  simp

theorem apply_clear (k : Nat) (df : Nat → Bool) (cd : Bool) (co : List Nat) (hco : ∀ y ∈ co, y < k) :
    apply (mkH .comp k df cd co) (.clear k) =
      (mkH .comp k (fun j => df j || co.contains j) cd (if cd then co else []), .ok) := by
  cases cd
  · simp only [apply, applyRaw, effect, getCont_mkH, bne_self_eq_false, Bool.false_eq_true, if_false]
    rw [settle_applyEff .comp (Or.inl rfl) k df false co [] co (by simp) _ (Or.inl rfl)]
    have hk : k ∉ co := fun h => absurd (hco k h) (Nat.lt_irrefl k)
    simp [hk]
  · simp only [apply, applyRaw, effect, getCont_mkH, bne_self_eq_false, Bool.false_eq_true, if_false, if_true]
    rw [settle_applyEff .comp (Or.inl rfl) k df true co co [] hco none (Or.inr ⟨rfl, rfl⟩)]
    simp

/-- assignment to a serial / single / multi container; `old` = what happens to the previous item -/
theorem apply_assign_dead (K : Kind) (hK : K = .serial ∨ K = .single ∨ K = .multi) (k : Nat) (df : Nat → Bool)
    (co : List Nat) (x : Nat) (hco : ∀ y ∈ co, y < k) (hx : x < k) :
    apply (mkH K k df true co) (.assign k x) =
      (mkH K k (fun j => df j || (co ++ [x]).contains j) true (co ++ [x]), .ok) := by
  have hco' : ∀ y ∈ co ++ [x], y < k := by
    intro y hy; rcases List.mem_append.mp hy with h | h
    · exact hco y h
    · simp at h; omega
  have hKc : IsCont K := by rcases hK with h | h | h <;> simp [IsCont, h]
  rcases hK with rfl | rfl | rfl <;>
    (simp only [apply, applyRaw, effect, getCont_mkH, if_true]
     rw [settle_applyEff _ hKc k df true co (co ++ [x]) [] hco' _ (Or.inl rfl)]
     simp)

theorem apply_assign_serial (k : Nat) (df : Nat → Bool) (co : List Nat) (x : Nat)
    (hco : ∀ y ∈ co, y < k) (hx : x < k) :
    apply (mkH .serial k df false co) (.assign k x) =
      (mkH .serial k (fun j => df j || co.contains j) false [x], .ok) := by
  simp only [apply, applyRaw, effect, getCont_mkH, Bool.false_eq_true, if_false]
  rw [settle_applyEff .serial (Or.inr (Or.inl rfl)) k df false co [x] co (by simp; omega) _ (Or.inl rfl)]
  have hk : k ∉ co := fun h => absurd (hco k h) (Nat.lt_irrefl k)
  simp [hk]

theorem apply_assign_multi (k : Nat) (df : Nat → Bool) (co : List Nat) (x : Nat) (hx : x < k) :
    apply (mkH .multi k df false co) (.assign k x) = (mkH .multi k df false [x], .ok) := by
  simp only [apply, applyRaw, effect, getCont_mkH, Bool.false_eq_true, if_false]
  rw [settle_applyEff .multi (Or.inr (Or.inr (Or.inr rfl))) k df false co [x] [] (by simp; omega) _ (Or.inl rfl)]
  simp

theorem apply_assign_single_empty (k : Nat) (df : Nat → Bool) (x : Nat) (hx : x < k) :
    apply (mkH .single k df false []) (.assign k x) = (mkH .single k df false [x], .ok) := by
  simp only [apply, applyRaw, effect, getCont_mkH, Bool.false_eq_true, if_false, List.isEmpty_nil, if_true]
  rw [settle_applyEff .single (Or.inr (Or.inr (Or.inl rfl))) k df false [] [x] [] (by simp; omega) _ (Or.inl rfl)]
  simp

theorem apply_assign_single_full (k : Nat) (df : Nat → Bool) (c : Nat) (co : List Nat) (x : Nat)
    (hco : ∀ y ∈ c :: co, y < k) :
    apply (mkH .single k df false (c :: co)) (.assign k x) = (mkH .single k df false (c :: co), .rejected) := by
  have he : effect (mkH .single k df false (c :: co)) (.assign k x) = { res := .rejected } := by
    simp [effect, getCont_mkH]
  have ha : applyEff (mkH .single k df false (c :: co)) { res := .rejected } = applyEff (mkH .single k df false (c :: co)) {} := rfl
  simp only [apply, applyRaw, he, ha]
  rw [settle_applyEff .single (Or.inr (Or.inr (Or.inl rfl))) k df false (c :: co) (c :: co) [] hco none (Or.inr ⟨rfl, rfl⟩)]
  simp

/-- results of a whole history -/
def runRes (h : Heap) : List Op → List Res
  | [] => []
  | op :: ops => (apply h op).2 :: runRes (apply h op).1 ops

end Pipe

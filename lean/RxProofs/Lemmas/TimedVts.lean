import RxProofs.VtsOrder
import RxModel.TimedMap
/-!
Link between the Timed family's queue (`Timed.insertEv`, `Timed.timerBefore`) and the virtual-time scheduler model of
C28 (`RxModel/Vts.lean`, exported as `VtsOrder`): the order in which `VtsOrder.run_order` says two scheduled items run is
the comparison the Timed runs use, and `insertEv` (a new item goes behind every queued item that is not due later) is the
position `VtsOrder.scheduled_inside_runs_after_queued` gives an item scheduled now.
(Kept out of the import closure of C15–C17 so that the two families build independently.)
-/

namespace Timed

/-- `VtsOrder.Before` between an operator's timer and a source message is `timerBefore`, with `timerFirst` = "the timer
has the smaller scheduling number" -/
theorem timerBefore_is_vts_rule (timer src : Vts.Ran) (hne : timer.seq ≠ src.seq) (due t : Nat)
    (hd : timer.due = (due : Int)) (ht : src.due = (t : Int)) :
    VtsOrder.Before timer src ↔ timerBefore (decide (timer.seq < src.seq)) due t = true := by
  rw [VtsOrder.before_rule timer src hne, hd, ht]
  by_cases h : timer.seq < src.seq <;> simp [timerBefore, h] <;> omega

/-- where `insertEv` puts a newly scheduled item: behind exactly the queued items that are not due later — every queued
item has a smaller scheduling number, so this is the `(due, seq)` position -/
theorem insertEv_position {β} (e : Nat × β) (q : List (Nat × β)) :
    ∃ pre post, insertEv e q = pre ++ e :: post ∧ q = pre ++ post ∧ (∀ x ∈ pre, x.1 ≤ e.1) ∧
      (∀ x, post.head? = some x → e.1 < x.1) := by
  induction q with
  | nil => exact ⟨[], [], rfl, rfl, by simp, by simp⟩
  | cons a q ih =>
    by_cases h : e.1 < a.1
    · exact ⟨[], a :: q, by simp [insertEv, h], rfl, by simp, by simpa using h⟩
    · obtain ⟨pre, post, h1, h2, h3, h4⟩ := ih
      refine ⟨a :: pre, post, by simp [insertEv, h, h1], by simp [h2], ?_, h4⟩
      intro x hx
      rcases List.mem_cons.1 hx with rfl | hx
      · omega
      · exact h3 x hx

end Timed

import RxProofs.Lemmas.Vts
/-! Definitions used in the statements of the C28 theorems (invariants, step predicates) and the helper
lemmas showing that each invariant is preserved by the primitive effects of a run. -/

namespace C28
open Vts

theorem wf_cancel {s : St} (h : s.queue.WF) (id : Nat) : (s.cancel id).queue.WF := by
  obtain ⟨h1, h2⟩ := h
  have hsnd : ∀ e : Item × Int, (cancelEntry id e).2 = e.2 := by
    intro e; simp only [cancelEntry]; split <;> rfl
  refine ⟨?_, ?_⟩
  · simp only [St.cancel, List.pairwise_map, hsnd]; exact h1
  · intro e he
    simp only [St.cancel, List.mem_map] at he
    obtain ⟨e0, he0, rfl⟩ := he
    rw [hsnd]; exact h2 e0 he0

def wfInv (cfg : Cfg) (tgt : Option Int) :
    IterInv cfg tgt anyStep (fun s => s.queue.WF) (fun _ s => s.queue.WF) where
  skip := by intro s x q' sp hP _ _ hd _ _; exact PQ.wf_dequeue Item.due hP hd
  begin := by intro s x q' sp hP _ _ hd _ _; exact PQ.wf_dequeue Item.due hP hd
  enq := by intro x s via m t cid child _ _ h; exact PQ.wf_enqueue h _
  cancel := by intro x s id h; exact wf_cancel h id
  link := by intro x s l h; exact h
  stop := by intro x s _ h; exact h
  sleep := by intro x s t _ _ h; exact h
  handled := by intro x s e _ _ h; exact h
  finish := by intro x s sp h; exact h

theorem all_any_op (op : Op) : op.All anyStep := by
  cases op <;> simp [Op.All, Op.AllT, all_any]

/-- `x` is the item a stable min-queue must hand out: least due time, and first-enqueued among the
pending items of that due time (`pre`/`post` = pending items enqueued before/after `x`). -/
def StableMin (x : Item) (q : PQ Item) : Prop :=
  ∃ pre post c, q.items = pre ++ (x, c) :: post ∧
    (∀ y ∈ pre, x.due < y.1.due) ∧ (∀ y ∈ post, x.due ≤ y.1.due)

/-- clock/log invariant: the clock is at least `c0`, the logged clocks are non-decreasing and never ahead
of the clock -/
def ClockInv (c0 : Int) (s : St) : Prop :=
  c0 ≤ s.clock ∧ s.log.Pairwise (fun a b => a.at_ ≤ b.at_) ∧ ∀ r ∈ s.log, r.at_ ≤ s.clock

theorem clockInv_iter (cfg : Cfg) (hb : 0 ≤ cfg.bump) (tgt : Option Int) (φ : Step → Prop) (c0 : Int) :
    IterInv cfg tgt φ (ClockInv c0) (fun _ => ClockInv c0) where
  skip := by
    intro s x q' sp ⟨h1, h2, h3⟩ _ _ _ _ _
    have := tickClock_ge cfg hb tgt s x
    exact ⟨by simp only; omega, h2, fun r hr => by have := h3 r hr; simp only; omega⟩
  begin := by
    intro s x q' sp ⟨h1, h2, h3⟩ _ _ _ _ _
    have := tickClock_ge cfg hb tgt s x
    refine ⟨by simp only; omega, ?_, ?_⟩
    · simp only [List.pairwise_append]
      refine ⟨h2, by simp, ?_⟩
      intro a ha b hb'
      simp at hb'; subst hb'
      have := h3 a ha; simp only; omega
    · intro r hr
      simp only [List.mem_append, List.mem_singleton] at hr
      rcases hr with hr | rfl
      · have := h3 r hr; simp only; omega
      · simp
  enq := by intro x s via m t cid child _ _ h; simpa [ClockInv, St.enqueue] using h
  cancel := by intro x s id h; simpa [ClockInv, St.cancel] using h
  link := by intro x s l h; exact h
  stop := by intro x s _ h; simpa [ClockInv] using h
  sleep := by
    intro x s t _ ht ⟨h1, h2, h3⟩
    exact ⟨by simp only; omega, h2, fun r hr => by have := h3 r hr; simp only; omega⟩
  handled := by intro x s e _ _ h; simpa [ClockInv] using h
  finish := by intro x s sp h; simpa [ClockInv] using h

/-- **clock_monotone / log_clock_sorted (scripts).** Over any script of calls (schedule*, cancel, start, stop,
advance_to, advance_by, sleep) with arbitrary action trees that schedule, cancel, stop and raise, the clock
never moves backwards, the clocks stamped on the executed actions are non-decreasing, and none is ahead of
the clock.  (Hypothesis `noSleep`: no action calls `sleep()` from inside — `advance_to` sets the clock to its
target when its loop ends, so an action that slept beyond the target would be followed by a step back.) -/
theorem clockInv_script (cfg : Cfg) (hb : 0 ≤ cfg.bump) (ops : List Op) (s : St) (c0 : Int)
    (hops : ∀ op ∈ ops, op.All noSleep) (hq : QAll noSleep s) (h : ClockInv c0 s) :
    ClockInv c0 (runOps cfg s ops).1 :=
  (runOps_inv (R := fun _ _ => ClockInv c0) (fun tgt => clockInv_iter cfg hb tgt noSleep c0)
    (fun _ _ _ h => by simpa [ClockInv] using h)
    (fun _ _ _ _ _ _ _ _ h => by simpa [ClockInv, St.enqueue] using h)
    (fun _ _ h => by simpa [ClockInv, St.cancel] using h)
    (Or.inr ⟨fun s c hc ⟨h1, h2, h3⟩ => ⟨by simp only; omega, h2, fun r hr => by have := h3 r hr; simp only; omega⟩,
             fun _ h => h⟩) ops s hops h hq).1

/-! ### cancelled actions never run -/

/-- no step schedules an action with id `i` -/
def notSched (i : Nat) : Step → Prop
  | .sched _ _ _ cid => cid ≠ i
  | _ => True

/-- every pending item with id `i` is cancelled, and every log entry with id `i` was already in `log0` -/
def CancInv (i : Nat) (log0 : List Ran) (s : St) : Prop :=
  (∀ e ∈ s.queue.items, e.1.id = i → e.1.cancelled = true) ∧ (∀ r ∈ s.log, r.id = i → r ∈ log0)

theorem cancInv_iter (cfg : Cfg) (tgt : Option Int) (i : Nat) (log0 : List Ran) :
    IterInv cfg tgt (notSched i) (CancInv i log0) (fun _ => CancInv i log0) where
  skip := by
    intro s x q' sp ⟨h1, h2⟩ _ _ hd _ _
    exact ⟨fun e he => h1 e ((dequeue_mem hd).2 e he), h2⟩
  begin := by
    intro s x q' sp ⟨h1, h2⟩ _ _ hd _ hc
    obtain ⟨⟨c, hxc⟩, hq'⟩ := dequeue_mem hd
    refine ⟨fun e he => h1 e (hq' e he), ?_⟩
    intro r hr hri
    simp only [List.mem_append, List.mem_singleton] at hr
    rcases hr with hr | rfl
    · exact h2 r hr hri
    · have := h1 _ hxc hri; rw [hc] at this; cases this
  enq := by
    intro x s via m t cid child hφ _ ⟨h1, h2⟩
    refine ⟨?_, by simpa [St.enqueue] using h2⟩
    intro e he hei
    simp only [St.enqueue, PQ.enqueue, List.mem_append, List.mem_singleton] at he
    rcases he with he | rfl
    · exact h1 e he hei
    · exact absurd hei hφ
  cancel := by
    intro x s id ⟨h1, h2⟩
    refine ⟨?_, by simpa [St.cancel] using h2⟩
    intro e he hei
    simp only [St.cancel, List.mem_map] at he
    obtain ⟨e0, he0, rfl⟩ := he
    simp only [cancelEntry] at hei ⊢
    split
    · rfl
    · next hne => rw [if_neg hne] at hei; exact h1 e0 he0 hei
  link := by intro x s l h; exact h
  stop := by intro x s _ h; exact h
  sleep := by intro x s t _ _ h; exact h
  handled := by intro x s e _ _ h; exact h
  finish := by intro x s sp h; exact h

theorem cancInv_cancel (s : St) (i : Nat) : CancInv i s.log (s.cancel i) := by
  refine ⟨?_, fun r hr _ => by simpa [St.cancel] using hr⟩
  intro e he hei
  simp only [St.cancel, List.mem_map] at he
  obtain ⟨e0, he0, rfl⟩ := he
  simp only [cancelEntry] at hei ⊢
  split
  · rfl
  · next hne => rw [if_neg hne] at hei; exact absurd hei hne

/-- strict lexicographic order on `(due, scheduling number)` -/
def keyLt (a b : Int × Nat) : Prop := a.1 < b.1 ∨ (a.1 = b.1 ∧ a.2 < b.2)

/-- no action schedules before the clock: only `schedule` and `schedule_relative(t ≥ 0)` inside actions -/
def nonPast : Step → Prop
  | .sched _ m t _ => m = .imm ∨ (m = .rel ∧ 0 ≤ t)
  | _ => True

/-- the executed log is strictly sorted by `(due, scheduling number)`, everything executed precedes
everything pending, and executed due times are not ahead of the clock -/
def SortInv (s : St) : Prop :=
  s.queue.WF ∧
  s.log.Pairwise (fun a b => keyLt (a.due, a.seq) (b.due, b.seq)) ∧
  (∀ r ∈ s.log, ∀ e ∈ s.queue.items, keyLt (r.due, r.seq) (e.1.due, e.1.seq)) ∧
  (∀ r ∈ s.log, r.due ≤ s.clock ∧ r.seq < s.nsched) ∧
  s.queue.items.Pairwise (fun a b => a.1.seq < b.1.seq) ∧ (∀ e ∈ s.queue.items, e.1.seq < s.nsched)

theorem cancelEntry_keep (id : Nat) (e : Item × Int) :
    (cancelEntry id e).1.due = e.1.due ∧ (cancelEntry id e).1.seq = e.1.seq ∧ (cancelEntry id e).2 = e.2 := by
  simp only [cancelEntry]; split <;> simp

theorem wf_cancel' {s : St} (h : s.queue.WF) (id : Nat) : (s.cancel id).queue.WF := by
  obtain ⟨h1, h2⟩ := h
  refine ⟨?_, ?_⟩
  · simp only [St.cancel, List.pairwise_map, (cancelEntry_keep id _).2.2]; exact h1
  · intro e he
    simp only [St.cancel, List.mem_map] at he
    obtain ⟨e0, he0, rfl⟩ := he
    rw [(cancelEntry_keep id e0).2.2]; exact h2 e0 he0

theorem sortInv_dequeue {cfg : Cfg} (hb : 0 ≤ cfg.bump) {tgt : Option Int} {s : St} {x : Item} {q' : PQ Item}
    (h : SortInv s) (hd : s.queue.dequeue? Item.due = some (x, q')) :
    q'.WF ∧ (∀ r ∈ s.log, keyLt (r.due, r.seq) (x.due, x.seq)) ∧
    (∀ e ∈ q'.items, keyLt (x.due, x.seq) (e.1.due, e.1.seq)) ∧
    (∀ r ∈ s.log, ∀ e ∈ q'.items, keyLt (r.due, r.seq) (e.1.due, e.1.seq)) ∧
    q'.items.Pairwise (fun a b => a.1.seq < b.1.seq) ∧ (∀ e ∈ q'.items, e.1.seq < s.nsched) ∧
    x.seq < s.nsched ∧ s.clock ≤ tickClock cfg tgt s x ∧ x.due ≤ tickClock cfg tgt s x := by
  obtain ⟨hwf, h1, h2, h3, h4, h5⟩ := h
  obtain ⟨pre, post, c, hl, hr, hpre, hpost, _⟩ := PQ.dequeue_split Item.due hwf hd
  have hmem : ∀ e ∈ q'.items, e ∈ s.queue.items := (dequeue_mem hd).2
  have hx : (x, c) ∈ s.queue.items := by rw [hl]; simp
  have htc := tickClock_ge cfg hb tgt s x
  refine ⟨PQ.wf_dequeue Item.due hwf hd, fun r hr' => h2 r hr' _ hx, ?_, fun r hr' e he => h2 r hr' e (hmem e he),
    ?_, fun e he => h5 e (hmem e he), h5 _ hx, htc.1, htc.2⟩
  · intro e he
    rw [hr] at he
    rcases List.mem_append.1 he with he | he
    · left; exact hpre e he
    · have hle := hpost e he
      have hseq : x.seq < e.1.seq := by
        rw [hl, List.pairwise_append] at h4
        have := (List.pairwise_cons.1 h4.2.1).1 e he
        exact this
      simp only [keyLt]; omega
  · rw [hr]
    rw [hl] at h4
    have h4' := List.pairwise_append.1 h4
    refine List.pairwise_append.2 ⟨h4'.1, (List.pairwise_cons.1 h4'.2.1).2, ?_⟩
    intro a ha b hb'
    exact h4'.2.2 a ha b (by simp [hb'])

theorem sortInv_iter (cfg : Cfg) (hb : 0 ≤ cfg.bump) (tgt : Option Int) :
    IterInv cfg tgt nonPast SortInv (fun _ => SortInv) where
  skip := by
    intro s x q' sp h _ _ hd _ _
    obtain ⟨a1, a2, a3, a4, a5, a6, a7, a8, a9⟩ := sortInv_dequeue (cfg := cfg) hb (tgt := tgt) h hd
    obtain ⟨hwf, h1, h2, h3, h4, h5⟩ := h
    exact ⟨a1, h1, a4, fun r hr => ⟨by have := (h3 r hr).1; simp only; omega, (h3 r hr).2⟩, a5, a6⟩
  begin := by
    intro s x q' sp h _ _ hd _ _
    obtain ⟨a1, a2, a3, a4, a5, a6, a7, a8, a9⟩ := sortInv_dequeue (cfg := cfg) hb (tgt := tgt) h hd
    obtain ⟨hwf, h1, h2, h3, h4, h5⟩ := h
    refine ⟨a1, ?_, ?_, ?_, a5, a6⟩
    · simp only [List.pairwise_append]
      refine ⟨h1, by simp, ?_⟩
      intro a ha b hb'
      simp at hb'; subst hb'
      exact a2 a ha
    · intro r hr e he
      simp only [List.mem_append, List.mem_singleton] at hr
      rcases hr with hr | rfl
      · exact a4 r hr e he
      · exact a3 e he
    · intro r hr
      simp only [List.mem_append, List.mem_singleton] at hr
      rcases hr with hr | rfl
      · exact ⟨by have := (h3 r hr).1; simp only; omega, (h3 r hr).2⟩
      · exact ⟨a9, a7⟩
  enq := by
    intro x s via m t cid child hφ _ ⟨hwf, h1, h2, h3, h4, h5⟩
    have hdue : s.clock ≤ dueOf s.clock m t := by
      simp only [nonPast] at hφ
      rcases hφ with rfl | ⟨rfl, ht⟩ <;> simp only [dueOf] <;> omega
    refine ⟨PQ.wf_enqueue hwf _, by simpa [St.enqueue] using h1, ?_, ?_, ?_, ?_⟩
    · intro r hr e he
      simp only [St.enqueue, PQ.enqueue, List.mem_append, List.mem_singleton] at he hr
      rcases he with he | rfl
      · exact h2 r hr e he
      · have := h3 r hr
        simp only [keyLt]; omega
    · intro r hr
      have := h3 r (by simpa [St.enqueue] using hr)
      simp only [St.enqueue]; omega
    · simp only [St.enqueue, PQ.enqueue, List.pairwise_append]
      refine ⟨h4, by simp, ?_⟩
      intro a ha b hb'
      simp at hb'; subst hb'
      exact h5 a ha
    · intro e he
      simp only [St.enqueue, PQ.enqueue, List.mem_append, List.mem_singleton] at he
      rcases he with he | rfl
      · have := h5 e he; simp only [St.enqueue]; omega
      · simp [St.enqueue]
  cancel := by
    intro x s id ⟨hwf, h1, h2, h3, h4, h5⟩
    refine ⟨wf_cancel' hwf id, by simpa [St.cancel] using h1, ?_, by simpa [St.cancel] using h3, ?_, ?_⟩
    · intro r hr e he
      simp only [St.cancel, List.mem_map] at he hr
      obtain ⟨e0, he0, rfl⟩ := he
      rw [(cancelEntry_keep id e0).1, (cancelEntry_keep id e0).2.1]
      exact h2 r hr e0 he0
    · simp only [St.cancel, List.pairwise_map, (cancelEntry_keep id _).2.1]; exact h4
    · intro e he
      simp only [St.cancel, List.mem_map] at he
      obtain ⟨e0, he0, rfl⟩ := he
      rw [(cancelEntry_keep id e0).2.1]; exact h5 e0 he0
  link := by intro x s l h; exact h
  stop := by intro x s _ h; exact h
  sleep := by
    intro x s t _ ht ⟨hwf, h1, h2, h3, h4, h5⟩
    exact ⟨hwf, h1, h2, fun r hr => ⟨by have := (h3 r hr).1; simp only; omega, (h3 r hr).2⟩, h4, h5⟩
  handled := by intro x s e _ _ h; exact h
  finish := by intro x s sp h; exact h

/-- any top-level scheduling calls on a scheduler that has not run anything yet establish `SortInv` -/
theorem sortInv_fresh (c0 : Int) (l : List (Nat × Int × Act × Bool)) :
    SortInv (l.foldl (fun s p => s.enqueue p.1 p.2.1 p.2.2.1 p.2.2.2) { clock := c0 }) := by
  suffices H : ∀ (l : List (Nat × Int × Act × Bool)) (s : St), SortInv s → s.log = [] →
      SortInv (l.foldl (fun s p => s.enqueue p.1 p.2.1 p.2.2.1 p.2.2.2) s) from
    H l _ ⟨PQ.wf_empty, by simp, by simp, by simp, by simp, by simp⟩ rfl
  intro l
  induction l with
  | nil => intro s h _; exact h
  | cons p l ih =>
    intro s ⟨hwf, h1, h2, h3, h4, h5⟩ hlog
    apply ih
    · refine ⟨PQ.wf_enqueue hwf _, by simp [St.enqueue, hlog], by simp [St.enqueue, hlog],
        by simp [St.enqueue, hlog], ?_, ?_⟩
      · simp only [St.enqueue, PQ.enqueue, List.pairwise_append]
        refine ⟨h4, by simp, ?_⟩
        intro a ha b hb'
        simp at hb'; subst hb'
        exact h5 a ha
      · intro e he
        simp only [St.enqueue, PQ.enqueue, List.mem_append, List.mem_singleton] at he
        rcases he with he | rfl
        · have := h5 e he; simp only [St.enqueue]; omega
        · simp [St.enqueue]
    · simpa [St.enqueue] using hlog

theorem advanceTo_ok {cfg : Cfg} {T : Int} {s s' : St} (hen : s.enabled = false) (hne : s.clock ≠ T)
    (h : advanceTo cfg T s = (s', .ok)) :
    s.clock < T ∧ ∃ s'', loop cfg (some T) { s with enabled := true } = (s'', .ok) ∧
      s' = { s'' with enabled := false, clock := T } := by
  simp only [advanceTo] at h
  split at h
  · simp at h
  · split at h
    · next h2 => rcases h2 with h2 | h2
                 · exact absurd h2 hne
                 · rw [hen] at h2; cases h2
    · next h1 h2 =>
      refine ⟨by omega, ?_⟩
      split at h
      · next s'' heq => simp at h; exact ⟨s'', heq, h.symm⟩
      · next r hr =>
        rcases hl : loop cfg (some T) { s with enabled := true } with ⟨s'', o⟩
        rw [hl] at h
        simp at h
        obtain ⟨rfl, rfl⟩ := h
        exact absurd hl (hr s'')

end C28

import RxProofs.Lemmas.WinEnd
/-!
# Closed form of `window_with_time_`: the timer/arrival invariant `TInv`, fair schedules, `Mach.sched` is fair.
-/
namespace Win
variable {α : Type}

/-- the timer `create_timer` arms when `next_shift = A`, `next_span = B`. -/
def tickOf (A B : Nat) : Tick := ⟨if B ≤ A then B else A, decide (A ≤ B), decide (B ≤ A)⟩

theorem Chain.next_fst (shift : Nat) (c : Chain) : (c.next shift).1 = tickOf c.nextShift c.nextSpan := by
  simp [Chain.next, tickOf]
theorem Chain.next_shift (shift : Nat) (c : Chain) :
    (c.next shift).2.nextShift = if c.nextShift ≤ c.nextSpan then c.nextShift + shift else c.nextShift := by
  simp [Chain.next]
theorem Chain.next_span (shift : Nat) (c : Chain) :
    (c.next shift).2.nextSpan = if c.nextSpan ≤ c.nextShift then c.nextSpan + shift else c.nextSpan := by
  simp [Chain.next]

namespace Tim

/-- state of `window_with_time_` while the source only delivers elements: `a` shift timers and `b` span timers have
fired (windows `0..a` exist, `0..b-1` were popped), exactly the timers due before the frontier `ρ` (offset from `t0`);
`pre` = the elements processed so far. -/
structure TInv (span shift t0 : Nat) (pre : List (Nat × α)) (ρ : Nat) (s : Tim α) (a b : Nat) : Prop where
  t0_eq : s.t0 = t0
  ctl : s.b.ctl = (false, false, [0])
  len : s.b.wins.length = a + 1
  q_eq : s.queue = List.range' b (a + 1 - b)
  ba : b ≤ a + 1
  timer : s.timer = some (tickOf ((a + 1) * shift) (b * shift + span))
  chS : s.chain.nextShift = if (a + 1) * shift ≤ b * shift + span then (a + 1) * shift + shift else (a + 1) * shift
  chP : s.chain.nextSpan = if b * shift + span ≤ (a + 1) * shift then b * shift + span + shift else b * shift + span
  fa_lo : a = 0 ∨ a * shift < ρ
  fa_hi : ρ ≤ (a + 1) * shift
  fb_lo : b = 0 ∨ (b - 1) * shift + span < ρ
  fb_hi : ρ ≤ b * shift + span
  pushed : ∀ k, k ≤ a → s.b.pushedOf k = (pre.filter (inWin span shift t0 k)).map (·.2)
  ended : ∀ k, k ≤ a → s.b.endedOf k = if k < b then some none else none
  pre_le : ∀ p ∈ pre, p.1 ≤ t0 + ρ

theorem tinv_init (span shift t0 : Nat) : TInv span shift t0 ([] : List (Nat × α)) 0 (Tim.init span shift t0) 0 0 := by
  refine ⟨rfl, ?_, ?_, ?_, by omega, ?_, ?_, ?_, Or.inl rfl, by omega, Or.inl rfl, by omega, ?_, ?_, by simp⟩
  · simp [init, createTimer, Base.ctl, Base.subscribe, Base.emit, Base.outerNext, Base.newWin]
  · simp [init, createTimer, Base.newWin]
  · simp [init, createTimer, Base.newWin]
  · simp [init, createTimer, Base.outerNext, Base.newWin, Base.emit, Chain.next_fst]
  · simp [init, createTimer, Chain.next_shift]
  · simp [init, createTimer, Chain.next_span]
  · intro k hk
    have : k = 0 := by omega
    subst this
    simp only [init, createTimer_b, Base.pushedOf_subscribe, Base.pushedOf_outerNext, Base.pushedOf_newWin]
    simp [Base.pushedOf]
  · intro k hk
    have : k = 0 := by omega
    subst this
    simp only [init, createTimer_b, Base.endedOf_subscribe, Base.endedOf_outerNext, Base.endedOf_newWin]
    simp [Base.endedOf]

end Tim
end Win
namespace Win
variable {α : Type}
namespace Tim

theorem filter_snoc (pre : List (Nat × α)) (p : Nat × α) (f : Nat × α → Bool) :
    ((pre ++ [p]).filter f).map (·.2) = (pre.filter f).map (·.2) ++ (if f p then [p.2] else []) := by
  rw [List.filter_append, List.map_append]
  by_cases h : f p = true <;> simp [h]

theorem tinv_elem {span shift t0 : Nat} {pre : List (Nat × α)} {ρ : Nat} {s : Tim α} {a b : Nat}
    (h : TInv span shift t0 pre ρ s a b) (t : Nat) (x : α) (ht0 : t0 < t) (hρ : t0 + ρ ≤ t)
    (hd : t ≤ t0 + (tickOf ((a + 1) * shift) (b * shift + span)).at_) :
    TInv span shift t0 (pre ++ [(t, x)]) (t - t0) ((Tim.mach shift).step s t (.src 0 (.next x))) a b := by
  have hlive : ({ s with b := { s.b with now := t } } : Tim α).b.live.contains 0 = true := by
    have := h.ctl; simp only [Base.ctl, Prod.mk.injEq] at this
    show s.b.live.contains 0 = true
    rw [this.2.2]; rfl
  have hstep : (Tim.mach shift).step s t (.src 0 (.next x)) =
      { s with b := s.queue.foldl (fun b id => b.winNext id x) ({ s.b with now := t } : Base α) } := by
    simp only [mach, step, hlive, if_true]
  rw [hstep]
  have hdA : t - t0 ≤ (a + 1) * shift := by
    have : (tickOf ((a + 1) * shift) (b * shift + span)).at_ ≤ (a + 1) * shift := by
      simp only [tickOf]; split <;> omega
    omega
  have hdB : t - t0 ≤ b * shift + span := by
    have : (tickOf ((a + 1) * shift) (b * shift + span)).at_ ≤ b * shift + span := by
      simp only [tickOf]; split <;> omega
    omega
  have hnd : s.queue.Nodup := by rw [h.q_eq]; exact List.nodup_range'
  refine ⟨h.t0_eq, ?_, ?_, h.q_eq, h.ba, h.timer, h.chS, h.chP, ?_, hdA, ?_, hdB, ?_, ?_, ?_⟩
  · show (s.queue.foldl (fun b id => b.winNext id x) ({ s.b with now := t } : Base α)).ctl = _
    rw [Base.ctl_foldl_winNext]; exact h.ctl
  · show (s.queue.foldl (fun b id => b.winNext id x) ({ s.b with now := t } : Base α)).wins.length = _
    rw [Base.length_foldl_winNext]; exact h.len
  · rcases h.fa_lo with h0 | h1
    · exact Or.inl h0
    · right; omega
  · rcases h.fb_lo with h0 | h1
    · exact Or.inl h0
    · right; omega
  · intro k hk
    show (s.queue.foldl (fun b id => b.winNext id x) ({ s.b with now := t } : Base α)).pushedOf k = _
    rw [Base.pushedOf_foldl_winNext _ hnd, filter_snoc]
    have hp : ({ s.b with now := t } : Base α).pushedOf k = s.b.pushedOf k := rfl
    have he : ({ s.b with now := t } : Base α).endedOf k = s.b.endedOf k := rfl
    have hl : ({ s.b with now := t } : Base α).wins.length = s.b.wins.length := rfl
    rw [hp, he, hl, h.pushed k hk, h.ended k hk, h.len]
    have hmem : k ∈ s.queue ↔ b ≤ k ∧ k < b + (a + 1 - b) := by rw [h.q_eq, List.mem_range'_1]
    by_cases hkb : k < b
    · -- already popped: its interval ended before the frontier
      have hb1 : (b - 1) * shift + span < ρ := by
        rcases h.fb_lo with h0 | h1
        · omega
        · exact h1
      have : k * shift ≤ (b - 1) * shift := Nat.mul_le_mul_right shift (by omega)
      have hf : inWin span shift t0 k (t, x) = false := by
        simp only [inWin, decide_eq_false_iff_not, not_and]; intro _; omega
      rw [if_neg (by rintro ⟨h1, _⟩; have := hmem.mp h1; omega), hf]; simp
    · have hk1 : b * shift ≤ k * shift := Nat.mul_le_mul_right shift (by omega)
      have hk2 : k * shift ≤ a * shift := Nat.mul_le_mul_right shift hk
      have hlow : t0 + k * shift < t := by
        rcases h.fa_lo with h0 | h1
        · subst h0; have : k = 0 := by omega
          subst this; omega
        · omega
      have hf : inWin span shift t0 k (t, x) = true := by
        simp only [inWin, decide_eq_true_eq]; constructor <;> omega
      rw [if_pos ⟨hmem.mpr ⟨by omega, by have := h.ba; omega⟩, by omega, by simp [hkb]⟩, hf]; simp
  · intro k hk
    show (s.queue.foldl (fun b id => b.winNext id x) ({ s.b with now := t } : Base α)).endedOf k = _
    rw [Base.endedOf_foldl_winNext]; exact h.ended k hk
  · intro p hp
    rcases List.mem_append.mp hp with h1 | h1
    · have := h.pre_le p h1; omega
    · simp at h1; subst h1; simp; omega

end Tim
end Win
namespace Win
variable {α : Type}
namespace Tim

theorem sync_of_alive (s : Tim α) (h : s.b.rcDisposed = false) : sync s = s := by
  unfold sync; simp [h]

theorem ctl_rc {b : Base α} (h : b.ctl = (false, false, [0])) : b.primary = false ∧ b.rcDisposed = false ∧ b.live = [0] := by
  simpa [Base.ctl] using h

/-- shift-only timer (`next_shift < next_span`): window `a+1` opens. -/
theorem tinv_tick_shift {span shift t0 : Nat} (hs : 0 < shift) {pre : List (Nat × α)} {ρ : Nat} {s : Tim α} {a b : Nat}
    (h : TInv span shift t0 pre ρ s a b) (hAB : (a + 1) * shift < b * shift + span) (t : Nat) :
    TInv span shift t0 pre ((a + 1) * shift + 1) ((Tim.mach shift).step s t .tick) (a + 1) b := by
  obtain ⟨hp, hr, hl⟩ := ctl_rc h.ctl
  have htk : tickOf ((a + 1) * shift) (b * shift + span) = ⟨(a + 1) * shift, true, false⟩ := by
    simp only [tickOf]; rw [if_neg (by omega)]; simp; omega
  have hsucc : (a + 1 + 1) * shift = (a + 1) * shift + shift := Nat.succ_mul _ _
  have hstep : (Tim.mach shift).step s t .tick =
      createTimer shift { s with timer := none,
                                 b := (({ s.b with now := t } : Base α).newWin.1).outerNext s.b.wins.length,
                                 queue := s.queue ++ [s.b.wins.length] } := by
    simp only [mach, step, onTick, h.timer, htk, if_true, Bool.false_eq_true, if_false]
    apply sync_of_alive
    have : ((({ s.b with now := t } : Base α).newWin.1).outerNext s.b.wins.length).ctl = s.b.ctl := by simp
    rw [h.ctl] at this
    exact (ctl_rc this).2.1
  rw [hstep]
  have hctl : ((({ s.b with now := t } : Base α).newWin.1).outerNext s.b.wins.length).ctl = (false, false, [0]) := by
    rw [← h.ctl]; simp
  have hrc := (ctl_rc hctl).2.1
  have hcS : s.chain.nextShift = (a + 1) * shift + shift := by rw [h.chS, if_pos (by omega)]
  have hcP : s.chain.nextSpan = b * shift + span := by rw [h.chP, if_neg (by omega)]
  refine ⟨h.t0_eq, hctl, ?_, ?_, by have := h.ba; omega, ?_, ?_, ?_, Or.inr (by omega), by omega, ?_, by omega, ?_, ?_, ?_⟩
  · simp [createTimer, Base.newWin, h.len]
  · show s.queue ++ [s.b.wins.length] = _
    rw [h.q_eq, h.len]
    have : a + 1 + 1 - b = (a + 1 - b) + 1 := by have := h.ba; omega
    rw [this, List.range'_1_concat]; congr 2; have := h.ba; omega
  · simp only [createTimer, hrc, Bool.false_eq_true, if_false, Chain.next_fst, hcS, hcP, hsucc]
  · simp only [createTimer, Chain.next_shift, hcS, hcP, hsucc]
  · simp only [createTimer, Chain.next_span, hcS, hcP, hsucc]
  · rcases h.fb_lo with h0 | h1
    · exact Or.inl h0
    · right; have := h.fa_hi; omega
  · intro k hk
    simp only [createTimer_b, Base.pushedOf_outerNext, Base.pushedOf_newWin]
    show s.b.pushedOf k = _
    by_cases hka : k ≤ a
    · exact h.pushed k hka
    · have : k = a + 1 := by omega
      subst this
      rw [Base.pushedOf_nil_of_ge (by rw [h.len]; omega)]
      have : pre.filter (inWin span shift t0 (a + 1)) = [] := by
        rw [List.filter_eq_nil_iff]
        intro p hp'
        have := h.pre_le p hp'; have := h.fa_hi
        simp only [inWin, decide_eq_true_eq, not_and]; intro _; omega
      rw [this]; rfl
  · intro k hk
    simp only [createTimer_b, Base.endedOf_outerNext, Base.endedOf_newWin]
    show s.b.endedOf k = _
    by_cases hka : k ≤ a
    · exact h.ended k hka
    · have : k = a + 1 := by omega
      subst this
      rw [Base.endedOf_none_of_ge (by rw [h.len]; omega)]
      have := h.ba
      rw [if_neg (by omega)]
  · intro p hp'; have := h.pre_le p hp'; have := h.fa_hi; omega

end Tim
end Win
namespace Win
variable {α : Type}
namespace Tim

/-- span-only timer (`next_span < next_shift`): the oldest window `b` is completed. -/
theorem tinv_tick_span {span shift t0 : Nat} (hs : 0 < shift) {pre : List (Nat × α)} {ρ : Nat} {s : Tim α} {a b : Nat}
    (h : TInv span shift t0 pre ρ s a b) (hAB : b * shift + span < (a + 1) * shift) (t : Nat) :
    TInv span shift t0 pre (b * shift + span + 1) ((Tim.mach shift).step s t .tick) a (b + 1) := by
  obtain ⟨hp, hr, hl⟩ := ctl_rc h.ctl
  have htk : tickOf ((a + 1) * shift) (b * shift + span) = ⟨b * shift + span, false, true⟩ := by
    simp only [tickOf]; rw [if_pos (by omega)]; simp; omega
  have hsucc : (b + 1) * shift = b * shift + shift := Nat.succ_mul _ _
  have hba : b < a + 1 := by
    have : b * shift < (a + 1) * shift := by omega
    exact Nat.lt_of_mul_lt_mul_right this
  have hq : s.queue = b :: List.range' (b + 1) (a + 1 - (b + 1)) := by
    rw [h.q_eq]
    have : a + 1 - b = (a + 1 - (b + 1)) + 1 := by omega
    rw [this, List.range'_succ]
  have hp' : ({ s.b with now := t } : Base α).primary = false := hp
  have hctl : (({ s.b with now := t } : Base α).winEnd b none).ctl = (false, false, [0]) := by
    rw [Base.ctl_winEnd _ _ _ hp']; exact h.ctl
  have hrc := (ctl_rc hctl).2.1
  have hstep : (Tim.mach shift).step s t .tick =
      createTimer shift { s with timer := none, b := ({ s.b with now := t } : Base α).winEnd b none,
                                 queue := List.range' (b + 1) (a + 1 - (b + 1)) } := by
    simp only [mach, step, onTick, h.timer, htk, if_true, Bool.false_eq_true, if_false, hq]
    exact sync_of_alive _ hrc
  rw [hstep]
  have hcS : s.chain.nextShift = (a + 1) * shift := by rw [h.chS, if_neg (by omega)]
  have hcP : s.chain.nextSpan = b * shift + span + shift := by rw [h.chP, if_pos (by omega)]
  have hBeq : (b + 1) * shift + span = b * shift + span + shift := by omega
  refine ⟨h.t0_eq, hctl, ?_, ?_, by omega, ?_, ?_, ?_, ?_, by omega, Or.inr (by simp), by omega, ?_, ?_, ?_⟩
  · simp [createTimer, h.len]
  · show List.range' (b + 1) (a + 1 - (b + 1)) = _; rfl
  · simp only [createTimer, hrc, Bool.false_eq_true, if_false, Chain.next_fst, hcS, hcP, hBeq]
  · simp only [createTimer, Chain.next_shift, hcS, hcP, hBeq]
  · simp only [createTimer, Chain.next_span, hcS, hcP, hBeq]
  · rcases h.fa_lo with h0 | h1
    · exact Or.inl h0
    · right; have := h.fb_hi; omega
  · intro k hk
    simp only [createTimer_b, Base.pushedOf_winEnd]
    exact h.pushed k hk
  · intro k hk
    simp only [createTimer_b]
    rw [Base.endedOf_winEnd]
    show (if b = k ∧ k < s.b.wins.length ∧ s.b.endedOf k = none then some none else s.b.endedOf k) = _
    rw [h.ended k hk, h.len]
    by_cases hkb : k = b
    · subst hkb; simp; omega
    · by_cases hlt : k < b
      · have : k < b + 1 := by omega
        simp [hlt, this]
      · have : ¬ k < b + 1 := by omega
        have hne : ¬ b = k := fun e => hkb e.symm
        simp [hlt, this, hne]
  · intro p hp''; have := h.pre_le p hp''; have := h.fb_hi; omega

/-- both flags (`next_span = next_shift`): window `a+1` opens, then the oldest window `b` is completed. -/
theorem tinv_tick_both {span shift t0 : Nat} (hs : 0 < shift) {pre : List (Nat × α)} {ρ : Nat} {s : Tim α} {a b : Nat}
    (h : TInv span shift t0 pre ρ s a b) (hAB : (a + 1) * shift = b * shift + span) (t : Nat) :
    TInv span shift t0 pre ((a + 1) * shift + 1) ((Tim.mach shift).step s t .tick) (a + 1) (b + 1) := by
  obtain ⟨hp, hr, hl⟩ := ctl_rc h.ctl
  have htk : tickOf ((a + 1) * shift) (b * shift + span) = ⟨(a + 1) * shift, true, true⟩ := by
    simp only [tickOf]; rw [if_pos (by omega)]; simp; omega
  have hsa : (a + 1 + 1) * shift = (a + 1) * shift + shift := Nat.succ_mul _ _
  have hsb : (b + 1) * shift = b * shift + shift := Nat.succ_mul _ _
  have hq : s.queue ++ [s.b.wins.length] = b :: List.range' (b + 1) (a + 1 + 1 - (b + 1)) := by
    rw [h.q_eq, h.len]
    have h1 : a + 1 + 1 - (b + 1) + 1 = (a + 1 - b) + 1 := by have := h.ba; omega
    rw [← List.range'_succ, h1, List.range'_1_concat]; congr 2; have := h.ba; omega
  let b1 : Base α := (({ s.b with now := t } : Base α).newWin.1).outerNext s.b.wins.length
  have hctl1 : b1.ctl = (false, false, [0]) := by rw [← h.ctl]; simp [b1]
  have hp1 := (ctl_rc hctl1).1
  have hctl : (b1.winEnd b none).ctl = (false, false, [0]) := by rw [Base.ctl_winEnd _ _ _ hp1]; exact hctl1
  have hrc := (ctl_rc hctl).2.1
  have hstep : (Tim.mach shift).step s t .tick =
      createTimer shift { s with timer := none, b := b1.winEnd b none,
                                 queue := List.range' (b + 1) (a + 1 + 1 - (b + 1)) } := by
    simp only [mach, step, onTick, h.timer, htk, if_true, Base.newWin_id, hq]
    exact sync_of_alive _ hrc
  rw [hstep]
  have hcS : s.chain.nextShift = (a + 1) * shift + shift := by rw [h.chS, if_pos (by omega)]
  have hcP : s.chain.nextSpan = b * shift + span + shift := by rw [h.chP, if_pos (by omega)]
  have hBeq : (b + 1) * shift + span = b * shift + span + shift := by omega
  have hlen1 : b1.wins.length = a + 1 + 1 := by simp [b1, Base.newWin, h.len]
  refine ⟨h.t0_eq, hctl, ?_, ?_, by have := h.ba; omega, ?_, ?_, ?_, Or.inr (by omega), by omega, Or.inr (by simp; omega), by omega, ?_, ?_, ?_⟩
  · simp [createTimer, hlen1]
  · show List.range' (b + 1) (a + 1 + 1 - (b + 1)) = _; rfl
  · simp only [createTimer, hrc, Bool.false_eq_true, if_false, Chain.next_fst, hcS, hcP, hBeq, hsa]
  · simp only [createTimer, Chain.next_shift, hcS, hcP, hBeq, hsa]
  · simp only [createTimer, Chain.next_span, hcS, hcP, hBeq, hsa]
  · intro k hk
    simp only [createTimer_b, Base.pushedOf_winEnd, b1, Base.pushedOf_outerNext, Base.pushedOf_newWin]
    show s.b.pushedOf k = _
    by_cases hka : k ≤ a
    · exact h.pushed k hka
    · have : k = a + 1 := by omega
      subst this
      rw [Base.pushedOf_nil_of_ge (by rw [h.len]; omega)]
      have : pre.filter (inWin span shift t0 (a + 1)) = [] := by
        rw [List.filter_eq_nil_iff]
        intro p hp'
        have := h.pre_le p hp'; have := h.fa_hi
        simp only [inWin, decide_eq_true_eq, not_and]; intro _; omega
      rw [this]; rfl
  · intro k hk
    simp only [createTimer_b]
    rw [Base.endedOf_winEnd, hlen1]
    have he1 : b1.endedOf k = s.b.endedOf k := by simp [b1, Base.endedOf_newWin]
    rw [he1]
    have hek : s.b.endedOf k = if k < b then some none else none := by
      by_cases hka : k ≤ a
      · exact h.ended k hka
      · rw [Base.endedOf_none_of_ge (by rw [h.len]; omega)]
        have := h.ba; rw [if_neg (by omega)]
    rw [hek]
    by_cases hkb : k = b
    · subst hkb; simp; omega
    · by_cases hlt : k < b
      · have : k < b + 1 := by omega
        simp [hlt, this]
      · have : ¬ k < b + 1 := by omega
        have hne : ¬ b = k := fun e => hkb e.symm
        simp [hlt, this, hne]
  · intro p hp''; have := h.pre_le p hp''; have := h.fa_hi; omega

end Tim
end Win
namespace Win
variable {σ α : Type}

/-- the source elements (with their arrival times) among a list of events. -/
def elemsOf : List (Nat × Ev α) → List (Nat × α)
  | [] => []
  | (t, .src 0 (.next x)) :: L => (t, x) :: elemsOf L
  | _ :: L => elemsOf L

/-- a schedule of source elements and timer firings in which each timer fires at its due time, strictly before every
later element, and an element is processed only when no armed timer is due strictly earlier (the source wins ties). -/
def Fair (m : Mach σ α) : σ → List (Nat × Ev α) → Prop
  | _, [] => True
  | s, (t, e) :: L =>
    (match e with
     | .tick => m.pending s = some t ∧ ∀ p ∈ elemsOf L, t < p.1
     | .src 0 (.next _) => (∀ d, m.pending s = some d → t ≤ d) ∧ ∀ p ∈ elemsOf L, t ≤ p.1
     | _ => False) ∧ Fair m (m.step s t e) L

theorem elemsOf_nexts (tx : List (Nat × α)) : elemsOf (Cnt.nexts tx) = tx := by
  induction tx with
  | nil => rfl
  | cons p tx ih => obtain ⟨t, x⟩ := p; simp only [Cnt.nexts, List.map_cons, elemsOf] at ih ⊢; rw [ih]

namespace Mach

/-- the elements `sched` gets to are a prefix of the input, and the schedule is fair when the input is time-sorted. -/
theorem sched_fair (m : Mach σ α) (horizon : Nat) :
    ∀ (fuel : Nat) (s : σ) (tx : List (Nat × α)), tx.Pairwise (fun p q => p.1 ≤ q.1) →
      Fair m s (m.sched horizon fuel s (Cnt.nexts tx)) ∧
      ∃ rest, tx = elemsOf (m.sched horizon fuel s (Cnt.nexts tx)) ++ rest := by
  intro fuel
  induction fuel with
  | zero => intro s tx _; exact ⟨trivial, tx, rfl⟩
  | succ fuel ih =>
    intro s tx hsorted
    cases tx with
    | nil =>
      simp only [Cnt.nexts, List.map_nil, sched]
      cases hp : m.pending s with
      | none => exact ⟨trivial, [], rfl⟩
      | some d =>
        simp only []
        split
        · obtain ⟨h1, r, h2⟩ := ih (m.step s d .tick) [] List.Pairwise.nil
          simp only [Cnt.nexts, List.map_nil] at h1 h2
          have hnil : elemsOf (m.sched horizon fuel (m.step s d Ev.tick) []) = [] := by
            have := congrArg List.length h2; simp at this; exact List.eq_nil_of_length_eq_zero (by omega)
          refine ⟨?_, r, ?_⟩
          · simp only [Fair]
            refine ⟨⟨hp, ?_⟩, h1⟩
            intro p hpm; rw [hnil] at hpm; cases hpm
          · simpa [elemsOf] using h2
        · exact ⟨trivial, [], rfl⟩
    | cons p tx =>
      obtain ⟨t, x⟩ := p
      have hs' : tx.Pairwise (fun p q => p.1 ≤ q.1) := (List.pairwise_cons.mp hsorted).2
      have hle : ∀ q ∈ tx, t ≤ q.1 := (List.pairwise_cons.mp hsorted).1
      have hcons : Cnt.nexts ((t, x) :: tx) = (t, Ev.src 0 (Notif.next x)) :: Cnt.nexts tx := rfl
      rw [hcons]
      simp only [sched]
      cases hp : m.pending s with
      | none =>
        simp only []
        obtain ⟨h1, r, h2⟩ := ih (m.step s t (.src 0 (.next x))) tx hs'
        refine ⟨?_, r, ?_⟩
        · have hmain : ∀ q ∈ elemsOf (m.sched horizon fuel (m.step s t (.src 0 (.next x))) (Cnt.nexts tx)), t ≤ q.1 := by
            intro q hq
            exact hle q (by rw [h2]; exact List.mem_append_left _ hq)
          simp only [Fair]
          refine ⟨?_, h1⟩
          first
            | exact hmain
            | exact ⟨fun d hd => (by rw [hp] at hd; cases hd), hmain⟩
        · simp only [elemsOf, List.cons_append]; rw [← h2]
      | some d =>
        simp only []
        split
        · rename_i hdt
          obtain ⟨h1, r, h2⟩ := ih (m.step s d .tick) ((t, x) :: tx) hsorted
          rw [hcons] at h1 h2
          refine ⟨?_, r, ?_⟩
          · simp only [Fair]
            refine ⟨⟨hp, ?_⟩, h1⟩
            intro q hq
            have hq' : q ∈ (t, x) :: tx := by rw [h2]; exact List.mem_append_left _ hq
            rcases List.mem_cons.mp hq' with h3 | h3
            · subst h3; exact hdt
            · have := hle q h3; omega
          · simpa [elemsOf] using h2
        · rename_i hdt
          obtain ⟨h1, r, h2⟩ := ih (m.step s t (.src 0 (.next x))) tx hs'
          refine ⟨?_, r, ?_⟩
          · simp only [Fair]
            refine ⟨⟨fun d' hd' => (by rw [hp] at hd'; cases hd'; omega), ?_⟩, h1⟩
            intro q hq
            exact hle q (by rw [h2]; exact List.mem_append_left _ hq)
          · simp only [elemsOf, List.cons_append]; rw [← h2]

end Mach
end Win
namespace Win
variable {α : Type}
namespace Tim

theorem pending_eq {span shift t0 : Nat} {pre : List (Nat × α)} {ρ : Nat} {s : Tim α} {a b : Nat}
    (h : TInv span shift t0 pre ρ s a b) :
    (Tim.mach shift).pending s = some (t0 + (tickOf ((a + 1) * shift) (b * shift + span)).at_) := by
  simp [mach, h.timer, h.t0_eq]

theorem tinv_fair {span shift t0 : Nat} (hs : 0 < shift) :
    ∀ (L : List (Nat × Ev α)) (s : Tim α) (pre : List (Nat × α)) (ρ a b : Nat),
      TInv span shift t0 pre ρ s a b → Fair (Tim.mach shift) s L →
      (∀ p ∈ elemsOf L, t0 + ρ ≤ p.1 ∧ t0 < p.1) →
      ∃ a' b' ρ', TInv span shift t0 (pre ++ elemsOf L) ρ' ((Tim.mach shift).fold s L) a' b' := by
  intro L
  induction L with
  | nil => intro s pre ρ a b h _ _; exact ⟨a, b, ρ, by simpa [elemsOf, Mach.fold] using h⟩
  | cons te L ih =>
    intro s pre ρ a b h hf hel
    obtain ⟨t, e⟩ := te
    simp only [Fair] at hf
    obtain ⟨hf1, hf2⟩ := hf
    have hfold : (Tim.mach shift).fold s ((t, e) :: L) = (Tim.mach shift).fold ((Tim.mach shift).step s t e) L := by
      simp [Mach.fold]
    rw [hfold]
    cases e with
    | tick =>
      simp only [] at hf1
      obtain ⟨hpd, hlater⟩ := hf1
      rw [pending_eq h] at hpd
      have ht : t = t0 + (tickOf ((a + 1) * shift) (b * shift + span)).at_ := by
        simpa using hpd.symm
      have hel' : elemsOf ((t, Ev.tick) :: L) = elemsOf L := rfl
      rw [hel']
      rcases Nat.lt_trichotomy ((a + 1) * shift) (b * shift + span) with hlt | heq | hgt
      · have hat : (tickOf ((a + 1) * shift) (b * shift + span)).at_ = (a + 1) * shift := by
          simp only [tickOf]; rw [if_neg (by omega)]
        exact ih _ pre _ _ _ (tinv_tick_shift hs h hlt t) hf2
          (fun p hp => ⟨by have := hlater p hp; omega, (hel p (by rw [hel']; exact hp)).2⟩)
      · have hat : (tickOf ((a + 1) * shift) (b * shift + span)).at_ = (a + 1) * shift := by
          simp only [tickOf]; rw [if_pos (by omega)]; omega
        exact ih _ pre _ _ _ (tinv_tick_both hs h heq t) hf2
          (fun p hp => ⟨by have := hlater p hp; omega, (hel p (by rw [hel']; exact hp)).2⟩)
      · have hat : (tickOf ((a + 1) * shift) (b * shift + span)).at_ = b * shift + span := by
          simp only [tickOf]; rw [if_pos (by omega)]
        exact ih _ pre _ _ _ (tinv_tick_span hs h hgt t) hf2
          (fun p hp => ⟨by have := hlater p hp; omega, (hel p (by rw [hel']; exact hp)).2⟩)
    | dispose w => exact absurd hf1 (by simp)
    | src k n =>
      cases k with
      | succ k => exact absurd hf1 (by simp)
      | zero =>
        cases n with
        | error err => exact absurd hf1 (by simp)
        | completed => exact absurd hf1 (by simp)
        | next x =>
          simp only [] at hf1
          obtain ⟨hpd, hlater⟩ := hf1
          have hel' : elemsOf ((t, Ev.src 0 (Notif.next x)) :: L) = (t, x) :: elemsOf L := rfl
          have hme := hel (t, x) (by rw [hel']; exact List.mem_cons_self)
          have hd := hpd _ (pending_eq h)
          have := ih _ (pre ++ [(t, x)]) (t - t0) a b (tinv_elem h t x hme.2 hme.1 hd) hf2
            (fun p hp => ⟨by have := hlater p hp; omega, (hel p (by rw [hel']; exact List.mem_cons_of_mem _ hp)).2⟩)
          rw [hel']
          simpa [List.append_assoc] using this

end Tim
end Win

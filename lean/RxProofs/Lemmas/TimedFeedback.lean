import RxModel.TimedSim
import RxProofs.Lemmas.TimedRate
/-! Re-entrant feedback: the feedback runs equal the plain runs over the COMBINED arrival sequence. -/

namespace Timed

/-- the arrival sequence throttle_first actually sees: after every element it emits as the consumer's `k`-th delivery
with `echo k = some e`, the echo `e` arrives at the same instant (echoes do not echo) -/
def tfCombined {α} (w : Nat) (echo : Nat → Option α) : Nat → Option Nat → TL α → TL α
  | _, _, [] => []
  | k, last, (t, .next x) :: rest =>
    match (tfOnNext w t last x).2 with
    | [] => (t, .next x) :: tfCombined w echo k (tfOnNext w t last x).1 rest
    | _ :: _ =>
      match echo k with
      | some e =>
        (t, .next x) :: (t, .next e) ::
          tfCombined w echo (k + 1 + (tfOnNext w t (tfOnNext w t last x).1 e).2.length)
            (tfOnNext w t (tfOnNext w t last x).1 e).1 rest
      | none => (t, .next x) :: tfCombined w echo (k + 1) (tfOnNext w t last x).1 rest
  | _, _, (t, n) :: rest => (t, n) :: rest

theorem tf_feedback_eq_combined {α} (w : Nat) (echo : Nat → Option α) (msgs : TL α) : ∀ (k : Nat) (last : Option Nat),
    tfRunFb w echo k last msgs = tfRun w last (tfCombined w echo k last msgs) := by
  induction msgs with
  | nil => intro k last; rfl
  | cons a r ih =>
    obtain ⟨t, n⟩ := a
    intro k last
    cases n with
    | next x =>
      cases ho : (tfOnNext w t last x).2 with
      | nil =>
        simp only [tfRunFb, tfCombined, ho, tfRun, at_, List.map_nil, List.nil_append]
        exact ih _ _
      | cons o os =>
        cases he : echo k with
        | none =>
          simp only [tfRunFb, tfCombined, ho, he, tfRun]
          rw [ih]
        | some e =>
          simp only [tfRunFb, tfCombined, ho, he, tfRun, List.append_assoc]
          rw [ih]
    | error e => simp [tfRunFb, tfCombined, tfRun]
    | completed => simp [tfRunFb, tfCombined, tfRun]

/-- with a positive window an echo arrives 0 ticks after the element just emitted: it is always dropped -/
theorem tf_echo_dropped {α} (w t : Nat) (hw : 0 < w) (last : Option Nat) (x e : α) (o : Notif α) (os : List (Notif α))
    (ho : (tfOnNext w t last x).2 = o :: os) :
    tfOnNext w t (tfOnNext w t last x).1 e = ((tfOnNext w t last x).1, []) := by
  have h1 : (tfOnNext w t last x).1 = some t := by
    unfold tfOnNext at ho ⊢
    cases last with
    | none => rfl
    | some l => by_cases h : l + w ≤ t <;> simp [h] at ho ⊢
  rw [h1]
  have : ¬ (t + w ≤ t) := by omega
  simp [tfOnNext, this]

theorem tf_feedback_inert {α} (w : Nat) (hw : 0 < w) (echo : Nat → Option α) (msgs : TL α) : ∀ (k : Nat) (last : Option Nat),
    tfRunFb w echo k last msgs = tfRun w last msgs := by
  induction msgs with
  | nil => intro k last; rfl
  | cons a r ih =>
    obtain ⟨t, n⟩ := a
    intro k last
    cases n with
    | next x =>
      cases ho : (tfOnNext w t last x).2 with
      | nil =>
        simp only [tfRunFb, ho, tfRun, at_, List.map_nil, List.nil_append]
        exact ih _ _
      | cons o os =>
        cases he : echo k with
        | none => simp only [tfRunFb, ho, he, tfRun]; rw [ih]
        | some e =>
          have hd := tf_echo_dropped w t hw last x e o os ho
          simp only [tfRunFb, ho, he, tfRun, hd, at_, List.map_nil, List.append_nil, List.length_nil, Nat.add_zero]
          rw [ih]
    | error e => simp [tfRunFb, tfRun]
    | completed => simp [tfRunFb, tfRun]

/-- the queue `sample` actually runs: after a tick at which the consumer gets its `k`-th delivery (a fresh element, the
source still live) and `echo k = some e`, the echo is the source's next message — right behind that tick -/
def sampCombinedQ {α} (echo : Nat → Option α) (isEcho : α → Bool) :
    Nat → List (Nat × SampItem α) → Bool → SampSt α → List (Nat × SampItem α)
  | _, [], _, _ => []
  | k, (t, .src n) :: q, srcLive, s =>
    (t, .src n) ::
      (if srcLive then
        match n with
        | .next v => sampCombinedQ echo isEcho k q true (sampOnNext s v)
        | .error _ => q
        | .completed => sampCombinedQ echo isEcho k q false (sampOnCompleted s)
       else sampCombinedQ echo isEcho k q false s)
  | k, (tk, .samp ev) :: q, srcLive, s =>
    match ev with
    | .tick =>
      let delivered := s.hasValue && s.value.isSome
      let fresh := match s.value with | some v => !isEcho v | none => false
      match (if delivered && srcLive && fresh then echo k else none) with
      | some e =>
        (tk, .samp .tick) :: (tk, .src (.next e)) ::
          (if s.atEnd then q else sampCombinedQ echo isEcho (if delivered then k + 1 else k) q srcLive (sampOnNext (sampTick s).1 e))
      | none =>
        (tk, .samp .tick) ::
          (if s.atEnd then q else sampCombinedQ echo isEcho (if delivered then k + 1 else k) q srcLive (sampTick s).1)
    | .err e => (tk, .samp (.err e)) :: q

theorem samp_feedback_eq_combined {α} (echo : Nat → Option α) (isEcho : α → Bool) (q : List (Nat × SampItem α)) :
    ∀ (k : Nat) (srcLive : Bool) (s : SampSt α),
      sampSimFb echo isEcho k q srcLive s = sampSim (sampCombinedQ echo isEcho k q srcLive s) srcLive s := by
  induction q with
  | nil => intro k srcLive s; rfl
  | cons a q ih =>
    obtain ⟨t, it⟩ := a
    intro k srcLive s
    cases it with
    | src n =>
      cases srcLive with
      | false => simp only [sampSimFb, sampCombinedQ, sampSim, Bool.false_eq_true, if_false]; exact ih _ _ _
      | true =>
        cases n with
        | next v => simp only [sampSimFb, sampCombinedQ, sampSim, if_true]; exact ih _ _ _
        | error e => simp [sampSimFb, sampCombinedQ, sampSim]
        | completed => simp only [sampSimFb, sampCombinedQ, sampSim, if_true]; exact ih _ _ _
    | samp ev =>
      cases ev with
      | err e => simp [sampSimFb, sampCombinedQ, sampSim]
      | tick =>
        simp only [sampSimFb, sampCombinedQ]
        cases hc : ((s.hasValue && s.value.isSome) && srcLive &&
            (match s.value with | some v => !isEcho v | none => false)) with
        | false =>
          simp only [Bool.false_eq_true, if_false, sampSim]
          cases s.atEnd
          · simp only [Bool.false_eq_true, if_false]; rw [ih]
          · simp
        | true =>
          have hl : srcLive = true := by
            cases srcLive
            · simp at hc
            · rfl
          subst hl
          simp only [if_true]
          cases he : echo k with
          | none =>
            simp only [sampSim]
            cases s.atEnd
            · simp only [Bool.false_eq_true, if_false]; rw [ih]
            · simp
          | some e =>
            simp only [sampSim]
            cases s.atEnd
            · simp only [Bool.false_eq_true, if_false, if_true]; rw [ih]
            · simp

end Timed

import RxProofs.Lemmas.WinRel2
/-!
# `released`: outer stopped and no window subscriber attached ⇒ nothing live; timers cancelled with the group.
-/
namespace Win
variable {α : Type}
open Base

/-- **released**: outer observer stopped (terminal or dispose) and no window subscriber attached ⇒ the underlying
disposable was disposed and no subscription of the operator is live. -/
theorem released {b : Base α} (h : Rel b) (ho : b.outerStopped = true) (ha : b.attachedCount = 0) :
    b.rcDisposed = true ∧ b.live = [] := by
  have hp : b.primary = true := by rw [h.prim_iff]; exact ho
  cases hd : b.rcDisposed with
  | true => exact ⟨rfl, h.dead hd⟩
  | false =>
    have := h.zero hp hd
    rw [h.cnt hd, ha] at this
    exact absurd this (Nat.lt_irrefl 0)

namespace Base
@[simp] theorem os_rcRelease (b : Base α) : b.rcRelease.outerStopped = b.outerStopped := by
  unfold rcRelease; split; rfl; simp only []; split <;> simp
@[simp] theorem os_winDetach (b : Base α) (i) : (b.winDetach i).outerStopped = b.outerStopped := by
  unfold winDetach; split; rfl; split <;> simp
theorem os_foldl_winDetach (l : List Nat) (b : Base α) : (l.foldl winDetach b).outerStopped = b.outerStopped := by
  induction l generalizing b with
  | nil => rfl
  | cons i l ih => simp [List.foldl_cons, ih]
theorem os_disposeEv (b : Base α) (w) : (b.disposeEv w).outerStopped = true := by
  unfold disposeEv; simp only []; split
  · rw [os_foldl_winDetach]; simp [outerDispose]
  · simp [outerDispose]
end Base

/-! timers -/
namespace Tim
def TOk (s : Tim α) : Prop := s.b.rcDisposed = true → s.timer = none
theorem tok_sync (s : Tim α) : TOk (sync s) := by
  unfold TOk sync; split
  · intro _; rfl
  · rename_i h; intro h2; exact absurd h2 h
theorem tok_step (shift : Nat) (s : Tim α) (t : Nat) (e : Ev α) (h : TOk s) : TOk ((Tim.mach shift).step s t e) := by
  simp only [mach]
  cases e with
  | src k n =>
    cases k with
    | zero =>
      simp only [step]; split
      · cases n with
        | next x =>
          intro hd
          have := Base.ctl_foldl_winNext s.queue ({ s.b with now := t } : Base α) x
          simp only [Base.ctl, Prod.mk.injEq] at this
          exact h (by rw [← hd]; exact this.2.1.symm)
        | error e => exact tok_sync _
        | completed => exact tok_sync _
      · exact h
    | succ k => exact h
  | dispose w => exact tok_sync _
  | tick => exact tok_sync _
theorem tok_init (span shift t0 : Nat) : TOk (Tim.init (α := α) span shift t0) := by
  intro hd; simp [init, createTimer, Base.subscribe, Base.emit, Base.outerNext, Base.newWin] at hd
theorem tok_fold (shift : Nat) (evs : List (Nat × Ev α)) (s : Tim α) (h : TOk s) : TOk ((Tim.mach shift).fold s evs) := by
  induction evs generalizing s with
  | nil => exact h
  | cons te es ih => exact ih _ (tok_step shift s te.1 te.2 h)
end Tim

namespace Toc
def TOk (s : Toc α) : Prop := s.b.rcDisposed = true → s.timer = none
theorem tok_sync (s : Toc α) : TOk (sync s) := by
  unfold TOk sync; split
  · intro _; rfl
  · rename_i h; intro h2; exact absurd h2 h
theorem tok_step (span count : Nat) (s : Toc α) (t : Nat) (e : Ev α) (h : TOk s) : TOk ((Toc.mach span count).step s t e) := by
  simp only [mach]
  cases e with
  | src k n =>
    cases k with
    | zero =>
      simp only [step]; split
      · cases n <;> exact tok_sync _
      · exact h
    | succ k => exact h
  | dispose w => exact tok_sync _
  | tick => exact tok_sync _
theorem tok_init (span t0 : Nat) : TOk (Toc.init (α := α) span t0) := by
  intro hd; simp [init, createTimer, Base.subscribe, Base.emit, Base.outerNext, Base.newWin] at hd
theorem tok_fold (span count : Nat) (evs : List (Nat × Ev α)) (s : Toc α) (h : TOk s) : TOk ((Toc.mach span count).fold s evs) := by
  induction evs generalizing s with
  | nil => exact h
  | cons te es ih => exact ih _ (tok_step span count s te.1 te.2 h)
end Toc

end Win

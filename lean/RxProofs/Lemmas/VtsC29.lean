import RxProofs.Lemmas.Vts
/-! Definitions used in the statements of the C29 theorems and helper lemmas. -/

namespace C29
open Vts

theorem tick_none {cfg : Cfg} {tgt : Option Int} {s : St} {x : Item} {q' : PQ Item}
    (h : tick cfg tgt s x q' = none) : cfg.spinDeadlock = true := by
  simp only [tick] at h
  split at h
  · simp at h
  · split at h
    · split at h
      · assumption
      · simp at h
    · simp at h

theorem loop_not_stuck (cfg : Cfg) (hfix : cfg.spinDeadlock = false) (tgt : Option Int) :
    ∀ s : St, (loop cfg tgt s).2 ≠ .stuck := by
  intro s
  induction hn : s.queue.nodes using Nat.strongRecOn generalizing s with
  | _ n ih =>
    rw [loop_unfold]
    cases hi : iter cfg tgt s with
    | exit s' => simp
    | next x s' => simp only; exact ih _ (by subst hn; exact iter_next_nodes hi) s' rfl
    | raised s' e => simp
    | stuck s' =>
      exfalso
      rcases iter_cases cfg tgt s with ⟨he, _⟩ | ⟨x, q', _, _, _, ⟨ht, _⟩ | ⟨s2, _, hf⟩⟩
      · rw [he] at hi; simp at hi
      · rw [tick_none ht] at hfix; cases hfix
      · rw [hf] at hi
        rcases fin_cases cfg tgt s2 x with ⟨_, h2⟩ | ⟨_, ⟨_, _, h2⟩ | ⟨_, _, _, h2⟩⟩ <;> rw [h2] at hi <;> simp at hi

/-- bookkeeping: every item ever enqueued is pending, was executed, or was dequeued cancelled and skipped -/
def CountInv (s : St) : Prop := s.log.length + s.skipped.length + s.queue.items.length = s.nsched

theorem dequeue_length {q q' : PQ Item} {x : Item} (hd : q.dequeue? Item.due = some (x, q')) :
    q.items.length = q'.items.length + 1 := by
  simp only [PQ.dequeue?] at hd
  cases hp : popMinBy (PQ.entryLt Item.due) q.items with
  | none => rw [hp] at hd; simp at hd
  | some mr =>
    obtain ⟨m, r⟩ := mr
    rw [hp] at hd
    simp at hd
    obtain ⟨rfl, rfl⟩ := hd
    obtain ⟨pre, post, hl, hr, _, _⟩ :=
      popMinBy_split _ (PQ.entryLt_trans Item.due) (PQ.entryLt_negtrans Item.due) _ _ _ hp
    simp only [hl, hr, List.length_append, List.length_cons]; omega

theorem countInv_iter (cfg : Cfg) (tgt : Option Int) (φ : Step → Prop) :
    IterInv cfg tgt φ CountInv (fun _ => CountInv) where
  skip := by
    intro s x q' sp h _ _ hd _ _
    have := dequeue_length hd
    simp only [CountInv, List.length_append, List.length_singleton] at h ⊢; omega
  begin := by
    intro s x q' sp h _ _ hd _ _
    have := dequeue_length hd
    simp only [CountInv, List.length_append, List.length_singleton] at h ⊢; omega
  enq := by
    intro x s via m t cid child _ _ h
    simp only [CountInv, St.enqueue, PQ.enqueue, List.length_append, List.length_singleton] at h ⊢; omega
  cancel := by intro x s id h; simpa [CountInv, St.cancel] using h
  link := by intro x s l h; exact h
  stop := by intro x s _ h; exact h
  sleep := by intro x s t _ _ h; exact h
  handled := by intro x s e _ _ h; exact h
  finish := by intro x s sp h; exact h

theorem start_ok {cfg : Cfg} {s s' : St} (hen : s.enabled = false) (h : start cfg s = (s', .ok)) :
    ∃ s'', loop cfg none { s with enabled := true, spin := 0 } = (s'', .ok) ∧ s' = { s'' with enabled := false } := by
  simp only [start] at h
  rw [if_neg (by simp [hen])] at h
  rcases hl : loop cfg none { s with enabled := true, spin := 0 } with ⟨s'', o⟩
  rw [hl] at h
  cases o with
  | ok => simp at h; exact ⟨s'', rfl, h.symm⟩
  | raised e => simp at h
  | stuck => simp at h

/-- `n` no-op actions, all scheduled at the current time of a fresh scheduler with clock 0 -/
def sameTime (n : Nat) : St :=
  (List.range n).foldl (fun s i => s.enqueue i 0 .done false) { clock := 0 }

/-- datetime flavour as on the UNFIXED tree: bump 1000 µs, and the spin branch blocks -/
def histAsIs : Cfg := { bump := 1000, spinDeadlock := true }

/-- datetime flavour on the repaired tree -/
def histFixed : Cfg := { bump := 1000 }


end C29

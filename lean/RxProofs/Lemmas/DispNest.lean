import RxModel.DispNest
import RxProofs.Lemmas.DispC26
/-!
# Invariants of the nested thread model (Composite ∋ Serial ∋ leaves)
-/
namespace Disp

def nPendW (i : Nat) : NTh → Nat
  | (.pend l _, _) => l.count i
  | _ => 0

def nCallW : NTh → Nat
  | (.callS _, _) => 1
  | _ => 0

def nProgSets (i : Nat) : NTh → Nat
  | (_, p) => p.count (.setS i)

def nProgDispC : NTh → Nat
  | (.cChk, p) => 1 + p.count .dispC
  | (_, p) => p.count .dispC

theorem nOut_sh (s : NSh) (ev l r p) : (NSh.out s ev l r p).1.cnt = s.cnt ∧ (NSh.out s ev l r p).1.sCurrent = s.sCurrent
   ∧ (NSh.out s ev l r p).1.given = s.given ∧ (NSh.out s ev l r p).1.sDisposed = s.sDisposed
   ∧ (NSh.out s ev l r p).1.cDisposed = s.cDisposed ∧ (NSh.out s ev l r p).1.cHasS = s.cHasS
   ∧ (NSh.out s ev l r p).1.viaC = s.viaC ∧ (NSh.out s ev l r p).1.cCalls = s.cCalls := by
  cases l <;> simp [NSh.out]

theorem nOut_w (i : Nat) (s : NSh) (ev l r p) : nPendW i (NSh.out s ev l r p).2 = l.count i ∧
    nProgSets i (NSh.out s ev l r p).2 = p.count (.setS i) := by
  cases l <;> simp [NSh.out, nPendW, nProgSets]

theorem nOut_w0 (s : NSh) (ev l r p) : nCallW (NSh.out s ev l r p).2 = 0 ∧
    nProgDispC (NSh.out s ev l r p).2 = p.count .dispC := by
  cases l <;> simp [NSh.out, nCallW, nProgDispC]

structure NInv (G : Nat → Nat) (D : Nat) (s : Sys NSh NTh) : Prop where
  leaf : ∀ i, s.sh.cnt i + wsum (nPendW i) s.pcs + s.sh.sCurrent.toList.count i = s.sh.given i
  sdis : s.sh.sDisposed = true → s.sh.sCurrent = none
  once : s.sh.viaC + wsum nCallW s.pcs + s.sh.cHasS.toNat = 1
  cdis : s.sh.cDisposed = true → s.sh.cHasS = false
  via : 0 < s.sh.viaC → s.sh.sDisposed = true
  sets : ∀ i, s.sh.given i + wsum (nProgSets i) s.pcs = G i
  calls : s.sh.cCalls + wsum nProgDispC s.pcs = D
  ccall : 0 < s.sh.cCalls → s.sh.cDisposed = true

theorem nInv_step (G : Nat → Nat) (D : Nat) (s : Sys NSh NTh) (tid : Nat) (h : NInv G D s) :
    NInv G D (s.step nStep tid) := by
  apply Sys.step_cases nStep s tid (NInv G D) h
  intro t ht
  obtain ⟨c1, c2, c3, c4, c5, c6, c7, c8⟩ := h
  obtain ⟨rc, k1, k2⟩ := wsum_split nCallW s.pcs tid t ht
  obtain ⟨rd, d1, d2⟩ := wsum_split nProgDispC s.pcs tid t ht
  rw [k1] at c3
  rw [d1] at c7
  have hleaf : ∀ i, ∃ rest, s.sh.cnt i + (rest + nPendW i t) + s.sh.sCurrent.toList.count i = s.sh.given i ∧
      ∀ t', wsum (nPendW i) (s.pcs.set tid t') = rest + nPendW i t' := by
    intro i
    obtain ⟨rest, e1, e2⟩ := wsum_split (nPendW i) s.pcs tid t ht
    exact ⟨rest, by rw [← e1]; exact c1 i, e2⟩
  have hsets : ∀ i, ∃ rest, s.sh.given i + (rest + nProgSets i t) = G i ∧
      ∀ t', wsum (nProgSets i) (s.pcs.set tid t') = rest + nProgSets i t' := by
    intro i
    obtain ⟨rest, e1, e2⟩ := wsum_split (nProgSets i) s.pcs tid t ht
    exact ⟨rest, by rw [← e1]; exact c6 i, e2⟩
  clear c1 c6 k1 d1 ht
  obtain ⟨pc, prog⟩ := t
  have serD : ∀ (v : Bool) (r : RV) (hv : nCallW (pc, prog) = v.toNat) (p : List NOp)
      (hp : ∀ i, nProgSets i (pc, prog) = p.count (.setS i)) (hq : nProgDispC (pc, prog) = p.count .dispC)
      (hpd : ∀ i, nPendW i (pc, prog) = 0),
      NInv G D ⟨(s.sh.serDispose v r p).1, s.pcs.set tid (s.sh.serDispose v r p).2⟩ := by
    intro v r hv p hp hq hpd
    unfold NSh.serDispose
    split
    · rename_i hsd
      constructor <;> simp only [nOut_sh, nOut_w0, k2, d2]
      · intro i; obtain ⟨rest, e1, e2⟩ := hleaf i; rw [e2]; simp only [nOut_w]; rw [hpd i] at e1; simpa using e1
      · exact c2
      · rw [hv] at c3; omega
      · exact c4
      · intro _; exact hsd
      · intro i; obtain ⟨rest, e1, e2⟩ := hsets i; rw [e2]; simp only [nOut_w]; rw [hp i] at e1; exact e1
      · rw [hq] at c7; exact c7
      · exact c8
    · rename_i hsd
      constructor <;> simp only [nOut_sh, nOut_w0, k2, d2]
      · intro i; obtain ⟨rest, e1, e2⟩ := hleaf i; rw [e2]; simp only [nOut_w]; rw [hpd i] at e1
        simp at e1 ⊢; omega
      · intro _; trivial
      · rw [hv] at c3; omega
      · exact c4
      · intro _; trivial
      · intro i; obtain ⟨rest, e1, e2⟩ := hsets i; rw [e2]; simp only [nOut_w]; rw [hp i] at e1; exact e1
      · rw [hq] at c7; exact c7
      · exact c8
  cases pc with
  | idle =>
    cases prog with
    | nil =>
      simp only [nStep]
      refine ⟨fun i => ?_, c2, by simpa [k2] using c3, c4, c5, fun i => ?_, by simpa [d2] using c7, c8⟩
      · obtain ⟨rest, e1, e2⟩ := hleaf i; rw [e2]; exact e1
      · obtain ⟨rest, e1, e2⟩ := hsets i; rw [e2]; exact e1
    | cons op prog =>
      cases op with
      | dispC =>
        simp only [nStep]
        split
        · rename_i hcd
          refine ⟨fun i => ?_, c2, by simpa [k2, nCallW] using c3, c4, c5, fun i => ?_, ?_, fun _ => hcd⟩
          · obtain ⟨rest, e1, e2⟩ := hleaf i; rw [e2]; simpa [nPendW] using e1
          · obtain ⟨rest, e1, e2⟩ := hsets i; rw [e2]; simpa [nProgSets] using e1
          · simp [d2, nProgDispC] at c7 ⊢; omega
        · refine ⟨fun i => ?_, c2, by simpa [k2, nCallW] using c3, c4, c5, fun i => ?_, ?_, c8⟩
          · obtain ⟨rest, e1, e2⟩ := hleaf i; rw [e2]; simpa [nPendW] using e1
          · obtain ⟨rest, e1, e2⟩ := hsets i; rw [e2]; simpa [nProgSets] using e1
          · simp [d2, nProgDispC] at c7 ⊢; omega
      | removeS =>
        simp only [nStep]
        split
        · refine ⟨fun i => ?_, c2, by simpa [k2, nCallW] using c3, c4, c5, fun i => ?_, ?_, c8⟩
          · obtain ⟨rest, e1, e2⟩ := hleaf i; rw [e2]; simpa [nPendW] using e1
          · obtain ⟨rest, e1, e2⟩ := hsets i; rw [e2]; simpa [nProgSets] using e1
          · simp [d2, nProgDispC] at c7 ⊢; omega
        · refine ⟨fun i => ?_, c2, by simpa [k2, nCallW] using c3, c4, c5, fun i => ?_, ?_, c8⟩
          · obtain ⟨rest, e1, e2⟩ := hleaf i; rw [e2]; simpa [nPendW] using e1
          · obtain ⟨rest, e1, e2⟩ := hsets i; rw [e2]; simpa [nProgSets] using e1
          · simp [d2, nProgDispC] at c7 ⊢; omega
      | dispS =>
        simp only [nStep]
        exact serD false .unit rfl prog (fun i => by simp [nProgSets]) (by simp [nProgDispC]) (fun i => rfl)
      | setS v =>
        simp only [nStep]
        split
        · constructor <;> simp only [nOut_sh, nOut_w0, k2, d2]
          · intro i; obtain ⟨rest, e1, e2⟩ := hleaf i; rw [e2]; simp only [nOut_w]
            simp [nPendW, count_bump] at e1 ⊢; omega
          · exact c2
          · simpa [nCallW] using c3
          · exact c4
          · exact c5
          · intro i; obtain ⟨rest, e1, e2⟩ := hsets i; rw [e2]; simp only [nOut_w]
            simp only [nProgSets, List.count_cons] at e1
            by_cases hvi : v = i <;> simp [count_bump, hvi] at e1 ⊢ <;> omega
          · simpa [nProgDispC] using c7
          · exact c8
        · rename_i hsd
          constructor <;> simp only [nOut_sh, nOut_w0, k2, d2]
          · intro i; obtain ⟨rest, e1, e2⟩ := hleaf i; rw [e2]; simp only [nOut_w]
            simp [nPendW, count_bump] at e1 ⊢; omega
          · intro h; exact absurd h hsd
          · simpa [nCallW] using c3
          · exact c4
          · exact c5
          · intro i; obtain ⟨rest, e1, e2⟩ := hsets i; rw [e2]; simp only [nOut_w]
            simp only [nProgSets, List.count_cons] at e1
            by_cases hvi : v = i <;> simp [count_bump, hvi] at e1 ⊢ <;> omega
          · simpa [nProgDispC] using c7
          · exact c8
  | cChk =>
    simp only [nStep]
    split
    · refine ⟨fun i => ?_, c2, ?_, fun _ => rfl, c5, fun i => ?_, ?_, fun _ => rfl⟩
      · obtain ⟨rest, e1, e2⟩ := hleaf i; rw [e2]; simpa [nPendW] using e1
      · simp_all [k2, nCallW]
      · obtain ⟨rest, e1, e2⟩ := hsets i; rw [e2]; simpa [nProgSets] using e1
      · simp [d2, nProgDispC] at c7 ⊢; omega
    · rename_i hh
      refine ⟨fun i => ?_, c2, by simpa [k2, nCallW] using c3, fun _ => by simpa using hh, c5, fun i => ?_, ?_, fun _ => rfl⟩
      · obtain ⟨rest, e1, e2⟩ := hleaf i; rw [e2]; simpa [nPendW] using e1
      · obtain ⟨rest, e1, e2⟩ := hsets i; rw [e2]; simpa [nProgSets] using e1
      · simp [d2, nProgDispC] at c7 ⊢; omega
  | rChk =>
    simp only [nStep]
    split
    · rename_i hh
      refine ⟨fun i => ?_, c2, ?_, fun _ => rfl, c5, fun i => ?_, by simpa [d2, nProgDispC] using c7, c8⟩
      · obtain ⟨rest, e1, e2⟩ := hleaf i; rw [e2]; simpa [nPendW] using e1
      · simp_all [k2, nCallW]
      · obtain ⟨rest, e1, e2⟩ := hsets i; rw [e2]; simpa [nProgSets] using e1
    · refine ⟨fun i => ?_, c2, by simpa [k2, nCallW] using c3, c4, c5, fun i => ?_, by simpa [d2, nProgDispC] using c7, c8⟩
      · obtain ⟨rest, e1, e2⟩ := hleaf i; rw [e2]; simpa [nPendW] using e1
      · obtain ⟨rest, e1, e2⟩ := hsets i; rw [e2]; simpa [nProgSets] using e1
  | callS r =>
    simp only [nStep]
    exact serD true r rfl prog (fun i => by simp [nProgSets]) (by simp [nProgDispC]) (fun i => rfl)
  | pend l r =>
    match l with
    | [] =>
      simp only [nStep]
      refine ⟨fun i => ?_, c2, by simpa [k2, nCallW] using c3, c4, c5, fun i => ?_, by simpa [d2, nProgDispC] using c7, c8⟩
      · obtain ⟨rest, e1, e2⟩ := hleaf i; rw [e2]; simpa [nPendW] using e1
      · obtain ⟨rest, e1, e2⟩ := hsets i; rw [e2]; simpa [nProgSets] using e1
    | [j] =>
      simp only [nStep]
      refine ⟨fun i => ?_, c2, by simpa [k2, nCallW] using c3, c4, c5, fun i => ?_, by simpa [d2, nProgDispC] using c7, c8⟩
      · obtain ⟨rest, e1, e2⟩ := hleaf i; rw [e2]; simp [nPendW, count_bump] at e1 ⊢; omega
      · obtain ⟨rest, e1, e2⟩ := hsets i; rw [e2]; simpa [nProgSets] using e1
    | j :: k :: l =>
      simp only [nStep]
      refine ⟨fun i => ?_, c2, by simpa [k2, nCallW] using c3, c4, c5, fun i => ?_, by simpa [d2, nProgDispC] using c7, c8⟩
      · obtain ⟨rest, e1, e2⟩ := hleaf i; rw [e2]; simp [nPendW, count_bump, List.count_cons] at e1 ⊢; omega
      · obtain ⟨rest, e1, e2⟩ := hsets i; rw [e2]; simpa [nProgSets] using e1

end Disp

namespace Disp

def nTotalSets (progs : List (List NOp)) (i : Nat) : Nat := wsum (fun p => p.count (NOp.setS i)) progs
def nTotalDispC (progs : List (List NOp)) : Nat := wsum (fun p => p.count NOp.dispC) progs

theorem nInv_init (progs : List (List NOp)) : NInv (nTotalSets progs) (nTotalDispC progs) (nInit progs) := by
  have z1 : ∀ i, wsum (nPendW i) (nInit progs).pcs = 0 := by
    intro i; apply wsum_eq_zero; intro a ha; simp [nInit] at ha; obtain ⟨p, _, rfl⟩ := ha; rfl
  have z2 : wsum nCallW (nInit progs).pcs = 0 := by
    apply wsum_eq_zero; intro a ha; simp [nInit] at ha; obtain ⟨p, _, rfl⟩ := ha; rfl
  refine ⟨fun i => by rw [z1]; simp [nInit], by simp [nInit], by rw [z2]; simp [nInit], by simp [nInit], by simp [nInit],
    fun i => ?_, ?_, by simp [nInit]⟩
  · simp [nInit, nTotalSets, wsum_map, nProgSets]
  · simp [nInit, nTotalDispC, wsum_map, nProgDispC]

theorem nInv_run (progs : List (List NOp)) (sched : List Nat) :
    NInv (nTotalSets progs) (nTotalDispC progs) ((nInit progs).run nStep sched) :=
  Sys.run_inv nStep (NInv _ _) (nInv_step _ _) _ sched (nInv_init progs)

def nQuiet (s : Sys NSh NTh) : Prop := ∀ t ∈ s.pcs, t = (NPc.idle, [])
instance (s : Sys NSh NTh) : Decidable (nQuiet s) := by unfold nQuiet; infer_instance

theorem nQuiet_zero (s : Sys NSh NTh) (h : nQuiet s) (i : Nat) :
    wsum (nPendW i) s.pcs = 0 ∧ wsum nCallW s.pcs = 0 ∧ wsum (nProgSets i) s.pcs = 0 ∧ wsum nProgDispC s.pcs = 0 := by
  refine ⟨?_, ?_, ?_, ?_⟩ <;> (apply wsum_eq_zero; intro a ha; rw [h a ha]; rfl)

end Disp

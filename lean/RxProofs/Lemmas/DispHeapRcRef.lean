import RxProofs.Lemmas.DispHeapRc
import RxProofs.Lemmas.DispHeapRef
/-!
# Refinement lemmas for RefCountDisposable: one call run to completion in `Disp.rStep` vs `Pipe.apply` (C26Heap)
-/
namespace Disp
open Pipe

/-- the heap of a RefCountDisposable state, plus what holds of every state between calls -/
def RcRel (s : RSh) (h : Heap) : Prop :=
  h = rcH (decide (0 < s.und)) s.isPrimaryDisposed s.isDisposed s.deps ∧
  s.count = (wsum depLive s.deps : Int) ∧
  s.isDisposed = (s.isPrimaryDisposed && (wsum depLive s.deps == 0)) ∧
  decide (0 < s.und) = s.isDisposed

theorem settled_rcH (ud pd rel : Bool) (deps : List Dep) (h1 : rel = (pd && (wsum depLive deps == 0))) (h2 : ud = rel) :
    settle (rcH ud pd rel deps) = rcH ud pd rel deps := by
  rw [settle_rcH]
  subst h2 h1
  generalize (wsum depLive deps == 0) = z
  cases pd <;> cases z <;> rfl

def rToPipe : ROp → Pipe.Op
  | .get => .getInner 1
  | .rel j => .dispose (2 + j)
  | .relMine j => .dispose (2 + j)
  | .dispose => .dispose 1

/-- handles must exist; `relMine` is `rel` of an own handle and is left out of the refinement -/
def rOk (n : Nat) : ROp → Prop
  | .get => True
  | .rel j => j < n
  | .relMine _ => False
  | .dispose => True

theorem Reach.of_step {σ π} {f : σ → π → σ × π} {sh sh' : σ} {t t' : π} (h : f sh t = (sh', t')) :
    Reach f ⟨sh, [t]⟩ ⟨sh', [t']⟩ := by
  have := Reach.one f sh t; rw [h] at this; exact this

theorem r_op (s : RSh) (op : ROp) (p : List ROp) (mine : List Nat) (hop : rOk s.deps.length op) (h : Heap)
    (hr : RcRel s h) :
    ∃ s' mine', Reach rStep ⟨s, [⟨.idle, op :: p, mine⟩]⟩ ⟨s', [⟨.idle, p, mine'⟩]⟩ ∧
      RcRel s' (Pipe.apply h (rToPipe op)).1 ∧ (Pipe.apply h (rToPipe op)).2 = .ok ∧
      s'.deps.length = s.deps.length + (if op = .get then 1 else 0) ∧
      ∃ evs, s'.log = s.log ++ evs ∧ resOf evs = [Res.ok] := by
  obtain ⟨rfl, hcount, hdisp, hund⟩ := hr
  cases op with
  | relMine j => exact absurd hop (by simp [rOk])
  | get =>
    simp only [rToPipe]
    rw [apply_getInner]
    cases hd : s.isDisposed
    · refine ⟨_, _, by simpa [rStep, hd] using Reach.one rStep s ⟨.idle, .get :: p, mine⟩, ?_, rfl, by simp [RSh.ev], ⟨_, rfl, rfl⟩⟩
      have hlive : wsum depLive (s.deps ++ [Dep.inner true]) = wsum depLive s.deps + 1 := by simp [depLive]
      refine ⟨?_, by simp [RSh.ev, hlive, hcount], ?_, by show decide (0 < s.und) = false; rw [hund, hd]⟩
      · simp only [Bool.false_eq_true, if_false]
        rw [settle_rcH, hlive]
        simp [RSh.ev]; rfl
      · simp [RSh.ev, hlive]
    · refine ⟨_, _, by simpa [rStep, hd] using Reach.one rStep s ⟨.idle, .get :: p, mine⟩, ?_, rfl, by simp [RSh.ev], ⟨_, rfl, rfl⟩⟩
      have hlive : wsum depLive (s.deps ++ [Dep.inert false]) = wsum depLive s.deps := by simp [depLive]
      refine ⟨?_, by simpa [RSh.ev, hlive] using hcount, by simpa [RSh.ev, hlive, hd] using hdisp, by show decide (0 < s.und) = true; rw [hund, hd]⟩
      simp only [if_true]
      rw [settled_rcH _ _ _ _ (by rw [hlive]; rw [hd] at hdisp; exact hdisp) (by rw [hd] at hund; exact hund)]
      simp [RSh.ev]; rfl
  | dispose =>
    simp only [rToPipe]
    rw [apply_dispose_rc]
    cases hd : s.isDisposed
    · have e1 : rStep s ⟨.idle, .dispose :: p, mine⟩ = (s.ev [.rd false], ⟨.dispChecked, p, mine⟩) := by
        simp [rStep, hd]
      cases hp : s.isPrimaryDisposed
      · by_cases hc : s.count = 0
        · -- no live dependent: released now
          have hlive : wsum depLive s.deps = 0 := by omega
          have e2 : rStep (s.ev [.rd false]) ⟨.dispChecked, p, mine⟩ =
              ({ s with isPrimaryDisposed := true, isDisposed := true, pcalls := s.pcalls + 1,
                        log := s.log ++ [.rd false] ++ [.lock 0] }, ⟨.undPend, p, mine⟩) := by
            simp [rStep, RSh.ev, hp, hc]
          have e3 : rStep
              ({ s with isPrimaryDisposed := true, isDisposed := true, pcalls := s.pcalls + 1,
                        log := s.log ++ [.rd false] ++ [.lock 0] }) ⟨.undPend, p, mine⟩ =
              ({ s with isPrimaryDisposed := true, isDisposed := true, pcalls := s.pcalls + 1, und := s.und + 1,
                        log := s.log ++ [.rd false] ++ [.lock 0] ++ [.disp 0, .ret .unit] }, ⟨.idle, p, mine⟩) := by
            simp [rStep, RSh.ev]
          refine ⟨_, _, Reach.trans (Reach.of_step e1) (Reach.trans (Reach.of_step e2) (Reach.of_step e3)), ?_, rfl, by simp,
            ⟨[.rd false, .lock 0, .disp 0, .ret .unit], by simp, rfl⟩⟩
          refine ⟨?_, hcount, by simp [hlive], by simp⟩
          rw [settle_rcH, hlive]
          simp
        · -- live dependents keep the resource
          have hlive : wsum depLive s.deps ≠ 0 := by omega
          have e2 : rStep (s.ev [.rd false]) ⟨.dispChecked, p, mine⟩ =
              ({ s with isPrimaryDisposed := true, pcalls := s.pcalls + 1,
                        log := s.log ++ [.rd false] ++ [.lock 0, .ret .unit] }, ⟨.idle, p, mine⟩) := by
            simp [rStep, RSh.ev, hp, hc]
          refine ⟨_, _, Reach.trans (Reach.of_step e1) (Reach.of_step e2), ?_, rfl, by simp,
            ⟨[.rd false, .lock 0, .ret .unit], by simp, rfl⟩⟩
          refine ⟨?_, hcount, by simp [hlive, hd], by show decide (0 < s.und) = s.isDisposed; exact hund⟩
          rw [settle_rcH]
          have : decide (0 < s.und) = false := by rw [hund, hd]
          have hb : (wsum depLive s.deps == 0) = false := by simp [hlive]
          simp [hb, hd, this]
      · -- primary already disposed, dependents still live
        have hlive : wsum depLive s.deps ≠ 0 := by
          intro h0; rw [hd, hp, h0] at hdisp; simp at hdisp
        have e2 : rStep (s.ev [.rd false]) ⟨.dispChecked, p, mine⟩ =
            ({ s with pcalls := s.pcalls + 1, log := s.log ++ [.rd false] ++ [.lock 0, .ret .unit] }, ⟨.idle, p, mine⟩) := by
          simp [rStep, RSh.ev, hp]
        refine ⟨_, _, Reach.trans (Reach.of_step e1) (Reach.of_step e2), ?_, rfl, by simp,
          ⟨[.rd false, .lock 0, .ret .unit], by simp, rfl⟩⟩
        refine ⟨?_, hcount, hdisp, hund⟩
        rw [settle_rcH]
        have : decide (0 < s.und) = false := by rw [hund, hd]
        have hb : (wsum depLive s.deps == 0) = false := by simp [hlive]
        simp [hb, hd, hp, this]
    · -- already released
      have hp : s.isPrimaryDisposed = true := by
        rw [hd] at hdisp; cases h : s.isPrimaryDisposed <;> simp_all
      have e1 : rStep s ⟨.idle, .dispose :: p, mine⟩ =
          ({ s with pcalls := s.pcalls + 1, log := s.log ++ [.rd true, .ret .unit] }, ⟨.idle, p, mine⟩) := by
        simp [rStep, RSh.ev, hd]
      refine ⟨_, _, Reach.of_step e1, ?_, rfl, by simp, ⟨[.rd true, .ret .unit], by simp, rfl⟩⟩
      refine ⟨?_, hcount, hdisp, hund⟩
      rw [settled_rcH _ _ _ _ (by rw [← hp]; rw [hd] at hdisp; rw [hp] at hdisp ⊢; exact hdisp) (by rw [hd] at hund; exact hund)]
      simp [hp, hd]
  | rel j =>
    simp only [rOk] at hop
    simp only [rToPipe]
    have hdj : s.deps[j]? = some s.deps[j] := List.getElem?_eq_getElem hop
    obtain ⟨rest, hw1, hw2⟩ := wsum_split depLive s.deps j s.deps[j] hdj
    rw [apply_dispose_dep _ _ _ _ j _ hdj]
    generalize hdd : s.deps[j] = d at hdj hw1 ⊢
    cases d with
    | inert b =>
      have e1 : rStep s ⟨.idle, .rel j :: p, mine⟩ =
          ({ s with deps := s.deps.set j (Dep.inert true), log := s.log ++ [.lock (j + 1), .ret .unit] }, ⟨.idle, p, mine⟩) := by
        simp [rStep, rRel, hdj, RSh.ev]
      have hlive : wsum depLive (s.deps.set j (Dep.inert true)) = wsum depLive s.deps := by
        rw [hw2, hw1]; simp [depLive]
      refine ⟨_, _, Reach.of_step e1, ?_, rfl, by simp, ⟨[.lock (j + 1), .ret .unit], by simp, rfl⟩⟩
      refine ⟨?_, by simpa [hlive] using hcount, by simpa [hlive] using hdisp, hund⟩
      simp only [depDone]
      rw [settled_rcH _ _ _ _ (by rw [hlive]; exact hdisp) hund]
    | inner b =>
      cases b
      · -- already disposed dependent: nothing happens
        have e1 : rStep s ⟨.idle, .rel j :: p, mine⟩ =
            ({ s with log := s.log ++ [.lock (j + 1), .ret .unit] }, ⟨.idle, p, mine⟩) := by
          simp [rStep, rRel, hdj, RSh.ev]
        have hset : s.deps.set j (Dep.inner false) = s.deps := by
          rw [← hdd]; exact List.set_getElem_self hop
        refine ⟨_, _, Reach.of_step e1, ?_, rfl, by simp, ⟨[.lock (j + 1), .ret .unit], by simp, rfl⟩⟩
        refine ⟨?_, hcount, hdisp, hund⟩
        simp only [depDone, hset]
        rw [settled_rcH _ _ _ _ hdisp hund]
      · -- live dependent: release
        have hlive : wsum depLive (s.deps.set j (Dep.inner false)) = rest := by rw [hw2]; simp [depLive]
        have hpos : wsum depLive s.deps = rest + 1 := by rw [hw1]; simp [depLive]
        have hd : s.isDisposed = false := by rw [hdisp, hpos]; simp
        have hu0 : decide (0 < s.und) = false := by rw [hund, hd]
        have e1 : rStep s ⟨.idle, .rel j :: p, mine⟩ =
            ({ s with deps := s.deps.set j (Dep.inner false), log := s.log ++ [.lock (j + 1)] }, ⟨.releasing, p, mine⟩) := by
          simp [rStep, rRel, hdj, RSh.ev]
        have e2 : rStep ({ s with deps := s.deps.set j (Dep.inner false), log := s.log ++ [.lock (j + 1)] }) ⟨.releasing, p, mine⟩ =
            ({ s with deps := s.deps.set j (Dep.inner false), log := s.log ++ [.lock (j + 1)] ++ [.rd false] }, ⟨.relChecked, p, mine⟩) := by
          simp [rStep, RSh.ev, hd]
        have hc1 : s.count - 1 = (rest : Int) := by rw [hcount, hpos]; omega
        cases hp : s.isPrimaryDisposed
        · -- primary not disposed: just the decrement
          have e3 : rStep ({ s with deps := s.deps.set j (Dep.inner false), log := s.log ++ [.lock (j + 1)] ++ [.rd false] }) ⟨.relChecked, p, mine⟩ =
              ({ s with deps := s.deps.set j (Dep.inner false), count := s.count - 1, decs := s.decs + 1,
                        log := s.log ++ [.lock (j + 1)] ++ [.rd false] ++ [.lock 0, .ret .unit] }, ⟨.idle, p, mine⟩) := by
            simp [rStep, RSh.ev, hp]
          refine ⟨_, _, Reach.trans (Reach.of_step e1) (Reach.trans (Reach.of_step e2) (Reach.of_step e3)), ?_, rfl, by simp,
            ⟨[.lock (j + 1), .rd false, .lock 0, .ret .unit], by simp, rfl⟩⟩
          refine ⟨?_, by simpa [hlive] using hc1, by simp [hd, hp], by show decide (0 < s.und) = s.isDisposed; exact hund⟩
          simp only [depDone]
          rw [settle_rcH, hlive]
          simp [hd, hp, hu0]
        · by_cases hz : rest = 0
          · -- last dependent after the primary: released now
            have e3 : rStep ({ s with deps := s.deps.set j (Dep.inner false), log := s.log ++ [.lock (j + 1)] ++ [.rd false] }) ⟨.relChecked, p, mine⟩ =
                ({ s with deps := s.deps.set j (Dep.inner false), count := s.count - 1, decs := s.decs + 1, isDisposed := true,
                          log := s.log ++ [.lock (j + 1)] ++ [.rd false] ++ [.lock 0] }, ⟨.undPend, p, mine⟩) := by
              have : s.count - 1 = 0 := by rw [hc1, hz]; rfl
              simp [rStep, RSh.ev, hp, this]
            have e4 : rStep
                ({ s with deps := s.deps.set j (Dep.inner false), count := s.count - 1, decs := s.decs + 1, isDisposed := true,
                          log := s.log ++ [.lock (j + 1)] ++ [.rd false] ++ [.lock 0] }) ⟨.undPend, p, mine⟩ =
                ({ s with deps := s.deps.set j (Dep.inner false), count := s.count - 1, decs := s.decs + 1, isDisposed := true,
                          und := s.und + 1,
                          log := s.log ++ [.lock (j + 1)] ++ [.rd false] ++ [.lock 0] ++ [.disp 0, .ret .unit] }, ⟨.idle, p, mine⟩) := by
              simp [rStep, RSh.ev]
            refine ⟨_, _, Reach.trans (Reach.of_step e1) (Reach.trans (Reach.of_step e2) (Reach.trans (Reach.of_step e3) (Reach.of_step e4))),
              ?_, rfl, by simp, ⟨[.lock (j + 1), .rd false, .lock 0, .disp 0, .ret .unit], by simp, rfl⟩⟩
            refine ⟨?_, by simpa [hlive] using hc1, by simp [hp, hlive, hz], by simp⟩
            simp only [depDone]
            rw [settle_rcH, hlive]
            simp [hd, hp, hz]
          · -- other dependents remain
            have e3 : rStep ({ s with deps := s.deps.set j (Dep.inner false), log := s.log ++ [.lock (j + 1)] ++ [.rd false] }) ⟨.relChecked, p, mine⟩ =
                ({ s with deps := s.deps.set j (Dep.inner false), count := s.count - 1, decs := s.decs + 1,
                          log := s.log ++ [.lock (j + 1)] ++ [.rd false] ++ [.lock 0, .ret .unit] }, ⟨.idle, p, mine⟩) := by
              have : ¬ (s.count - 1 = 0) := by rw [hc1]; omega
              simp [rStep, RSh.ev, hp, this]
            refine ⟨_, _, Reach.trans (Reach.of_step e1) (Reach.trans (Reach.of_step e2) (Reach.of_step e3)), ?_, rfl, by simp,
              ⟨[.lock (j + 1), .rd false, .lock 0, .ret .unit], by simp, rfl⟩⟩
            have hb : (rest == 0) = false := by simp [hz]
            refine ⟨?_, by simpa [hlive] using hc1, by simp [hd, hp, hlive, hb], by show decide (0 < s.und) = s.isDisposed; exact hund⟩
            simp only [depDone]
            rw [settle_rcH, hlive]
            simp [hd, hp, hu0, hb]


/-- every `rel j` refers to a dependent handed out earlier in the history -/
def rValid : Nat → List ROp → Prop
  | _, [] => True
  | n, op :: ops => rOk n op ∧ rValid (if op = .get then n + 1 else n) ops

theorem r_hist (ops : List ROp) (s : RSh) (mine : List Nat) (h : Heap)
    (hv : rValid s.deps.length ops) (hr : RcRel s h) :
    ∃ s' mine', Reach rStep ⟨s, [⟨.idle, ops, mine⟩]⟩ ⟨s', [⟨.idle, [], mine'⟩]⟩ ∧
      RcRel s' (Pipe.run h (ops.map rToPipe)) ∧
      ∃ evs, s'.log = s.log ++ evs ∧ resOf evs = Pipe.runRes h (ops.map rToPipe) := by
  induction ops generalizing s mine h with
  | nil => exact ⟨s, mine, Reach.refl _ _, hr, [], by simp, rfl⟩
  | cons op ops ih =>
    obtain ⟨hok, hv'⟩ := hv
    obtain ⟨s1, m1, hreach1, hr1, hres1, hlen, evs1, hl1, he1⟩ := r_op s op ops mine hok h hr
    have hv1 : rValid s1.deps.length ops := by
      rw [hlen]; by_cases hg : op = .get <;> simpa [hg] using hv'
    obtain ⟨s2, m2, hreach2, hr2, evs2, hl2, he2⟩ := ih s1 m1 _ hv1 hr1
    refine ⟨s2, m2, Reach.trans hreach1 hreach2, by simpa [Pipe.run] using hr2, evs1 ++ evs2, by simp [hl2, hl1], ?_⟩
    rw [resOf_append, he1, he2]
    simp [Pipe.runRes, hres1]

end Disp

import RxModel.Win
/-!
# Lemmas about the shared window bookkeeping (`Win.Base`): which operations touch `pushed` / `ended`.
-/
namespace Win
variable {α : Type}

namespace Base

@[simp] theorem wins_emit (b : Base α) (o) : (b.emit o).wins = b.wins := rfl
@[simp] theorem wins_subscribe (b : Base α) (k) : (b.subscribe k).wins = b.wins := rfl
@[simp] theorem wins_unsub (b : Base α) (k) : (b.unsub k).wins = b.wins := by
  unfold unsub; split <;> rfl

theorem wins_foldl_unsub (l : List Nat) (b : Base α) : (l.foldl unsub b).wins = b.wins := by
  induction l generalizing b with
  | nil => rfl
  | cons k l ih => simp [List.foldl_cons, ih]

@[simp] theorem wins_disposeUnderlying (b : Base α) : b.disposeUnderlying.wins = b.wins := by
  unfold disposeUnderlying; exact wins_foldl_unsub _ _

@[simp] theorem wins_rcDispose (b : Base α) : b.rcDispose.wins = b.wins := by
  unfold rcDispose; split; rfl; split; rfl; simp only []; split <;> simp

@[simp] theorem wins_rcRelease (b : Base α) : b.rcRelease.wins = b.wins := by
  unfold rcRelease; split; rfl; simp only []; split <;> simp

@[simp] theorem wins_outerEnd (b : Base α) (e) : (b.outerEnd e).wins = b.wins := by
  unfold outerEnd; split; rfl; simp

@[simp] theorem wins_outerDispose (b : Base α) : b.outerDispose.wins = b.wins := by
  unfold outerDispose; simp

end Base
end Win
namespace Win
variable {α : Type}
namespace Base

theorem getElem?_outerNext (b : Base α) (i j : Nat) :
    (b.outerNext i).wins[j]? = (b.wins[j]?).map (fun w => if i = j ∧ !b.outerStopped then { w with attached := true } else w) := by
  unfold outerNext; split
  · simp_all
  · simp only [emit]
    by_cases hr : b.rcDisposed = true <;> simp [hr, List.getElem?_modify] <;> split <;> simp_all

@[simp] theorem length_outerNext (b : Base α) (i : Nat) : (b.outerNext i).wins.length = b.wins.length := by
  unfold outerNext; split; rfl; simp only [emit]; by_cases hr : b.rcDisposed = true <;> simp [hr]

@[simp] theorem pushedOf_outerNext (b : Base α) (i j : Nat) : (b.outerNext i).pushedOf j = b.pushedOf j := by
  unfold pushedOf; rw [getElem?_outerNext]; cases b.wins[j]? <;> simp; split <;> rfl

@[simp] theorem endedOf_outerNext (b : Base α) (i j : Nat) : (b.outerNext i).endedOf j = b.endedOf j := by
  unfold endedOf; rw [getElem?_outerNext]; cases b.wins[j]? <;> simp; split <;> rfl

end Base
end Win
namespace Win
variable {α : Type}
namespace Base

@[simp] theorem pushedOf_emit (b : Base α) (o) (j) : (b.emit o).pushedOf j = b.pushedOf j := rfl
@[simp] theorem endedOf_emit (b : Base α) (o) (j) : (b.emit o).endedOf j = b.endedOf j := rfl

theorem pushedOf_congr {b b' : Base α} (h : b'.wins = b.wins) (j) : b'.pushedOf j = b.pushedOf j := by
  unfold pushedOf; rw [h]
theorem endedOf_congr {b b' : Base α} (h : b'.wins = b.wins) (j) : b'.endedOf j = b.endedOf j := by
  unfold endedOf; rw [h]

@[simp] theorem pushedOf_rcRelease (b : Base α) (j) : b.rcRelease.pushedOf j = b.pushedOf j := pushedOf_congr (by simp) j
@[simp] theorem endedOf_rcRelease (b : Base α) (j) : b.rcRelease.endedOf j = b.endedOf j := endedOf_congr (by simp) j
@[simp] theorem pushedOf_outerEnd (b : Base α) (e j) : (b.outerEnd e).pushedOf j = b.pushedOf j := pushedOf_congr (by simp) j
@[simp] theorem endedOf_outerEnd (b : Base α) (e j) : (b.outerEnd e).endedOf j = b.endedOf j := endedOf_congr (by simp) j
@[simp] theorem pushedOf_unsub (b : Base α) (k j) : (b.unsub k).pushedOf j = b.pushedOf j := pushedOf_congr (by simp) j
@[simp] theorem endedOf_unsub (b : Base α) (k j) : (b.unsub k).endedOf j = b.endedOf j := endedOf_congr (by simp) j
@[simp] theorem pushedOf_subscribe (b : Base α) (k j) : (b.subscribe k).pushedOf j = b.pushedOf j := rfl
@[simp] theorem endedOf_subscribe (b : Base α) (k j) : (b.subscribe k).endedOf j = b.endedOf j := rfl

/-! newWin -/
@[simp] theorem newWin_id (b : Base α) : b.newWin.2 = b.wins.length := rfl
@[simp] theorem length_newWin (b : Base α) : b.newWin.1.wins.length = b.wins.length + 1 := by simp [newWin]

theorem pushedOf_newWin (b : Base α) (j) : b.newWin.1.pushedOf j = b.pushedOf j := by
  unfold pushedOf newWin
  by_cases h : j < b.wins.length
  · simp [List.getElem?_append_left h]
  · have h' : b.wins.length ≤ j := Nat.le_of_not_lt h
    rw [List.getElem?_append_right h', List.getElem?_eq_none h']
    cases hj : ([({} : W α)])[j - b.wins.length]? with
    | none => rfl
    | some w =>
      have := List.mem_of_getElem? hj
      simp at this; subst this; rfl

theorem endedOf_newWin (b : Base α) (j) : b.newWin.1.endedOf j = b.endedOf j := by
  unfold endedOf newWin
  by_cases h : j < b.wins.length
  · simp [List.getElem?_append_left h]
  · have h' : b.wins.length ≤ j := Nat.le_of_not_lt h
    rw [List.getElem?_append_right h', List.getElem?_eq_none h']
    cases hj : ([({} : W α)])[j - b.wins.length]? with
    | none => rfl
    | some w =>
      have := List.mem_of_getElem? hj
      simp at this; subst this; rfl

/-! winNext / winEnd -/
@[simp] theorem length_winNext (b : Base α) (i x) : (b.winNext i x).wins.length = b.wins.length := by
  unfold winNext; split; rfl; split; rfl; simp only []; split <;> simp [emit]

@[simp] theorem length_winEnd (b : Base α) (i e) : (b.winEnd i e).wins.length = b.wins.length := by
  unfold winEnd; split; rfl; split; rfl; simp only []; split <;> simp [emit]

theorem pushedOf_winNext (b : Base α) (i j : Nat) (x : α) :
    (b.winNext i x).pushedOf j =
      if i = j ∧ j < b.wins.length ∧ b.endedOf j = none then b.pushedOf j ++ [x] else b.pushedOf j := by
  unfold winNext
  cases hw : b.wins[i]? with
  | none =>
    simp only []
    have : ¬ i < b.wins.length := by
      intro h; rw [List.getElem?_eq_getElem h] at hw; cases hw
    split
    · rename_i h; exact absurd (h.1 ▸ h.2.1) this
    · rfl
  | some w =>
    have hi : i < b.wins.length := (List.getElem?_eq_some_iff.mp hw).1
    simp only []
    by_cases he : w.ended.isSome = true
    · simp only [he, if_true]
      split
      · rename_i h; obtain ⟨rfl, _, h3⟩ := h
        simp [endedOf, hw] at h3; simp [h3] at he
      · rfl
    · have he' : w.ended.isSome = false := by simpa using he
      simp only [he', Bool.false_eq_true, if_false]
      have hpush : ∀ (b' : Base α), b'.wins = b.wins.set i { w with pushed := w.pushed ++ [x] } →
          b'.pushedOf j = if i = j ∧ j < b.wins.length ∧ b.endedOf j = none then b.pushedOf j ++ [x] else b.pushedOf j := by
        intro b' hb'
        unfold pushedOf; rw [hb']
        by_cases hij : i = j
        · subst hij
          have : b.endedOf i = none := by simp [endedOf, hw]; simpa using he
          have hwi : b.wins[i] = w := (List.getElem?_eq_some_iff.mp hw).2
          simp [hi, this, hwi]
        · simp [hij, List.getElem?_set_ne hij]
      apply hpush; by_cases ha : w.attached = true <;> simp [ha]

end Base
end Win
namespace Win
variable {α : Type}
namespace Base

theorem pushedOf_set {b b' : Base α} {i : Nat} {w w' : W α} (hw : b.wins[i]? = some w)
    (h : b'.wins = b.wins.set i w') (j : Nat) : b'.pushedOf j = if i = j then w'.pushed else b.pushedOf j := by
  have hi : i < b.wins.length := (List.getElem?_eq_some_iff.mp hw).1
  unfold pushedOf; rw [h]
  by_cases hij : i = j
  · subst hij; simp [hi]
  · simp [hij, List.getElem?_set_ne hij]

theorem endedOf_set {b b' : Base α} {i : Nat} {w w' : W α} (hw : b.wins[i]? = some w)
    (h : b'.wins = b.wins.set i w') (j : Nat) : b'.endedOf j = if i = j then w'.ended else b.endedOf j := by
  have hi : i < b.wins.length := (List.getElem?_eq_some_iff.mp hw).1
  unfold endedOf; rw [h]
  by_cases hij : i = j
  · subst hij; simp [hi]
  · simp [hij, List.getElem?_set_ne hij]

theorem endedOf_of_get {b : Base α} {i : Nat} {w : W α} (hw : b.wins[i]? = some w) : b.endedOf i = w.ended := by
  simp [endedOf, hw]
theorem pushedOf_of_get {b : Base α} {i : Nat} {w : W α} (hw : b.wins[i]? = some w) : b.pushedOf i = w.pushed := by
  simp [pushedOf, hw]
theorem endedOf_none_of_ge {b : Base α} {i : Nat} (h : b.wins.length ≤ i) : b.endedOf i = none := by
  simp [endedOf, List.getElem?_eq_none h]
theorem pushedOf_nil_of_ge {b : Base α} {i : Nat} (h : b.wins.length ≤ i) : b.pushedOf i = [] := by
  simp [pushedOf, List.getElem?_eq_none h]

@[simp] theorem endedOf_winNext (b : Base α) (i j : Nat) (x : α) : (b.winNext i x).endedOf j = b.endedOf j := by
  unfold winNext
  cases hw : b.wins[i]? with
  | none => rfl
  | some w =>
    simp only []
    by_cases he : w.ended.isSome = true
    · simp [he]
    · have he' : w.ended.isSome = false := by simpa using he
      simp only [he', Bool.false_eq_true, if_false]
      have key : ∀ b' : Base α, b'.wins = b.wins.set i { w with pushed := w.pushed ++ [x] } → b'.endedOf j = b.endedOf j := by
        intro b' hb'
        rw [endedOf_set hw hb']; split
        · rename_i h; subst h; exact (endedOf_of_get hw).symm
        · rfl
      apply key; by_cases ha : w.attached = true <;> simp [ha]

@[simp] theorem pushedOf_winEnd (b : Base α) (i j : Nat) (e) : (b.winEnd i e).pushedOf j = b.pushedOf j := by
  unfold winEnd
  cases hw : b.wins[i]? with
  | none => rfl
  | some w =>
    simp only []
    by_cases he : w.ended.isSome = true
    · simp [he]
    · have he' : w.ended.isSome = false := by simpa using he
      simp only [he', Bool.false_eq_true, if_false]
      have key : ∀ b' : Base α, b'.wins = b.wins.set i { w with ended := some e, attached := false } → b'.pushedOf j = b.pushedOf j := by
        intro b' hb'
        rw [pushedOf_set hw hb']; split
        · rename_i h; subst h; exact (pushedOf_of_get hw).symm
        · rfl
      apply key; by_cases ha : w.attached = true <;> simp [ha]

theorem endedOf_winEnd (b : Base α) (i j : Nat) (e) :
    (b.winEnd i e).endedOf j = if i = j ∧ j < b.wins.length ∧ b.endedOf j = none then some e else b.endedOf j := by
  unfold winEnd
  cases hw : b.wins[i]? with
  | none =>
    simp only []
    have : ¬ i < b.wins.length := by
      intro h; rw [List.getElem?_eq_getElem h] at hw; cases hw
    split
    · rename_i h; exact absurd (h.1 ▸ h.2.1) this
    · rfl
  | some w =>
    have hi : i < b.wins.length := (List.getElem?_eq_some_iff.mp hw).1
    simp only []
    by_cases he : w.ended.isSome = true
    · simp only [he, if_true]
      split
      · rename_i h; obtain ⟨rfl, _, h3⟩ := h
        rw [endedOf_of_get hw] at h3; simp [h3] at he
      · rfl
    · have he' : w.ended.isSome = false := by simpa using he
      simp only [he', Bool.false_eq_true, if_false]
      have key : ∀ b' : Base α, b'.wins = b.wins.set i { w with ended := some e, attached := false } →
          b'.endedOf j = if i = j ∧ j < b.wins.length ∧ b.endedOf j = none then some e else b.endedOf j := by
        intro b' hb'
        rw [endedOf_set hw hb']
        by_cases hij : i = j
        · subst hij
          have : b.endedOf i = none := by rw [endedOf_of_get hw]; simpa using he
          simp [hi, this]
        · simp [hij]
      apply key; by_cases ha : w.attached = true <;> simp [ha]

end Base
end Win
namespace Win
variable {α : Type}
namespace Base

@[simp] theorem length_foldl_winNext (q : List Nat) (b : Base α) (x : α) :
    (q.foldl (fun b id => b.winNext id x) b).wins.length = b.wins.length := by
  induction q generalizing b with
  | nil => rfl
  | cons i q ih => simp [List.foldl_cons, ih]

@[simp] theorem endedOf_foldl_winNext (q : List Nat) (b : Base α) (x : α) (j : Nat) :
    (q.foldl (fun b id => b.winNext id x) b).endedOf j = b.endedOf j := by
  induction q generalizing b with
  | nil => rfl
  | cons i q ih => simp [List.foldl_cons, ih]

theorem pushedOf_foldl_winNext (q : List Nat) (hq : q.Nodup) (b : Base α) (x : α) (j : Nat) :
    (q.foldl (fun b id => b.winNext id x) b).pushedOf j =
      if j ∈ q ∧ j < b.wins.length ∧ b.endedOf j = none then b.pushedOf j ++ [x] else b.pushedOf j := by
  induction q generalizing b with
  | nil => simp
  | cons i q ih =>
    have hq' := (List.nodup_cons.mp hq)
    rw [List.foldl_cons, ih hq'.2, pushedOf_winNext, endedOf_winNext, length_winNext]
    by_cases hij : i = j
    · subst hij
      have : i ∉ q := hq'.1
      simp [this]
    · have : j ≠ i := fun h => hij h.symm
      simp [hij, this]

end Base
end Win
namespace Win
variable {α : Type}
namespace Base

@[simp] theorem pushedOf_rcDispose (b : Base α) (j) : b.rcDispose.pushedOf j = b.pushedOf j := pushedOf_congr (by simp) j
@[simp] theorem endedOf_rcDispose (b : Base α) (j) : b.rcDispose.endedOf j = b.endedOf j := endedOf_congr (by simp) j
@[simp] theorem pushedOf_outerDispose (b : Base α) (j) : b.outerDispose.pushedOf j = b.pushedOf j := pushedOf_congr (by simp) j
@[simp] theorem endedOf_outerDispose (b : Base α) (j) : b.outerDispose.endedOf j = b.endedOf j := endedOf_congr (by simp) j
@[simp] theorem pushedOf_now (b : Base α) (t j) : ({ b with now := t } : Base α).pushedOf j = b.pushedOf j := rfl
@[simp] theorem endedOf_now (b : Base α) (t j) : ({ b with now := t } : Base α).endedOf j = b.endedOf j := rfl
@[simp] theorem length_now (b : Base α) (t) : ({ b with now := t } : Base α).wins.length = b.wins.length := rfl

@[simp] theorem length_winDetach (b : Base α) (i) : (b.winDetach i).wins.length = b.wins.length := by
  unfold winDetach; split; rfl; split <;> simp

theorem pushedOf_winDetach (b : Base α) (i j) : (b.winDetach i).pushedOf j = b.pushedOf j := by
  unfold winDetach
  cases hw : b.wins[i]? with
  | none => rfl
  | some w =>
    simp only []; split
    · rw [pushedOf_rcRelease, pushedOf_set hw rfl]; split
      · rename_i h; subst h; exact (pushedOf_of_get hw).symm
      · rfl
    · rfl

theorem endedOf_winDetach (b : Base α) (i j) : (b.winDetach i).endedOf j = b.endedOf j := by
  unfold winDetach
  cases hw : b.wins[i]? with
  | none => rfl
  | some w =>
    simp only []; split
    · rw [endedOf_rcRelease, endedOf_set hw rfl]; split
      · rename_i h; subst h; exact (endedOf_of_get hw).symm
      · rfl
    · rfl

theorem foldl_winDetach (l : List Nat) (b : Base α) :
    (l.foldl winDetach b).wins.length = b.wins.length ∧
    (∀ j, (l.foldl winDetach b).pushedOf j = b.pushedOf j) ∧ (∀ j, (l.foldl winDetach b).endedOf j = b.endedOf j) := by
  induction l generalizing b with
  | nil => simp
  | cons i l ih =>
    obtain ⟨h1, h2, h3⟩ := ih (b.winDetach i)
    refine ⟨by rw [List.foldl_cons, h1]; simp, fun j => ?_, fun j => ?_⟩
    · rw [List.foldl_cons, h2, pushedOf_winDetach]
    · rw [List.foldl_cons, h3, endedOf_winDetach]

@[simp] theorem length_disposeEv (b : Base α) (w) : (b.disposeEv w).wins.length = b.wins.length := by
  unfold disposeEv; simp only []; split
  · rw [(foldl_winDetach _ _).1]; simp
  · simp
@[simp] theorem pushedOf_disposeEv (b : Base α) (w j) : (b.disposeEv w).pushedOf j = b.pushedOf j := by
  unfold disposeEv; simp only []; split
  · rw [(foldl_winDetach _ _).2.1]; simp
  · simp
@[simp] theorem endedOf_disposeEv (b : Base α) (w j) : (b.disposeEv w).endedOf j = b.endedOf j := by
  unfold disposeEv; simp only []; split
  · rw [(foldl_winDetach _ _).2.2]; simp
  · simp

@[simp] theorem length_outerEnd (b : Base α) (e) : (b.outerEnd e).wins.length = b.wins.length := by rw [wins_outerEnd]
@[simp] theorem length_unsub (b : Base α) (k) : (b.unsub k).wins.length = b.wins.length := by rw [wins_unsub]
@[simp] theorem length_subscribe (b : Base α) (k) : (b.subscribe k).wins.length = b.wins.length := rfl
@[simp] theorem length_emit (b : Base α) (o) : (b.emit o).wins.length = b.wins.length := rfl

/-- after `winEnd`, an existing window is ended. -/
theorem endedOf_winEnd_self (b : Base α) (i e) (h : i < b.wins.length) : ((b.winEnd i e).endedOf i).isSome := by
  rw [endedOf_winEnd]; split
  · rfl
  · rename_i hn
    cases he : b.endedOf i with
    | none => exact absurd ⟨rfl, h, he⟩ hn
    | some _ => rfl

theorem endedOf_winEnd_mono (b : Base α) (i j e) (h : (b.endedOf j).isSome) : ((b.winEnd i e).endedOf j).isSome := by
  rw [endedOf_winEnd]; split
  · rfl
  · exact h

/-- folding `winEnd` over a list of ids. -/
theorem foldl_winEnd (l : List Nat) (e : Option Err) (b : Base α) :
    (l.foldl (fun b id => b.winEnd id e) b).wins.length = b.wins.length ∧
    (∀ j, (l.foldl (fun b id => b.winEnd id e) b).pushedOf j = b.pushedOf j) ∧
    (∀ j, (b.endedOf j).isSome → (l.foldl (fun b id => b.winEnd id e) b).endedOf j = b.endedOf j) ∧
    (∀ j, j < b.wins.length → b.endedOf j = none →
        (l.foldl (fun b id => b.winEnd id e) b).endedOf j = if j ∈ l then some e else none) := by
  induction l generalizing b with
  | nil => simp
  | cons i l ih =>
    obtain ⟨h1, h2, h3, h4⟩ := ih (b.winEnd i e)
    refine ⟨by rw [List.foldl_cons, h1]; simp, fun j => by rw [List.foldl_cons, h2]; simp, fun j hj => ?_, fun j hj hn => ?_⟩
    · rw [List.foldl_cons, h3 j (endedOf_winEnd_mono _ _ _ _ hj), endedOf_winEnd]
      rw [if_neg]; rintro ⟨_, _, h⟩; rw [h] at hj; cases hj
    · rw [List.foldl_cons]
      by_cases hij : i = j
      · subst hij
        have hs : (b.winEnd i e).endedOf i = some e := by rw [endedOf_winEnd, if_pos ⟨rfl, hj, hn⟩]
        rw [h3 i (by rw [hs]; rfl), hs]; simp
      · have hs : (b.winEnd i e).endedOf j = none := by rw [endedOf_winEnd, if_neg (by rintro ⟨h, _⟩; exact hij h)]; exact hn
        rw [h4 j (by simpa using hj) hs]
        have : j ≠ i := fun h => hij h.symm
        simp [this]

end Base
end Win

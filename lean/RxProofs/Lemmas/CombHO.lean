import RxModel.CombHO
import RxProofs.Lemmas.Comb
/-!
# Lemmas for merge_all, merge(max_concurrent), switch_latest (C11, C12)
-/

namespace Comb

/-- if every step emits exactly the `g`-image of what it accepted, so does every run -/
theorem outVals_run_filterMap {σ ι β} (m : Machine σ ι β) (g : Nat × Notif ι → Option β)
    (hstep : ∀ (st : St σ) (e : Ev ι), st.p.WF → outVals (step m st e).2 = (accOne st e).filterMap g)
    (es : List (Ev ι)) : ∀ st : St σ, st.p.WF → outVals (run m st es) = (accepted m st es).filterMap g := by
  induction es with
  | nil => intro st _; rfl
  | cons e es ih =>
    intro st h
    rw [run_cons, outVals_append, accepted_cons, List.filterMap_append, hstep st e h, ih _ (step_WF m st e h)]

def actSubs {β} : List (Act β) → List Nat
  | [] => []
  | .sub k :: r => k :: actSubs r
  | _ :: r => actSubs r

theorem subsOf_acts {β} (p : Plumb) (as : List (Act β)) : subsOf (p.acts as).2 = actSubs as := by
  induction as generalizing p with
  | nil => rfl
  | cons a as ih =>
    simp only [Plumb.acts, subsOf_append, ih]
    cases a with
    | emit n =>
      simp only [Plumb.act, actSubs]
      split
      · rfl
      · split <;> simp [subsOf]
    | sub k => simp only [Plumb.act, actSubs]; split <;> simp [subsOf]
    | unsub k => simp only [Plumb.act, actSubs]; split <;> simp [subsOf]

theorem subsOf_step_src {σ ι β} (m : Machine σ ι β) (st : St σ) (k : Nat) (n : Notif ι) (hk : k ∈ st.p.live) :
    subsOf (step m st (.src k n)).2 = actSubs (m.handler st.s k n).2 := by
  simp only [step, hk, if_true]
  split
  · simp only [subsOf_append, subsOf_acts, Plumb.act]; split <;> simp [subsOf]
  · exact subsOf_acts _ _

/-- the inner elements of an accepted-notification list (`g` of `outVals_run_filterMap`) -/
def innerVal {α} : Nat × Notif (HV α) → Option α
  | (k, .next (.val v)) => if k = 0 then none else some v
  | _ => none

/-- the arrivals: trace ids of the inners carried by the accepted outer elements -/
def arrival {α} : Nat × Notif (HV α) → Option Nat
  | (k, .next (.obs j)) => if k = 0 then some (j + 1) else none
  | _ => none

/-! ## merge_all / merge(max_concurrent): what goes out -/

theorem ma_step_out {α} (st : St MaSt) (e : Ev (HV α)) (h : st.p.WF) :
    outVals (step (maM (α := α)) st e).2 = (accOne st e).filterMap innerVal := by
  cases e with
  | tick => simp [step, maM, Plumb.acts, accOne]
  | dispose => simp [step, Plumb.dispose, accOne, outVals_eq_nextVals, nextVals]
  | src k n =>
    by_cases hk : k ∈ st.p.live
    · rw [outVals_step_src _ _ _ _ h hk]
      simp only [accOne, hk, if_true, maM]
      cases n with
      | next x =>
        cases x with
        | obs j => simp only [maHandler]; split <;> simp [actEmits, cut, nextVals, innerVal, *]
        | val v => simp only [maHandler]; split <;> simp [actEmits, cut, nextVals, innerVal, Notif.isTerminal, *]
      | error er => simp [maHandler, actEmits, cut, nextVals, innerVal, Notif.isTerminal]
      | completed =>
        simp only [maHandler]
        split
        · split <;> simp [actEmits, cut, nextVals, innerVal, Notif.isTerminal]
        · split <;> simp [actEmits, cut, nextVals, innerVal, Notif.isTerminal]
    · simp [step_src_not_live _ _ _ _ hk, accOne, hk]

theorem mc_step_out {α} (maxc : Nat) (st : St McSt) (e : Ev (HV α)) (h : st.p.WF) :
    outVals (step (mcM (α := α) maxc) st e).2 = (accOne st e).filterMap innerVal := by
  cases e with
  | tick => simp [step, mcM, Plumb.acts, accOne]
  | dispose => simp [step, Plumb.dispose, accOne, outVals_eq_nextVals, nextVals]
  | src k n =>
    by_cases hk : k ∈ st.p.live
    · rw [outVals_step_src _ _ _ _ h hk]
      simp only [accOne, hk, if_true, mcM]
      cases n with
      | next x =>
        cases x with
        | obs j =>
          simp only [mcHandler]
          split
          · split <;> simp [actEmits, cut, nextVals, innerVal, *]
          · simp [actEmits, cut, nextVals, innerVal, *]
        | val v => simp only [mcHandler]; split <;> simp [actEmits, cut, nextVals, innerVal, Notif.isTerminal, *]
      | error er => simp [mcHandler, actEmits, cut, nextVals, innerVal, Notif.isTerminal]
      | completed =>
        simp only [mcHandler]
        split
        · split <;> simp [actEmits, cut, nextVals, innerVal, Notif.isTerminal]
        · split
          · simp [actEmits, cut, nextVals, innerVal, Notif.isTerminal]
          · split <;> simp [actEmits, cut, nextVals, innerVal, Notif.isTerminal]
    · simp [step_src_not_live _ _ _ _ hk, accOne, hk]

theorem hoInit_WF {σ} (s : σ) : (hoInit s).p.WF := by
  intro h; simp [hoInit] at h

end Comb

namespace Comb

/-- number of live inner subscriptions (everything but the outer source 0) -/
def cnt (p : Plumb) : Nat := (p.live.filter (· != 0)).length

theorem cnt_erase_le (l : List Nat) (k : Nat) : ((l.erase k).filter (· != 0)).length ≤ (l.filter (· != 0)).length := by
  exact (List.Sublist.filter _ (List.erase_sublist ..)).length_le

theorem cnt_erase_mem (l : List Nat) (k : Nat) (hk : k ∈ l) (h0 : k ≠ 0) :
    ((l.erase k).filter (· != 0)).length + 1 = (l.filter (· != 0)).length := by
  have hp := (List.perm_cons_erase hk).filter (· != 0)
  have := hp.length_eq
  simp [List.filter_cons, h0] at this
  omega

theorem cnt_act_emit {β} (p : Plumb) (n : Notif β) : cnt (p.act (.emit n)).1 ≤ cnt p := by
  simp only [Plumb.act]
  split
  · exact Nat.le_refl _
  · split
    · simp [cnt]
    · exact Nat.le_refl _

theorem cnt_act_unsub_le {β} (p : Plumb) (k : Nat) : cnt (p.act (β := β) (.unsub k)).1 ≤ cnt p := by
  simp only [Plumb.act]
  split
  · exact cnt_erase_le _ _
  · exact Nat.le_refl _

theorem cnt_act_unsub_mem {β} (p : Plumb) (k : Nat) (hk : k ∈ p.live) (h0 : k ≠ 0) :
    cnt (p.act (β := β) (.unsub k)).1 + 1 = cnt p := by
  simp only [Plumb.act, hk, if_true]
  exact cnt_erase_mem _ _ hk h0

theorem cnt_act_sub {β} (p : Plumb) (j : Nat) : cnt (p.act (β := β) (.sub j)).1 ≤ cnt p + 1 := by
  simp only [Plumb.act]
  split
  · exact Nat.le_succ _
  · simp only [cnt, List.filter_append, List.length_append]
    by_cases hj : j = 0 <;> simp [hj]

structure McInv (maxc : Nat) (st : St McSt) : Prop where
  wf : st.p.WF
  le : cnt st.p ≤ st.s.active
  amax : st.s.active ≤ maxc
  qfull : st.s.queue ≠ [] → maxc ≤ st.s.active
  qpos : ∀ j, j ∈ st.s.queue → j ≠ 0

theorem mc_step_inv {α} (maxc : Nat) (st : St McSt) (e : Ev (HV α)) (h : McInv maxc st) :
    McInv maxc (step (mcM (α := α) maxc) st e).1 := by
  have hwf := step_WF (mcM (α := α) maxc) st e h.wf
  cases e with
  | tick => exact ⟨hwf, by simpa [step, mcM, Plumb.acts] using h.le, h.amax, h.qfull, h.qpos⟩
  | dispose => exact ⟨hwf, by simp [step, Plumb.dispose, cnt], h.amax, h.qfull, h.qpos⟩
  | src k n =>
    by_cases hk : k ∈ st.p.live
    · have hnd := not_done_of_live h.wf hk
      by_cases hk0 : k = 0
      · subst hk0
        cases n with
        | next x =>
          cases x with
          | obs j =>
            by_cases ha : st.s.active < maxc
            · refine ⟨hwf, ?_, ?_, ?_, ?_⟩
              · have := cnt_act_sub (β := α) st.p (j + 1)
                simp only [step, hk, mcM, mcHandler, ha, Plumb.acts, Notif.isTerminal, if_true] at this ⊢
                have := h.le
                simp only [Bool.false_eq_true, if_false]
                omega
              · simp [step, hk, mcM, mcHandler, ha, Notif.isTerminal]; omega
              · intro hq
                have hq' : st.s.queue ≠ [] := by simpa [step, hk, mcM, mcHandler, ha, Notif.isTerminal] using hq
                have := h.qfull hq'; omega
              · simpa [step, hk, mcM, mcHandler, ha, Notif.isTerminal] using h.qpos
            · refine ⟨hwf, ?_, ?_, ?_, ?_⟩
              · simpa [step, hk, mcM, mcHandler, ha, Plumb.acts, Notif.isTerminal] using h.le
              · simpa [step, hk, mcM, mcHandler, ha, Notif.isTerminal] using h.amax
              · intro _; simp [step, hk, mcM, mcHandler, ha, Notif.isTerminal]; omega
              · intro j' hj'
                simp [step, hk, mcM, mcHandler, ha, Notif.isTerminal] at hj'
                rcases hj' with hj' | hj'
                · exact h.qpos j' hj'
                · omega
          | val v =>
            exact ⟨hwf, by simpa [step, hk, mcM, mcHandler, Plumb.acts, Notif.isTerminal] using h.le,
              by simpa [step, hk, mcM, mcHandler, Notif.isTerminal] using h.amax,
              by simpa [step, hk, mcM, mcHandler, Notif.isTerminal] using h.qfull,
              by simpa [step, hk, mcM, mcHandler, Notif.isTerminal] using h.qpos⟩
        | error er =>
          exact ⟨hwf, by simp [step, hk, mcM, mcHandler, Plumb.acts, Plumb.act, hnd, Notif.isTerminal, cnt],
            by simpa [step, hk, mcM, mcHandler, Notif.isTerminal] using h.amax,
            by simpa [step, hk, mcM, mcHandler, Notif.isTerminal] using h.qfull,
            by simpa [step, hk, mcM, mcHandler, Notif.isTerminal] using h.qpos⟩
        | completed =>
          refine ⟨hwf, ?_, by simpa [step, hk, mcM, mcHandler, Notif.isTerminal] using h.amax,
            by simpa [step, hk, mcM, mcHandler, Notif.isTerminal] using h.qfull,
            by simpa [step, hk, mcM, mcHandler, Notif.isTerminal] using h.qpos⟩
          simp only [step, hk, if_true, mcM, mcHandler, Notif.isTerminal]
          refine Nat.le_trans (cnt_act_unsub_le _ _) ?_
          split
          · simp only [Plumb.acts]
            exact Nat.le_trans (cnt_act_emit _ _) h.le
          · simpa [Plumb.acts] using h.le
      · cases n with
        | next x =>
          cases x with
          | obs j =>
            exact ⟨hwf, by simpa [step, hk, mcM, mcHandler, hk0, Plumb.acts, Notif.isTerminal] using h.le,
              by simpa [step, hk, mcM, mcHandler, hk0, Notif.isTerminal] using h.amax,
              by simpa [step, hk, mcM, mcHandler, hk0, Notif.isTerminal] using h.qfull,
              by simpa [step, hk, mcM, mcHandler, hk0, Notif.isTerminal] using h.qpos⟩
          | val v =>
            exact ⟨hwf, by simpa [step, hk, mcM, mcHandler, hk0, Plumb.acts, Plumb.act, hnd, Notif.isTerminal] using h.le,
              by simpa [step, hk, mcM, mcHandler, hk0, Notif.isTerminal] using h.amax,
              by simpa [step, hk, mcM, mcHandler, hk0, Notif.isTerminal] using h.qfull,
              by simpa [step, hk, mcM, mcHandler, hk0, Notif.isTerminal] using h.qpos⟩
        | error er =>
          exact ⟨hwf, by simp [step, hk, mcM, mcHandler, Plumb.acts, Plumb.act, hnd, Notif.isTerminal, cnt],
            by simpa [step, hk, mcM, mcHandler, Notif.isTerminal] using h.amax,
            by simpa [step, hk, mcM, mcHandler, Notif.isTerminal] using h.qfull,
            by simpa [step, hk, mcM, mcHandler, Notif.isTerminal] using h.qpos⟩
        | completed =>
          cases hq : st.s.queue with
          | cons j rest =>
            have hj0 : j ≠ 0 := h.qpos j (by simp [hq])
            refine ⟨hwf, ?_, by simpa [step, hk, mcM, mcHandler, hk0, hq, Notif.isTerminal] using h.amax, ?_, ?_⟩
            · simp only [step, hk, if_true, mcM, mcHandler, hk0, hq, Notif.isTerminal, if_false]
              refine Nat.le_trans (cnt_act_unsub_le _ _) ?_
              have h1 := cnt_act_unsub_mem (β := α) st.p k hk hk0
              have h2 := cnt_act_sub (β := α) (st.p.act (β := α) (.unsub k)).1 j
              simp only [Plumb.acts]
              have := h.le; omega
            · intro hr
              have : st.s.queue ≠ [] := by simp [hq]
              simpa [step, hk, mcM, mcHandler, hk0, hq, Notif.isTerminal] using h.qfull this
            · intro j' hj'
              simp [step, hk, mcM, mcHandler, hk0, hq, Notif.isTerminal] at hj'
              exact h.qpos j' (by simp [hq, hj'])
          | nil =>
            refine ⟨hwf, ?_, ?_, ?_, ?_⟩
            · simp only [step, hk, if_true, mcM, mcHandler, hk0, hq, Notif.isTerminal, if_false]
              refine Nat.le_trans (cnt_act_unsub_le _ _) ?_
              have h1 := cnt_act_unsub_mem (β := α) st.p k hk hk0
              have hle := h.le
              split
              · simp only [Plumb.acts]
                refine Nat.le_trans (cnt_act_emit _ _) ?_
                omega
              · simp only [Plumb.acts]; omega
            · have := h.amax
              simp [step, hk, mcM, mcHandler, hk0, hq, Notif.isTerminal]; omega
            · intro hr; simp [step, hk, mcM, mcHandler, hk0, hq, Notif.isTerminal] at hr
            · intro j' hj'; simp [step, hk, mcM, mcHandler, hk0, hq, Notif.isTerminal] at hj'
    · rw [step_src_not_live _ _ _ _ hk]; exact h

theorem mc_final_inv {α} (maxc : Nat) (es : List (Ev (HV α))) : ∀ st, McInv maxc st →
    McInv maxc (final (mcM (α := α) maxc) st es) := by
  induction es with
  | nil => intro st h; exact h
  | cons e es ih => intro st h; exact ih _ (mc_step_inv maxc st e h)

theorem mc_init_inv (maxc : Nat) : McInv maxc (hoInit {}) :=
  ⟨hoInit_WF _, by simp [hoInit, cnt], by simp [hoInit], by simp [hoInit], by simp [hoInit]⟩

end Comb

namespace Comb

theorem mc_step_fifo {α} (maxc : Nat) (st : St McSt) (e : Ev (HV α)) (h : McInv maxc st) :
    subsOf (step (mcM (α := α) maxc) st e).2 ++ (step (mcM (α := α) maxc) st e).1.s.queue
      = st.s.queue ++ (accOne st e).filterMap arrival := by
  cases e with
  | tick => simp [step, mcM, Plumb.acts, accOne]
  | dispose => simp [step, Plumb.dispose, accOne]
  | src k n =>
    by_cases hk : k ∈ st.p.live
    · rw [subsOf_step_src _ _ _ _ hk, step_src_state _ _ _ _ hk]
      simp only [accOne, hk, if_true, mcM]
      by_cases hk0 : k = 0
      · subst hk0
        cases n with
        | next x =>
          cases x with
          | obs j =>
            by_cases ha : st.s.active < maxc
            · have hq : st.s.queue = [] := by
                cases hq : st.s.queue with
                | nil => rfl
                | cons a as => have := h.qfull (by simp [hq]); omega
              simp [mcHandler, ha, actSubs, arrival, hq]
            · simp [mcHandler, ha, actSubs, arrival]
          | val v => simp [mcHandler, actSubs, arrival]
        | error er => simp [mcHandler, actSubs, arrival]
        | completed => simp only [mcHandler, if_true]; split <;> simp [actSubs, arrival]
      · cases n with
        | next x => cases x <;> simp [mcHandler, hk0, actSubs, arrival]
        | error er => simp [mcHandler, actSubs, arrival]
        | completed =>
          cases hq : st.s.queue with
          | cons j rest => simp [mcHandler, hk0, hq, actSubs, arrival]
          | nil => simp only [mcHandler, hk0, hq, if_false]; split <;> simp [actSubs, arrival]
    · simp [step_src_not_live _ _ _ _ hk, accOne, hk]

theorem mc_run_fifo {α} (maxc : Nat) (es : List (Ev (HV α))) : ∀ st, McInv maxc st →
    subsOf (run (mcM (α := α) maxc) st es) ++ (final (mcM (α := α) maxc) st es).s.queue
      = st.s.queue ++ (accepted (mcM (α := α) maxc) st es).filterMap arrival := by
  induction es with
  | nil => intro st _; simp [final, accepted]
  | cons e es ih =>
    intro st h
    have h1 := mc_step_fifo (α := α) maxc st e h
    have h2 := ih _ (mc_step_inv maxc st e h)
    rw [run_cons, subsOf_append, accepted_cons, List.filterMap_append, final, List.append_assoc, h2,
      ← List.append_assoc, h1, List.append_assoc]

end Comb

namespace Comb

/-! ## switch_latest -/

/-- the property's own notion of "latest": the inner carried by the most recent accepted outer element -/
def swCur {α} (cur : Option Nat) : Nat × Notif (HV α) → Option Nat
  | (k, .next (.obs j)) => if k = 0 then some (j + 1) else cur
  | _ => cur

/-- an accepted inner element is forwarded iff its inner is the latest -/
def swOut {α} (cur : Option Nat) : Nat × Notif (HV α) → List α
  | (k, .next (.val v)) => if k ≠ 0 ∧ cur = some k then [v] else []
  | _ => []

def swSpec {α} : Option Nat → List (Nat × Notif (HV α)) → List α
  | _, [] => []
  | cur, a :: r => swOut cur a ++ swSpec (swCur cur a) r

theorem sw_step {α} (st : St SwSt) (e : Ev (HV α)) (h : st.p.WF) :
    outVals (step (swM (α := α)) st e).2 = swSpec st.s.cur (accOne st e) ∧
    (step (swM (α := α)) st e).1.s.cur = (accOne st e).foldl swCur st.s.cur := by
  cases e with
  | tick => simp [step, swM, Plumb.acts, accOne, swSpec]
  | dispose => simp [step, Plumb.dispose, accOne, swSpec, outVals_eq_nextVals, nextVals]
  | src k n =>
    by_cases hk : k ∈ st.p.live
    · rw [outVals_step_src _ _ _ _ h hk, step_src_state _ _ _ _ hk]
      simp only [accOne, hk, if_true, swM, swSpec, List.foldl, List.append_nil]
      cases n with
      | next x =>
        cases x with
        | obs j =>
          by_cases hk0 : k = 0
          · subst hk0
            cases hc : st.s.cur <;> simp [swHandler, hc, actEmits, cut, nextVals, swOut, swCur]
          · simp [swHandler, hk0, actEmits, cut, nextVals, swOut, swCur]
        | val v =>
          by_cases hk0 : k = 0
          · simp [swHandler, hk0, actEmits, cut, nextVals, swOut, swCur]
          · by_cases hc : st.s.cur = some k
            · simp [swHandler, hk0, hc, actEmits, cut, nextVals, swOut, swCur, Notif.isTerminal]
            · simp [swHandler, hk0, hc, actEmits, cut, nextVals, swOut, swCur]
      | error er =>
        simp only [swHandler]
        split
        · simp [actEmits, cut, nextVals, swOut, swCur, Notif.isTerminal]
        · split <;> simp [actEmits, cut, nextVals, swOut, swCur, Notif.isTerminal]
      | completed =>
        simp only [swHandler]
        split
        · split <;> simp [actEmits, cut, nextVals, swOut, swCur, Notif.isTerminal]
        · split
          · split <;> simp [actEmits, cut, nextVals, swOut, swCur, Notif.isTerminal]
          · simp [actEmits, cut, nextVals, swOut, swCur]
    · simp [step_src_not_live _ _ _ _ hk, accOne, hk, swSpec]

theorem swSpec_append {α} (cur : Option Nat) (a b : List (Nat × Notif (HV α))) :
    swSpec cur (a ++ b) = swSpec cur a ++ swSpec (a.foldl swCur cur) b := by
  induction a generalizing cur with
  | nil => rfl
  | cons x xs ih => simp [swSpec, ih, List.append_assoc]

theorem sw_run {α} (es : List (Ev (HV α))) : ∀ st : St SwSt, st.p.WF →
    outVals (run (swM (α := α)) st es) = swSpec st.s.cur (accepted (swM (α := α)) st es) := by
  induction es with
  | nil => intro st _; rfl
  | cons e es ih =>
    intro st h
    have hs := sw_step st e h
    rw [run_cons, outVals_append, accepted_cons, swSpec_append, hs.1, ih _ (step_WF _ st e h), hs.2]

end Comb

namespace Comb

/-! ## switch_latest: completion -/

/-- what the completion rule remembers: the latest arrived inner, whether IT has completed since, whether the outer completed -/
structure SwT where
  cur : Option Nat := none
  curDone : Bool := false
  outerDone : Bool := false

def swTStep {α} (t : SwT) : Nat × Notif (HV α) → SwT
  | (k, .next (.obs j)) => if k = 0 then { cur := some (j + 1), curDone := false, outerDone := t.outerDone } else t
  | (k, .completed) =>
    if k = 0 then { t with outerDone := true }
    else if t.cur = some k then { t with curDone := true } else t
  | _ => t

/-- the outer completed, and there is no latest inner or it completed -/
def swRule (t : SwT) : Prop := t.outerDone = true ∧ (t.cur = none ∨ t.curDone = true)

def swAbs (s : SwSt) : SwT := { cur := s.cur, curDone := s.cur.isSome && !s.hasLatest, outerDone := s.stopped }

structure SwI (st : St SwSt) : Prop where
  wf : st.p.WF
  nl : st.s.cur = none → st.s.hasLatest = false

theorem sw_step_I {α} (st : St SwSt) (e : Ev (HV α)) (h : SwI st) : SwI (step (swM (α := α)) st e).1 := by
  refine ⟨step_WF _ st e h.wf, ?_⟩
  cases e with
  | tick => simpa [step, swM] using h.nl
  | dispose => simpa [step] using h.nl
  | src k n =>
    by_cases hk : k ∈ st.p.live
    · rw [step_src_state _ _ _ _ hk]
      cases n with
      | next x =>
        cases x with
        | obs j =>
          simp only [swM, swHandler]
          split
          · intro hc; cases hc
          · exact h.nl
        | val v => simp only [swM, swHandler]; split <;> (try split) <;> exact h.nl
      | error er => simp only [swM, swHandler]; split <;> (try split) <;> exact h.nl
      | completed =>
        simp only [swM, swHandler]
        split
        · exact h.nl
        · split
          · intro _; rfl
          · exact h.nl
    · rw [step_src_not_live _ _ _ _ hk]; exact h.nl

theorem sw_abs_step {α} (st : St SwSt) (e : Ev (HV α)) (h : SwI st) :
    swAbs (step (swM (α := α)) st e).1.s = (accOne st e).foldl swTStep (swAbs st.s) := by
  cases e with
  | tick => simp [step, swM, accOne]
  | dispose => simp [step, accOne]
  | src k n =>
    by_cases hk : k ∈ st.p.live
    · rw [step_src_state _ _ _ _ hk]
      simp only [accOne, hk, if_true, List.foldl_cons, List.foldl_nil, swM]
      cases n with
      | next x =>
        cases x with
        | obs j => by_cases hk0 : k = 0 <;> simp [swHandler, swTStep, swAbs, hk0]
        | val v =>
          by_cases hk0 : k = 0
          · simp [swHandler, swTStep, swAbs, hk0]
          · by_cases hc : st.s.cur = some k <;> simp [swHandler, swTStep, swAbs, hk0, hc]
      | error er =>
        by_cases hk0 : k = 0
        · simp [swHandler, swTStep, swAbs, hk0]
        · by_cases hc : st.s.cur = some k <;> simp [swHandler, swTStep, swAbs, hk0, hc]
      | completed =>
        by_cases hk0 : k = 0
        · simp [swHandler, swTStep, swAbs, hk0]
        · by_cases hc : st.s.cur = some k
          · simp [swHandler, swTStep, swAbs, hk0, hc]
          · simp [swHandler, swTStep, swAbs, hk0, hc]
    · simp [step_src_not_live _ _ _ _ hk, accOne, hk]

theorem sw_rule_abs (s : SwSt) (hnl : s.cur = none → s.hasLatest = false) :
    swRule (swAbs s) ↔ (s.stopped = true ∧ s.hasLatest = false) := by
  simp only [swRule, swAbs]
  cases hc : s.cur with
  | none => simp [hnl hc]
  | some c => simp

theorem sw_rule_step {α} (st : St SwSt) (k : Nat) (n : Notif (HV α)) (h : SwI st)
    (hr : ¬ swRule (swAbs st.s)) :
    (Notif.completed ∈ cut (actEmits ((swM (α := α)).handler st.s k n).2) ↔ swRule (swTStep (swAbs st.s) (k, n))) := by
  have hr' : ¬ (st.s.stopped = true ∧ st.s.hasLatest = false) := fun hh => hr ((sw_rule_abs st.s h.nl).mpr hh)
  cases n with
  | next x =>
    cases x with
    | obs j =>
      by_cases hk0 : k = 0
      · cases hc : st.s.cur <;> simp [swM, swHandler, swTStep, swAbs, swRule, hk0, hc, actEmits, cut]
      · simpa [swM, swHandler, swTStep, hk0, actEmits, cut] using hr
    | val v =>
      by_cases hk0 : k = 0
      · simpa [swM, swHandler, swTStep, hk0, actEmits, cut] using hr
      · by_cases hc : st.s.cur = some k
        · simpa [swM, swHandler, swTStep, hk0, hc, actEmits, cut, Notif.isTerminal] using hr
        · simpa [swM, swHandler, swTStep, hk0, hc, actEmits, cut] using hr
  | error er =>
    by_cases hk0 : k = 0
    · simpa [swM, swHandler, swTStep, hk0, actEmits, cut, Notif.isTerminal] using hr
    · by_cases hc : st.s.cur = some k
      · simpa [swM, swHandler, swTStep, hk0, hc, actEmits, cut, Notif.isTerminal] using hr
      · simpa [swM, swHandler, swTStep, hk0, hc, actEmits, cut] using hr
  | completed =>
    by_cases hk0 : k = 0
    · subst hk0
      simp only [swM, swHandler, swTStep, if_true, swRule, swAbs]
      cases hl : st.s.hasLatest
      · cases hc : st.s.cur <;> simp [actEmits, cut, Notif.isTerminal]
      · have : st.s.cur ≠ none := fun hc => by have := h.nl hc; rw [hl] at this; cases this
        cases hc : st.s.cur with
        | none => exact absurd hc this
        | some c => simp [actEmits, cut]
    · by_cases hc : st.s.cur = some k
      · simp only [swM, swHandler, swTStep, hk0, hc, if_true, if_false, swRule, swAbs]
        cases hs : st.s.stopped <;> simp [actEmits, cut, Notif.isTerminal]
      · simpa [swM, swHandler, swTStep, hk0, hc, actEmits, cut, swAbs] using hr

end Comb

namespace Comb

/-! ## merge_all / merge(max_concurrent): completion -/

/-- the completion rule of merge remembers the inners that arrived and have not completed yet, and whether the outer completed -/
structure MaT where
  pending : List Nat := []
  outerDone : Bool := false

def maTStep {α} (t : MaT) : Nat × Notif (HV α) → MaT
  | (k, .next (.obs j)) => if k = 0 then { t with pending := t.pending ++ [j + 1] } else t
  | (k, .completed) => if k = 0 then { t with outerDone := true } else { t with pending := t.pending.erase k }
  | _ => t

def maRule (t : MaT) : Prop := t.outerDone = true ∧ t.pending = []

def maAbs (s : MaSt) : MaT := { pending := s.group, outerDone := s.stopped }

theorem ma_abs_step {α} (st : St MaSt) (e : Ev (HV α)) :
    maAbs (step (maM (α := α)) st e).1.s = (accOne st e).foldl maTStep (maAbs st.s) := by
  cases e with
  | tick => simp [step, maM, accOne]
  | dispose => simp [step, accOne]
  | src k n =>
    by_cases hk : k ∈ st.p.live
    · rw [step_src_state _ _ _ _ hk]
      simp only [accOne, hk, if_true, List.foldl_cons, List.foldl_nil, maM]
      cases n with
      | next x => cases x <;> by_cases hk0 : k = 0 <;> simp [maHandler, maTStep, maAbs, hk0]
      | error er => simp [maHandler, maTStep, maAbs]
      | completed => by_cases hk0 : k = 0 <;> simp [maHandler, maTStep, maAbs, hk0]
    · simp [step_src_not_live _ _ _ _ hk, accOne, hk]

theorem ma_rule_step {α} (s : MaSt) (k : Nat) (n : Notif (HV α)) (hr : ¬ maRule (maAbs s)) :
    (Notif.completed ∈ cut (actEmits ((maM (α := α)).handler s k n).2) ↔ maRule (maTStep (maAbs s) (k, n))) := by
  cases n with
  | next x =>
    cases x with
    | obs j =>
      by_cases hk0 : k = 0
      · simp [maM, maHandler, maTStep, maAbs, maRule, hk0, actEmits, cut]
      · simpa [maM, maHandler, maTStep, hk0, actEmits, cut] using hr
    | val v =>
      by_cases hk0 : k = 0
      · simpa [maM, maHandler, maTStep, hk0, actEmits, cut] using hr
      · simpa [maM, maHandler, maTStep, hk0, actEmits, cut, Notif.isTerminal] using hr
  | error er => simpa [maM, maHandler, maTStep, actEmits, cut, Notif.isTerminal] using hr
  | completed =>
    by_cases hk0 : k = 0
    · simp only [maM, maHandler, maTStep, hk0, if_true, maRule, maAbs]
      cases hg : s.group <;> simp [actEmits, cut, Notif.isTerminal]
    · simp only [maM, maHandler, maTStep, hk0, if_false, maRule, maAbs]
      cases hs : s.stopped <;> cases hg : s.group.erase k <;> simp [actEmits, cut, Notif.isTerminal]

/-- merge(max_concurrent): the completion rule on the operator's own counters -/
def mcRule (s : McSt) : Prop := s.stopped = true ∧ s.active = 0

theorem mc_rule_step {α} (maxc : Nat) (s : McSt) (k : Nat) (n : Notif (HV α)) (hr : ¬ mcRule s) :
    (Notif.completed ∈ cut (actEmits ((mcM (α := α) maxc).handler s k n).2)
      ↔ mcRule ((mcM (α := α) maxc).handler s k n).1) := by
  cases n with
  | next x =>
    cases x with
    | obs j =>
      by_cases hk0 : k = 0
      · by_cases ha : s.active < maxc
        · simp [mcM, mcHandler, mcRule, hk0, ha, actEmits, cut]
        · simpa [mcM, mcHandler, mcRule, hk0, ha, actEmits, cut] using hr
      · simpa [mcM, mcHandler, hk0, actEmits, cut] using hr
    | val v =>
      by_cases hk0 : k = 0
      · simpa [mcM, mcHandler, hk0, actEmits, cut] using hr
      · simpa [mcM, mcHandler, hk0, actEmits, cut, Notif.isTerminal] using hr
  | error er => simpa [mcM, mcHandler, actEmits, cut, Notif.isTerminal] using hr
  | completed =>
    by_cases hk0 : k = 0
    · simp only [mcM, mcHandler, hk0, if_true, mcRule]
      by_cases ha : s.active = 0 <;> simp [ha, actEmits, cut, Notif.isTerminal]
    · cases hq : s.queue with
      | cons j rest =>
        have : ¬ (s.stopped = true ∧ s.active = 0) := hr
        simpa [mcM, mcHandler, hk0, hq, mcRule, actEmits, cut] using this
      | nil =>
        simp only [mcM, mcHandler, hk0, hq, if_false, mcRule]
        cases hs : s.stopped <;> by_cases ha : s.active - 1 = 0 <;> simp [ha, actEmits, cut, Notif.isTerminal]

end Comb

namespace Comb

/-! ## concat_map (max_concurrent = 1): the only live inner is the most recently subscribed one -/

theorem cnt_zero_no_inner (p : Plumb) (h : cnt p = 0) : ∀ j, j ∈ p.live → j = 0 := by
  intro j hj
  by_cases hj0 : j = 0
  · exact hj0
  · have : j ∈ p.live.filter (· != 0) := List.mem_filter.mpr ⟨hj, by simpa using hj0⟩
    rw [List.length_eq_zero_iff.mp h] at this; cases this

theorem act_unsub_live_sub {β} (p : Plumb) (k j : Nat) (hj : j ∈ (p.act (β := β) (.unsub k)).1.live) : j ∈ p.live := by
  simp only [Plumb.act] at hj
  split at hj
  · exact List.mem_of_mem_erase hj
  · exact hj

theorem act_emit_live_sub {β} (p : Plumb) (n : Notif β) (j : Nat) (hj : j ∈ (p.act (.emit n)).1.live) : j ∈ p.live := by
  simp only [Plumb.act] at hj
  split at hj
  · exact hj
  · split at hj
    · simp at hj
    · exact hj

theorem act_sub_live {β} (p : Plumb) (i j : Nat) (hj : j ∈ (p.act (β := β) (.sub i)).1.live) : j ∈ p.live ∨ j = i := by
  simp only [Plumb.act] at hj
  split at hj
  · exact Or.inl hj
  · simpa using hj

structure OInv (subs : List Nat) (st : St McSt) : Prop where
  inv : McInv 1 st
  last : ∀ j, j ∈ st.p.live → j ≠ 0 → subs.getLast? = some j

theorem o_step {α} (subs : List Nat) (st : St McSt) (e : Ev (HV α)) (h : OInv subs st) :
    OInv (subs ++ subsOf (step (mcM (α := α) 1) st e).2) (step (mcM (α := α) 1) st e).1 := by
  refine ⟨mc_step_inv 1 st e h.inv, ?_⟩
  cases e with
  | tick => simpa [step, mcM, Plumb.acts] using h.last
  | dispose => intro j hj; simp [step, Plumb.dispose] at hj
  | src k n =>
    by_cases hk : k ∈ st.p.live
    · have hnd := not_done_of_live h.inv.wf hk
      rw [subsOf_step_src _ _ _ _ hk]
      by_cases hk0 : k = 0
      · subst hk0
        cases n with
        | next x =>
          cases x with
          | obs j =>
            by_cases ha : st.s.active < 1
            · have hc0 : cnt st.p = 0 := by have := h.inv.le; omega
              intro j' hj' hj0
              simp only [step, hk, if_true, mcM, mcHandler, ha, Plumb.acts, Plumb.act, hnd, Notif.isTerminal,
                Bool.false_eq_true, if_false, List.mem_append, List.mem_singleton] at hj'
              rcases hj' with hj' | hj'
              · exact absurd (cnt_zero_no_inner st.p hc0 j' hj') hj0
              · simp [mcM, mcHandler, ha, actSubs, hj']
            · intro j' hj' hj0
              simp only [step, hk, if_true, mcM, mcHandler, ha, Plumb.acts, Notif.isTerminal,
                Bool.false_eq_true, if_false] at hj'
              simpa [mcM, mcHandler, ha, actSubs] using h.last j' hj' hj0
          | val v =>
            intro j' hj' hj0
            simp only [step, hk, if_true, mcM, mcHandler, Plumb.acts, Notif.isTerminal, Bool.false_eq_true, if_false] at hj'
            simpa [mcM, mcHandler, actSubs] using h.last j' hj' hj0
        | error er =>
          intro j' hj'
          simp [step, hk, mcM, mcHandler, Plumb.acts, Plumb.act, hnd, Notif.isTerminal] at hj'
        | completed =>
          intro j' hj' hj0
          have hsub : j' ∈ st.p.live := by
            simp only [step, hk, if_true, mcM, mcHandler, Notif.isTerminal] at hj'
            have hj2 := act_unsub_live_sub _ _ _ hj'
            split at hj2
            · simp only [Plumb.acts] at hj2; exact act_emit_live_sub _ _ _ hj2
            · simpa [Plumb.acts] using hj2
          have : actSubs ((mcM (α := α) 1).handler st.s 0 .completed).2 = [] := by
            simp only [mcM, mcHandler, if_true]; split <;> rfl
          rw [this, List.append_nil]; exact h.last j' hsub hj0
      · cases n with
        | next x =>
          cases x with
          | obs j =>
            intro j' hj' hj0
            simp only [step, hk, if_true, mcM, mcHandler, hk0, Plumb.acts, Notif.isTerminal, Bool.false_eq_true, if_false] at hj'
            simpa [mcM, mcHandler, hk0, actSubs] using h.last j' hj' hj0
          | val v =>
            intro j' hj' hj0
            simp only [step, hk, if_true, mcM, mcHandler, hk0, Plumb.acts, Plumb.act, hnd, Notif.isTerminal, Bool.false_eq_true, if_false] at hj'
            simpa [mcM, mcHandler, hk0, actSubs] using h.last j' hj' hj0
        | error er =>
          intro j' hj'
          simp [step, hk, mcM, mcHandler, Plumb.acts, Plumb.act, hnd, Notif.isTerminal] at hj'
        | completed =>
          -- k is the only live inner: after its holder is removed no inner is live
          have h1 := cnt_act_unsub_mem (β := α) st.p k hk hk0
          have hc1 : cnt (st.p.act (β := α) (.unsub k)).1 = 0 := by
            have := h.inv.le; have := h.inv.amax; omega
          cases hq : st.s.queue with
          | cons j rest =>
            intro j' hj' hj0
            simp only [step, hk, if_true, mcM, mcHandler, hk0, hq, if_false, Notif.isTerminal, Plumb.acts] at hj'
            have hj2 := act_sub_live _ _ _ (act_unsub_live_sub _ _ _ hj')
            rcases hj2 with hj2 | hj2
            · exact absurd (cnt_zero_no_inner _ hc1 j' hj2) hj0
            · simp [mcM, mcHandler, hk0, hq, actSubs, hj2]
          | nil =>
            intro j' hj' hj0
            have hj2 : j' ∈ (st.p.act (β := α) (.unsub k)).1.live := by
              simp only [step, hk, if_true, mcM, mcHandler, hk0, hq, if_false, Notif.isTerminal] at hj'
              have hj3 := act_unsub_live_sub _ _ _ hj'
              split at hj3
              · simp only [Plumb.acts] at hj3; exact act_emit_live_sub _ _ _ hj3
              · simpa [Plumb.acts] using hj3
            exact absurd (cnt_zero_no_inner _ hc1 j' hj2) hj0
    · rw [step_src_not_live _ _ _ _ hk]; simpa using h.last

theorem o_run {α} (es : List (Ev (HV α))) : ∀ (subs : List Nat) (st : St McSt), OInv subs st →
    OInv (subs ++ subsOf (run (mcM (α := α) 1) st es)) (final (mcM (α := α) 1) st es) := by
  induction es with
  | nil => intro subs st h; simpa [final] using h
  | cons e es ih =>
    intro subs st h
    have := ih _ _ (o_step subs st e h)
    simpa [run_cons, subsOf_append, final, List.append_assoc] using this

end Comb

namespace Comb

/-! ## merge(max_concurrent): the completion rule on the delivered notifications (by counting) -/

/-- how many inners arrived, how many inner completions were delivered, whether the outer completed -/
structure McT where
  nArr : Nat := 0
  nComp : Nat := 0
  outerDone : Bool := false

def mcTStep {α} (t : McT) : Nat × Notif (HV α) → McT
  | (k, .next (.obs _)) => if k = 0 then { t with nArr := t.nArr + 1 } else t
  | (k, .completed) => if k = 0 then { t with outerDone := true } else { t with nComp := t.nComp + 1 }
  | _ => t

/-- the outer completed and every arrived inner has completed (each subscription completes at most once:
as many completions delivered as inners arrived) -/
def mcCountRule (t : McT) : Prop := t.outerDone = true ∧ t.nArr = t.nComp

structure McB (st : St McSt) (t : McT) : Prop where
  stp : st.s.stopped = t.outerDone
  bal : t.nArr = t.nComp + st.s.active + st.s.queue.length

theorem mc_step_bal {α} (maxc : Nat) (st : St McSt) (t : McT) (e : Ev (HV α)) (h : McInv maxc st) (hb : McB st t) :
    McB (step (mcM (α := α) maxc) st e).1 ((accOne st e).foldl mcTStep t) := by
  cases e with
  | tick => exact ⟨by simpa [step, mcM, accOne] using hb.stp, by simpa [step, mcM, accOne] using hb.bal⟩
  | dispose => exact ⟨by simpa [step, accOne] using hb.stp, by simpa [step, accOne] using hb.bal⟩
  | src k n =>
    by_cases hk : k ∈ st.p.live
    · have hs := step_src_state (mcM (α := α) maxc) st k n hk
      simp only [accOne, hk, if_true, List.foldl_cons, List.foldl_nil]
      by_cases hk0 : k = 0
      · subst hk0
        cases n with
        | next x =>
          cases x with
          | obs j =>
            by_cases ha : st.s.active < maxc
            · refine ⟨by rw [hs]; simpa [mcM, mcHandler, ha, mcTStep] using hb.stp, ?_⟩
              rw [hs]; have := hb.bal; simp [mcM, mcHandler, ha, mcTStep]; omega
            · refine ⟨by rw [hs]; simpa [mcM, mcHandler, ha, mcTStep] using hb.stp, ?_⟩
              rw [hs]; have := hb.bal; simp [mcM, mcHandler, ha, mcTStep]; omega
          | val v => exact ⟨by rw [hs]; simpa [mcM, mcHandler, mcTStep] using hb.stp,
              by rw [hs]; simpa [mcM, mcHandler, mcTStep] using hb.bal⟩
        | error er => exact ⟨by rw [hs]; simpa [mcM, mcHandler, mcTStep] using hb.stp,
            by rw [hs]; simpa [mcM, mcHandler, mcTStep] using hb.bal⟩
        | completed => exact ⟨by rw [hs]; simp [mcM, mcHandler, mcTStep],
            by rw [hs]; simpa [mcM, mcHandler, mcTStep] using hb.bal⟩
      · cases n with
        | next x =>
          cases x <;> exact ⟨by rw [hs]; simpa [mcM, mcHandler, mcTStep, hk0] using hb.stp,
            by rw [hs]; simpa [mcM, mcHandler, mcTStep, hk0] using hb.bal⟩
        | error er => exact ⟨by rw [hs]; simpa [mcM, mcHandler, mcTStep] using hb.stp,
            by rw [hs]; simpa [mcM, mcHandler, mcTStep] using hb.bal⟩
        | completed =>
          -- a live inner completes: it held one of the `active` slots
          have hpos : 1 ≤ st.s.active := by
            have h1 := cnt_act_unsub_mem (β := α) st.p k hk hk0
            have := h.le; omega
          cases hq : st.s.queue with
          | cons j rest =>
            refine ⟨by rw [hs]; simpa [mcM, mcHandler, mcTStep, hk0, hq] using hb.stp, ?_⟩
            rw [hs]; have := hb.bal; simp [mcM, mcHandler, mcTStep, hk0, hq] at this ⊢; omega
          | nil =>
            refine ⟨by rw [hs]; simpa [mcM, mcHandler, mcTStep, hk0, hq] using hb.stp, ?_⟩
            rw [hs]; have := hb.bal; simp [mcM, mcHandler, mcTStep, hk0, hq] at this ⊢; omega
    · simpa [step_src_not_live _ _ _ _ hk, accOne, hk] using hb

theorem mc_run_bal {α} (maxc : Nat) (es : List (Ev (HV α))) : ∀ (st : St McSt) (t : McT), McInv maxc st → McB st t →
    McB (final (mcM (α := α) maxc) st es) ((accepted (mcM (α := α) maxc) st es).foldl mcTStep t) ∧
    McInv maxc (final (mcM (α := α) maxc) st es) := by
  induction es with
  | nil => intro st t h hb; exact ⟨hb, h⟩
  | cons e es ih =>
    intro st t h hb
    have := ih _ _ (mc_step_inv maxc st e h) (mc_step_bal maxc st t e h hb)
    simpa [final, accepted_cons, List.foldl_append] using this

/-- the counters of the rule are what they say -/
theorem mcT_counts {α} (acc : List (Nat × Notif (HV α))) : ∀ t : McT,
    (acc.foldl mcTStep t).nArr = t.nArr + (acc.filterMap arrival).length ∧
    ((acc.foldl mcTStep t).outerDone = true ↔ (t.outerDone = true ∨ (0, Notif.completed) ∈ acc)) := by
  induction acc with
  | nil => intro t; simp
  | cons a r ih =>
    intro t
    obtain ⟨k, n⟩ := a
    have ih' := ih (mcTStep t (k, n))
    rw [List.foldl_cons]
    refine ⟨?_, ?_⟩
    · rw [ih'.1]
      cases n with
      | next x => cases x <;> by_cases hk0 : k = 0 <;> simp [mcTStep, arrival, hk0, List.filterMap_cons] <;> omega
      | error er => simp [mcTStep, arrival, List.filterMap_cons]
      | completed => by_cases hk0 : k = 0 <;> simp [mcTStep, arrival, hk0, List.filterMap_cons]
    · rw [ih'.2]
      cases n with
      | next x => cases x <;> by_cases hk0 : k = 0 <;> simp [mcTStep, hk0]
      | error er => simp [mcTStep]
      | completed =>
        by_cases hk0 : k = 0
        · simp [mcTStep, hk0]
        · have : ¬ (0 = k) := fun h => hk0 h.symm
          simp [mcTStep, hk0, this]

end Comb

namespace Comb

/-! ## concat_map: the explicit block decomposition -/

/-- (inner id, element) of a delivered inner element -/
def innerKV {α} : Nat × Notif (HV α) → Option (Nat × α)
  | (k, .next (.val v)) => if k = 0 then none else some (k, v)
  | _ => none

/-- blocks `(inner id, its elements)` laid out one after the other -/
def expandBlocks {α} (bs : List (Nat × List α)) : List (Nat × α) := bs.flatMap (fun b => b.2.map (fun v => (b.1, v)))

theorem expandBlocks_append {α} (a b : List (Nat × List α)) : expandBlocks (a ++ b) = expandBlocks a ++ expandBlocks b := by
  simp [expandBlocks]

theorem innerVal_eq_kv {α} (acc : List (Nat × Notif (HV α))) :
    acc.filterMap innerVal = (acc.filterMap innerKV).map (·.2) := by
  induction acc with
  | nil => rfl
  | cons a r ih =>
    obtain ⟨k, n⟩ := a
    cases n with
    | next x => cases x <;> by_cases hk0 : k = 0 <;> simp [innerVal, innerKV, hk0, List.filterMap_cons, ih]
    | error e => simp [innerVal, innerKV, List.filterMap_cons, ih]
    | completed => simp [innerVal, innerKV, List.filterMap_cons, ih]

structure BInv {α} (kv : List (Nat × α)) (subs : List Nat) (st : St McSt) : Prop where
  o : OInv subs st
  blocks : ∃ bs : List (Nat × List α), bs.map (·.1) = subs ∧ kv = expandBlocks bs

theorem b_step {α} (kv : List (Nat × α)) (subs : List Nat) (st : St McSt) (e : Ev (HV α)) (h : BInv kv subs st) :
    BInv (kv ++ (accOne st e).filterMap innerKV) (subs ++ subsOf (step (mcM (α := α) 1) st e).2)
      (step (mcM (α := α) 1) st e).1 := by
  refine ⟨o_step subs st e h.o, ?_⟩
  obtain ⟨bs, hb1, hb2⟩ := h.blocks
  -- new subscriptions open empty blocks
  have hnew : ∀ (s : List Nat), ∃ bs' : List (Nat × List α), bs'.map (·.1) = subs ++ s ∧ kv = expandBlocks bs' := by
    intro s
    refine ⟨bs ++ s.map (fun j => (j, [])), by simp [hb1, Function.comp_def], ?_⟩
    rw [expandBlocks_append, ← hb2]
    have : expandBlocks (s.map (fun j => (j, ([] : List α)))) = [] := by
      induction s with
      | nil => rfl
      | cons a r ih => simpa [expandBlocks] using ih
    rw [this, List.append_nil]
  cases e with
  | tick => simpa [accOne] using hnew _
  | dispose => simpa [accOne] using hnew _
  | src k n =>
    by_cases hk : k ∈ st.p.live
    · by_cases hkv : ∃ v, n = .next (.val v) ∧ k ≠ 0
      · obtain ⟨v, hn, hk0⟩ := hkv
        subst hn
        -- an element of the live inner k: k is the most recently subscribed one, its block is the last one
        have hlast := h.o.last k hk hk0
        have hsubs : subsOf (step (mcM (α := α) 1) st (.src k (.next (.val v)))).2 = [] := by
          rw [subsOf_step_src _ _ _ _ hk]; simp [mcM, mcHandler, hk0, actSubs]
        rw [hsubs, List.append_nil]
        simp only [accOne, hk, if_true, List.filterMap_cons, innerKV, hk0, if_false, List.filterMap_nil]
        rw [← hb1] at hlast
        have hne : bs ≠ [] := by intro h0; simp [h0] at hlast
        obtain ⟨bs0, b, rfl⟩ : ∃ bs0 b, bs = bs0 ++ [b] := ⟨bs.dropLast, bs.getLast hne, (List.dropLast_concat_getLast hne).symm⟩
        have hbk : b.1 = k := by simpa [List.getLast?_append] using hlast
        refine ⟨bs0 ++ [(b.1, b.2 ++ [v])], by simpa using hb1, ?_⟩
        rw [hb2, expandBlocks_append, expandBlocks_append]
        simp [expandBlocks, hbk]
      · have hnone : (accOne st (Ev.src k n)).filterMap innerKV = [] := by
          simp only [accOne, hk, if_true]
          cases n with
          | next x =>
            cases x with
            | obs j => simp [innerKV]
            | val v =>
              by_cases hk0 : k = 0
              · simp [innerKV, hk0]
              · exact absurd ⟨v, rfl, hk0⟩ hkv
          | error er => simp [innerKV]
          | completed => simp [innerKV]
        rw [hnone, List.append_nil]; exact hnew _
    · rw [step_src_not_live _ _ _ _ hk]
      simpa [accOne, hk] using hnew []

theorem b_run {α} (es : List (Ev (HV α))) : ∀ (kv : List (Nat × α)) (subs : List Nat) (st : St McSt), BInv kv subs st →
    BInv (kv ++ (accepted (mcM (α := α) 1) st es).filterMap innerKV) (subs ++ subsOf (run (mcM (α := α) 1) st es))
      (final (mcM (α := α) 1) st es) := by
  induction es with
  | nil => intro kv subs st h; simpa [accepted, final] using h
  | cons e es ih =>
    intro kv subs st h
    have := ih _ _ _ (b_step kv subs st e h)
    simpa [accepted_cons, List.filterMap_append, run_cons, subsOf_append, final, List.append_assoc] using this

end Comb

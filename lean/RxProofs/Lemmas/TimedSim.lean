import RxModel.TimedSim
import RxProofs.Lemmas.TimedWin
import RxProofs.Lemmas.TimedRate
/-! The bridge: the scheduler simulation (`simRun`, queue ordered by (due, insertion)) equals the two-stream runs. -/

namespace Timed

theorem cancelTimers_cons_src {α P} (t : Nat) (n : Notif α) (q : SQueue α P) :
    cancelTimers ((t, SItem.src n) :: q) = (t, SItem.src n) :: cancelTimers q := by
  simp [cancelTimers, SItem.isTimer]

theorem cancelTimers_cons_timer {α P} (t : Nat) (p : P) (q : SQueue α P) :
    cancelTimers ((t, SItem.timer p) :: q) = cancelTimers q := by
  simp [cancelTimers, SItem.isTimer]

theorem cancelTimers_srcItems {α P} (msgs : TL α) : cancelTimers (srcItems (P := P) msgs) = srcItems msgs := by
  induction msgs with
  | nil => rfl
  | cons a r ih =>
    show cancelTimers ((a.1, SItem.src a.2) :: srcItems r) = (a.1, SItem.src a.2) :: srcItems r
    rw [cancelTimers_cons_src, ih]

theorem cancelTimers_insert {α P} (due : Nat) (p : P) (msgs : TL α) :
    cancelTimers (insertEv (due, SItem.timer p) (srcItems msgs)) = srcItems msgs := by
  induction msgs with
  | nil => simp [srcItems, insertEv, cancelTimers, SItem.isTimer]
  | cons a r ih =>
    obtain ⟨t, n⟩ := a
    show cancelTimers (insertEv (due, SItem.timer p) ((t, SItem.src n) :: srcItems r)) = (t, SItem.src n) :: srcItems r
    by_cases h : due < t
    · simp only [insertEv, h, if_true]
      rw [cancelTimers_cons_timer, cancelTimers_cons_src, cancelTimers_srcItems]
    · simp only [insertEv, h, if_false]
      rw [cancelTimers_cons_src, ih]

theorem applyEff_queue {α P} (eff : TEff P) (rest : TL α) (tm : Option (Nat × P)) :
    applyEff eff (simQueue rest tm) = simQueue rest (effTm eff tm) := by
  cases tm with
  | none =>
    cases eff with
    | keep => rfl
    | cancel => simp [applyEff, simQueue, effTm, cancelTimers_srcItems]
    | arm due p => simp [applyEff, simQueue, effTm, cancelTimers_srcItems]
  | some dp =>
    obtain ⟨due0, p0⟩ := dp
    cases eff with
    | keep => rfl
    | cancel => simp [applyEff, simQueue, effTm, cancelTimers_insert]
    | arm due p => simp [applyEff, simQueue, effTm, cancelTimers_insert]

theorem simRun_nil {σ α β P} (op : SimOp σ α β P) (other : Nat → TL β) (fuel clk : Nat) (s : σ) :
    simRun op other fuel clk [] s = [] := by
  cases fuel <;> rfl

theorem twoStream_none_cons {σ α β P} (op : SimOp σ α β P) (other : Nat → TL β) (clk : Nat) (s : σ) (t : Nat)
    (n : Notif α) (rest : TL α) :
    twoStream op other clk none s ((t, n) :: rest) =
      at_ (max clk t) (op.onSrc (max clk t) s n).2.1 ++
        (if hasTerm (op.onSrc (max clk t) s n).2.1 then []
         else twoStream op other (max clk t) (effTm (op.onSrc (max clk t) s n).2.2 none) (op.onSrc (max clk t) s n).1 rest) := by
  rw [twoStream]
  simp only [preFire, List.nil_append, Bool.false_eq_true, if_false]
  rfl

theorem twoStream_some_cons_lt {σ α β P} (op : SimOp σ α β P) (other : Nat → TL β) (clk due : Nat) (p : P) (s : σ)
    (t : Nat) (n : Notif α) (rest : TL α) (hlt : due < t) :
    twoStream op other clk (some (due, p)) s ((t, n) :: rest) =
      at_ (max clk due) (op.onTimer (max clk due) s p).2.1 ++
        (if (op.onTimer (max clk due) s p).2.2 then other (max clk due)
         else if hasTerm (op.onTimer (max clk due) s p).2.1 then []
         else twoStream op other (max clk due) none (op.onTimer (max clk due) s p).1 ((t, n) :: rest)) := by
  rw [twoStream_none_cons, twoStream]
  simp only [preFire, hlt, decide_true, if_true]
  cases (op.onTimer (max clk due) s p).2.2 <;> cases hasTerm (op.onTimer (max clk due) s p).2.1 <;> simp

theorem twoStream_some_cons_ge {σ α β P} (op : SimOp σ α β P) (other : Nat → TL β) (clk due : Nat) (p : P) (s : σ)
    (t : Nat) (n : Notif α) (rest : TL α) (hge : ¬ due < t) :
    twoStream op other clk (some (due, p)) s ((t, n) :: rest) =
      at_ (max clk t) (op.onSrc (max clk t) s n).2.1 ++
        (if hasTerm (op.onSrc (max clk t) s n).2.1 then []
         else twoStream op other (max clk t) (effTm (op.onSrc (max clk t) s n).2.2 (some (due, p))) (op.onSrc (max clk t) s n).1 rest) := by
  rw [twoStream]
  simp only [preFire, hge, decide_false, Bool.false_eq_true, if_false, List.nil_append]

theorem twoStream_nil {σ α β P} (op : SimOp σ α β P) (other : Nat → TL β) (clk : Nat) (tm : Option (Nat × P)) (s : σ) :
    twoStream op other clk tm s ([] : TL α) =
      match tm with
      | none => []
      | some (due, p) =>
        at_ (max clk due) (op.onTimer (max clk due) s p).2.1 ++ (if (op.onTimer (max clk due) s p).2.2 then other (max clk due) else []) := by
  cases tm with
  | none => simp [twoStream, preFire]
  | some dp => obtain ⟨due, p⟩ := dp; simp [twoStream, preFire]

/-- **The bridge, generically.**  Running the queue (source messages scheduled first, then the operator's action, later
actions scheduled by the handlers) is the same as the two-stream run that compares `due < t`. -/
theorem sim_eq_twoStream {σ α β P} (op : SimOp σ α β P) (other : Nat → TL β) :
    ∀ (fuel : Nat) (msgs : TL α) (tm : Option (Nat × P)) (clk : Nat) (s : σ),
      2 * msgs.length + (if tm.isSome then 1 else 0) ≤ fuel →
      simRun op other fuel clk (simQueue msgs tm) s = twoStream op other clk tm s msgs := by
  intro fuel
  induction fuel with
  | zero =>
    intro msgs tm clk s h
    cases msgs with
    | nil =>
      cases tm with
      | none => simp [simRun, twoStream, preFire]
      | some dp => simp at h
    | cons a r => simp at h
  | succ fuel ih =>
    intro msgs tm clk s h
    cases msgs with
    | nil =>
      cases tm with
      | none => simp [simQueue, srcItems, simRun, twoStream, preFire]
      | some dp =>
        obtain ⟨due, p⟩ := dp
        simp only [simQueue, srcItems, List.map_nil, insertEv, simRun, simRun_nil, twoStream, preFire, if_true]
        cases (op.onTimer (max clk due) s p).2.2 <;> cases hasTerm (op.onTimer (max clk due) s p).2.1 <;> simp
    | cons a r =>
      obtain ⟨t, n⟩ := a
      cases tm with
      | none =>
        have hf : 2 * r.length + (if (effTm (op.onSrc (max clk t) s n).2.2 (none : Option (Nat × P))).isSome then 1 else 0) ≤ fuel := by
          simp only [List.length_cons] at h; split <;> omega
        have q : simQueue ((t, n) :: r) (none : Option (Nat × P)) = (t, SItem.src n) :: simQueue r none := rfl
        rw [q, twoStream_none_cons]
        simp only [simRun]
        rw [applyEff_queue, ih r _ _ _ hf]
      | some dp =>
        obtain ⟨due, p⟩ := dp
        by_cases hlt : due < t
        · have q : simQueue ((t, n) :: r) (some (due, p)) = (due, SItem.timer p) :: simQueue ((t, n) :: r) none := by
            simp [simQueue, srcItems, insertEv, hlt]
          have hf : 2 * ((t, n) :: r).length + (if (none : Option (Nat × P)).isSome then 1 else 0) ≤ fuel := by
            simp only [List.length_cons, Option.isSome_some, if_true] at h; simp; omega
          rw [q]
          simp only [simRun]
          rw [ih ((t, n) :: r) none _ _ hf, twoStream_none_cons]
          simp only [twoStream, preFire, hlt, decide_true, if_true]
          cases (op.onTimer (max clk due) s p).2.2 <;> cases hasTerm (op.onTimer (max clk due) s p).2.1 <;> simp
        · have q : simQueue ((t, n) :: r) (some (due, p)) = (t, SItem.src n) :: simQueue r (some (due, p)) := by
            simp [simQueue, srcItems, insertEv, hlt]
          have hf : 2 * r.length + (if (effTm (op.onSrc (max clk t) s n).2.2 (some (due, p))).isSome then 1 else 0) ≤ fuel := by
            simp only [List.length_cons] at h; split <;> omega
          rw [q]
          simp only [simRun]
          rw [applyEff_queue, ih r _ _ _ hf]
          simp [twoStream, preFire, hlt]

theorem simStart_eq_twoStream {σ α β P} (op : SimOp σ α β P) (other : Nat → TL β) (clk : Nat) (tm : Option (Nat × P))
    (s : σ) (msgs : TL α) : simStart op other clk tm s msgs = twoStream op other clk tm s msgs := by
  unfold simStart
  apply sim_eq_twoStream
  split <;> omega

/-! ### the two-stream run of each operator is the generic one instantiated with its handlers -/

theorem hasTerm_debAction {α} (s : DebSt α) (cur : Nat) : hasTerm (debAction s cur).2 = false := by
  unfold debAction debEmit
  cases s.value <;> cases (s.hasValue && s.id == cur) <;> simp [hasTerm, isNext]

theorem deb_twoStream_eq_run {α} (d : Nat) (other : Nat → TL α) (msgs : TL α) :
    ∀ (s : DebSt α) (clk lo : Nat), Mono lo msgs → clk ≤ lo → (∀ due cur, s.timer = some (due, cur) → clk ≤ due) →
      twoStream (debOp d) other clk s.timer s msgs = debRun d s msgs := by
  induction msgs with
  | nil =>
    intro s clk lo _ _ hdue
    rw [twoStream_nil]
    cases ht : s.timer with
    | none => simp [debRun, ht]
    | some dc =>
      obtain ⟨due, cur⟩ := dc
      have := hdue due cur ht
      simp [debRun, ht, debOp, Nat.max_eq_right this]
  | cons a r ih =>
    obtain ⟨t, n⟩ := a
    intro s clk lo hm hclk hdue
    have hct : clk ≤ t := Nat.le_trans hclk hm.1
    -- the source message, handled in a state `s1` whose pending action (if any) does not precede it
    have src : ∀ (s1 : DebSt α) (clk1 : Nat) (tm : Option (Nat × Nat)), clk1 ≤ t →
        at_ (max clk1 t) ((debOp d).onSrc (max clk1 t) s1 n).2.1 ++
          (if hasTerm ((debOp d).onSrc (max clk1 t) s1 n).2.1 then []
           else twoStream (debOp d) other (max clk1 t) (effTm ((debOp d).onSrc (max clk1 t) s1 n).2.2 tm)
                  ((debOp d).onSrc (max clk1 t) s1 n).1 r) =
          (match n with
           | .next x => debRun d (debOnNext d t s1 x) r
           | .error e => at_ t (debOnError s1 e).2
           | .completed => at_ t (debOnCompleted s1).2) := by
      intro s1 clk1 tm hc1
      rw [Nat.max_eq_right hc1]
      cases n with
      | next x =>
        have hnext := ih (debOnNext d t s1 x) t t hm.2 (Nat.le_refl _) (by
          intro due cur h; simp [debOnNext] at h; omega)
        have e0 : (debOp d).onSrc t s1 (Notif.next x) = (debOnNext d t s1 x, [], TEff.arm (t + d) (s1.id + 1)) := rfl
        rw [e0]
        simp only [hasTerm, List.any_nil, Bool.false_eq_true, if_false, at_, List.map_nil, List.nil_append, effTm]
        exact hnext
      | error e =>
        have e0 : (debOp d).onSrc t s1 (Notif.error e) = ((debOnError s1 e).1, (debOnError s1 e).2, TEff.cancel) := rfl
        have hterm : hasTerm (debOnError s1 e).2 = true := by simp [debOnError, hasTerm, isNext]
        rw [e0]; simp only [hterm, if_true, List.append_nil]
      | completed =>
        have e0 : (debOp d).onSrc t s1 (Notif.completed) = ((debOnCompleted s1).1, (debOnCompleted s1).2, TEff.cancel) := rfl
        have hterm : hasTerm (debOnCompleted s1).2 = true := by simp [debOnCompleted, hasTerm, isNext]
        rw [e0]; simp only [hterm, if_true, List.append_nil]
    cases ht : s.timer with
    | none =>
      rw [twoStream_none_cons, src s clk none hct]
      cases n <;> simp [debRun, debAdvance, ht]
    | some dc =>
      obtain ⟨due, cur⟩ := dc
      have hcd := hdue due cur ht
      by_cases hlt : due < t
      · rw [twoStream_some_cons_lt _ _ _ _ _ _ _ _ _ hlt, Nat.max_eq_right hcd]
        have e0 : (debOp d).onTimer due s cur = ((debAction s cur).1, (debAction s cur).2, false) := rfl
        rw [e0]
        simp only [Bool.false_eq_true, if_false, hasTerm_debAction]
        rw [twoStream_none_cons, src (debAction s cur).1 due none (Nat.le_of_lt hlt)]
        cases n <;> simp [debRun, debAdvance, ht, hlt]
      · rw [twoStream_some_cons_ge _ _ _ _ _ _ _ _ _ hlt, src s clk (some (due, cur)) hct]
        cases n <;> simp [debRun, debAdvance, ht, hlt]

/-! #### timeout (hot source: `cold1 = false`) -/

theorem to_twoStream_eq_run {α} (mode : Due) (other : Nat → TL α) (msgs : TL α) :
    ∀ (s : ToSt) (clk lo : Nat) (tm : ToTimer), Mono lo msgs → clk ≤ lo → s.switched = false → s.timer = some tm →
      tm.myId = s.id → tm.fireAt = max tm.due clk →
      twoStream (toOp mode) other clk (some (tm.due, tm)) s msgs = toRun mode false other s msgs := by
  induction msgs with
  | nil =>
    intro s clk lo tm _ _ hsw ht hid hfire
    rw [twoStream_nil]
    have e0 : (toOp (α := α) mode).onTimer (max clk tm.due) s tm = (toAction s tm, [], (toAction s tm).switched) := rfl
    have hs : (toAction s tm).switched = true := by simp [toAction, hid]
    simp only [e0, hs, if_true, at_, List.map_nil, List.nil_append, toRun, ht]
    rw [hfire, Nat.max_comm]
  | cons a r ih =>
    obtain ⟨t, n⟩ := a
    intro s clk lo tm hm hclk hsw ht hid hfire
    have hct : clk ≤ t := Nat.le_trans hclk hm.1
    have hs : (toAction s tm).switched = true := by simp [toAction, hid]
    by_cases hlt : tm.due < t
    · rw [twoStream_some_cons_lt _ _ _ _ _ _ _ _ _ hlt]
      have e0 : (toOp (α := α) mode).onTimer (max clk tm.due) s tm = (toAction s tm, [], (toAction s tm).switched) := rfl
      simp only [e0, hs, if_true, at_, List.map_nil, List.nil_append]
      simp only [toRun, toFire, ht, Bool.and_false, timerBefore, Bool.false_eq_true, if_false, hlt, decide_true, if_true, hs]
      rw [hfire, Nat.max_comm]
    · rw [twoStream_some_cons_ge _ _ _ _ _ _ _ _ _ hlt, Nat.max_eq_right hct]
      have hfire0 : toFire false s t = none := by simp [toFire, ht, timerBefore, hlt]
      simp only [toRun, hfire0]
      cases n with
      | next v =>
        have e0 : (toOp mode).onSrc t s (Notif.next v) =
            ((toOnNext mode t s v).1, (toOnNext mode t s v).2,
              match (toOnNext (α := α) mode t s v).1.timer with
              | some tm' => if s.switched then TEff.keep else .arm tm'.due tm'
              | none => .keep) := rfl
        have e1 : toOnNext mode t s v = (toCreateTimer mode t false { s with id := s.id + 1 }, [Notif.next v]) := by
          simp [toOnNext, hsw]
        rw [e0, e1]
        simp only [toCreateTimer, hsw, Bool.false_eq_true, if_false, effTm, toHandle, e1, isNext, if_true, hasTerm,
          List.any_cons, List.any_nil, Bool.not_true, Bool.or_false]
        congr 1
        exact ih _ t t { due := mode.at t, fireAt := max (mode.at t) t, myId := s.id + 1, first := false } hm.2
          (Nat.le_refl _) rfl rfl rfl rfl
      | error e =>
        have e0 : (toOp mode).onSrc t s (Notif.error e) = ((toOnTerminal s (Notif.error e : Notif α)).1, (toOnTerminal s (Notif.error e : Notif α)).2, TEff.keep) := rfl
        rw [e0]
        simp [toOnTerminal, hsw, hasTerm, isNext, toHandle, at_]
      | completed =>
        have e0 : (toOp mode).onSrc t s (Notif.completed) = ((toOnTerminal s (Notif.completed : Notif α)).1, (toOnTerminal s (Notif.completed : Notif α)).2, TEff.keep) := rfl
        rw [e0]
        simp [toOnTerminal, hsw, hasTerm, isNext, toHandle, at_]

/-! #### take_with_time / skip_with_time / throttle_first -/

theorem twt_twoStream_eq_run {α} (other : Nat → TL α) (due fireAt : Nat) (msgs : TL α) :
    ∀ (clk lo : Nat), Mono lo msgs → clk ≤ lo → max clk due = fireAt →
      twoStream (twtOp (α := α)) other clk (some (due, ())) () msgs = twtRun false due fireAt msgs := by
  induction msgs with
  | nil =>
    intro clk lo _ _ hf
    rw [twoStream_nil]
    simp [twtOp, twtRun, hf, at_]
  | cons a r ih =>
    obtain ⟨t, n⟩ := a
    intro clk lo hm hclk hf
    have hct : clk ≤ t := Nat.le_trans hclk hm.1
    by_cases hlt : due < t
    · rw [twoStream_some_cons_lt _ _ _ _ _ _ _ _ _ hlt]
      simp [twtOp, twtRun, timerBefore, hlt, hf, at_, hasTerm, isNext]
    · rw [twoStream_some_cons_ge _ _ _ _ _ _ _ _ _ hlt, Nat.max_eq_right hct]
      have hnext : max t due = fireAt := by rw [← hf]; omega
      cases n with
      | next v =>
        have := ih t t hm.2 (Nat.le_refl _) hnext
        simp [twtOp, twtRun, timerBefore, hlt, at_, hasTerm, isNext, effTm] at this ⊢
        exact this
      | error e => simp [twtOp, twtRun, timerBefore, hlt, at_, hasTerm, isNext]
      | completed => simp [twtOp, twtRun, timerBefore, hlt, at_, hasTerm, isNext]

theorem swt_open_twoStream_eq_run {α} (other : Nat → TL α) (due : Nat) (msgs : TL α) :
    ∀ (clk lo : Nat), Mono lo msgs → clk ≤ lo →
      twoStream (swtOp (α := α)) other clk none true msgs = swtRun false due true msgs := by
  induction msgs with
  | nil => intro clk lo _ _; rw [twoStream_nil]; simp [swtRun]
  | cons a r ih =>
    obtain ⟨t, n⟩ := a
    intro clk lo hm hclk
    have hct : clk ≤ t := Nat.le_trans hclk hm.1
    rw [twoStream_none_cons, Nat.max_eq_right hct]
    cases n with
    | next v =>
      have := ih t t hm.2 (Nat.le_refl _)
      have e0 : (swtOp (α := α)).onSrc t true (Notif.next v) = (true, swtOnNext true v, TEff.keep) := rfl
      rw [e0]
      simp only [swtOnNext, if_true, hasTerm, List.any_cons, List.any_nil, isNext, Bool.not_true, Bool.or_false,
        Bool.false_eq_true, if_false, effTm, this, swtRun, Bool.true_or]
    | error e => simp [swtOp, swtRun, at_, hasTerm, isNext]
    | completed => simp [swtOp, swtRun, at_, hasTerm, isNext]

theorem swt_twoStream_eq_run {α} (other : Nat → TL α) (due : Nat) (msgs : TL α) :
    ∀ (clk lo : Nat), Mono lo msgs → clk ≤ lo →
      twoStream (swtOp (α := α)) other clk (some (due, ())) false msgs = swtRun false due false msgs := by
  induction msgs with
  | nil => intro clk lo _ _; rw [twoStream_nil]; simp [swtOp, swtRun, at_]
  | cons a r ih =>
    obtain ⟨t, n⟩ := a
    intro clk lo hm hclk
    have hct : clk ≤ t := Nat.le_trans hclk hm.1
    by_cases hlt : due < t
    · rw [twoStream_some_cons_lt _ _ _ _ _ _ _ _ _ hlt]
      have hcd : max clk due ≤ t := by omega
      have e0 : (swtOp (α := α)).onTimer (max clk due) false () = (true, [], false) := rfl
      rw [e0]
      simp only [Bool.false_eq_true, if_false, hasTerm, List.any_nil, at_, List.map_nil, List.nil_append]
      rw [swt_open_twoStream_eq_run other due ((t, n) :: r) (max clk due) (max clk due) ⟨hcd, hm.2⟩ (Nat.le_refl _)]
      cases n <;> simp [swtRun, timerBefore, hlt]
    · rw [twoStream_some_cons_ge _ _ _ _ _ _ _ _ _ hlt, Nat.max_eq_right hct]
      cases n with
      | next v =>
        have := ih t t hm.2 (Nat.le_refl _)
        have e0 : (swtOp (α := α)).onSrc t false (Notif.next v) = (false, swtOnNext false v, TEff.keep) := rfl
        rw [e0]
        simp only [swtOnNext, Bool.false_eq_true, if_false, hasTerm, List.any_nil, effTm, this, swtRun, timerBefore, hlt,
          decide_false, Bool.or_self, at_, List.map_nil, List.nil_append]
      | error e => simp [swtOp, swtRun, at_, hasTerm, isNext]
      | completed => simp [swtOp, swtRun, at_, hasTerm, isNext]

theorem tf_twoStream_eq_run {α} (w : Nat) (other : Nat → TL α) (msgs : TL α) :
    ∀ (last : Option Nat) (clk lo : Nat), Mono lo msgs → clk ≤ lo →
      twoStream (tfOp (α := α) w) other clk none last msgs = tfRun w last msgs := by
  induction msgs with
  | nil => intro last clk lo _ _; rw [twoStream_nil]; simp [tfRun]
  | cons a r ih =>
    obtain ⟨t, n⟩ := a
    intro last clk lo hm hclk
    have hct : clk ≤ t := Nat.le_trans hclk hm.1
    rw [twoStream_none_cons, Nat.max_eq_right hct]
    cases n with
    | next x =>
      have := ih (tfOnNext w t last x).1 t t hm.2 (Nat.le_refl _)
      have hterm : hasTerm (tfOnNext w t last x).2 = false := by
        unfold tfOnNext; cases last <;> simp [hasTerm, isNext]; split <;> simp [isNext]
      have e0 : (tfOp w).onSrc t last (Notif.next x) = ((tfOnNext w t last x).1, (tfOnNext w t last x).2, TEff.keep) := rfl
      rw [e0]
      simp only [hterm, Bool.false_eq_true, if_false, effTm, this, tfRun]
    | error e => simp [tfOp, tfRun, at_, hasTerm, isNext]
    | completed => simp [tfOp, tfRun, at_, hasTerm, isNext]

end Timed

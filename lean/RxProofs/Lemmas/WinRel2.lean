import RxProofs.Lemmas.WinRel
import RxProofs.Lemmas.WinEnd
/-!
# `Rel` is preserved by every step of every window machine; timers are cancelled with the underlying disposable.
(generated from WinBufJ2.lean by textual substitution J ↦ Rel, see the builder's notes)
-/
namespace Win
variable {α : Type}
open Base

theorem Rel_empty (t0 : Nat) : Rel ({ now := t0 } : Base α) :=
  ⟨fun _ => rfl, fun h => by simp at h, rfl, fun h => by simp at h, fun h => by simp at h, fun h => by simp at h⟩

theorem rcDisposed_open_empty (t0 : Nat) : (({ now := t0 } : Base α).newWin.1.outerNext ({ now := t0 } : Base α).newWin.2).rcDisposed = false := by
  simp [Base.outerNext, Base.newWin, Base.emit]

namespace Cnt
theorem Rel_createWindow (s : Cnt α) (h : Rel s.b) : Rel s.createWindow.b := Rel_open s.b h
theorem Rel_init (t0 : Nat) : Rel (Cnt.init (α := α) t0).b := Rel_subscribe _ _ (rcDisposed_open_empty (α := α) t0) (Rel_open _ (Rel_empty t0))
theorem Rel_fin (skip : Nat) (s : Cnt α) (h : Rel s.b) : Rel (fin skip s).b := by
  unfold fin; split
  · exact Rel_createWindow s h
  · exact h
theorem Rel_onNext (count skip : Nat) (s : Cnt α) (x : α) (h : Rel s.b) : Rel (onNext count skip s x).b := by
  have h1 : Rel (s.q.foldl (fun b id => b.winNext id x) s.b) := Rel_foldl _ (fun b i hb => Rel_winNext b i x hb) _ _ h
  rw [onNext_eq]; split
  · split
    · exact Rel_emit _ _ h1
    · exact Rel_fin _ _ (Rel_winEnd _ _ _ (by assumption))
  · exact Rel_fin _ _ h1
theorem Rel_onEnd (s : Cnt α) (e) (h : Rel s.b) : Rel (onEnd s e).b :=
  Rel_outerEnd _ _ (Rel_foldl _ (fun b i hb => Rel_winEnd b i e hb) _ _ h)
theorem Rel_step (count skip : Nat) (s : Cnt α) (t : Nat) (ev : Ev α) (h : Rel s.b) : Rel ((Cnt.mach count skip).step s t ev).b := by
  have h' : Rel ({ s with b := { s.b with now := t } } : Cnt α).b := Rel_now _ _ h
  simp only [mach]
  cases ev with
  | src k n =>
    cases k with
    | zero =>
      simp only [step]; split
      · cases n with
        | next x => exact Rel_onNext _ _ _ _ h'
        | error e => exact Rel_unsub _ _ (Rel_onEnd _ _ h')
        | completed => exact Rel_unsub _ _ (Rel_onEnd _ _ h')
      · exact h'
    | succ k => exact h'
  | dispose w => exact Rel_disposeEv _ _ h'
  | tick => exact h'
end Cnt

end Win
namespace Win
variable {α : Type}
open Base

namespace Bnd
theorem Rel_init (t0 : Nat) (bsync : Option (Notif Unit) := none) : Rel (Bnd.init (α := α) t0 bsync).b := by
  have h0 : Rel ((({ now := t0 } : Base α).newWin.1.outerNext ({ now := t0 } : Base α).newWin.2).subscribe 0) :=
    Rel_subscribe _ _ (rcDisposed_open_empty (α := α) t0) (Rel_open _ (Rel_empty t0))
  cases bsync with
  | none => simp only [Bnd.init]; exact Rel_subscribe _ _ (by simp [Base.subscribe, Base.emit, Base.outerNext, Base.newWin]) h0
  | some n =>
    cases n with
    | next u => simp only [Bnd.init, Bnd.onBoundary]; exact Rel_open _ (Rel_winEnd _ _ _ h0)
    | error e => simp only [Bnd.init, Bnd.onEnd]; exact Rel_outerEnd _ _ (Rel_winEnd _ _ _ h0)
    | completed => simp only [Bnd.init, Bnd.onEnd]; exact Rel_outerEnd _ _ (Rel_winEnd _ _ _ h0)
theorem Rel_step (s : Bnd α) (t : Nat) (ev : Ev α) (h : Rel s.b) : Rel (Bnd.mach.step s t ev).b := by
  have h' : Rel ({ s with b := { s.b with now := t } } : Bnd α).b := Rel_now _ _ h
  simp only [mach]
  cases ev with
  | src k n =>
    simp only [step]; split
    · cases n with
      | next x =>
        by_cases hk : (k == 0) = true
        · simp only [hk, if_true]; exact Rel_winNext _ _ _ h'
        · simp only [hk, Bool.false_eq_true, if_false, onBoundary]; exact Rel_open _ (Rel_winEnd _ _ _ h')
      | error e => exact Rel_unsub _ _ (Rel_outerEnd _ _ (Rel_winEnd _ _ _ h'))
      | completed => exact Rel_unsub _ _ (Rel_outerEnd _ _ (Rel_winEnd _ _ _ h'))
    · exact h'
  | dispose w => exact Rel_disposeEv _ _ h'
  | tick => exact h'
end Bnd

namespace Whn
theorem Rel_onEnd (s : Whn α) (e) (h : Rel s.b) : Rel (onEnd s e).b := Rel_outerEnd _ _ (Rel_winEnd _ _ _ h)
theorem Rel_createClosingF (r : Option Nat) (pool : Nat) (fuel : Nat) (s : Whn α) (h : Rel s.b) : Rel (createClosingF r pool fuel s).b := by
  induction fuel generalizing s with
  | zero => exact h
  | succ fuel ih =>
    simp only [createClosingF]
    split
    · exact Rel_outerEnd _ _ (Rel_winEnd _ _ _ h)
    · have h1 : Rel (if s.calls ≥ 1 then s.b.unsub s.calls else s.b) := by split; exact Rel_unsub _ _ h; exact h
      generalize (if s.calls ≥ 1 then s.b.unsub s.calls else s.b) = b1 at h1 ⊢
      split
      · exact ih _ (Rel_open _ (Rel_winEnd _ _ _ h1))
      · exact Rel_outerEnd _ _ (Rel_winEnd _ _ _ h1)
      · simp only []
        split
        · split
          · (rename_i hd; exact Rel_subscribe_unsub _ _ hd h1)
          · (rename_i hd; exact Rel_subscribe _ _ (by simpa using hd) h1)
        · exact h1
theorem Rel_createClosing (r : Option Nat) (pool : Nat) (s : Whn α) (h : Rel s.b) : Rel (createClosing r pool s).b :=
  Rel_createClosingF r pool _ s h
theorem Rel_init (r : Option Nat) (pool t0 : Nat) (sync : List (Option (Option Err)) := []) : Rel (Whn.init (α := α) r pool t0 sync).b :=
  Rel_createClosing _ _ _ (Rel_subscribe _ _ (rcDisposed_open_empty (α := α) t0) (Rel_open _ (Rel_empty t0)))
theorem Rel_onClose (r : Option Nat) (pool : Nat) (s : Whn α) (h : Rel s.b) : Rel (onClose r pool s).b :=
  Rel_createClosing _ _ _ (Rel_open _ (Rel_winEnd _ _ _ h))
theorem Rel_step (r : Option Nat) (pool : Nat) (s : Whn α) (t : Nat) (ev : Ev α) (h : Rel s.b) :
    Rel ((Whn.mach r pool).step s t ev).b := by
  have h' : Rel ({ s with b := { s.b with now := t } } : Whn α).b := Rel_now _ _ h
  simp only [mach]
  cases ev with
  | src k n =>
    simp only [step]; split
    · split
      · cases n with
        | next x => exact Rel_winNext _ _ _ h'
        | error e => exact Rel_unsub _ _ (Rel_onEnd _ _ h')
        | completed => exact Rel_unsub _ _ (Rel_onEnd _ _ h')
      · cases n with
        | next x => exact Rel_unsub _ _ (Rel_onClose _ _ _ h')
        | error e => exact Rel_unsub _ _ (Rel_onEnd _ _ h')
        | completed => exact Rel_unsub _ _ (Rel_onClose _ _ _ h')
    · exact h'
  | dispose w => exact Rel_disposeEv _ _ h'
  | tick => exact h'
end Whn

namespace Tgl
theorem Rel_init (t0 : Nat) (sync : List (Option (Option Err)) := []) : Rel (Tgl.init (α := α) t0 sync).b := Rel_subscribe _ _ rfl (Rel_subscribe _ _ rfl (Rel_empty t0))
theorem Rel_errAll (s : Tgl α) (e) (h : Rel s.b) : Rel (errAll s e).b :=
  Rel_outerEnd _ _ (Rel_foldl _ (fun b p hb => Rel_winEnd b p.2 (some e) hb) _ _ h)
theorem Rel_expire (s : Tgl α) (i) (h : Rel s.b) : Rel (expire s i).b := by
  unfold expire; split
  · exact Rel_winEnd _ _ _ h
  · exact h
theorem Rel_onOpen (r : Option Nat) (pool : Nat) (s : Tgl α) (h : Rel s.b) : Rel (onOpen r pool s).b := by
  have h1 : Rel (s.b.newWin.1.outerNext s.b.newWin.2) := Rel_open _ h
  unfold onOpen; simp only []
  split
  · exact Rel_errAll _ _ h1
  · split
    · exact Rel_expire _ _ h1
    · exact Rel_errAll _ _ h1
    · split
      · split
        · (rename_i hd; exact Rel_subscribe_unsub _ _ hd h1)
        · (rename_i hd; exact Rel_subscribe _ _ (by simpa using hd) h1)
      · exact h1
theorem Rel_step (r : Option Nat) (pool : Nat) (s : Tgl α) (t : Nat) (ev : Ev α) (h : Rel s.b) :
    Rel ((Tgl.mach r pool).step s t ev).b := by
  have h' : Rel ({ s with b := { s.b with now := t } } : Tgl α).b := Rel_now _ _ h
  simp only [mach]
  cases ev with
  | src k n =>
    simp only [step]; split
    · split
      · cases n with
        | next x => exact Rel_foldl _ (fun b p hb => Rel_winNext b p.2 x hb) _ _ h'
        | error e => exact Rel_unsub _ _ (Rel_errAll _ _ h')
        | completed => exact Rel_unsub _ _ h'
      · split
        · cases n with
          | next x => exact Rel_onOpen _ _ _ h'
          | error e => exact Rel_unsub _ _ (Rel_errAll _ _ h')
          | completed => exact Rel_unsub _ _ (Rel_outerEnd _ _ h')
        · cases n with
          | next x => exact Rel_unsub _ _ (Rel_expire _ _ h')
          | error e => exact Rel_unsub _ _ (Rel_errAll _ _ h')
          | completed => exact Rel_unsub _ _ (Rel_expire _ _ h')
    · exact h'
  | dispose w => exact Rel_disposeEv _ _ h'
  | tick => exact h'
end Tgl

namespace Tim
theorem Rel_init (span shift t0 : Nat) : Rel (Tim.init (α := α) span shift t0).b := by
  simp only [init, createTimer_b]; exact Rel_subscribe _ _ (rcDisposed_open_empty (α := α) t0) (Rel_open _ (Rel_empty t0))
theorem Rel_onEnd (s : Tim α) (e) (h : Rel s.b) : Rel (onEnd s e).b :=
  Rel_outerEnd _ _ (Rel_foldl _ (fun b i hb => Rel_winEnd b i e hb) _ _ h)
theorem Rel_onTick (shift : Nat) (s : Tim α) (h : Rel s.b) : Rel (onTick shift s).b := by
  unfold onTick; split
  · exact h
  · rename_i tk _
    simp only []
    have hnew : Rel (s.b.newWin.1.outerNext s.b.newWin.2) := Rel_open _ h
    cases tk.isShift <;> cases tk.isSpan <;> simp only [Bool.false_eq_true, if_false, if_true]
    · exact h
    · split
      · exact Rel_emit _ _ h
      · exact Rel_winEnd _ _ _ h
    · exact hnew
    · split
      · exact Rel_emit _ _ hnew
      · exact Rel_winEnd _ _ _ hnew
theorem Rel_step (shift : Nat) (s : Tim α) (t : Nat) (ev : Ev α) (h : Rel s.b) : Rel ((Tim.mach shift).step s t ev).b := by
  have h' : Rel ({ s with b := { s.b with now := t } } : Tim α).b := Rel_now _ _ h
  simp only [mach]
  cases ev with
  | src k n =>
    cases k with
    | zero =>
      simp only [step]; split
      · cases n with
        | next x => exact Rel_foldl _ (fun b i hb => Rel_winNext b i x hb) _ _ h'
        | error e => rw [sync_b]; exact Rel_unsub _ _ (Rel_onEnd _ _ h')
        | completed => rw [sync_b]; exact Rel_unsub _ _ (Rel_onEnd _ _ h')
      · exact h'
    | succ k => exact h'
  | dispose w => simp only [step, sync_b]; exact Rel_disposeEv _ _ h'
  | tick => simp only [step, sync_b]; exact Rel_onTick _ _ h'
end Tim

namespace Toc
theorem Rel_init (span t0 : Nat) : Rel (Toc.init (α := α) span t0).b := by
  simp only [init, createTimer_b]; exact Rel_subscribe _ _ (rcDisposed_open_empty (α := α) t0) (Rel_open _ (Rel_empty t0))
theorem Rel_roll (st : Toc α) (h : Rel st.b) : Rel (roll st).b := Rel_open _ (Rel_winEnd _ _ _ h)
theorem Rel_step (span count : Nat) (s : Toc α) (t : Nat) (ev : Ev α) (h : Rel s.b) :
    Rel ((Toc.mach span count).step s t ev).b := by
  have h' : Rel ({ s with b := { s.b with now := t } } : Toc α).b := Rel_now _ _ h
  simp only [mach]
  cases ev with
  | src k n =>
    cases k with
    | zero =>
      simp only [step]; split
      · cases n with
        | next x =>
          simp only [sync_b, onNext]; split
          · simp only [createTimer_b, sync_b]; exact Rel_roll _ (Rel_winNext _ _ _ h')
          · exact Rel_winNext _ _ _ h'
        | error e => simp only [sync_b, onEnd]; exact Rel_unsub _ _ (Rel_outerEnd _ _ (Rel_winEnd _ _ _ h'))
        | completed => simp only [sync_b, onEnd]; exact Rel_unsub _ _ (Rel_outerEnd _ _ (Rel_winEnd _ _ _ h'))
      · exact h'
    | succ k => exact h'
  | dispose w => simp only [step, sync_b]; exact Rel_disposeEv _ _ h'
  | tick =>
    simp only [step, sync_b, onTick]; split
    · exact h'
    · split
      · exact h'
      · simp only [createTimer_b, sync_b]; exact Rel_roll _ h'
end Toc

/-- `J` holds along every run of a machine whose steps preserve it. -/
theorem Rel_fold {σ : Type} (m : Mach σ α) (base : σ → Base α) (hstep : ∀ s t e, Rel (base s) → Rel (base (m.step s t e)))
    (evs : List (Nat × Ev α)) (s : σ) (h : Rel (base s)) : Rel (base (m.fold s evs)) := by
  induction evs generalizing s with
  | nil => exact h
  | cons te es ih => exact ih _ (hstep s te.1 te.2 h)

end Win

import RxProofs.Lemmas.SubjLate
/-!
# A closed form for Subject histories whose callbacks unsubscribe (themselves or others)

`AbsSt` keeps only what the property talks about — who is subscribed (in order), who has been detached,
what everybody has seen — and `absCall` is the property text as a direct recursive definition: a broadcast
walks the members *as they were when the call was made*, hands the notification to those not detached by
then, and each callback's unsubscriptions take effect immediately (so an observer unsubscribed by an
earlier observer's callback during the same delivery is skipped).  No AutoDetachObserver, no
SingleAssignmentDisposable, no InnerSubscription, no agenda, no fuel.
`run_unsub_closed_form`: the machine computes exactly this.
-/

namespace Subj
variable {α : Type}

structure AbsSt (α : Type) where
  members : List Id := []
  detached : Id → Bool := fun _ => false
  seen : Id → Bool := fun _ => false
  handle : Id → Bool := fun _ => false          -- its `subscribe` has returned: the user holds the handle
  cnt : Id → Nat := fun _ => 0
  log : Id → List (Notif α) := fun _ => []
  term : Option (Notif α) := none
  disp : Bool := false

/-- the user disposes j's subscription (possible only once `subscribe` has returned the handle) -/
def absUnsub (a : AbsSt α) (j : Id) : AbsSt α :=
  if a.handle j then { a with detached := upd a.detached j true, members := a.members.erase j } else a

/-- the observers a callback unsubscribes -/
def targets (cfg : Cfg) (i : Id) (k : Nat) : List Id :=
  (cfg.react i k).filterMap fun a => match a with | .unsub j => some j | _ => none

/-- hand `n` to observer `i` (unless it has been detached); its callback's unsubscriptions follow at once -/
def absGive (cfg : Cfg) (a : AbsSt α) (i : Id) (n : Notif α) : AbsSt α :=
  if a.detached i then a
  else
    (targets cfg i (a.cnt i)).foldl absUnsub
      { a with log := upd a.log i (a.log i ++ [n]), cnt := upd a.cnt i (a.cnt i + 1),
               detached := if n.isTerminal then upd a.detached i true else a.detached }

/-- the delivery loop over the snapshot -/
def absBcast (cfg : Cfg) (n : Notif α) : List Id → AbsSt α → AbsSt α
  | [], a => a
  | i :: is, a => absBcast cfg n is (absGive cfg a i n)

def absCall (cfg : Cfg) (a : AbsSt α) : Call α → AbsSt α
  | .sub j =>
    if a.seen j then a
    else
      let a := { a with seen := upd a.seen j true }
      let a :=
        if a.disp then absGive cfg a j (.error disposedExn)
        else
          match a.term with
          | some t => absGive cfg a j t
          | none => { a with members := a.members ++ [j] }
      { a with handle := upd a.handle j true }
  | .unsub j => absUnsub a j
  | .next v => if a.disp || a.term.isSome then a else absBcast cfg (.next v) a.members a
  | .error e =>
    if a.disp || a.term.isSome then a
    else absBcast cfg (.error e) a.members { a with term := some (.error e), members := [] }
  | .completed =>
    if a.disp || a.term.isSome then a
    else absBcast cfg .completed a.members { a with term := some .completed, members := [] }
  | .dispose => { a with disp := true, members := [] }

def absRun (cfg : Cfg) : AbsSt α → List (Call α) → AbsSt α
  | a, [] => a
  | a, c :: cs => absRun cfg (absCall cfg a c) cs

/-- Callbacks only unsubscribe; every observer has an `on_error` handler; plain Subject. -/
structure UnsubCfg (cfg : Cfg) : Prop where
  kind : cfg.kind = .subject
  err : ∀ i, cfg.hasErr i = true
  react : ∀ i k, ∀ a ∈ cfg.react i k, ∃ j, a = Action.unsub j

theorem reactions_eq_targets {cfg : Cfg} (hc : UnsubCfg cfg) (st : St α) (i : Id) :
    reactions cfg st i = (targets cfg i (st.cbs i)).map (fun j => Task.act (some i) (.unsub j)) := by
  unfold reactions targets
  have h := hc.react i (st.cbs i)
  generalize cfg.react i (st.cbs i) = l at h
  induction l with
  | nil => rfl
  | cons a l ih =>
    obtain ⟨j, rfl⟩ := h a (by simp)
    simp only [List.map_cons, List.filterMap_cons]
    rw [ih (fun b hb => h b (by simp [hb]))]

/-- what the abstract state sees of a machine state -/
def proj (st : St α) (t : Option (Notif α)) : AbsSt α :=
  { members := st.observers, detached := st.adoStopped, seen := st.seen, handle := st.handle, cnt := st.cbs,
    log := st.log, term := t, disp := st.disposed }

/-! ### big-step runs compose, and agree with `exec` given enough fuel -/

theorem RunsTo.append {cfg : Cfg} {st st1 st2 : St α} {a b : List (Task α)} (h1 : RunsTo cfg st a st1)
    (h2 : RunsTo cfg st1 b st2) : RunsTo cfg st (a ++ b) st2 := by
  induction h1 with
  | nil => exact h2
  | cons hne hnew _ _ ih2 => exact RunsTo.cons hne hnew (ih2 h2)

theorem RunsTo.single {cfg : Cfg} {st st' : St α} {t : Task α} (hne : (step1 cfg st t).2.2 = false)
    (h : RunsTo cfg (step1 cfg st t).1 (step1 cfg st t).2.1 st') : RunsTo cfg st [t] st' :=
  RunsTo.cons hne h RunsTo.nil

theorem exec_nil' (cfg : Cfg) (f : Nat) (st : St α) : exec cfg f st [] = st := by
  cases f <;> rfl

theorem exec_of_runsTo {cfg : Cfg} {st st' : St α} {ag : List (Task α)} (h : RunsTo cfg st ag st') :
    ∃ N, ∀ f, N ≤ f → ∀ rest, exec cfg f st (ag ++ rest) = exec cfg (f - N) st' rest := by
  induction h with
  | nil => exact ⟨0, fun f _ rest => by simp⟩
  | @cons st st2 st3 t ts hne _ _ ih1 ih2 =>
    obtain ⟨N1, h1⟩ := ih1
    obtain ⟨N2, h2⟩ := ih2
    refine ⟨1 + N1 + N2, ?_⟩
    intro f hf rest
    obtain ⟨f', rfl⟩ : ∃ f', f = f' + 1 := ⟨f - 1, by omega⟩
    simp only [List.cons_append, exec, nextAgenda, hne, Bool.false_eq_true, if_false]
    rw [h1 f' (by omega) (ts ++ rest), h2 (f' - N1) (by omega) rest]
    congr 1
    omega

theorem doUnsub_proj {st : St α} (hI : SInv st) (j : Id) (t : Option (Notif α)) :
    proj (doUnsub st j) t = absUnsub (proj st t) j ∧
    (doUnsub st j).stopped = st.stopped ∧ (doUnsub st j).disposed = st.disposed ∧ (doUnsub st j).exception = st.exception := by
  unfold doUnsub
  by_cases hh : st.handle j = true
  · rw [if_pos hh]
    have key : (adoDispose { st with tr := .unsub j :: st.tr } j).observers = st.observers.erase j ∧
        (adoDispose { st with tr := .unsub j :: st.tr } j).adoStopped = upd st.adoStopped j true ∧
        (adoDispose { st with tr := .unsub j :: st.tr } j).seen = st.seen ∧
        (adoDispose { st with tr := .unsub j :: st.tr } j).cbs = st.cbs ∧
        (adoDispose { st with tr := .unsub j :: st.tr } j).log = st.log ∧
        (adoDispose { st with tr := .unsub j :: st.tr } j).disposed = st.disposed ∧
        (adoDispose { st with tr := .unsub j :: st.tr } j).stopped = st.stopped ∧
        (adoDispose { st with tr := .unsub j :: st.tr } j).exception = st.exception ∧
        (adoDispose { st with tr := .unsub j :: st.tr } j).handle = st.handle := by
      by_cases hm : j ∈ st.observers
      · have hl := hI.link j hm
        have hcur : st.cur j = some .inner := by
          rcases hl.2 with h' | h'
          · exact h'
          · rw [hh] at h'; exact absurd h'.1 (by simp)
        have hnd : st.disposed = false := by
          cases hd : st.disposed with
          | false => rfl
          | true => have := hI.stopEmpty (hI.dispStop hd); rw [this] at hm; exact absurd hm (by simp)
        simp [adoDispose, sadDispose, innerDispose, hl.1, hcur, hnd]
      · have he : st.observers.erase j = st.observers := List.erase_of_not_mem hm
        rw [he]
        unfold adoDispose sadDispose innerDispose
        dsimp only
        repeat' split
        all_goals simp_all
    obtain ⟨k1,k2,k3,k4,k5,k6,k7,k8,k9⟩ := key
    refine ⟨?_, k7, k6, k8⟩
    simp only [proj, absUnsub, hh, if_true, k1, k2, k3, k4, k5, k6, k9]
  · rw [if_neg hh]
    refine ⟨?_, rfl, rfl, rfl⟩
    have hh' : st.handle j = false := by simpa using hh
    simp [proj, absUnsub, hh']

/-- executing a callback's unsubscriptions -/
theorem runs_unsubs {cfg : Cfg} {v : Option α} (who : Option Id) (t : Option (Notif α)) :
    ∀ (js : List Id) (st : St α) (rest : List (Task α)),
      Reachable cfg v st (js.map (fun j => Task.act who (.unsub j)) ++ rest) →
      ∃ st', RunsTo cfg st (js.map (fun j => Task.act who (.unsub j))) st' ∧
        proj st' t = js.foldl absUnsub (proj st t) ∧ Reachable cfg v st' rest ∧
        st'.stopped = st.stopped ∧ st'.disposed = st.disposed ∧ st'.exception = st.exception := by
  intro js
  induction js with
  | nil => intro st rest hr; exact ⟨st, RunsTo.nil, rfl, hr, rfl, rfl, rfl⟩
  | cons j js ih =>
    intro st rest hr
    have hI := (reachable_inv hr).1
    obtain ⟨hp, f1, f2, f3⟩ := doUnsub_proj hI j t
    have hstep : step1 cfg st (Task.act who (.unsub j)) = (doUnsub st j, [], false) := rfl
    have hr' : Reachable cfg v (doUnsub st j) (js.map (fun j => Task.act who (.unsub j)) ++ rest) := by
      have := Reach.step hr
      simpa [hstep, nextAgenda] using this
    obtain ⟨st', r1, r2, r4, r5, r6, r7⟩ := ih (doUnsub st j) rest hr'
    refine ⟨st', ?_, ?_, r4, r5.trans f1, r6.trans f2, r7.trans f3⟩
    · exact RunsTo.cons (by rw [hstep]) (by rw [hstep]; exact RunsTo.nil) r1
    · rw [r2, hp]; rfl

/-- the finally-dispose of a terminal callback changes nothing the abstract state sees (the subject has
terminated: its observer list is empty) -/
theorem sadDispose_proj {st : St α} (hI : SInv st) (hs : st.stopped = true) (i : Id) (t : Option (Notif α)) :
    proj (sadDispose st i) t = proj st t ∧ (sadDispose st i).stopped = st.stopped ∧
    (sadDispose st i).disposed = st.disposed ∧ (sadDispose st i).exception = st.exception := by
  have ho := hI.stopEmpty hs
  have key : (sadDispose st i).observers = st.observers ∧ (sadDispose st i).adoStopped = st.adoStopped ∧
      (sadDispose st i).seen = st.seen ∧ (sadDispose st i).cbs = st.cbs ∧ (sadDispose st i).log = st.log ∧
      (sadDispose st i).disposed = st.disposed ∧ (sadDispose st i).stopped = st.stopped ∧
      (sadDispose st i).exception = st.exception ∧ (sadDispose st i).handle = st.handle := by
    unfold sadDispose innerDispose
    dsimp only
    repeat' split
    all_goals simp_all
  obtain ⟨k1,k2,k3,k4,k5,k6,k7,k8,k9⟩ := key
  exact ⟨by simp [proj, k1, k2, k3, k4, k5, k6, k9], k7, k6, k8⟩

/-- one turn of the delivery loop -/
theorem runs_give {cfg : Cfg} {v : Option α} (hc : UnsubCfg cfg) (t : Option (Notif α))
    (st : St α) (i : Id) (n : Notif α) (rest : List (Task α))
    (hr : Reachable cfg v st (Task.deliver i n :: rest)) :
    ∃ st', RunsTo cfg st [Task.deliver i n] st' ∧ proj st' t = absGive cfg (proj st t) i n ∧
      Reachable cfg v st' rest ∧ st'.stopped = st.stopped ∧ st'.disposed = st.disposed ∧ st'.exception = st.exception := by
  by_cases hs : st.adoStopped i = true
  · have hstep : step1 cfg st (Task.deliver i n) = (st, [], false) := by simp [step1, deliver, hs]
    refine ⟨st, RunsTo.single (by rw [hstep]) (by rw [hstep]; exact RunsTo.nil), ?_, ?_, rfl, rfl, rfl⟩
    · simp [absGive, proj, hs]
    · have := Reach.step hr; simpa [hstep, nextAgenda] using this
  · have hs' : st.adoStopped i = false := by simpa using hs
    -- the state right after the user callback has recorded `n`
    have hstep : ∃ st1, step1 cfg st (Task.deliver i n) =
        (st1, (targets cfg i (st.cbs i)).map (fun j => Task.act (some i) (.unsub j)) ++ (if n.isTerminal then [Task.sadDispose i] else []), false) ∧
        proj st1 t = { proj st t with log := upd st.log i (st.log i ++ [n]), cnt := upd st.cbs i (st.cbs i + 1),
                                      detached := if n.isTerminal then upd st.adoStopped i true else st.adoStopped } ∧
        st1.handle = st.handle ∧ st1.seen = st.seen ∧ st1.observers = st.observers ∧
        (∀ k, st.adoStopped k = true → st1.adoStopped k = true) ∧
        st1.stopped = st.stopped ∧ st1.disposed = st.disposed ∧ st1.exception = st.exception := by
      cases n with
      | next x =>
        refine ⟨callback st i (.next x), ?_, ?_, rfl, rfl, rfl, fun k hk => hk, rfl, rfl, rfl⟩
        · simp [step1, deliver, hs', reactions_eq_targets hc, Notif.isTerminal]
        · simp [proj, callback, Notif.isTerminal]
      | completed =>
        refine ⟨callback { st with adoStopped := upd st.adoStopped i true } i .completed, ?_, ?_, rfl, rfl, rfl, ?_, rfl, rfl, rfl⟩
        · simp [step1, deliver, hs', reactions_eq_targets hc, Notif.isTerminal]
        · simp [proj, callback, Notif.isTerminal]
        · intro k hk; simp only [callback, upd]; split <;> simp [hk]
      | error e =>
        refine ⟨callback { st with adoStopped := upd st.adoStopped i true } i (.error e), ?_, ?_, rfl, rfl, rfl, ?_, rfl, rfl, rfl⟩
        · have hrx : reactions cfg { st with adoStopped := upd st.adoStopped i true } i = reactions cfg st i := rfl
          simp [step1, deliver, hs', hc.err i, hrx, reactions_eq_targets hc, Notif.isTerminal]
        · simp [proj, callback, Notif.isTerminal]
        · intro k hk; simp only [callback, upd]; split <;> simp [hk]
    obtain ⟨st1, hst, hp1, g1, g2, g3, g4, g5, g6, g7⟩ := hstep
    have hr1 : Reachable cfg v st1 (((targets cfg i (st.cbs i)).map (fun j => Task.act (some i) (.unsub j)) ++
        (if n.isTerminal then [Task.sadDispose i] else [])) ++ rest) := by
      have := Reach.step hr
      rw [hst] at this
      simpa [nextAgenda] using this
    rw [List.append_assoc] at hr1
    obtain ⟨st2, r1, r2, r4, r5, r6, r7⟩ := runs_unsubs (some i) t (targets cfg i (st.cbs i)) st1 _ hr1
    by_cases hterm : n.isTerminal = true
    · -- terminal: the callback's `finally: self.dispose()`
      simp only [hterm, if_true] at r4 hst
      have hI2 := reachable_inv r4
      have hok := hI2.2 (Task.sadDispose i) (by simp)
      simp only [TaskOK] at hok
      obtain ⟨q1, q3, q4, q5⟩ := sadDispose_proj hI2.1 hok.2 i t
      have hstep2 : step1 cfg st2 (Task.sadDispose i) = (sadDispose st2 i, [], false) := rfl
      refine ⟨sadDispose st2 i, ?_, ?_, ?_, q3.trans (r5.trans g5), q4.trans (r6.trans g6), q5.trans (r7.trans g7)⟩
      · refine RunsTo.single (by rw [hst]) ?_
        rw [hst]
        simp only [hterm, if_true]
        exact RunsTo.append r1 (RunsTo.single (by rw [hstep2]) (by rw [hstep2]; exact RunsTo.nil))
      · rw [q1, r2, hp1]
        simp [absGive, proj, hs', hterm]
      · have := Reach.step r4; simpa [hstep2, nextAgenda] using this
    · have hterm' : n.isTerminal = false := by simpa using hterm
      simp only [hterm', Bool.false_eq_true, if_false, List.nil_append] at r4 hst
      refine ⟨st2, ?_, ?_, r4, r5.trans g5, r6.trans g6, r7.trans g7⟩
      · refine RunsTo.single (by rw [hst]) ?_
        rw [hst]
        simpa [hterm'] using r1
      · rw [r2, hp1]
        simp [absGive, proj, hs', hterm']

/-- the whole delivery loop over a snapshot -/
theorem runs_bcast {cfg : Cfg} {v : Option α} (hc : UnsubCfg cfg) (t : Option (Notif α)) (n : Notif α) :
    ∀ (l : List Id) (st : St α) (rest : List (Task α)),
      Reachable cfg v st (l.map (Task.deliver · n) ++ rest) →
      ∃ st', RunsTo cfg st (l.map (Task.deliver · n)) st' ∧ proj st' t = absBcast cfg n l (proj st t) ∧
        Reachable cfg v st' rest ∧ st'.stopped = st.stopped ∧ st'.disposed = st.disposed ∧ st'.exception = st.exception := by
  intro l
  induction l with
  | nil => intro st rest hr; exact ⟨st, RunsTo.nil, rfl, hr, rfl, rfl, rfl⟩
  | cons i is ih =>
    intro st rest hr
    obtain ⟨st1, r1, r2, r4, r5, r6, r7⟩ := runs_give hc t st i n (is.map (Task.deliver · n) ++ rest) hr
    obtain ⟨st2, s1, s2, s4, s5, s6, s7⟩ := ih st1 rest r4
    refine ⟨st2, ?_, ?_, s4, s5.trans r5, s6.trans r6, s7.trans r7⟩
    · have := RunsTo.append r1 s1
      simpa using this
    · rw [s2, r2]; rfl

/-- The machine state (between calls) and the abstract state agree. -/
structure Rel (st : St α) (a : AbsSt α) : Prop where
  p : proj st a.term = a
  stop : st.stopped = (a.disp || a.term.isSome)
  term : a.disp = false → ∀ t, a.term = some t → termOf st = t
  noexc : st.stopped = false → st.exception = none

theorem termOf_congr' {x y : St α} (h : x.exception = y.exception) : termOf x = termOf y := by
  unfold termOf; rw [h]

theorem step_finish_proj (st : St α) (j : Id) (h : Option Held) (hns : h = some .inner → st.sadDisposed j = false)
    (t : Option (Notif α)) :
    proj (finish st j h) t = { proj st t with handle := upd st.handle j true } ∧
    (finish st j h).stopped = st.stopped ∧ (finish st j h).exception = st.exception := by
  unfold finish innerDispose
  cases h with
  | none => simp [proj]
  | some hh =>
    cases hh with
    | noop => dsimp only; split <;> simp [proj]
    | inner => simp [proj, hns rfl]

theorem absUnsub_td (a : AbsSt α) (j : Id) : (absUnsub a j).term = a.term ∧ (absUnsub a j).disp = a.disp := by
  unfold absUnsub; split <;> exact ⟨rfl, rfl⟩

theorem foldl_absUnsub_td (js : List Id) (a : AbsSt α) :
    (js.foldl absUnsub a).term = a.term ∧ (js.foldl absUnsub a).disp = a.disp := by
  induction js generalizing a with
  | nil => exact ⟨rfl, rfl⟩
  | cons j js ih =>
    simp only [List.foldl_cons]
    exact ⟨(ih _).1.trans (absUnsub_td a j).1, (ih _).2.trans (absUnsub_td a j).2⟩

theorem absGive_td (cfg : Cfg) (a : AbsSt α) (i : Id) (n : Notif α) :
    (absGive cfg a i n).term = a.term ∧ (absGive cfg a i n).disp = a.disp := by
  unfold absGive
  split
  · exact ⟨rfl, rfl⟩
  · exact ⟨(foldl_absUnsub_td _ _).1, (foldl_absUnsub_td _ _).2⟩

theorem absBcast_td (cfg : Cfg) (n : Notif α) (l : List Id) (a : AbsSt α) :
    (absBcast cfg n l a).term = a.term ∧ (absBcast cfg n l a).disp = a.disp := by
  induction l generalizing a with
  | nil => exact ⟨rfl, rfl⟩
  | cons i is ih =>
    simp only [absBcast]
    exact ⟨(ih _).1.trans (absGive_td cfg a i n).1, (ih _).2.trans (absGive_td cfg a i n).2⟩

theorem proj_disp (st : St α) (t : Option (Notif α)) : (proj st t).disp = st.disposed := rfl
theorem proj_term (st : St α) (t : Option (Notif α)) : (proj st t).term = t := rfl

/-- build `Rel` from what the big-step lemmas give -/
theorem Rel.mk' {st : St α} {a : AbsSt α} (hp : proj st a.term = a) (hstop : st.stopped = (a.disp || a.term.isSome))
    (hterm : a.disp = false → ∀ t, a.term = some t → termOf st = t) (hne : st.stopped = false → st.exception = none) :
    Rel st a := ⟨hp, hstop, hterm, hne⟩

def absHandle (a : AbsSt α) (j : Id) : AbsSt α := { a with handle := upd a.handle j true }

/-- `subscribe` returns: run the `finish` task -/
theorem runs_finish {cfg : Cfg} {v : Option α} (st : St α) (j : Id) (h : Option Held)
    (hns : h = some .inner → st.sadDisposed j = false) (t : Option (Notif α))
    (hr : Reachable cfg v st [Task.finish j h]) :
    ∃ st', RunsTo cfg st [Task.finish j h] st' ∧ proj st' t = absHandle (proj st t) j ∧ Reachable cfg v st' [] ∧
      st'.stopped = st.stopped ∧ st'.exception = st.exception := by
  have hstep : step1 cfg st (Task.finish j h) = (finish st j h, [], false) := rfl
  obtain ⟨q1, q2, q3⟩ := step_finish_proj st j h hns t
  refine ⟨finish st j h, RunsTo.single (by rw [hstep]) (by rw [hstep]; exact RunsTo.nil), ?_, ?_, q2, q3⟩
  · rw [q1]; rfl
  · have := Reach.step hr; simpa [hstep, nextAgenda] using this

/-- One history call: the machine runs it to completion and ends where the closed form says. -/
theorem task_rel {cfg : Cfg} {v : Option α} (hc : UnsubCfg cfg) {s0 : St α} {a : AbsSt α} (c : Call α)
    (hr0 : Reachable cfg v s0 [c.toTask]) (h : Rel s0 a) :
    ∃ st', RunsTo cfg s0 [c.toTask] st' ∧ Rel st' (absCall cfg a c) ∧ Reachable cfg v st' [] := by
  have hI0 := (reachable_inv hr0).1
  obtain ⟨hp, hstop, hterm, hnoexc⟩ := h
  have hdisp : a.disp = s0.disposed := by rw [← hp]; rfl
  have hmem : a.members = s0.observers := by rw [← hp]; rfl
  have hseen : a.seen = s0.seen := by rw [← hp]; rfl
  -- a call the subject rejects (disposed / terminated): nothing changes
  have hrej : ∀ (n : Notif α), (a.disp || a.term.isSome) = true → Reachable cfg v s0 [Task.emit n] →
      ∃ st', RunsTo cfg s0 [Task.emit n] st' ∧ Rel st' a ∧ Reachable cfg v st' [] := by
    intro n hdt hr
    have hs : s0.stopped = true := by rw [hstop]; exact hdt
    by_cases hd : s0.disposed = true
    · have hstep : step1 cfg s0 (.emit n) = ({ s0 with raisedNow := some disposedExn }, [], false) := by
        simp [step1, emit, hd]
      refine ⟨{ s0 with raisedNow := some disposedExn }, RunsTo.single (by rw [hstep]) (by rw [hstep]; exact RunsTo.nil),
        ⟨hp, hstop, hterm, hnoexc⟩, ?_⟩
      have := Reach.step hr; simpa [hstep, nextAgenda] using this
    · have hd' : s0.disposed = false := by simpa using hd
      have hstep : step1 cfg s0 (.emit n) = (s0, [], false) := by
        simp [step1, emit, hd', hs]
      refine ⟨s0, RunsTo.single (by rw [hstep]) (by rw [hstep]; exact RunsTo.nil), ⟨hp, hstop, hterm, hnoexc⟩, ?_⟩
      have := Reach.step hr; simpa [hstep, nextAgenda] using this
  -- an accepted terminal
  have hacc : ∀ (n : Notif α), n.isTerminal = true → (a.disp || a.term.isSome) = false → Reachable cfg v s0 [Task.emit n] →
      ∃ st', RunsTo cfg s0 [Task.emit n] st' ∧
        Rel st' (absBcast cfg n a.members { a with term := some n, members := [] }) ∧ Reachable cfg v st' [] := by
    intro n hn hdt hr
    have hd' : s0.disposed = false := by rw [← hdisp]; cases hx : a.disp <;> simp_all
    have hs' : s0.stopped = false := by rw [hstop]; exact hdt
    have hexc := hnoexc hs'
    obtain ⟨st1, hstep, hp1, hst1, hex1⟩ : ∃ st1, step1 cfg s0 (.emit n) = (st1, s0.observers.map (Task.deliver · n), false) ∧
        proj st1 (some n) = { a with term := some n, members := [] } ∧ st1.stopped = true ∧
        termOf st1 = n := by
      cases n with
      | next x => simp [Notif.isTerminal] at hn
      | error e =>
        refine ⟨{ s0 with stopped := true, observers := [], exception := some e, tr := .emit (.error e) :: s0.tr },
          by simp [step1, emit, hd', hs'], ?_, rfl, rfl⟩
        rw [← hp]; simp [proj]
      | completed =>
        refine ⟨{ s0 with stopped := true, observers := [], tr := .emit .completed :: s0.tr },
          by simp [step1, emit, hd', hs', hc.kind], ?_, rfl, ?_⟩
        · rw [← hp]; simp [proj]
        · simp [termOf, hexc]
    have hr1 : Reachable cfg v st1 (s0.observers.map (Task.deliver · n) ++ []) := by
      have := Reach.step hr; simpa [hstep, nextAgenda] using this
    obtain ⟨st', r1, r2, r4, r5, r6, r7⟩ := runs_bcast hc (some n) n s0.observers st1 [] hr1
    have htd := absBcast_td cfg n s0.observers ({ a with term := some n, members := [] } : AbsSt α)
    refine ⟨st', RunsTo.single (by rw [hstep]) (by rw [hstep]; exact r1), ?_, r4⟩
    rw [hmem]
    refine Rel.mk' ?_ ?_ ?_ ?_
    · rw [htd.1, r2, hp1]
    · rw [htd.1, r5, hst1]; simp
    · intro _ t ht
      rw [htd.1] at ht
      simp only [Option.some.injEq] at ht
      rw [← ht, termOf_congr' (y := st1) r7]; exact hex1
    · intro hs; rw [r5, hst1] at hs; exact absurd hs (by simp)
  cases c with
  | unsub j =>
    simp only [Call.toTask] at hr0 ⊢
    obtain ⟨st', r1, r2, r4, r5, r6, r7⟩ := runs_unsubs (cfg := cfg) (v := v) none a.term [j] s0 [] (by simpa using hr0)
    have htd := absUnsub_td a j
    refine ⟨st', by simpa using r1, ?_, r4⟩
    simp only [absCall]
    refine Rel.mk' ?_ ?_ ?_ ?_
    · rw [htd.1, r2, hp]; rfl
    · rw [htd.1, htd.2, r5]; exact hstop
    · intro hd t ht
      rw [htd.2] at hd; rw [htd.1] at ht
      rw [termOf_congr' (y := s0) r7]; exact hterm hd t ht
    · intro hs; rw [r5] at hs; rw [r7]; exact hnoexc hs
  | dispose =>
    simp only [Call.toTask] at hr0 ⊢
    have hstep : step1 cfg s0 (.act none .dispose) = (subjDispose s0, [], false) := rfl
    refine ⟨subjDispose s0, RunsTo.single (by rw [hstep]) (by rw [hstep]; exact RunsTo.nil), ?_, ?_⟩
    · simp only [absCall]
      refine Rel.mk' ?_ ?_ ?_ ?_
      · rw [← hp]; simp [proj, subjDispose]
      · simp [subjDispose]
      · intro hd; simp at hd
      · intro hs; simp [subjDispose] at hs
    · have := Reach.step hr0; simpa [hstep, nextAgenda] using this
  | next x =>
    simp only [Call.toTask] at hr0 ⊢
    by_cases hdt : (a.disp || a.term.isSome) = true
    · have : absCall cfg a (.next x) = a := by simp [absCall, hdt]
      rw [this]; exact hrej (.next x) hdt hr0
    · have hdt' : (a.disp || a.term.isSome) = false := by simpa using hdt
      have hd' : s0.disposed = false := by rw [← hdisp]; cases hx : a.disp <;> simp_all
      have hs' : s0.stopped = false := by rw [hstop]; exact hdt'
      have hstep : step1 cfg s0 (.emit (.next x)) =
          ({ s0 with tr := .emit (.next x) :: s0.tr }, s0.observers.map (Task.deliver · (.next x)), false) := by
        simp [step1, emit, hd', hs', hc.kind]
      have hr1 : Reachable cfg v { s0 with tr := .emit (.next x) :: s0.tr } (s0.observers.map (Task.deliver · (.next x)) ++ []) := by
        have := Reach.step hr0; simpa [hstep, nextAgenda] using this
      obtain ⟨st', r1, r2, r4, r5, r6, r7⟩ := runs_bcast hc a.term (.next x) s0.observers _ [] hr1
      have habs : absCall cfg a (.next x) = absBcast cfg (.next x) s0.observers a := by simp [absCall, hdt', hmem]
      have htd := absBcast_td cfg (.next x) s0.observers a
      refine ⟨st', RunsTo.single (by rw [hstep]) (by rw [hstep]; exact r1), ?_, r4⟩
      rw [habs]
      have hpa : proj ({ s0 with tr := .emit (.next x) :: s0.tr } : St α) a.term = a := hp
      refine Rel.mk' ?_ ?_ ?_ ?_
      · rw [htd.1, r2, hpa]
      · rw [htd.1, htd.2, r5]; exact hstop
      · intro hd t ht
        rw [htd.2] at hd; rw [htd.1] at ht
        rw [termOf_congr' (y := s0) r7]; exact hterm hd t ht
      · intro hs; rw [r5] at hs; rw [r7]; exact hnoexc hs
  | error e =>
    simp only [Call.toTask] at hr0 ⊢
    by_cases hdt : (a.disp || a.term.isSome) = true
    · have : absCall cfg a (.error e) = a := by simp [absCall, hdt]
      rw [this]; exact hrej (.error e) hdt hr0
    · have hdt' : (a.disp || a.term.isSome) = false := by simpa using hdt
      have : absCall cfg a (.error e) = absBcast cfg (.error e) a.members { a with term := some (.error e), members := [] } := by
        simp [absCall, hdt']
      rw [this]; exact hacc (.error e) rfl hdt' hr0
  | completed =>
    simp only [Call.toTask] at hr0 ⊢
    by_cases hdt : (a.disp || a.term.isSome) = true
    · have : absCall cfg a .completed = a := by simp [absCall, hdt]
      rw [this]; exact hrej .completed hdt hr0
    · have hdt' : (a.disp || a.term.isSome) = false := by simpa using hdt
      have : absCall cfg a .completed = absBcast cfg .completed a.members { a with term := some .completed, members := [] } := by
        simp [absCall, hdt']
      rw [this]; exact hacc .completed rfl hdt' hr0
  | sub j =>
    simp only [Call.toTask] at hr0 ⊢
    by_cases hsn : s0.seen j = true
    · have hstep : step1 cfg s0 (.act none (.sub j)) = (s0, [], false) := by simp [step1, doSub, hsn]
      have : absCall cfg a (.sub j) = a := by simp [absCall, hseen, hsn]
      rw [this]
      refine ⟨s0, RunsTo.single (by rw [hstep]) (by rw [hstep]; exact RunsTo.nil), ⟨hp, hstop, hterm, hnoexc⟩, ?_⟩
      have := Reach.step hr0; simpa [hstep, nextAgenda] using this
    · have hsn' : s0.seen j = false := by simpa using hsn
      obtain ⟨f1, f2, f3, f4, f5⟩ := hI0.fresh j hsn'
      have hdet : a.detached j = false := by rw [← hp]; exact f1
      by_cases hd : s0.disposed = true
      · -- disposed subject: `subscribe` hands E Disposed to the observer's on_error
        have hda : a.disp = true := by rw [hdisp]; exact hd
        have hstep : step1 cfg s0 (.act none (.sub j)) =
            (callback { s0 with seen := upd s0.seen j true, adoStopped := upd s0.adoStopped j true } j (.error disposedExn),
             (targets cfg j (s0.cbs j)).map (fun k => Task.act (some j) (.unsub k)) ++ [Task.finish j none], false) := by
          have hrx : reactions cfg { s0 with seen := upd s0.seen j true, adoStopped := upd s0.adoStopped j true } j =
              reactions cfg s0 j := rfl
          simp [step1, doSub, hsn', hd, hc.err j, reactions_eq_targets hc]
        have hr1 := Reach.step hr0
        rw [hstep] at hr1
        simp only [nextAgenda, Bool.false_eq_true, if_false, List.append_nil] at hr1
        obtain ⟨st2, r1, r2, r4, r5, r6, r7⟩ := runs_unsubs (some j) a.term (targets cfg j (s0.cbs j)) _ _ hr1
        obtain ⟨st3, s1, s2, s4, s5, s7⟩ := runs_finish st2 j none (by intro h; cases h) a.term r4
        have habs : absCall cfg a (.sub j) =
            absHandle (absGive cfg { a with seen := upd a.seen j true } j (.error disposedExn)) j := by
          simp [absCall, absHandle, hseen, hsn', hda]
        have htd := absGive_td cfg ({ a with seen := upd a.seen j true } : AbsSt α) j (.error disposedExn)
        refine ⟨st3, RunsTo.single (by rw [hstep]) (by rw [hstep]; exact RunsTo.append r1 s1), ?_, s4⟩
        rw [habs]
        have hterm3 : (absHandle (absGive cfg { a with seen := upd a.seen j true } j (.error disposedExn)) j).term = a.term := htd.1
        have hdisp3 : (absHandle (absGive cfg { a with seen := upd a.seen j true } j (.error disposedExn)) j).disp = a.disp := htd.2
        refine Rel.mk' ?_ ?_ ?_ ?_
        · rw [hterm3, s2, r2]
          congr 1
          rw [← hp]
          simp [absGive, proj, callback, f1, Notif.isTerminal]
        · rw [hterm3, hdisp3, s5, r5]; exact hstop
        · intro hd'; rw [hdisp3, hda] at hd'; exact absurd hd' (by simp)
        · intro hs; rw [s5, r5] at hs; rw [s7, r7]; exact hnoexc hs
      · have hd' : s0.disposed = false := by simpa using hd
        have hda : a.disp = false := by rw [hdisp]; exact hd'
        by_cases hs : s0.stopped = true
        · -- terminated subject: the late subscriber gets the terminal
          have hts : a.term.isSome = true := by rw [hstop, hda] at hs; simpa using hs
          obtain ⟨t, ht⟩ := Option.isSome_iff_exists.mp hts
          have htof := hterm hda t ht
          have hstep : step1 cfg s0 (.act none (.sub j)) =
              ({ s0 with seen := upd s0.seen j true }, [Task.deliver j t, Task.finish j (some .noop)], false) := by
            rw [← htof]
            unfold termOf
            cases hx : s0.exception with
            | some e => simp [step1, doSub, hsn', hd', hs, hx, hc.err j]
            | none => simp [step1, doSub, hsn', hd', hs, hx, hc.kind]
          have hr1 := Reach.step hr0
          rw [hstep] at hr1
          simp only [nextAgenda, Bool.false_eq_true, if_false, List.append_nil] at hr1
          obtain ⟨st2, r1, r2, r4, r5, r6, r7⟩ := runs_give hc a.term _ j t _ hr1
          obtain ⟨st3, s1, s2, s4, s5, s7⟩ := runs_finish st2 j (some .noop) (by intro h; cases h) a.term r4
          have habs : absCall cfg a (.sub j) = absHandle (absGive cfg { a with seen := upd a.seen j true } j t) j := by
            simp [absCall, absHandle, hseen, hsn', hda, ht]
          have htd := absGive_td cfg ({ a with seen := upd a.seen j true } : AbsSt α) j t
          refine ⟨st3, RunsTo.single (by rw [hstep]) (by rw [hstep]; exact RunsTo.append r1 s1), ?_, s4⟩
          rw [habs]
          have hterm3 : (absHandle (absGive cfg { a with seen := upd a.seen j true } j t) j).term = a.term := htd.1
          have hdisp3 : (absHandle (absGive cfg { a with seen := upd a.seen j true } j t) j).disp = a.disp := htd.2
          refine Rel.mk' ?_ ?_ ?_ ?_
          · rw [hterm3, s2, r2]
            congr 2
            rw [← hp]
            simp [proj]
          · rw [hterm3, hdisp3, s5, r5]; exact hstop
          · intro _ t' ht'
            rw [hterm3] at ht'
            rw [termOf_congr' (y := s0) (s7.trans r7)]; exact hterm hda t' ht'
          · intro hs'; rw [s5, r5] at hs'; rw [s7, r7]; exact hnoexc hs'
        · -- live subject: appended to the observer list
          have hs' : s0.stopped = false := by simpa using hs
          have htn : a.term = none := by
            rw [hstop, hda] at hs'
            cases hx : a.term with
            | none => rfl
            | some _ => rw [hx] at hs'; simp at hs'
          have hstep : step1 cfg s0 (.act none (.sub j)) =
              ({ s0 with seen := upd s0.seen j true, observers := s0.observers ++ [j], tr := .sub j :: s0.tr },
               [Task.finish j (some .inner)], false) := by
            simp [step1, doSub, hsn', hd', hs', hc.kind]
          have hr1 := Reach.step hr0
          rw [hstep] at hr1
          simp only [nextAgenda, Bool.false_eq_true, if_false, List.append_nil] at hr1
          obtain ⟨st3, s1, s2, s4, s5, s7⟩ := runs_finish _ j (some .inner) (by intro _; exact f3) a.term hr1
          have habs : absCall cfg a (.sub j) =
              absHandle { a with seen := upd a.seen j true, members := a.members ++ [j] } j := by
            simp [absCall, absHandle, hseen, hsn', hda, htn]
          refine ⟨st3, RunsTo.single (by rw [hstep]) (by rw [hstep]; exact s1), ?_, s4⟩
          rw [habs]
          refine Rel.mk' ?_ ?_ ?_ ?_
          · show proj st3 a.term = _
            rw [s2]
            congr 1
            rw [← hp]
            simp [proj]
          · show st3.stopped = (a.disp || a.term.isSome)
            rw [s5]; exact hstop
          · intro _ t' ht'
            have : a.term = some t' := ht'
            rw [htn] at this; exact absurd this (by simp)
          · intro hs''; rw [s7]; exact hnoexc hs'

theorem Rel.clearRaised {st : St α} {a : AbsSt α} (h : Rel st a) : Rel { st with raisedNow := none } a :=
  ⟨h.p, h.stop, h.term, h.noexc⟩

/-- A whole history: with enough fuel the machine ends in the state the closed form computes. -/
theorem run_rel {cfg : Cfg} {v : Option α} (hc : UnsubCfg cfg) (calls : List (Call α)) :
    ∀ (st : St α) (a : AbsSt α), Reachable cfg v st [] → Rel st a →
      ∃ N, ∀ fuel, N ≤ fuel → Rel (run cfg fuel st calls).1 (absRun cfg a calls) := by
  induction calls with
  | nil => intro st a _ h; exact ⟨0, fun _ _ => h⟩
  | cons c cs ih =>
    intro st a hr h
    obtain ⟨st', r1, r2, r3⟩ := task_rel hc c (Reach.call c hr) h.clearRaised
    obtain ⟨N1, h1⟩ := exec_of_runsTo r1
    obtain ⟨N2, h2⟩ := ih st' (absCall cfg a c) r3 r2
    refine ⟨max N1 N2, ?_⟩
    intro fuel hf
    have hcall : call cfg fuel st c = st' := by
      unfold call
      have := h1 fuel (by omega) []
      rw [List.append_nil, exec_nil'] at this
      exact this
    show Rel (run cfg fuel (call cfg fuel st c) cs).1 (absRun cfg (absCall cfg a c) cs)
    rw [hcall]
    exact h2 fuel (by omega)

theorem init_rel {cfg : Cfg} (hc : UnsubCfg cfg) : Rel (init cfg (none : Option α)) ({} : AbsSt α) := by
  have : init cfg (none : Option α) = {} := by unfold init; rw [hc.kind]
  rw [this]
  exact ⟨rfl, rfl, fun _ t ht => (nomatch ht), fun _ => rfl⟩

/-- **Closed form with unsubscribing callbacks.**  Every observer's final log, the subject's final
observer list and who has been detached are what `absRun` — the property text as a recursive function —
computes. -/
theorem run_unsub_closed_form {cfg : Cfg} (hc : UnsubCfg cfg) (calls : List (Call α)) :
    ∃ N, ∀ fuel, N ≤ fuel →
      (∀ i, (run cfg fuel (init cfg none) calls).1.log i = (absRun cfg ({} : AbsSt α) calls).log i) ∧
      (run cfg fuel (init cfg none) calls).1.observers = (absRun cfg ({} : AbsSt α) calls).members ∧
      (∀ i, (run cfg fuel (init cfg none) calls).1.adoStopped i = (absRun cfg ({} : AbsSt α) calls).detached i) := by
  obtain ⟨N, h⟩ := run_rel (v := none) hc calls (init cfg none) {} Reach.init (init_rel hc)
  refine ⟨N, fun fuel hf => ?_⟩
  have hp := (h fuel hf).p
  refine ⟨fun i => ?_, ?_, fun i => ?_⟩
  · exact congrFun (congrArg AbsSt.log hp) i
  · exact congrArg AbsSt.members hp
  · exact congrFun (congrArg AbsSt.detached hp) i

/-! ### the same without choosing the fuel: whenever the run did not run out of fuel (`oof = false`, which is
what the correspondence check requires of every compared case) -/

theorem sadDispose_oof (st : St α) (i : Id) : (sadDispose st i).oof = st.oof := by
  simp only [sadDispose, innerDispose]
  repeat' split
  all_goals rfl

theorem step1_oof (cfg : Cfg) (st : St α) (t : Task α) : (step1 cfg st t).1.oof = st.oof := by
  cases t with
  | emit n =>
    simp only [step1, emit]
    repeat' split
    all_goals rfl
  | act who a =>
    cases a with
    | sub j =>
      simp only [step1, doSub, callback, raiseTo]
      repeat' split
      all_goals rfl
    | unsub j =>
      simp only [step1, doUnsub, adoDispose, sadDispose, innerDispose]
      repeat' split
      all_goals rfl
    | dispose => rfl
  | deliver i n =>
    simp only [step1, deliver, callback, raiseTo]
    repeat' split
    all_goals first | rfl | simp [sadDispose_oof]
  | finish j h =>
    simp only [step1, finish, innerDispose]
    repeat' split
    all_goals rfl
  | sadDispose i =>
    simp only [step1, sadDispose, innerDispose]
    repeat' split
    all_goals rfl

theorem runsTo_oof {cfg : Cfg} {st st' : St α} {ag : List (Task α)} (h : RunsTo cfg st ag st') : st'.oof = st.oof := by
  induction h with
  | nil => rfl
  | cons _ _ _ ih1 ih2 => rw [ih2, ih1, step1_oof]

theorem exec_oof (cfg : Cfg) (f : Nat) : ∀ (st : St α) (ag : List (Task α)), st.oof = true → (exec cfg f st ag).oof = true := by
  induction f with
  | zero => intro st ag h; cases ag <;> simp [exec, h]
  | succ f ih =>
    intro st ag h
    cases ag with
    | nil => simpa [exec] using h
    | cons t ts => simp only [exec]; exact ih _ _ (by rw [step1_oof]; exact h)

theorem exec_of_runsTo_oof {cfg : Cfg} {st st' : St α} {ag : List (Task α)} (h : RunsTo cfg st ag st') :
    ∀ f rest, (exec cfg f st (ag ++ rest)).oof = true ∨ ∃ f', exec cfg f st (ag ++ rest) = exec cfg f' st' rest := by
  induction h with
  | nil => intro f rest; exact Or.inr ⟨f, rfl⟩
  | @cons st st2 st3 t ts hne _ _ ih1 ih2 =>
    intro f rest
    cases f with
    | zero => left; simp [exec]
    | succ f =>
      simp only [List.cons_append, exec, nextAgenda, hne, Bool.false_eq_true, if_false]
      rcases ih1 f (ts ++ rest) with h1 | ⟨f1, h1⟩
      · exact Or.inl h1
      · rw [h1]; exact ih2 f1 rest

theorem run_oof (cfg : Cfg) (fuel : Nat) (calls : List (Call α)) :
    ∀ st : St α, st.oof = true → (run cfg fuel st calls).1.oof = true := by
  induction calls with
  | nil => intro st h; exact h
  | cons c cs ih =>
    intro st h
    show (run cfg fuel (call cfg fuel st c) cs).1.oof = true
    exact ih _ (exec_oof cfg fuel _ _ h)

theorem run_rel_oof {cfg : Cfg} {v : Option α} (hc : UnsubCfg cfg) (fuel : Nat) (calls : List (Call α)) :
    ∀ (st : St α) (a : AbsSt α), Reachable cfg v st [] → Rel st a → (run cfg fuel st calls).1.oof = false →
      Rel (run cfg fuel st calls).1 (absRun cfg a calls) := by
  induction calls with
  | nil => intro st a _ h _; exact h
  | cons c cs ih =>
    intro st a hr h hoof
    obtain ⟨st', r1, r2, r3⟩ := task_rel hc c (Reach.call c hr) h.clearRaised
    have hrun : (run cfg fuel st (c :: cs)).1 = (run cfg fuel (call cfg fuel st c) cs).1 := rfl
    rw [hrun] at hoof ⊢
    rcases exec_of_runsTo_oof r1 fuel [] with h1 | ⟨f', h1⟩
    · have : (run cfg fuel (call cfg fuel st c) cs).1.oof = true := run_oof cfg fuel cs _ (by simpa [call] using h1)
      rw [this] at hoof; exact absurd hoof (by simp)
    · have hcall : call cfg fuel st c = st' := by
        unfold call
        rw [List.append_nil, exec_nil'] at h1
        exact h1
      rw [hcall] at hoof ⊢
      exact ih st' (absCall cfg a c) r3 r2 hoof

/-- **Closed form with unsubscribing callbacks**, for every fuel the run did not exhaust. -/
theorem run_unsub_closed_form' {cfg : Cfg} (hc : UnsubCfg cfg) (calls : List (Call α)) (fuel : Nat)
    (hoof : (run cfg fuel (init cfg none) calls).1.oof = false) :
    (∀ i, (run cfg fuel (init cfg none) calls).1.log i = (absRun cfg ({} : AbsSt α) calls).log i) ∧
    (run cfg fuel (init cfg none) calls).1.observers = (absRun cfg ({} : AbsSt α) calls).members ∧
    (∀ i, (run cfg fuel (init cfg none) calls).1.adoStopped i = (absRun cfg ({} : AbsSt α) calls).detached i) := by
  have hp := (run_rel_oof (v := none) hc fuel calls (init cfg none) {} Reach.init (init_rel hc) hoof).p
  refine ⟨fun i => ?_, ?_, fun i => ?_⟩
  · exact congrFun (congrArg AbsSt.log hp) i
  · exact congrArg AbsSt.members hp
  · exact congrFun (congrArg AbsSt.detached hp) i

/-- enough fuel always exists: the run terminates without `oof` -/
theorem run_unsub_total {cfg : Cfg} (hc : UnsubCfg cfg) (calls : List (Call α)) :
    ∃ N, ∀ fuel, N ≤ fuel → (run cfg fuel (init cfg (none : Option α)) calls).1.oof = false := by
  have key : ∀ (calls : List (Call α)) (st : St α) (a : AbsSt α), Reachable cfg (none : Option α) st [] → Rel st a →
      st.oof = false → ∃ N, ∀ fuel, N ≤ fuel → (run cfg fuel st calls).1.oof = false := by
    intro calls
    induction calls with
    | nil => intro st a _ _ h; exact ⟨0, fun _ _ => h⟩
    | cons c cs ih =>
      intro st a hr h ho
      obtain ⟨st', r1, r2, r3⟩ := task_rel hc c (Reach.call c hr) h.clearRaised
      have ho' : st'.oof = false := by
        have := runsTo_oof r1
        rw [this]; exact ho
      obtain ⟨N1, h1⟩ := exec_of_runsTo r1
      obtain ⟨N2, h2⟩ := ih st' (absCall cfg a c) r3 r2 ho'
      refine ⟨max N1 N2, ?_⟩
      intro fuel hf
      have hcall : call cfg fuel st c = st' := by
        unfold call
        have := h1 fuel (by omega) []
        rw [List.append_nil, exec_nil'] at this
        exact this
      show (run cfg fuel (call cfg fuel st c) cs).1.oof = false
      rw [hcall]
      exact h2 fuel (by omega)
  have hi : (init cfg (none : Option α)).oof = false := by unfold init; rw [hc.kind]
  exact key calls _ _ Reach.init (init_rel hc) hi

end Subj

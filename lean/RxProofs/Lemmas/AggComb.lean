import RxModel.CombHO
import RxModel.CombSeq
/-!
# C09 over the trace-combinator machines of the `comb` family (`RxModel/Comb*.lean`, read-only)

In these machines a user callback is part of the event (the projection's result is the `obs k` carried by the outer
event; a raising projection is the `on_error` that `map` makes of it — `C09.no_escape_map`) or a parameter
(`chHandler res`, `seqTick items`).  A handler cannot raise into its emitter by construction (it returns actions), so the
content of C09 here is: the callback-raise path makes exactly the downstream call `on_error e`, which — the subscriber not
being terminated — is delivered, closes every live source subscription in container order, stops the machine, and nothing
is ever emitted afterwards.
-/

namespace Comb

theorem acts_done_emits {β} (p : Plumb) (hp : p.done = true) (as : List (Act β)) :
    emits (p.acts as).2 = [] ∧ (p.acts as).1.done = true := by
  induction as generalizing p with
  | nil => exact ⟨rfl, hp⟩
  | cons a as ih =>
    cases a with
    | emit n =>
      have : p.act (Act.emit n) = (p, []) := by simp [Plumb.act, hp]
      simp only [Plumb.acts, this, List.nil_append]; exact ih p hp
    | sub k =>
      have : p.act (Act.sub (β := β) k) = (p, [Eff.sub k, Eff.unsub k]) := by simp [Plumb.act, hp]
      simp only [Plumb.acts, this]
      have := ih p hp
      exact ⟨by simpa [emits] using this.1, this.2⟩
    | unsub k =>
      by_cases hk : k ∈ p.live
      · have : p.act (Act.unsub (β := β) k) = ({ p with live := p.live.erase k }, [Eff.unsub k]) := by simp [Plumb.act, hk]
        simp only [Plumb.acts, this]
        have := ih { p with live := p.live.erase k } hp
        exact ⟨by simpa [emits] using this.1, this.2⟩
      · have : p.act (Act.unsub (β := β) k) = (p, []) := by simp [Plumb.act, hk]
        simp only [Plumb.acts, this, List.nil_append]; exact ih p hp

theorem emits_unsubs {β} (l : List Nat) : emits (l.map (Eff.unsub (β := β))) = [] := by
  induction l with
  | nil => rfl
  | cons k l ih => simpa [emits] using ih

/-- once the downstream observer is stopped, no event ever emits again -/
theorem step_done {σ ι β} (m : Machine σ ι β) (st : St σ) (hd : st.p.done = true) (ev : Ev ι) :
    emits (step m st ev).2 = [] ∧ (step m st ev).1.p.done = true := by
  cases ev with
  | src k n =>
    simp only [step]
    split
    · have h1 := acts_done_emits st.p hd (m.handler st.s k n).2
      split
      · have h2 := acts_done_emits (st.p.acts (m.handler st.s k n).2).1 h1.2 [Act.unsub (β := β) k]
        simp only [Plumb.acts, List.append_nil] at h2
        refine ⟨?_, h2.2⟩
        have : ∀ (a b : List (Eff β)), emits (a ++ b) = emits a ++ emits b := by
          intro a b; induction a with
          | nil => rfl
          | cons x a ih => cases x <;> simp [emits, ih]
        rw [this, h1.1, h2.1]; rfl
      · exact h1
    · exact ⟨rfl, hd⟩
  | tick => exact acts_done_emits st.p hd _
  | dispose => exact ⟨by simp [step, Plumb.dispose, emits_unsubs], rfl⟩

theorem run_done {σ ι β} (m : Machine σ ι β) (st : St σ) (hd : st.p.done = true) (es : List (Ev ι)) :
    emits (run m st es) = [] := by
  have happ : ∀ (a b : List (Eff β)), emits (a ++ b) = emits a ++ emits b := by
    intro a b; induction a with
    | nil => rfl
    | cons x a ih => cases x <;> simp [emits, ih]
  induction es generalizing st with
  | nil => rfl
  | cons e es ih =>
    have h := step_done m st hd e
    simp only [run, runE, List.flatten_cons, happ] at ih ⊢
    rw [h.1, List.nil_append]
    exact ih _ h.2

/-- "`on_error e` was delivered at this event": exactly `emit (error e)` then the unsubscription of every live source in
container order; the machine is stopped with nothing live; no later event ever emits. -/
def DeliveredAt {σ ι β} (m : Machine σ ι β) (st : St σ) (ev : Ev ι) (e : Err) : Prop :=
  (step m st ev).2 = Eff.emit (.error e) :: st.p.live.map Eff.unsub
  ∧ (step m st ev).1.p = { done := true, live := [] }
  ∧ ∀ es, emits (run m (step m st ev).1 es) = []

/-- **delivery of a callback-raise path through a source handler**: the handler of a live source `k` answers with the
single action `on_error e` while the subscriber is not terminated ⇒ the effects are exactly `emit (error e)` followed by
the unsubscription of every live source in container order; afterwards the machine is stopped, no source is live and no
event ever emits again. -/
theorem raise_delivered_src {σ ι β} (m : Machine σ ι β) (st : St σ) (k : Nat) (n : Notif ι) (e : Err) (s' : σ)
    (hk : k ∈ st.p.live) (hd : st.p.done = false) (hh : m.handler st.s k n = (s', [Act.emit (.error e)])) :
    (step m st (.src k n)).2 = Eff.emit (.error e) :: st.p.live.map Eff.unsub
    ∧ (step m st (.src k n)).1.p = { done := true, live := [] }
    ∧ ∀ es, emits (run m (step m st (.src k n)).1 es) = [] := by
  have h1 : (step m st (.src k n)).2 = Eff.emit (.error e) :: st.p.live.map Eff.unsub
      ∧ (step m st (.src k n)).1.p = { done := true, live := [] } := by
    simp only [step, hk, if_true, hh, Plumb.acts, Plumb.act, hd, Bool.false_eq_true, if_false, Notif.isTerminal, if_true,
      List.append_nil]
    cases n <;> simp [Notif.isTerminal, Plumb.act]
  exact ⟨h1.1, h1.2, fun es => run_done m _ (by rw [h1.2]) es⟩

/-- the same for the operator's own scheduled action (`tick`): a raising source factory / iterator -/
theorem raise_delivered_tick {σ ι β} (m : Machine σ ι β) (st : St σ) (e : Err) (s' : σ)
    (hd : st.p.done = false) (hh : m.tick st.s false = (s', [Act.emit (.error e)])) :
    (step m st (.tick : Ev ι)).2 = Eff.emit (.error e) :: st.p.live.map Eff.unsub
    ∧ (step m st (.tick : Ev ι)).1.p = { done := true, live := [] }
    ∧ ∀ es, emits (run m (step m st (.tick : Ev ι)).1 es) = [] := by
  have h1 : (step m st (.tick : Ev ι)).2 = Eff.emit (.error e) :: st.p.live.map Eff.unsub
      ∧ (step m st (.tick : Ev ι)).1.p = { done := true, live := [] } := by
    simp [step, hd, hh, Plumb.acts, Plumb.act, Notif.isTerminal]
  exact ⟨h1.1, h1.2, fun es => run_done m _ (by rw [h1.2]) es⟩

end Comb

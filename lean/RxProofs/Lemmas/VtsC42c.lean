import RxProofs.Lemmas.Vts
namespace C42
open Vts

/-- forget that an item was scheduled through a CatchScheduler -/
def eraseItem (x : Item) : Item := { x with wrapped := false }
def eraseEntry (e : Item × Int) : Item × Int := (eraseItem e.1, e.2)
def eraseQ (q : PQ Item) : PQ Item := { q with items := q.items.map eraseEntry }
/-- the same scheduler state with every pending action unwrapped -/
def eraseW (s : St) : St := { s with queue := eraseQ s.queue }

/-- actions that do not raise: no `raise`, no `sleep` of a negative time, no re-entrant `advance_to`/`advance_by` that
could be out of range without being caught by the action -/
def noRaise : Step → Prop
  | .raise _ => False
  | .sleep t => 0 ≤ t
  | .ctl c => ∀ clock, ctlRaises clock c = false
  | _ => True

theorem popMinBy_map {β : Type} (lt : β → β → Bool) (g : β → β) (hg : ∀ a b, lt (g a) (g b) = lt a b) :
    ∀ l : List β, popMinBy lt (l.map g) = (popMinBy lt l).map (fun mr => (g mr.1, mr.2.map g)) := by
  intro l
  induction l with
  | nil => simp [popMinBy]
  | cons x xs ih =>
    simp only [List.map_cons, popMinBy, ih]
    cases popMinBy lt xs with
    | none => simp
    | some mr =>
      obtain ⟨m, r⟩ := mr
      simp only [Option.map_some, hg]
      split <;> simp

theorem dequeue_erase (q : PQ Item) :
    (eraseQ q).dequeue? Item.due = (q.dequeue? Item.due).map (fun xq => (eraseItem xq.1, eraseQ xq.2)) := by
  simp only [PQ.dequeue?, eraseQ]
  rw [popMinBy_map (PQ.entryLt Item.due) eraseEntry (by intro a b; rfl)]
  cases popMinBy (PQ.entryLt Item.due) q.items with
  | none => rfl
  | some mr => obtain ⟨m, r⟩ := mr; simp [eraseEntry, List.isEmpty_iff]

theorem erase_enqueue (s : St) (id : Nat) (due : Int) (b : Act) (w : Bool) :
    eraseW (s.enqueue id due b w) = (eraseW s).enqueue id due b false := by
  simp [eraseW, eraseQ, St.enqueue, PQ.enqueue, eraseEntry, eraseItem]

theorem erase_cancel (s : St) (id : Nat) : eraseW (s.cancel id) = (eraseW s).cancel id := by
  simp only [eraseW, eraseQ, St.cancel, List.map_map]
  congr 2
  apply List.map_congr_left
  intro e _
  simp only [Function.comp, cancelEntry, eraseEntry, eraseItem]
  by_cases h : e.1.id = id <;> simp [h]

theorem erase_foldl_cancel (l : List Nat) : ∀ s : St, eraseW (l.foldl St.cancel s) = l.foldl St.cancel (eraseW s) := by
  induction l with
  | nil => intro s; rfl
  | cons a l ih => intro s; rw [List.foldl_cons, List.foldl_cons, ih, erase_cancel]

theorem erase_dispose (s : St) (id : Nat) : eraseW (s.dispose id) = (eraseW s).dispose id := by
  simp only [St.dispose]
  exact erase_foldl_cancel _ s

theorem erase_attach (s : St) (id : Nat) (r : Option Nat) : eraseW (s.attachRet id r) = (eraseW s).attachRet id r := by
  cases r with
  | none => rfl
  | some c =>
    simp only [St.attachRet]
    have hd : (eraseW s).dead = s.dead := rfl
    rw [hd]
    split
    · rw [erase_dispose]; rfl
    · rfl

theorem exec_erase (w w' : Bool) (a : Act) : ∀ (s s' : St), a.All noRaise → eraseW s = eraseW s' →
    eraseW (exec w a s).1 = eraseW (exec w' a s').1 ∧ (exec w a s).2 = none ∧ (exec w' a s').2 = none := by
  induction a with
  | done => intro s s' _ h; exact ⟨h, rfl, rfl⟩
  | raise e => intro s s' ha _; exact absurd ha (by simp [Act.All, noRaise])
  | sched via m t cid child rest _ ih =>
    intro s s' ha h
    simp only [exec]
    apply ih _ _ ha.2.2
    have hc : s.clock = s'.clock := by have := congrArg St.clock h; exact this
    rw [erase_enqueue, erase_enqueue, h, hc]
  | cancel id rest ih =>
    intro s s' ha h
    simp only [exec]
    exact ih _ _ ha.2 (by rw [erase_dispose, erase_dispose, h])
  | stop rest ih =>
    intro s s' ha h
    simp only [exec]
    apply ih _ _ ha.2
    have := h
    simp only [eraseW] at this ⊢
    injection this with h1 h2 h3 h4 h5 h6 h7 h8 h9 h10 h11
    simp [*]
  | sleep t rest ih =>
    intro s s' ha h
    have ht : ¬ t < 0 := by have := ha.1; simp only [noRaise] at this; omega
    simp only [exec, if_neg ht]
    apply ih _ _ ha.2
    have := h
    simp only [eraseW] at this ⊢
    injection this with h1 h2 h3 h4 h5 h6 h7 h8 h9 h10 h11
    simp [*]
  | ctl c rest ih =>
    intro s s' ha h
    have hc : ∀ clock, ctlRaises clock c = false := ha.1
    have h1 := hc s.clock
    have h2 := hc s'.clock
    simp only [exec, h1, h2, Bool.false_eq_true, if_false]
    exact ih _ _ ha.2 h
  | ret c => intro s s' _ h; exact ⟨h, rfl, rfl⟩

def eraseIter : Iter → Iter
  | .exit s => .exit (eraseW s)
  | .next x s => .next (eraseItem x) (eraseW s)
  | .raised s e => .raised (eraseW s) e
  | .stuck s => .stuck (eraseW s)

theorem erase_fields {s s' : St} (h : eraseW s = eraseW s') :
    s.clock = s'.clock ∧ s.enabled = s'.enabled ∧ s.spin = s'.spin ∧ s.log = s'.log ∧ s.skipped = s'.skipped ∧
    s.hlog = s'.hlog ∧ s.nsched = s'.nsched ∧ eraseQ s.queue = eraseQ s'.queue ∧
    (s.links, s.dead, s.known) = (s'.links, s'.dead, s'.known) := by
  simp only [eraseW] at h
  injection h with h1 h2 h3 h4 h5 h6 h7 h8 h9 h10 h11
  exact ⟨h1, h3, h4, h5, h6, h7, h8, h2, by rw [h9, h10, h11]⟩

theorem erase_mk {s s' : St} (h1 : s.clock = s'.clock) (h3 : s.enabled = s'.enabled) (h4 : s.spin = s'.spin)
    (h5 : s.log = s'.log) (h6 : s.skipped = s'.skipped) (h7 : s.hlog = s'.hlog) (h8 : s.nsched = s'.nsched)
    (h2 : eraseQ s.queue = eraseQ s'.queue) (hm : (s.links, s.dead, s.known) = (s'.links, s'.dead, s'.known)) :
    eraseW s = eraseW s' := by
  simp only [Prod.mk.injEq] at hm
  obtain ⟨m1, m2, m3⟩ := hm
  simp only [eraseW]; rw [h1, h2, h3, h4, h5, h6, h7, h8, m1, m2, m3]

theorem eraseItem_fields {x x' : Item} (h : eraseItem x = eraseItem x') :
    x.id = x'.id ∧ x.due = x'.due ∧ x.body = x'.body ∧ x.cancelled = x'.cancelled ∧ x.seq = x'.seq := by
  simp only [eraseItem] at h
  injection h with h1 h2 h3 h4 h5 h6
  exact ⟨h1, h2, h3, h5, h6⟩

theorem invoke_noRaise (cfg : Cfg) (x : Item) (s : St) (hx : x.body.All noRaise) :
    invoke cfg x s = ((exec x.wrapped x.body
      { s with log := s.log ++ [{ id := x.id, at_ := s.clock, due := x.due, seq := x.seq }] }).1.attachRet x.id x.body.retOf, none) := by
  have h := (exec_erase x.wrapped x.wrapped x.body _ _ hx (rfl : eraseW
    { s with log := s.log ++ [{ id := x.id, at_ := s.clock, due := x.due, seq := x.seq }] } = _)).2.1
  rcases invoke_cases cfg x s with ⟨_, h2⟩ | ⟨e, h1, _, _⟩ | ⟨e, h1, _, _⟩
  · exact h2
  · rw [h] at h1; cases h1
  · rw [h] at h1; cases h1

theorem eraseItem_eq {x x' : Item} (h : eraseItem x = eraseItem x') : x' = { x with wrapped := x'.wrapped } := by
  obtain ⟨h1, h2, h3, h4, h5⟩ := eraseItem_fields h
  cases x; cases x'; simp_all

theorem fin_erase (cfg : Cfg) (tgt : Option Int) (t t' : St) (x : Item) (w' : Bool) (hxall : x.body.All noRaise)
    (ht : eraseW t = eraseW t') :
    eraseIter (fin cfg tgt t x) = eraseIter (fin cfg tgt t' { x with wrapped := w' }) := by
  obtain ⟨g1, g3, g4, g5, g6, g7, g8, g2, gm⟩ := erase_fields ht
  have hs0 : eraseW { t with log := t.log ++ [{ id := x.id, at_ := t.clock, due := x.due, seq := x.seq }] } =
      eraseW { t' with log := t'.log ++ [{ id := x.id, at_ := t'.clock, due := x.due, seq := x.seq }] } :=
    erase_mk g1 g3 g4 (by simp only [g5, g1]) g6 g7 g8 g2 gm
  have he0 := (exec_erase x.wrapped w' x.body _ _ hxall hs0).1
  have he : eraseW ((exec x.wrapped x.body { t with log := t.log ++ [{ id := x.id, at_ := t.clock, due := x.due, seq := x.seq }] }).1.attachRet x.id x.body.retOf) =
      eraseW ((exec w' x.body { t' with log := t'.log ++ [{ id := x.id, at_ := t'.clock, due := x.due, seq := x.seq }] }).1.attachRet x.id x.body.retOf) := by
    rw [erase_attach, erase_attach, he0]
  obtain ⟨k1, k3, k4, k5, k6, k7, k8, k2, km⟩ := erase_fields he
  simp only [fin]
  rw [invoke_noRaise cfg x t hxall, invoke_noRaise cfg { x with wrapped := w' } t' hxall]
  cases hc : x.cancelled with
  | true =>
    simp only [if_true, eraseIter, Iter.next.injEq]
    exact ⟨by simp [eraseItem, hc], erase_mk g1 g3 (by simp only [g4]) g5 (by simp only [g6]) g7 g8 g2 gm⟩
  | false =>
    simp only [Bool.false_eq_true, if_false, eraseIter, Iter.next.injEq]
    exact ⟨by simp [eraseItem, hc], erase_mk k1 k3 (by simp only [k4]) k5 k6 k7 k8 k2 km⟩

theorem iter_erase (cfg : Cfg) (tgt : Option Int) (s s' : St) (hq : QAll noRaise s) (h : eraseW s = eraseW s') :
    eraseIter (iter cfg tgt s) = eraseIter (iter cfg tgt s') := by
  obtain ⟨h1, h3, h4, h5, h6, h7, h8, h2, hm⟩ := erase_fields h
  have hdq : (s.queue.dequeue? Item.due).map (fun xq => (eraseItem xq.1, eraseQ xq.2)) =
      (s'.queue.dequeue? Item.due).map (fun xq => (eraseItem xq.1, eraseQ xq.2)) := by
    rw [← dequeue_erase, ← dequeue_erase, h2]
  simp only [iter, ← h3]
  by_cases hen : s.enabled = false
  · simp [hen, eraseIter, h]
  · cases hd : s.queue.dequeue? Item.due with
    | none =>
      rw [hd] at hdq
      cases hd' : s'.queue.dequeue? Item.due with
      | none => simp [eraseIter, h]
      | some xq => rw [hd'] at hdq; simp at hdq
    | some xq =>
      obtain ⟨x, q1⟩ := xq
      rw [hd] at hdq
      cases hd' : s'.queue.dequeue? Item.due with
      | none => rw [hd'] at hdq; simp at hdq
      | some xq' =>
        obtain ⟨x', q1'⟩ := xq'
        rw [hd'] at hdq
        simp only [Option.map_some, Option.some.injEq, Prod.mk.injEq] at hdq
        obtain ⟨hx, hq1⟩ := hdq
        have hx' := eraseItem_eq hx
        generalize x'.wrapped = w' at hx'
        subst hx'
        obtain ⟨c, hc⟩ := (dequeue_mem hd).1
        have hxall : x.body.All noRaise := hq _ hc
        simp only [hen, if_false]
        have hpt : pastTarget tgt { x with wrapped := w' } = pastTarget tgt x := rfl
        rw [hpt]
        by_cases hp : pastTarget tgt x = true
        · simp [hp, eraseIter, h]
        · simp only [hp]
          simp only [tick, ← h1, ← h4]
          by_cases hlt : x.due > s.clock
          · simp only [hlt, if_true]
            exact fin_erase cfg tgt _ _ x w' hxall (erase_mk rfl h3 rfl h5 h6 h7 h8 hq1 hm)
          · simp only [hlt, if_false]
            by_cases hsp : (tgt.isNone && decide (s.spin > cfg.maxSpin)) = true
            · simp only [hsp, if_true]
              by_cases hdl : cfg.spinDeadlock = true
              · simp [hdl, eraseIter, h]
              · simp only [hdl]
                exact fin_erase cfg tgt _ _ x w' hxall (erase_mk rfl h3 rfl h5 h6 h7 h8 hq1 hm)
            · simp only [hsp]
              exact fin_erase cfg tgt _ _ x w' hxall (erase_mk rfl h3 rfl h5 h6 h7 h8 hq1 hm)
end C42

import RxProofs.Lemmas.SubjReplayLive
import RxProofs.Lemmas.SubjReplayNat
/-!
# One formula for "prefix then live"

`specOf cfg evs` reads the *observable* event order of a run (history calls with their contents and times,
re-entrant emissions, subscription attempts, unsubscriptions, disposals — exactly what the correspondence
check compares with the real code) and computes, by the property text alone, what every subscriber is to
be handed: at its subscription the values retained at that instant (`trim` of everything accepted so far),
then the terminal if the subject has terminated, then every notification accepted while it stays
subscribed.  `SpecInv` ties the model to it: in every reachable state `enq i = (specOf cfg evs).exp i`.
-/

namespace SubjReplay
open Subj (Action Call upd disposedExn upd_apply)
variable {α : Type}

structure Spec (α : Type) where
  vals : List (Nat × α) := []          -- accepted values with the time they were accepted
  term : Option (Notif α) := none      -- accepted terminal
  disp : Bool := false
  subs : List Id := []                 -- currently subscribed (will be handed the next accepted notification)
  exp : Id → List (Notif α) := fun _ => []

/-- a notification is offered to the subject at time `now` -/
def Spec.emit (s : Spec α) (now : Nat) (n : Notif α) : Spec α :=
  if s.disp || s.term.isSome then s
  else
    match n with
    | .next v => { s with vals := s.vals ++ [(now, v)], exp := fun i => if i ∈ s.subs then s.exp i ++ [n] else s.exp i }
    | _ => { s with term := some n, subs := [], exp := fun i => if i ∈ s.subs then s.exp i ++ [n] else s.exp i }

def Spec.step (cfg : Cfg α) (s : Spec α) : EvR α → Spec α
  | .call _ now _ (.next v) => s.emit now (.next v)
  | .call _ now _ (.error e) => s.emit now (.error e)
  | .call _ now _ .completed => s.emit now .completed
  | .call _ _ _ _ => s
  | .emit _ now n => s.emit now n
  | .sub j now =>
    if s.disp then { s with exp := upd s.exp j [.error disposedExn] }
    else
      { s with exp := upd s.exp j ((trim cfg now s.vals).map (fun it => Notif.next it.2) ++ s.term.toList),
               subs := if s.term.isNone then s.subs ++ [j] else s.subs }
  | .unsub j => { s with subs := s.subs.erase j }
  | .dispose => { s with disp := true, subs := [] }
  | .cb _ _ => s

def specOf (cfg : Cfg α) (evs : List (EvR α)) : Spec α := evs.foldl (Spec.step cfg) {}

theorem specOf_snoc (cfg : Cfg α) (evs : List (EvR α)) (e : EvR α) :
    specOf cfg (evs ++ [e]) = Spec.step cfg (specOf cfg evs) e := by
  simp [specOf, List.foldl_append]

/-- The model agrees with the specification read off its own event order. -/
structure SpecInv (cfg : Cfg α) (st : St α) : Prop where
  v : (specOf cfg st.evs).vals = st.allVals
  d : (specOf cfg st.evs).disp = st.disposed
  t : st.disposed = false → st.stopped = (specOf cfg st.evs).term.isSome ∧ terminalOf st = (specOf cfg st.evs).term.toList
  o : st.stopped = false → st.observers = (specOf cfg st.evs).subs
  e : ∀ i, st.enq i = (specOf cfg st.evs).exp i
  h : ∀ i ∈ st.observers, st.held i = true ∧ st.sadDisposed i = false
  f : ∀ i, st.seen i = false → st.sadDisposed i = false
  q : ∀ i, ∀ n ∈ st.soQueue i, n.isTerminal = true → st.stopped = true
  a : ∀ i, Task.sadDispose i ∈ st.agenda → st.stopped = true ∧ st.seen i = true
  ne : ∀ n, Task.act none (RAction.emit n) ∉ st.agenda

/-- Steps that change nothing the specification looks at. -/
structure SFrame (st st' : St α) : Prop where
  evs : st'.evs = st.evs
  allVals : st'.allVals = st.allVals
  disposed : st'.disposed = st.disposed
  stopped : st'.stopped = st.stopped
  exception : st'.exception = st.exception
  observers : st'.observers = st.observers
  enq : st'.enq = st.enq
  held : st'.held = st.held
  sadDisposed : st'.sadDisposed = st.sadDisposed
  seen : st'.seen = st.seen
  soQueue : ∀ i, ∀ n ∈ st'.soQueue i, n ∈ st.soQueue i
  agenda : ∀ t, t ∈ st'.agenda → t ∈ st.agenda

theorem SFrame.refl (st : St α) : SFrame st st :=
  ⟨rfl, rfl, rfl, rfl, rfl, rfl, rfl, rfl, rfl, rfl, fun _ _ h => h, fun _ h => h⟩

theorem SFrame.trans {a b c : St α} (h1 : SFrame a b) (h2 : SFrame b c) : SFrame a c :=
  ⟨h2.evs.trans h1.evs, h2.allVals.trans h1.allVals, h2.disposed.trans h1.disposed, h2.stopped.trans h1.stopped,
   h2.exception.trans h1.exception, h2.observers.trans h1.observers, h2.enq.trans h1.enq, h2.held.trans h1.held,
   h2.sadDisposed.trans h1.sadDisposed, h2.seen.trans h1.seen,
   fun i n hn => h1.soQueue i n (h2.soQueue i n hn), fun t ht => h1.agenda t (h2.agenda t ht)⟩

theorem SpecInv.frame {cfg : Cfg α} {st st' : St α} (h : SpecInv cfg st) (f : SFrame st st') : SpecInv cfg st' := by
  obtain ⟨f1, f2, f3, f4, f5, f6, f7, f8, f9, f10, f11, f12⟩ := f
  refine ⟨by rw [f1, f2]; exact h.v, by rw [f1, f3]; exact h.d, ?_, by rw [f1, f4, f6]; exact h.o, by rw [f1, f7]; exact h.e,
    by rw [f6, f8, f9]; exact h.h, by rw [f10, f9]; exact h.f, ?_, ?_, fun n hn => h.ne n (f12 _ hn)⟩
  · intro hd
    rw [f3] at hd
    have := h.t hd
    rw [f1, f4]
    refine ⟨this.1, ?_⟩
    rw [← this.2]
    simp [terminalOf, f5, f4]
  · intro i n hn ht; rw [f4]; exact h.q i n (f11 i n hn) ht
  · intro i hi; rw [f4, f10]; exact h.a i (f12 _ hi)

theorem ensureActive_sframe (st : St α) (i : Id) : SFrame st (ensureActive st i) := by
  have f := ensureActive_frame st i
  simp only at f
  obtain ⟨f1,f2,f3,f4,f5,f6,f7,f8,f9,f10,f11,f12,f13,f14,f15,f16,f17,f18,f19,f20,f21,f22,f23,f24,f25⟩ := f
  exact ⟨f20, f1, f4, f16, f17, f10, f9, f22, f21, f11, fun k n hn => by rw [f8] at hn; exact hn, fun k hk => by rw [f18] at hk; exact hk⟩

theorem scheduleRun_sframe (st : St α) (i : Id) : SFrame st (scheduleRun st i).1 :=
  ⟨rfl, rfl, rfl, rfl, rfl, rfl, rfl, rfl, rfl, rfl, fun _ _ h => h, fun _ h => h⟩

macro "spec_crush" : tactic => `(tactic| (
  all_goals try dsimp only at *
  all_goals first
    | done
    | grind [terminalOf, Notif.isTerminal, List.erase_of_not_mem, List.Nodup.erase, List.mem_of_mem_erase,
        List.Nodup.mem_erase_iff, List.mem_singleton]))

/-- like `SFrame`, but the ScheduledObserver queues may have gained `n` -/
structure EFrame (n : Notif α) (st st' : St α) : Prop where
  evs : st'.evs = st.evs
  allVals : st'.allVals = st.allVals
  disposed : st'.disposed = st.disposed
  stopped : st'.stopped = st.stopped
  exception : st'.exception = st.exception
  observers : st'.observers = st.observers
  held : st'.held = st.held
  sadDisposed : st'.sadDisposed = st.sadDisposed
  seen : st'.seen = st.seen
  agenda : st'.agenda = st.agenda
  soQueue : ∀ i, ∀ n' ∈ st'.soQueue i, n' ∈ st.soQueue i ∨ n' = n

theorem EFrame.refl (n : Notif α) (st : St α) : EFrame n st st :=
  ⟨rfl, rfl, rfl, rfl, rfl, rfl, rfl, rfl, rfl, rfl, fun _ _ h => Or.inl h⟩

theorem soPush_eframe {n : Notif α} {st0 st : St α} (i : Id) (h : EFrame n st0 st) : EFrame n st0 (soPush st i n) := by
  obtain ⟨e1,e2,e3,e4,e5,e6,e7,e8,e9,e10,e11⟩ := h
  unfold soPush
  split
  · exact ⟨e1,e2,e3,e4,e5,e6,e7,e8,e9,e10,e11⟩
  · refine ⟨e1,e2,e3,e4,e5,e6,e7,e8,e9,e10,?_⟩
    intro k n' hn'
    by_cases hk : k = i
    · subst hk
      simp only [upd_apply, if_true, List.mem_append, List.mem_singleton] at hn'
      rcases hn' with h' | h'
      · exact e11 k n' h'
      · exact Or.inr h'
    · exact e11 k n' (by simpa [hk] using hn')

theorem ensureActive_eframe {n : Notif α} {st0 st : St α} (i : Id) (h : EFrame n st0 st) : EFrame n st0 (ensureActive st i) := by
  have f := ensureActive_frame st i
  simp only at f
  obtain ⟨f1,f2,f3,f4,f5,f6,f7,f8,f9,f10,f11,f12,f13,f14,f15,f16,f17,f18,f19,f20,f21,f22,f23,f24,f25⟩ := f
  obtain ⟨e1,e2,e3,e4,e5,e6,e7,e8,e9,e10,e11⟩ := h
  exact ⟨f20.trans e1, f1.trans e2, f4.trans e3, f16.trans e4, f17.trans e5, f10.trans e6, f22.trans e7, f21.trans e8,
    f11.trans e9, f18.trans e10, fun k n' hn' => e11 k n' (by rw [f8] at hn'; exact hn')⟩

theorem pushAll_eframe (n : Notif α) (l : List Id) (st : St α) : EFrame n st (pushAll n l st) :=
  pushAll_ind (P := fun s => EFrame n st s) n l st (fun s i _ h => soPush_eframe i h) (EFrame.refl n st)

theorem ensureAll_eframe {n : Notif α} {st0 st : St α} (l : List Id) (h : EFrame n st0 st) : EFrame n st0 (ensureAll l st) :=
  ensureAll_ind (P := fun s => EFrame n st0 s) l st (fun s i _ h => ensureActive_eframe i h) h

theorem pushEnsureAll_eframe (n : Notif α) (l : List Id) (st : St α) : EFrame n st (pushEnsureAll n l st) :=
  pushEnsureAll_ind (P := fun s => EFrame n st s) n l st (fun s i _ h => soPush_eframe i h)
    (fun s i _ h => ensureActive_eframe i h) (EFrame.refl n st)

theorem pushList_eframe' (j : Id) (ns : List (Notif α)) (st : St α) :
    (pushList st j ns).evs = st.evs ∧ (pushList st j ns).allVals = st.allVals ∧ (pushList st j ns).disposed = st.disposed ∧
    (pushList st j ns).stopped = st.stopped ∧ (pushList st j ns).exception = st.exception ∧
    (pushList st j ns).observers = st.observers ∧ (pushList st j ns).held = st.held ∧
    (pushList st j ns).sadDisposed = st.sadDisposed ∧ (pushList st j ns).seen = st.seen ∧
    (pushList st j ns).agenda = st.agenda ∧
    (∀ i, ∀ n' ∈ (pushList st j ns).soQueue i, n' ∈ st.soQueue i ∨ n' ∈ ns) := by
  induction ns generalizing st with
  | nil => exact ⟨rfl, rfl, rfl, rfl, rfl, rfl, rfl, rfl, rfl, rfl, fun _ _ h => Or.inl h⟩
  | cons n ns ih =>
    simp only [pushList]
    have h1 := soPush_eframe (n := n) j (EFrame.refl n st)
    obtain ⟨e1,e2,e3,e4,e5,e6,e7,e8,e9,e10,e11⟩ := h1
    obtain ⟨i1,i2,i3,i4,i5,i6,i7,i8,i9,i10,i11⟩ := ih (soPush st j n)
    refine ⟨i1.trans e1, i2.trans e2, i3.trans e3, i4.trans e4, i5.trans e5, i6.trans e6, i7.trans e7, i8.trans e8,
      i9.trans e9, i10.trans e10, ?_⟩
    intro i n' hn'
    rcases i11 i n' hn' with h' | h'
    · rcases e11 i n' h' with h'' | h''
      · exact Or.inl h''
      · exact Or.inr (by simp [h''])
    · exact Or.inr (by simp [h'])

/-- the retained part, computed from the queue or from everything accepted -/
theorem trim_queue_eq {cfg : Cfg α} {st : St α} (h : RInv cfg st) (hd : st.disposed = false) :
    trim cfg st.clock st.queue = trim cfg st.clock st.allVals :=
  (trim_of_retained h.sorted (h.retained hd) h.lastNow_le).unique (trim_isRetained cfg st.clock st.allVals h.sorted)

/-- `st` is `st0` with one more event recorded (and possibly another `curCall`). -/
structure WithEv (st0 st : St α) (ev : EvR α) : Prop where
  evs : st.evs = st0.evs ++ [ev]
  allVals : st.allVals = st0.allVals
  disposed : st.disposed = st0.disposed
  stopped : st.stopped = st0.stopped
  exception : st.exception = st0.exception
  observers : st.observers = st0.observers
  enq : st.enq = st0.enq
  held : st.held = st0.held
  sadDisposed : st.sadDisposed = st0.sadDisposed
  seen : st.seen = st0.seen
  soQueue : st.soQueue = st0.soQueue
  agenda : st.agenda = st0.agenda

/-- an event the specification ignores -/
theorem SpecInv.withEv_noop {cfg : Cfg α} {st0 st : St α} {ev : EvR α} (h : SpecInv cfg st0) (w : WithEv st0 st ev)
    (hev : ∀ s : Spec α, Spec.step cfg s ev = s) : SpecInv cfg st := by
  have hs : specOf cfg st.evs = specOf cfg st0.evs := by rw [w.evs, specOf_snoc, hev]
  obtain ⟨w1,w2,w3,w4,w5,w6,w7,w8,w9,w10,w11,w12⟩ := w
  refine ⟨by rw [hs, w2]; exact h.v, by rw [hs, w3]; exact h.d, ?_, by rw [hs, w4, w6]; exact h.o, by rw [hs, w7]; exact h.e,
    by rw [w6, w8, w9]; exact h.h, by rw [w10, w9]; exact h.f, by rw [w11, w4]; exact h.q, by rw [w12, w4, w10]; exact h.a, by rw [w12]; exact h.ne⟩
  intro hd
  rw [w3] at hd
  have := h.t hd
  rw [hs, w4]
  refine ⟨this.1, ?_⟩
  rw [← this.2]
  simp [terminalOf, w5, w4]

theorem emit_specinv (cfg : Cfg α) {st0 st : St α} {ev : EvR α} (h : SpecInv cfg st0) (w : WithEv st0 st ev)
    (hI : RInv cfg st) (who : Option Id) (n : Notif α)
    (hev : ∀ s : Spec α, Spec.step cfg s ev = s.emit st.clock n) : SpecInv cfg (emit cfg st who n) := by
  have hspec : specOf cfg st.evs = (specOf cfg st0.evs).emit st.clock n := by rw [w.evs, specOf_snoc, hev]
  obtain ⟨w1,w2,w3,w4,w5,w6,w7,w8,w9,w10,w11,w12⟩ := w
  obtain ⟨sv, sd, st', so, se, sh, sf, sq, sa, sne⟩ := h
  generalize hs0 : specOf cfg st0.evs = s0 at *
  -- rejected emissions change nothing on either side
  have hrej : (s0.disp || s0.term.isSome) = true → ∀ st2 : St α, st2.evs = st.evs → st2.allVals = st.allVals →
      st2.disposed = st.disposed → st2.stopped = st.stopped → st2.exception = st.exception → st2.observers = st.observers →
      st2.enq = st.enq → st2.held = st.held → st2.sadDisposed = st.sadDisposed → st2.seen = st.seen →
      st2.soQueue = st.soQueue → st2.agenda = st.agenda → SpecInv cfg st2 := by
    intro hr st2 e1 e2 e3 e4 e5 e6 e7 e8 e9 e10 e11 e12
    have hsame : specOf cfg st2.evs = s0 := by rw [e1, hspec]; simp [Spec.emit, hr]
    refine ⟨by rw [hsame, e2, w2]; exact sv, by rw [hsame, e3, w3]; exact sd, ?_, by rw [hsame, e4, w4, e6, w6]; exact so,
      by rw [hsame, e7, w7]; exact se, by rw [e6, w6, e8, w8, e9, w9]; exact sh, by rw [e10, w10, e9, w9]; exact sf,
      by rw [e11, w11, e4, w4]; exact sq, by rw [e12, w12, e4, w4, e10, w10]; exact sa, by rw [e12, w12]; exact sne⟩
    intro hd
    rw [e3, w3] at hd
    have := st' hd
    rw [hsame, e4, w4]
    refine ⟨this.1, ?_⟩
    rw [← this.2]
    simp [terminalOf, e5, w5, e4, w4]
  by_cases hd : st.disposed = true
  · have hr : (s0.disp || s0.term.isSome) = true := by rw [sd, ← w3, hd]; rfl
    have he : emit cfg st who n = raiseTo who disposedExn st := by simp [emit, hd]
    rw [he]
    cases who <;> exact hrej hr _ rfl rfl rfl rfl rfl rfl rfl rfl rfl rfl rfl rfl
  · have hd' : st.disposed = false := by simpa using hd
    have hd0 : st0.disposed = false := by rw [← w3]; exact hd'
    by_cases hs : st.stopped = true
    · have hr : (s0.disp || s0.term.isSome) = true := by
        have := (st' hd0).1; rw [← w4, hs] at this; rw [← this]; simp
      have he : emit cfg st who n = st := by simp [emit, hd', hs]
      rw [he]
      exact hrej hr _ rfl rfl rfl rfl rfl rfl rfl rfl rfl rfl rfl rfl
    · have hs' : st.stopped = false := by simpa using hs
      have hterm : s0.term = none := by
        have := (st' hd0).1; rw [← w4, hs'] at this
        cases ht : s0.term with
        | none => rfl
        | some t => rw [ht] at this; simp at this
      have hdisp : s0.disp = false := by rw [sd]; exact hd0
      have hobs : st.observers = s0.subs := by rw [w6]; exact so (by rw [← w4]; exact hs')
      have hexc : st.exception = none := by
        cases hx : st.exception with
        | none => rfl
        | some e => have := hI.excStop (by simp [hx]); rw [hs'] at this; exact absurd this (by simp)
      have henq := emit_enq cfg hI who n hd' hs'
      cases n with
      | next v =>
        have hspec' : specOf cfg (emit cfg st who (.next v)).evs =
            { s0 with vals := s0.vals ++ [(st.clock, v)], exp := fun i => if i ∈ s0.subs then s0.exp i ++ [.next v] else s0.exp i } := by
          have : (emit cfg st who (.next v)).evs = st.evs := by
            rw [emit_next_eq, if_neg (by simp [hd']), if_neg (by simp [hs'])]
            exact (ensureAll_eframe st.observers (pushAll_eframe (.next v) st.observers (acceptNext cfg st v))).evs
          rw [this, hspec]; simp [Spec.emit, hdisp, hterm]
        have ef : EFrame (.next v) (acceptNext cfg st v) (emit cfg st who (.next v)) := by
          rw [emit_next_eq, if_neg (by simp [hd']), if_neg (by simp [hs'])]
          exact ensureAll_eframe st.observers (pushAll_eframe (.next v) st.observers (acceptNext cfg st v))
        obtain ⟨e1,e2,e3,e4,e5,e6,e7,e8,e9,e10,e11⟩ := ef
        refine ⟨?_, ?_, ?_, ?_, ?_, ?_, ?_, ?_, ?_, by rw [e10]; simpa [acceptNext, w12] using sne⟩
        · rw [hspec', e2]; simp [acceptNext, w2, sv]
        · rw [hspec', e3]; simp [acceptNext, w3, sd]
        · intro _
          rw [hspec', e4]
          refine ⟨by simp [acceptNext, hs', hterm], ?_⟩
          simp [terminalOf, e5, e4, acceptNext, hexc, hs', hterm]
        · intro _; rw [hspec', e6]; simpa [acceptNext] using hobs
        · intro i; rw [hspec', henq i, hobs, w7, se]
        · intro i hi; rw [e6] at hi; rw [e7, e8]; simpa [acceptNext, w8, w9] using sh i (by simpa [acceptNext, w6] using hi)
        · intro i hi; rw [e9] at hi; rw [e8]; simpa [acceptNext, w9] using sf i (by simpa [acceptNext, w10] using hi)
        · intro i n' hn' ht
          rcases e11 i n' hn' with h' | h'
          · rw [e4]; simpa [acceptNext, w4] using sq i n' (by simpa [acceptNext, w11] using h') ht
          · subst h'; simp [Notif.isTerminal] at ht
        · intro i hi; rw [e10] at hi; rw [e4, e9]; simpa [acceptNext, w4, w10] using sa i (by simpa [acceptNext, w12] using hi)
      | error e =>
        have ef : EFrame (.error e) (acceptTerm cfg st (some e)) (emit cfg st who (.error e)) := by
          rw [emit_error_eq, if_neg (by simp [hd']), if_neg (by simp [hs'])]
          exact pushEnsureAll_eframe (.error e) st.observers (acceptTerm cfg st (some e))
        obtain ⟨e1,e2,e3,e4,e5,e6,e7,e8,e9,e10,e11⟩ := ef
        have hspec' : specOf cfg (emit cfg st who (.error e)).evs =
            { s0 with term := some (.error e), subs := [], exp := fun i => if i ∈ s0.subs then s0.exp i ++ [.error e] else s0.exp i } := by
          rw [e1]; simp only [acceptTerm]; rw [hspec]; simp [Spec.emit, hdisp, hterm]
        refine ⟨?_, ?_, ?_, ?_, ?_, ?_, ?_, ?_, ?_, by rw [e10]; simpa [acceptTerm, w12] using sne⟩
        · rw [hspec', e2]; simp [acceptTerm, w2, sv]
        · rw [hspec', e3]; simp [acceptTerm, w3, sd]
        · intro _
          rw [hspec', e4]
          refine ⟨by simp [acceptTerm], ?_⟩
          simp [terminalOf, e5, acceptTerm]
        · intro hh; rw [e4] at hh; simp [acceptTerm] at hh
        · intro i; rw [hspec', henq i, hobs, w7, se]
        · intro i hi; rw [e6] at hi; simp [acceptTerm] at hi
        · intro i hi; rw [e9] at hi; rw [e8]; simpa [acceptTerm, w9] using sf i (by simpa [acceptTerm, w10] using hi)
        · intro i n' _ _; rw [e4]; simp [acceptTerm]
        · intro i hi; rw [e10] at hi; rw [e4, e9]; simpa [acceptTerm, w10] using (sa i (by simpa [acceptTerm, w12] using hi)).2
      | completed =>
        have ef : EFrame .completed (acceptTerm cfg st st.exception) (emit cfg st who .completed) := by
          rw [emit_completed_eq, if_neg (by simp [hd']), if_neg (by simp [hs'])]
          exact pushEnsureAll_eframe .completed st.observers (acceptTerm cfg st st.exception)
        obtain ⟨e1,e2,e3,e4,e5,e6,e7,e8,e9,e10,e11⟩ := ef
        have hspec' : specOf cfg (emit cfg st who .completed).evs =
            { s0 with term := some .completed, subs := [], exp := fun i => if i ∈ s0.subs then s0.exp i ++ [.completed] else s0.exp i } := by
          rw [e1]; simp only [acceptTerm]; rw [hspec]; simp [Spec.emit, hdisp, hterm]
        refine ⟨?_, ?_, ?_, ?_, ?_, ?_, ?_, ?_, ?_, by rw [e10]; simpa [acceptTerm, w12] using sne⟩
        · rw [hspec', e2]; simp [acceptTerm, w2, sv]
        · rw [hspec', e3]; simp [acceptTerm, w3, sd]
        · intro _
          rw [hspec', e4]
          refine ⟨by simp [acceptTerm], ?_⟩
          simp [terminalOf, e5, e4, acceptTerm, hexc]
        · intro hh; rw [e4] at hh; simp [acceptTerm] at hh
        · intro i; rw [hspec', henq i, hobs, w7, se]
        · intro i hi; rw [e6] at hi; simp [acceptTerm] at hi
        · intro i hi; rw [e9] at hi; rw [e8]; simpa [acceptTerm, w9] using sf i (by simpa [acceptTerm, w10] using hi)
        · intro i n' _ _; rw [e4]; simp [acceptTerm]
        · intro i hi; rw [e10] at hi; rw [e4, e9]; simpa [acceptTerm, w10] using (sa i (by simpa [acceptTerm, w12] using hi)).2

/-- what `SingleAssignmentDisposable.dispose` of observer i's AutoDetachObserver does to the fields the
specification looks at -/
theorem sadDispose_effect (st : St α) (i : Id) :
    (sadDispose st i).evs = st.evs ∧ (sadDispose st i).allVals = st.allVals ∧ (sadDispose st i).disposed = st.disposed ∧
    (sadDispose st i).stopped = st.stopped ∧ (sadDispose st i).exception = st.exception ∧ (sadDispose st i).enq = st.enq ∧
    (sadDispose st i).seen = st.seen ∧ (sadDispose st i).soQueue = st.soQueue ∧ (sadDispose st i).agenda = st.agenda ∧
    (∀ k, k ≠ i → (sadDispose st i).held k = st.held k ∧ (sadDispose st i).sadDisposed k = st.sadDisposed k) ∧
    ((sadDispose st i).observers =
      if st.sadDisposed i = false ∧ st.held i = true ∧ st.disposed = false then st.observers.erase i else st.observers) ∧
    ((sadDispose st i).held i = true → st.sadDisposed i = true) := by
  unfold sadDispose removableDispose soDispose
  dsimp only
  repeat' split
  all_goals simp_all
  all_goals first
    | done
    | grind [List.erase_of_not_mem]

theorem sadDispose_specinv {cfg : Cfg α} {st : St α} (i : Id) (hI : RInv cfg st) (h : SpecInv cfg st)
    (hs : st.stopped = true) (hi : st.seen i = true) : SpecInv cfg (sadDispose st i) := by
  obtain ⟨e1,e2,e3,e4,e5,e6,e7,e8,e9,e10,e11,e12⟩ := sadDispose_effect st i
  obtain ⟨sv, sd, st', so, se, sh, sf, sq, sa, sne⟩ := h
  refine ⟨by rw [e1, e2]; exact sv, by rw [e1, e3]; exact sd, ?_, ?_, by rw [e1, e6]; exact se, ?_, ?_,
    by rw [e8, e4]; exact sq, by rw [e9, e4, e7]; exact sa, by rw [e9]; exact sne⟩
  · intro hd
    rw [e3] at hd
    have := st' hd
    rw [e1, e4]
    refine ⟨this.1, ?_⟩
    rw [← this.2]; simp [terminalOf, e5, e4]
  · intro hh; rw [e4, hs] at hh; exact absurd hh (by simp)
  · intro k hk
    have hk0 : k ∈ st.observers := by
      rw [e11] at hk
      split at hk
      · exact List.mem_of_mem_erase hk
      · exact hk
    by_cases hki : k = i
    · subst hki
      exfalso
      rw [e11] at hk
      have := sh k hk0
      split at hk
      · exact (List.Nodup.mem_erase_iff hI.nodup).mp hk |>.1 rfl
      · rename_i hc
        apply hc
        refine ⟨this.2, this.1, ?_⟩
        cases hd : st.disposed with
        | false => rfl
        | true => have := (hI.dispStop hd).2; rw [this] at hk0; exact absurd hk0 (by simp)
    · rw [(e10 k hki).1, (e10 k hki).2]; exact sh k hk0
  · intro k hk
    rw [e7] at hk
    by_cases hki : k = i
    · subst hki
      rw [hi] at hk; exact absurd hk (by simp)
    · rw [(e10 k hki).2]; exact sf k hk

theorem doUnsub_specinv {cfg : Cfg α} {st : St α} (j : Id) (hI : RInv cfg st) (h : SpecInv cfg st) :
    SpecInv cfg (doUnsub st j) := by
  rw [doUnsub_eq]
  split
  · rename_i hh
    have hseen : st.seen j = true := by
      cases hs : st.seen j with
      | true => rfl
      | false => have := (hI.fresh j hs).2.2.2.2.2.2.1; rw [this] at hh; exact absurd hh (by simp)
    obtain ⟨e1,e2,e3,e4,e5,e6,e7,e8,e9,e10,e11,e12⟩ := sadDispose_effect (logUnsub st j) j
    have e1 : (sadDispose (logUnsub st j) j).evs = st.evs ++ [EvR.unsub j] := e1
    have e2 : (sadDispose (logUnsub st j) j).allVals = st.allVals := e2
    have e3 : (sadDispose (logUnsub st j) j).disposed = st.disposed := e3
    have e4 : (sadDispose (logUnsub st j) j).stopped = st.stopped := e4
    have e5 : (sadDispose (logUnsub st j) j).exception = st.exception := e5
    have e6 : (sadDispose (logUnsub st j) j).enq = st.enq := e6
    have e7 : (sadDispose (logUnsub st j) j).seen = st.seen := e7
    have e8 : (sadDispose (logUnsub st j) j).soQueue = st.soQueue := e8
    have e9 : (sadDispose (logUnsub st j) j).agenda = st.agenda := e9
    have e10 : ∀ k, k ≠ j → (sadDispose (logUnsub st j) j).held k = st.held k ∧
        (sadDispose (logUnsub st j) j).sadDisposed k = st.sadDisposed k := e10
    have e11 : (sadDispose (logUnsub st j) j).observers =
        if st.sadDisposed j = false ∧ st.held j = true ∧ st.disposed = false then st.observers.erase j else st.observers := e11
    obtain ⟨sv, sd, st', so, se, sh, sf, sq, sa, sne⟩ := h
    have hspec : specOf cfg (sadDispose (logUnsub st j) j).evs =
        { specOf cfg st.evs with subs := (specOf cfg st.evs).subs.erase j } := by
      rw [e1, specOf_snoc]; rfl
    refine ⟨by rw [hspec, e2]; exact sv, by rw [hspec, e3]; exact sd, ?_, ?_, by rw [hspec, e6]; exact se, ?_, ?_,
      by rw [e8, e4]; exact sq, by rw [e9, e4, e7]; exact sa, by rw [e9]; exact sne⟩
    · intro hd
      rw [e3] at hd
      have := st' hd
      rw [hspec, e4]
      refine ⟨this.1, ?_⟩
      rw [← this.2]; simp [terminalOf, e5, e4]
    · intro hstop
      rw [e4] at hstop
      have hstop' : st.stopped = false := hstop
      have hnd : st.disposed = false := by
        cases hd : st.disposed with
        | false => rfl
        | true => have := (hI.dispStop hd).1; rw [hstop'] at this; exact absurd this (by simp)
      rw [hspec, e11]
      rw [← so hstop']
      by_cases hm : j ∈ st.observers
      · have := sh j hm
        simp [this.1, this.2, hnd]
      · split
        · rfl
        · exact (List.erase_of_not_mem hm).symm
    · intro k hk
      have hk0 : k ∈ st.observers := by
        rw [e11] at hk
        split at hk
        · exact List.mem_of_mem_erase hk
        · exact hk
      by_cases hki : k = j
      · subst hki
        exfalso
        rw [e11] at hk
        have := sh k hk0
        split at hk
        · exact (List.Nodup.mem_erase_iff hI.nodup).mp hk |>.1 rfl
        · rename_i hc
          apply hc
          refine ⟨this.2, this.1, ?_⟩
          cases hd : st.disposed with
          | false => rfl
          | true => have := (hI.dispStop hd).2; rw [this] at hk0; exact absurd hk0 (by simp)
      · rw [(e10 k hki).1, (e10 k hki).2]; exact sh k hk0
    · intro k hk
      rw [e7] at hk
      by_cases hki : k = j
      · subst hki; rw [hseen] at hk; exact absurd hk (by simp)
      · rw [(e10 k hki).2]; exact sf k hk
  · exact h

theorem callback_specinv {cfg : Cfg α} {st : St α} (i : Id) (n : Notif α) (h : SpecInv cfg st) :
    SpecInv cfg (callback st i n) :=
  h.withEv_noop (ev := EvR.cb i st.clock) ⟨rfl, rfl, rfl, rfl, rfl, rfl, rfl, rfl, rfl, rfl, rfl, rfl⟩ (fun _ => rfl)

theorem subjDispose_specinv {cfg : Cfg α} {st : St α} (h : SpecInv cfg st) : SpecInv cfg (subjDispose st) := by
  obtain ⟨sv, sd, st', so, se, sh, sf, sq, sa, sne⟩ := h
  have hspec : specOf cfg (subjDispose st).evs = { specOf cfg st.evs with disp := true, subs := [] } := by
    simp only [subjDispose]; rw [specOf_snoc]; rfl
  refine ⟨by rw [hspec]; exact sv, by rw [hspec]; rfl, fun hd => by simp [subjDispose] at hd,
    fun hs => by simp [subjDispose] at hs, by rw [hspec]; exact se, fun i hi => by simp [subjDispose] at hi, sf,
    fun _ _ _ _ => rfl, fun i hi => ⟨rfl, (sa i hi).2⟩, sne⟩

theorem raiseTo_sframe (who : Option Id) (e : Err) (st : St α) : SFrame st (raiseTo who e st) := by
  cases who <;> exact ⟨rfl, rfl, rfl, rfl, rfl, rfl, rfl, rfl, rfl, rfl, fun _ _ h => h, fun _ h => h⟩

theorem subTerminal_enq_other (st : St α) (j k : Id) (hk : k ≠ j) : (subTerminal st j).enq k = st.enq k := by
  unfold subTerminal
  split
  · rw [soPush_enq]; simp [hk]
  · split
    · rw [soPush_enq]; simp [hk]
    · rfl

theorem pushList_enq_other (j k : Id) (hk : k ≠ j) (ns : List (Notif α)) (st : St α) : (pushList st j ns).enq k = st.enq k := by
  induction ns generalizing st with
  | nil => rfl
  | cons n ns ih => simp only [pushList]; rw [ih, soPush_enq]; simp [hk]

theorem subscribeCore_effect (cfg : Cfg α) {st : St α} (hI : RInv cfg st) (j : Id) :
    (subscribeCore cfg st j).evs = st.evs ∧ (subscribeCore cfg st j).allVals = st.allVals ∧
    (subscribeCore cfg st j).disposed = st.disposed ∧ (subscribeCore cfg st j).stopped = st.stopped ∧
    (subscribeCore cfg st j).exception = st.exception ∧ (subscribeCore cfg st j).seen = st.seen ∧
    (subscribeCore cfg st j).sadDisposed = st.sadDisposed ∧ (subscribeCore cfg st j).agenda = st.agenda ∧
    (subscribeCore cfg st j).observers = st.observers ++ [j] ∧ (subscribeCore cfg st j).held = upd st.held j true ∧
    (∀ k, k ≠ j → (subscribeCore cfg st j).enq k = st.enq k) ∧
    (∀ i, ∀ n' ∈ (subscribeCore cfg st j).soQueue i, n' ∈ st.soQueue i ∨ n'.isTerminal = false ∨ st.stopped = true) := by
  rw [subscribeCore_eq]
  obtain ⟨p1,p2,p3,p4,p5,p6,p7,p8,p9,p10,p11⟩ := pushList_eframe' j
    ((subStart cfg st j).queue.map fun (it : Nat × α) => Notif.next it.2) (subStart cfg st j)
  have henq3 : ∀ k, k ≠ j → (pushList (subStart cfg st j) j
      ((subStart cfg st j).queue.map fun (it : Nat × α) => Notif.next it.2)).enq k = st.enq k :=
    fun k hk => by rw [pushList_enq_other j k hk]; rfl
  generalize pushList (subStart cfg st j) j _ = s3 at *
  have hterm : ∃ n, EFrame n s3 (subTerminal s3 j) := by
    unfold subTerminal
    split
    · rename_i e he; exact ⟨.error e, soPush_eframe j (EFrame.refl _ s3)⟩
    · split
      · exact ⟨.completed, soPush_eframe j (EFrame.refl _ s3)⟩
      · exact ⟨.completed, EFrame.refl _ s3⟩
  have hsq : ∀ i, ∀ n' ∈ (subTerminal s3 j).soQueue i, n' ∈ s3.soQueue i ∨ st.stopped = true := by
    intro i n' hn'
    unfold subTerminal at hn'
    split at hn'
    · rename_i e he
      exact Or.inr (hI.excStop (by rw [← show s3.exception = st.exception from p5]; simp [he]))
    · split at hn'
      · rename_i hst; exact Or.inr (by rw [← show s3.stopped = st.stopped from p4]; exact hst)
      · exact Or.inl hn'
  obtain ⟨nt, t1,t2,t3,t4,t5,t6,t7,t8,t9,t10,t11⟩ := hterm
  have ea := ensureActive_sframe (subTerminal s3 j) j
  refine ⟨?_,?_,?_,?_,?_,?_,?_,?_,?_,?_,?_,?_⟩
  · show (ensureActive (subTerminal s3 j) j).evs = st.evs
    rw [ea.evs, t1, p1]; rfl
  · show (ensureActive (subTerminal s3 j) j).allVals = st.allVals
    rw [ea.allVals, t2, p2]; rfl
  · show (ensureActive (subTerminal s3 j) j).disposed = st.disposed
    rw [ea.disposed, t3, p3]; rfl
  · show (ensureActive (subTerminal s3 j) j).stopped = st.stopped
    rw [ea.stopped, t4, p4]; rfl
  · show (ensureActive (subTerminal s3 j) j).exception = st.exception
    rw [ea.exception, t5, p5]; rfl
  · show (ensureActive (subTerminal s3 j) j).seen = st.seen
    rw [ea.seen, t9, p9]; rfl
  · show (ensureActive (subTerminal s3 j) j).sadDisposed = st.sadDisposed
    rw [ea.sadDisposed, t8, p8]; rfl
  · show (ensureActive (subTerminal s3 j) j).agenda = st.agenda
    have := (ensureActive_frame (subTerminal s3 j) j).2.2.2.2.2.2.2.2.2.2.2.2.2.2.2.2.2.1
    rw [this, t10, p10]; rfl
  · show (ensureActive (subTerminal s3 j) j).observers = st.observers ++ [j]
    rw [ea.observers, t6, p6]; rfl
  · show upd (ensureActive (subTerminal s3 j) j).held j true = upd st.held j true
    rw [ea.held, t7, p7]; rfl
  · intro k hk
    show (ensureActive (subTerminal s3 j) j).enq k = st.enq k
    rw [ea.enq, subTerminal_enq_other _ _ _ hk, henq3 k hk]
  · intro i n' hn'
    have hn'' : n' ∈ (ensureActive (subTerminal s3 j) j).soQueue i := hn'
    rcases hsq i n' (ea.soQueue i n' hn'') with h' | h'
    · rcases p11 i n' h' with h'' | h''
      · exact Or.inl h''
      · simp only [List.mem_map] at h''
        obtain ⟨_, _, rfl⟩ := h''
        exact Or.inr (Or.inl rfl)
    · exact Or.inr (Or.inr h')

theorem terminalOf_congr {a b : St α} (h1 : a.exception = b.exception) (h2 : a.stopped = b.stopped) :
    terminalOf a = terminalOf b := by
  unfold terminalOf; rw [h1, h2]

theorem doSub_specinv (cfg : Cfg α) {st : St α} (who : Option Id) (j : Id) (hI : RInv cfg st) (h : SpecInv cfg st) :
    SpecInv cfg (doSub cfg st who j).1 := by
  rw [doSub_eq]
  split
  · exact h
  · rename_i hj
    have hj : st.seen j = false := by simpa using hj
    have hf := hI.fresh j hj
    obtain ⟨sv, sd, st', so, se, sh, sf, sq, sa, sne⟩ := h
    have hjobs : j ∉ st.observers := fun hm => by
      have := hI.obsSeen j hm; rw [hj] at this; exact absurd this (by simp)
    split
    · -- refused by the disposed subject
      rename_i hd
      have hd : st.disposed = true := hd
      have hsd : (specOf cfg st.evs).disp = true := by rw [sd]; exact hd
      have hspec : ∀ ev2 : List (EvR α), specOf cfg ((st.evs ++ [EvR.sub j st.clock]) ++ ev2) =
          List.foldl (Spec.step cfg) { specOf cfg st.evs with exp := upd (specOf cfg st.evs).exp j [.error disposedExn] } ev2 := by
        intro ev2
        simp only [specOf, List.foldl_append, List.foldl_cons, List.foldl_nil]
        congr 1
        simp [Spec.step, show (List.foldl (Spec.step cfg) {} st.evs).disp = true from hsd]
      have key : ∀ st2 : St α, (st2.evs = st.evs ++ [EvR.sub j st.clock] ∨ st2.evs = (st.evs ++ [EvR.sub j st.clock]) ++ [EvR.cb j st.clock]) →
          st2.allVals = st.allVals → st2.disposed = st.disposed → st2.stopped = st.stopped → st2.exception = st.exception →
          st2.observers = st.observers → st2.enq = upd st.enq j [.error disposedExn] → st2.held = st.held →
          st2.sadDisposed = st.sadDisposed → st2.seen = upd st.seen j true → st2.soQueue = st.soQueue →
          st2.agenda = st.agenda → SpecInv cfg st2 := by
        intro st2 e1 e2 e3 e4 e5 e6 e7 e8 e9 e10 e11 e12
        have hs2 : specOf cfg st2.evs = { specOf cfg st.evs with exp := upd (specOf cfg st.evs).exp j [.error disposedExn] } := by
          rcases e1 with e1 | e1
          · rw [e1]; simpa using hspec []
          · rw [e1, hspec]; rfl
        refine ⟨by rw [hs2, e2]; exact sv, by rw [hs2, e3]; exact sd, fun hdd => by rw [e3, hd] at hdd; exact absurd hdd (by simp),
          by rw [hs2, e4, e6]; exact so, ?_, by rw [e6, e8, e9]; exact sh, ?_, by rw [e11, e4]; exact sq, ?_, by rw [e12]; exact sne⟩
        · intro i
          rw [hs2, e7]
          by_cases hij : i = j
          · subst hij; simp
          · simp [hij, se i]
        · intro i hi
          rw [e10] at hi
          by_cases hij : i = j
          · subst hij; simp at hi
          · rw [e9]; exact sf i (by simpa [hij] using hi)
        · intro i hi
          rw [e12] at hi
          rw [e4, e10]
          have := sa i hi
          refine ⟨this.1, ?_⟩
          by_cases hij : i = j
          · subst hij; simp
          · simpa [hij] using this.2
      split
      · exact key _ (Or.inr rfl) rfl rfl rfl rfl rfl rfl rfl rfl rfl rfl rfl
      · cases who <;> exact key _ (Or.inl rfl) rfl rfl rfl rfl rfl rfl rfl rfl rfl rfl rfl
    · -- a live (or late) subscription
      rename_i hdm
      have hd : st.disposed = false := by simpa [markSub] using hdm
      have hIm : RInv cfg (markSub st j) := by
        obtain ⟨a1,a2,a3,a4,a5,a6,a7,a8,a9,a10,a11,a12,a13⟩ := hI
        unfold markSub
        refine ⟨?_,?_,?_,?_,?_,?_,?_,?_,?_,?_,?_,?_,?_⟩
        rinv_crush
      obtain ⟨c1,c2,c3,c4,c5,c6,c7,c8,c9,c10,c11,c12⟩ := subscribeCore_effect cfg hIm j
      have henqj := (subscribeCore_enq cfg (markSub st j) j hf.2.2.2.1 hf.2.1).1
      have hsd : (specOf cfg st.evs).disp = false := by rw [sd]; exact hd
      have hspec : specOf cfg (subscribeCore cfg (markSub st j) j).evs =
          { specOf cfg st.evs with
            exp := upd (specOf cfg st.evs).exp j ((trim cfg st.clock (specOf cfg st.evs).vals).map (fun it => Notif.next it.2) ++ (specOf cfg st.evs).term.toList),
            subs := if (specOf cfg st.evs).term.isNone then (specOf cfg st.evs).subs ++ [j] else (specOf cfg st.evs).subs } := by
        rw [c1]
        show specOf cfg (st.evs ++ [EvR.sub j st.clock]) = _
        rw [specOf_snoc]
        simp [Spec.step, hsd]
      have ht := st' hd
      refine ⟨by rw [hspec, c2]; exact sv, by rw [hspec, c3]; exact sd, ?_, ?_, ?_, ?_, ?_, ?_, ?_, by rw [c8]; exact sne⟩
      · intro _
        rw [hspec, c4]
        refine ⟨ht.1, ?_⟩
        rw [← ht.2]
        exact terminalOf_congr (b := st) c5 c4
      · intro hs
        rw [c4] at hs
        have hs : st.stopped = false := hs
        have hnone : (specOf cfg st.evs).term.isNone = true := by
          have := ht.1; rw [hs] at this
          cases hx : (specOf cfg st.evs).term with
          | none => rfl
          | some t => rw [hx] at this; simp at this
        rw [hspec, c9]
        simp only [hnone, if_true]
        show st.observers ++ [j] = _
        rw [so hs]
      · intro i
        rw [hspec]
        by_cases hij : i = j
        · subst hij
          rw [henqj]
          simp only [upd_apply, if_true]
          have hq : trim cfg st.clock st.queue = trim cfg st.clock st.allVals := trim_queue_eq hI hd
          show (trim cfg st.clock st.queue).map _ ++ terminalOf st = _
          rw [hq, sv, ht.2]
        · rw [c11 i hij]
          simp only [upd_apply, hij, if_false]
          exact se i
      · intro i hi
        rw [c9] at hi
        rw [c10, c7]
        rcases List.mem_append.mp hi with hi | hi
        · have hij : i ≠ j := fun e => hjobs (e ▸ hi)
          simpa [hij, markSub] using sh i hi
        · simp only [List.mem_singleton] at hi
          subst hi
          simpa [markSub] using sf i hj
      · intro i hi
        rw [c6] at hi
        rw [c7]
        by_cases hij : i = j
        · subst hij; simp [markSub] at hi
        · exact sf i (by simpa [markSub, hij] using hi)
      · intro i n' hn' hterm
        rw [c4]
        rcases c12 i n' hn' with h' | h' | h'
        · exact sq i n' h' hterm
        · rw [hterm] at h'; exact absurd h' (by simp)
        · exact h'
      · intro i hi
        rw [c8] at hi
        rw [c4, c6]
        have := sa i hi
        refine ⟨this.1, ?_⟩
        by_cases hij : i = j
        · subst hij; simp [markSub]
        · simpa [markSub, hij] using this.2

theorem adoStop_sframe (st : St α) (i : Id) : SFrame st (adoStop st i) :=
  ⟨rfl, rfl, rfl, rfl, rfl, rfl, rfl, rfl, rfl, rfl, fun _ _ h => h, fun _ h => h⟩

theorem adoDeliver_specinv (cfg : Cfg α) {st : St α} (i : Id) (n : Notif α) (hI : RInv cfg st) (h : SpecInv cfg st)
    (hi : st.seen i = true) (hn : n.isTerminal = true → st.stopped = true) :
    SpecInv cfg (adoDeliver cfg st i n).1 ∧
    (∀ k, Task.sadDispose k ∈ (adoDeliver cfg st i n).2.1 → k = i ∧ n.isTerminal = true) := by
  have hIs : RInv cfg (adoStop st i) := by
    obtain ⟨a1,a2,a3,a4,a5,a6,a7,a8,a9,a10,a11,a12,a13⟩ := hI
    unfold adoStop
    refine ⟨?_,?_,?_,?_,?_,?_,?_,?_,?_,?_,?_,?_,?_⟩
    rinv_crush
  cases n with
  | next v =>
    rw [adoDeliver_next_eq]
    split
    · exact ⟨h, by simp⟩
    · exact ⟨callback_specinv i _ h, by simp [reactions]⟩
  | completed =>
    rw [adoDeliver_completed_eq]
    split
    · exact ⟨h, by simp⟩
    · refine ⟨callback_specinv i _ (h.frame (adoStop_sframe st i)), ?_⟩
      intro k hk
      simp only [List.mem_append, List.mem_singleton, Task.sadDispose.injEq] at hk
      rcases hk with hk | hk
      · simp [reactions] at hk
      · exact ⟨hk, rfl⟩
  | error e =>
    rw [adoDeliver_error_eq]
    split
    · exact ⟨h, by simp⟩
    · split
      · refine ⟨callback_specinv i _ (h.frame (adoStop_sframe st i)), ?_⟩
        intro k hk
        simp only [List.mem_append, List.mem_singleton, Task.sadDispose.injEq] at hk
        rcases hk with hk | hk
        · simp [reactions] at hk
        · exact ⟨hk, rfl⟩
      · exact ⟨sadDispose_specinv i hIs (h.frame (adoStop_sframe st i)) (hn rfl) hi, by simp⟩

theorem adoDeliver_stopped (cfg : Cfg α) (st : St α) (i : Id) (n : Notif α) :
    (adoDeliver cfg st i n).1.stopped = st.stopped := by
  have hs : ∀ s : St α, (sadDispose s i).stopped = s.stopped := fun s => (sadDispose_effect s i).2.2.2.1
  unfold adoDeliver callback
  dsimp only
  repeat' split
  all_goals first | rfl | exact hs _

theorem soRun_specinv (cfg : Cfg α) {st : St α} (i : Id) (hI : RInv cfg st) (h : SpecInv cfg st)
    (hag : st.agenda = []) : SpecInv cfg (soRun cfg st i) := by
  cases hq : st.soQueue i with
  | nil =>
    rw [soRun_nil cfg st i hq]
    exact h.frame ⟨rfl, rfl, rfl, rfl, rfl, rfl, rfl, rfl, rfl, rfl, fun _ _ h => h, fun _ h => h⟩
  | cons n rest =>
    rw [soRun_cons cfg st i n rest hq]
    have hseen : st.seen i = true := by
      cases hs : st.seen i with
      | true => rfl
      | false => have := (hI.fresh i hs).1; rw [this] at hq; exact absurd hq (by simp)
    have hn : n.isTerminal = true → st.stopped = true := fun ht => h.q i n (by rw [hq]; simp) ht
    have hpf : SFrame st (popped st i n rest) := by
      refine ⟨rfl, rfl, rfl, rfl, rfl, rfl, rfl, rfl, rfl, rfl, ?_, fun _ h => h⟩
      intro k n' hn'
      by_cases hk : k = i
      · subst hk
        simp only [popped, upd_apply, if_true] at hn'
        rw [hq]; exact List.mem_cons_of_mem _ hn'
      · simpa [popped, hk] using hn'
    have hIp : RInv cfg (popped st i n rest) := by
      have : st.soQueue i = n :: rest := hq
      obtain ⟨a1,a2,a3,a4,a5,a6,a7,a8,a9,a10,a11,a12,a13⟩ := hI
      unfold popped
      refine ⟨?_,?_,?_,?_,?_,?_,?_,?_,?_,?_,?_,?_,?_⟩
      rinv_crush
    have had := adoDeliver_specinv cfg i n hIp (h.frame hpf) hseen hn
    have hagr : (adoDeliver cfg (popped st i n rest) i n).1.agenda = [] := by
      rw [adoDeliver_agenda]; exact hag
    have hnoemit : ∀ m, Task.act none (RAction.emit m) ∉ (adoDeliver cfg (popped st i n rest) i n).2.1 := by
      intro m
      unfold adoDeliver
      dsimp only
      repeat' split
      all_goals simp [reactions]
    have hst : (adoDeliver cfg (popped st i n rest) i n).1.stopped = st.stopped := adoDeliver_stopped cfg _ i n
    have hse : (adoDeliver cfg (popped st i n rest) i n).1.seen = st.seen := adoDeliver_seen cfg _ i n
    generalize adoDeliver cfg (popped st i n rest) i n = r at had hagr hst hse hnoemit
    unfold finishRun
    split
    · refine had.1.frame ⟨rfl, rfl, rfl, rfl, rfl, rfl, rfl, rfl, rfl, rfl, ?_, fun _ h => h⟩
      intro k n' hn'
      by_cases hk : k = i
      · subst hk; simp at hn'
      · simpa [hk] using hn'
    · obtain ⟨sv, sd, st', so, se, sh, sf, sq, sa, sne⟩ := had.1
      refine ⟨sv, sd, st', so, se, sh, sf, sq, ?_, ?_⟩
      · intro k hk
        simp only [List.mem_append, List.mem_singleton, reduceCtorEq, or_false] at hk
        have := had.2 k hk
        obtain ⟨rfl, ht⟩ := this
        exact ⟨by rw [hst]; exact hn ht, by rw [hse]; exact hseen⟩
      · intro m hm
        simp only [List.mem_append, List.mem_singleton, reduceCtorEq, or_false] at hm
        exact hnoemit m hm

theorem doTask_specinv (cfg : Cfg α) {st : St α} (t : Task α) (ts : List (Task α)) (hI : RInv cfg st)
    (h : SpecInv cfg st) (hag : st.agenda = t :: ts) : SpecInv cfg (doTask cfg (withAgenda st ts) t) := by
  have hI2 : RInv cfg (withAgenda st ts) :=
    hI.congr rfl rfl (Nat.le_refl _) rfl rfl rfl rfl rfl rfl rfl rfl rfl rfl rfl rfl rfl rfl rfl
      (fun j hj => by rw [hag]; exact List.mem_cons_of_mem _ hj) (fun h => h)
  have h2 : SpecInv cfg (withAgenda st ts) :=
    h.frame ⟨rfl, rfl, rfl, rfl, rfl, rfl, rfl, rfl, rfl, rfl, fun _ _ h => h,
      fun t ht => by rw [hag]; exact List.mem_cons_of_mem _ ht⟩
  cases t with
  | act who a =>
    cases a with
    | emit n =>
      show SpecInv cfg (emit cfg (logEmit (withAgenda st ts) who n) who n)
      cases who with
      | none =>
        -- a top-level emission is made by `doCall` itself (recorded by its `call` event), never through the agenda
        exact absurd (by rw [hag]; simp) (h.ne n)
      | some i =>
        have hIl : RInv cfg (logEmit (withAgenda st ts) (some i) n) :=
          hI2.congr rfl rfl (Nat.le_refl _) rfl rfl rfl rfl rfl rfl rfl rfl rfl rfl rfl rfl rfl rfl rfl (fun _ h => h) (fun h => h)
        exact emit_specinv cfg (st0 := withAgenda st ts) (st := logEmit (withAgenda st ts) (some i) n) h2 (ev := EvR.emit i st.clock n)
          ⟨rfl, rfl, rfl, rfl, rfl, rfl, rfl, rfl, rfl, rfl, rfl, rfl⟩ hIl (some i) n (fun _ => rfl)
    | base a =>
      cases a with
      | sub j =>
        have := doSub_specinv cfg who j hI2 h2
        show SpecInv cfg (pushAgenda (doSub cfg (withAgenda st ts) who j))
        have hno : ∀ k, Task.sadDispose k ∉ (doSub cfg (withAgenda st ts) who j).2 := by
          intro k
          rw [doSub_eq]
          repeat' split
          all_goals simp [reactions]
        have hno2 : ∀ m, Task.act none (RAction.emit m) ∉ (doSub cfg (withAgenda st ts) who j).2 := by
          intro m
          rw [doSub_eq]
          repeat' split
          all_goals simp [reactions]
        obtain ⟨sv, sd, st', so, se, sh, sf, sq, sa, sne⟩ := this
        refine ⟨sv, sd, st', so, se, sh, sf, sq, ?_, ?_⟩
        · intro i hi
          simp only [pushAgenda, List.mem_append] at hi
          rcases hi with hi | hi
          · exact absurd hi (hno i)
          · exact sa i hi
        · intro m hm
          simp only [pushAgenda, List.mem_append] at hm
          rcases hm with hm | hm
          · exact hno2 m hm
          · exact sne m hm
      | unsub j => exact doUnsub_specinv j hI2 h2
      | dispose => exact subjDispose_specinv h2
  | sadDispose i =>
    have := h.a i (by rw [hag]; simp)
    exact sadDispose_specinv i hI2 h2 this.1 this.2
  | resched i => exact h2.frame (scheduleRun_sframe _ i)
  | handle j => exact h2.frame ⟨rfl, rfl, rfl, rfl, rfl, rfl, rfl, rfl, rfl, rfl, fun _ _ h => h, fun _ h => h⟩

theorem doCall_specinv (cfg : Cfg α) {st : St α} (k : Nat) (c : Call α) (hI : RInv cfg st) (h : SpecInv cfg st)
    (hag : st.agenda = []) : SpecInv cfg (doCall cfg st k c) := by
  have hIs : RInv cfg (startCall st k c) :=
    hI.congr rfl rfl (Nat.le_refl _) rfl rfl rfl rfl rfl rfl rfl rfl rfl rfl rfl rfl rfl rfl rfl (fun _ h => h) (fun h => h)
  have w : WithEv st (startCall st k c) (EvR.call k st.clock st.observers.length c) :=
    ⟨rfl, rfl, rfl, rfl, rfl, rfl, rfl, rfl, rfl, rfl, rfl, rfl⟩
  cases c with
  | next v => exact emit_specinv cfg h w hIs none (.next v) (fun _ => rfl)
  | error e => exact emit_specinv cfg h w hIs none (.error e) (fun _ => rfl)
  | completed => exact emit_specinv cfg h w hIs none .completed (fun _ => rfl)
  | sub i =>
    have h1 := h.withEv_noop w (fun _ => rfl)
    obtain ⟨sv, sd, st', so, se, sh, sf, sq, sa, sne⟩ := h1
    exact ⟨sv, sd, st', so, se, sh, sf, sq, fun i hi => by simp [doCall] at hi, fun n hn => by simp [doCall] at hn⟩
  | unsub i =>
    have h1 := h.withEv_noop w (fun _ => rfl)
    obtain ⟨sv, sd, st', so, se, sh, sf, sq, sa, sne⟩ := h1
    exact ⟨sv, sd, st', so, se, sh, sf, sq, fun i hi => by simp [doCall] at hi, fun n hn => by simp [doCall] at hn⟩
  | dispose =>
    have h1 := h.withEv_noop w (fun _ => rfl)
    obtain ⟨sv, sd, st', so, se, sh, sf, sq, sa, sne⟩ := h1
    exact ⟨sv, sd, st', so, se, sh, sf, sq, fun i hi => by simp [doCall] at hi, fun n hn => by simp [doCall] at hn⟩

theorem step_specinv (cfg : Cfg α) {st : St α} (hI : RInv cfg st) (h : SpecInv cfg st) : SpecInv cfg (step cfg st) := by
  cases hc : st.crashed with
  | some e => rw [step_crashed cfg st e hc]; exact h
  | none =>
    cases ha : st.agenda with
    | cons t ts => rw [step_task cfg st t ts hc ha]; exact doTask_specinv cfg t ts hI h ha
    | nil =>
      cases hp : st.pending with
      | nil => rw [step_idle cfg st hc ha hp]; exact h
      | cons it rest =>
        rw [step_pop cfg st it rest hc ha hp]
        have hI1 : RInv cfg (withPending st rest) :=
          hI.congr rfl rfl (Nat.le_refl _) rfl rfl rfl rfl rfl rfl rfl rfl rfl rfl rfl rfl rfl rfl rfl (fun _ h => h) (fun h => h)
        have hI2 := advance_inv cfg it.due hI1
        have hf : SFrame st (advance (withPending st rest) it.due) := by
          rw [advance_eq]
          split
          · exact ⟨rfl, rfl, rfl, rfl, rfl, rfl, rfl, rfl, rfl, rfl, fun _ _ h => h, fun _ h => h⟩
          · split <;> exact ⟨rfl, rfl, rfl, rfl, rfl, rfl, rfl, rfl, rfl, rfl, fun _ _ h => h, fun _ h => h⟩
        have h2 := h.frame hf
        have hag2 : (advance (withPending st rest) it.due).agenda = [] := by rw [advance_agenda]; exact ha
        unfold invoke
        split
        · exact h2
        · split
          · exact doCall_specinv cfg _ _ hI2 h2 hag2
          · exact soRun_specinv cfg _ hI2 h2 hag2

theorem init_specinv (cfg : Cfg α) (calls : List (Nat × Call α)) : SpecInv cfg (schedule calls) := by
  have hf : ∀ (cs : List (Nat × Call α)) (k : Nat) (st : St α), SFrame st (schedule.go cs k st) := by
    intro cs
    induction cs with
    | nil => intro k st; exact SFrame.refl st
    | cons c cs ih =>
      intro k st
      obtain ⟨t, c⟩ := c
      simp only [schedule.go]
      refine SFrame.trans ?_ (ih _ _)
      exact ⟨rfl, rfl, rfl, rfl, rfl, rfl, rfl, rfl, rfl, rfl, fun _ _ h => h, fun _ h => h⟩
  have h0 : SpecInv cfg ({} : St α) :=
    ⟨rfl, rfl, fun _ => ⟨rfl, rfl⟩, fun _ => rfl, fun _ => rfl, fun _ hi => by simp at hi, fun _ _ => rfl,
     fun _ _ hn => by simp at hn, fun _ hi => by simp at hi, fun _ hn => by simp at hn⟩
  exact h0.frame (hf calls 0 {})

theorem reach_specinv {cfg : Cfg α} {calls : List (Nat × Call α)} {st : St α} (h : Reach cfg calls st) :
    SpecInv cfg st := by
  induction h with
  | init => exact init_specinv cfg calls
  | step hr ih => exact step_specinv cfg (reach_inv hr) ih

end SubjReplay

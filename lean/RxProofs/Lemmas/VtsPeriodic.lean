import RxModel.VtsPeriodic
import RxProofs.Lemmas.VtsPQ
/-! Helper lemmas for the periodic model (C35, C42): termination weight, fuel irrelevance, the `Dead`
invariant (a disposed task is never invoked again), what one tick does. -/
namespace Per
open Vts
variable {σ : Type}

def Iter.st : Iter σ → St σ
  | .exit s => s
  | .next s => s
  | .raised s _ => s
  | .stuck s => s

theorem getTask_setTask (s : St σ) (pid pid' : Nat) (t : Task) :
    getTask (setTask s pid t) pid' = if pid' = pid then (getTask s pid').map (fun _ => t) else getTask s pid' := by
  simp only [getTask, setTask]
  induction s.tasks with
  | nil => simp
  | cons p ps ih =>
    simp only [List.map_cons, List.find?_cons]
    by_cases h1 : p.1 = pid
    · subst h1
      by_cases h2 : pid' = p.1
      · subst h2; simp
      · have : (p.1 == pid') = false := by simp; exact fun h => h2 h.symm
        simp [this, h2] at ih ⊢
        exact ih
    · have hb : (p.1 == pid) = false := by simp [h1]
      simp only [hb, Bool.false_eq_true, if_false]
      by_cases h2 : p.1 = pid'
      · subst h2; simp [h1]
      · have : (p.1 == pid') = false := by simp [h2]
        simp only [this]
        exact ih

theorem weight_cancel (T : Int) (pid : Nat) (l : List (Item σ × Int)) :
    weight T (l.map (cancelEntry pid)) = weight T l := by
  simp only [weight, List.map_map]
  congr 1
  apply List.map_congr_left
  intro e _
  simp only [Function.comp, cancelEntry]
  split <;> rfl

theorem disposeTask_weight (T : Int) (s : St σ) (pid : Nat) :
    weight T (disposeTask s pid).queue.items = weight T s.queue.items := by
  simp only [disposeTask]
  split
  · rfl
  · simp only [setTask]; exact weight_cancel T pid _

theorem disposeTask_clock (s : St σ) (pid : Nat) : (disposeTask s pid).clock = s.clock := by
  simp only [disposeTask]; split <;> rfl

theorem weight_enqueue (T : Int) (s : St σ) (it : Item σ) :
    weight T (enqueue s it).queue.items = weight T s.queue.items + ((T + 1 - it.due).toNat + 1) := by
  simp [enqueue, PQ.enqueue, weight]

theorem dequeue_weight (T : Int) {q q' : PQ (Item σ)} {x : Item σ} (h : q.dequeue? Item.due = some (x, q')) :
    weight T q.items = ((T + 1 - x.due).toNat + 1) + weight T q'.items := by
  simp only [PQ.dequeue?] at h
  cases hp : popMinBy (PQ.entryLt Item.due) q.items with
  | none => rw [hp] at h; simp at h
  | some mr =>
    obtain ⟨m, r⟩ := mr
    rw [hp] at h
    simp at h
    obtain ⟨rfl, rfl⟩ := h
    obtain ⟨pre, post, hl, hr, _, _⟩ :=
      popMinBy_split _ (PQ.entryLt_trans Item.due) (PQ.entryLt_negtrans Item.due) _ _ _ hp
    simp only [weight, hl, hr, List.map_append, List.map_cons, List.sum_append, List.sum_cons]
    omega

/-- a tick of a task with period ≥ 1 invoked at clock `now` leaves a queue whose weight grew by at most
the weight of one item due at `now + 1` -/
theorem runTick_weight (handler : Err → Bool) (f : Nat → σ → Tick σ) (T : Int) (s : St σ) (pid : Nat) (t : Task)
    (st : σ) (hp : 1 ≤ t.period) :
    weight T (runTick handler f s pid t st).1.queue.items ≤
      weight T s.queue.items + ((T + 1 - (s.clock + 1)).toNat + 1) := by
  simp only [runTick]
  split
  · show weight T s.queue.items ≤ _; omega
  · split
    · rw [weight_enqueue]; simp only; omega
    · -- the state after the user action (log, sleep, optional self-dispose)
      generalize hs2 : (if (f pid st).dispose = true then
          disposeTask { s with log := s.log ++ [{ pid := pid, at_ := s.clock, st := st }],
                               clock := s.clock + ↑(f pid st).sleep } pid
        else { s with log := s.log ++ [{ pid := pid, at_ := s.clock, st := st }],
                      clock := s.clock + ↑(f pid st).sleep }) = s2
      have hw2 : weight T s2.queue.items = weight T s.queue.items := by
        rw [← hs2]; split
        · rw [disposeTask_weight]
        · rfl
      have hc2 : s2.clock = s.clock + (f pid st).sleep := by
        rw [← hs2]; split
        · rw [disposeTask_clock]
        · rfl
      split
      · rw [weight_enqueue, hw2]; simp only [hc2]; omega
      · split
        · split
          · rw [weight_enqueue, disposeTask_weight]
            simp only [disposeTask_clock, setTask, hw2, hc2]
            omega
          · simp only [disposeTask_weight, setTask, hw2]; omega
        · simp only [disposeTask_weight, hw2]; omega

theorem iter_next_weight {handler : Err → Bool} {f : Nat → σ → Tick σ} {T : Int} {s s' : St σ}
    (h : iter handler f T s = .next s') : weight T s'.queue.items < weight T s.queue.items := by
  simp only [iter] at h
  split at h
  · simp at h
  · split at h
    · simp at h
    · next x q' hd =>
      have hw := dequeue_weight T hd
      split at h
      · simp at h
      · next hdue =>
        split at h
        · simp at h; subst h; simp only; omega
        · split at h
          · simp at h; subst h; rw [disposeTask_weight]; simp only; omega
          · split at h
            · simp at h; subst h; simp only; omega
            · next t ht =>
              split at h
              · simp at h
              · next hper =>
                split at h
                · next s2 heq =>
                  simp at h; subst h
                  rename_i pid st _ _ _
                  have := runTick_weight handler f T
                    { s with clock := if x.due > s.clock then x.due else s.clock, queue := q' } pid t st (by omega)
                  rw [heq] at this
                  simp only at this
                  have hcl : x.due ≤ (if x.due > s.clock then x.due else s.clock) := by split <;> omega
                  have : (T + 1 - ((if x.due > s.clock then x.due else s.clock) + 1)).toNat + 1
                      ≤ (T + 1 - x.due).toNat := by omega
                  omega
                · simp at h

/-- **fuel irrelevance**: any fuel above the weight gives the same result -/
theorem loopFuel_enough (handler : Err → Bool) (f : Nat → σ → Tick σ) (T : Int) :
    ∀ (n m : Nat) (s : St σ), weight T s.queue.items < n → weight T s.queue.items < m →
      loopFuel handler f T n s = loopFuel handler f T m s := by
  intro n
  induction n with
  | zero => intro m s h; omega
  | succ n ih =>
    intro m s hn hm
    cases m with
    | zero => omega
    | succ m =>
      simp only [loopFuel]
      cases hi : iter handler f T s with
      | next s' =>
        have := iter_next_weight hi
        exact ih m s' (by omega) (by omega)
      | _ => rfl
end Per

import RxModel.ConnSync
/-!
# One source subscription per connection, also under re-entrancy (C24)

`SInv` is preserved by every task of the synchronous model, hence by every history with any
reactions (calls made from inside `on_next`, to any depth) and any fuel.
-/

namespace Conn.Sync

/-- at most one source subscription is open; an open one is the one being made by the `connect()`
in progress or the one owned by the live composite; nothing is open while not connected -/
structure SInv (w : SW) : Prop where
  len : w.srcOpen.length ≤ 1
  off : w.hasSub = false → w.srcOpen = [] ∧ w.liveHandle = none ∧ w.pending = none
  own : ∀ s ∈ w.srcOpen, w.pending = some s ∨ ∃ h, w.liveHandle = some (h, s)
  excl : ¬ (w.pending.isSome = true ∧ w.liveHandle.isSome = true)
  mx : w.maxOpen ≤ 1

theorem SInv.congr {w w' : SW} (h : SInv w) (h1 : w'.srcOpen = w.srcOpen) (h2 : w'.hasSub = w.hasSub)
    (h3 : w'.liveHandle = w.liveHandle) (h4 : w'.pending = w.pending) (h5 : w'.maxOpen = w.maxOpen) : SInv w' :=
  ⟨by rw [h1]; exact h.len, by rw [h1, h2, h3, h4]; exact h.off, by rw [h1, h3, h4]; exact h.own,
   by rw [h3, h4]; exact h.excl, by rw [h5]; exact h.mx⟩

theorem setSub_inv {w : SW} (h : SInv w) (i : Nat) (s : SubSt) : SInv (setSub w i s) :=
  h.congr rfl rfl rfl rfl rfl

theorem setView_inv {w : SW} (h : SInv w) (k : Nat) (v : View) : SInv (setView w k v) :=
  h.congr rfl rfl rfl rfl rfl

theorem enqueue_inv {w : SW} (h : SInv w) (n : Notif Nat) (i : Nat) : SInv (enqueue w n i) := by
  unfold enqueue
  split
  · split
    · exact h
    · exact setSub_inv h _ _
  · exact h

theorem foldl_enqueue_inv (n : Notif Nat) (l : List Nat) : ∀ {w : SW}, SInv w → SInv (l.foldl (fun acc i => enqueue acc n i) w) := by
  induction l with
  | nil => intro w h; exact h
  | cons i rest ih => intro w h; exact ih (enqueue_inv h n i)

theorem foldl_enqueue_inv' (i : Nat) (l : List (Notif Nat)) : ∀ {w : SW}, SInv w → SInv (l.foldl (fun acc n => enqueue acc n i) w) := by
  induction l with
  | nil => intro w h; exact h
  | cons n rest ih => intro w h; exact ih (enqueue_inv h n i)

theorem erase_sub_singleton (l : List Nat) (s : Nat) (hl : l.length ≤ 1) (hs : ∀ x ∈ l, x = s) : l.erase s = [] := by
  match l, hl, hs with
  | [], _, _ => rfl
  | [x], _, hs =>
    have : x = s := hs x (by simp)
    subst this; simp
  | _ :: _ :: _, hl, _ => simp at hl

theorem step_inv {w : SW} (h : SInv w) (t : Task) : SInv (step w t).1 := by
  cases t with
  | call op =>
    cases op with
    | sub i view react =>
      simp only [step]
      split
      · dsimp only; apply setSub_inv; split <;> exact h.congr rfl rfl rfl rfl rfl
      · dsimp only; apply setView_inv; apply setSub_inv; split <;> exact h.congr rfl rfl rfl rfl rfl
    | unsub j =>
      simp only [step]
      split
      · split <;> exact h
      · exact h
    | connect => exact h
    | disconnect k =>
      simp only [step]
      split <;> exact h
    | push n => exact h
  | connect =>
    simp only [step]
    split
    · exact h
    · rename_i hs
      have hs' : w.hasSub = false := by simpa using hs
      obtain ⟨h1, h2, h3⟩ := h.off hs'
      refine ⟨by simp [h1], fun hc => by simp at hc, ?_, ?_, ?_⟩
      · intro s hsm
        simp [h1] at hsm
        left; simp [hsm]
      · simp [h2]
      · simp only [h1, List.length_nil, Nat.zero_add]
        exact Nat.max_le.mpr ⟨h.mx, Nat.le_refl 1⟩
  | emit sid n =>
    simp only [step]
    split
    · split
      · dsimp only; apply foldl_enqueue_inv; exact h.congr rfl rfl rfl rfl rfl
      · exact h.congr rfl rfl rfl rfl rfl
    · exact h
  | connectP3 sid =>
    simp only [step]
    split
    · rename_i hp
      have hon : w.hasSub = true := by
        cases hs : w.hasSub with
        | true => rfl
        | false => have := (h.off hs).2.2; rw [this] at hp; cases hp
      refine ⟨h.len, (fun hc => by simp only at hc; rw [hon] at hc; cases hc), ?_, (by simp), h.mx⟩
      intro s hsm
      right
      rcases h.own s hsm with hq | ⟨hh, hq⟩
      · rw [hp] at hq
        exact ⟨w.nHandles, by simp at hq; simp [hq]⟩
      · exact absurd ⟨by rw [hp]; rfl, by rw [hq]; rfl⟩ h.excl
    · exact h
  | storeConn k => exact setView_inv h _ _
  | recordHandle => exact h.congr rfl rfl rfl rfl rfl
  | subjSub i =>
    simp only [step]
    split
    · dsimp only; apply foldl_enqueue_inv'; exact h.congr rfl rfl rfl rfl rfl
    · exact h.congr rfl rfl rfl rfl rfl
  | ensureActive i =>
    simp only [step]
    split
    · split
      · exact setSub_inv h _ _
      · exact h
    · exact h
  | schedule i =>
    simp only [step]
    split <;> exact h.congr rfl rfl rfl rfl rfl
  | trampDrain =>
    simp only [step]
    split <;> exact h.congr rfl rfl rfl rfl rfl
  | soRun i =>
    simp only [step]
    split
    · split
      · exact setSub_inv h _ _
      · exact setSub_inv h _ _
    · exact h
  | deliver i n =>
    simp only [step]
    split
    · exact h
    · split
      · exact h
      · split
        · dsimp only; apply setSub_inv; exact h.congr rfl rfl rfl rfl rfl
        · dsimp only; apply setSub_inv; exact h.congr rfl rfl rfl rfl rfl
  | returned i =>
    simp only [step]
    split
    · exact h
    · exact setSub_inv h _ _
  | held i =>
    simp only [step]
    split
    · exact h
    · exact setSub_inv h _ _
  | disposeSub i =>
    simp only [step]
    split
    · exact h
    · split
      · split
        · dsimp only; apply setSub_inv; exact h.congr rfl rfl rfl rfl rfl
        · dsimp only; apply setView_inv; apply setSub_inv; exact h.congr rfl rfl rfl rfl rfl
      · exact h
  | disposeHandle hd =>
    simp only [step]
    split
    · rename_i h' sid hl
      split
      · -- the live composite is disposed: its source subscription is the only one that can be open
        have hpn : w.pending = none := by
          cases hp : w.pending with
          | none => rfl
          | some p => exact absurd ⟨by rw [hp]; rfl, by rw [hl]; rfl⟩ h.excl
        have hall : ∀ x ∈ w.srcOpen, x = sid := by
          intro x hx
          rcases h.own x hx with hq | ⟨hh, hq⟩
          · rw [hpn] at hq; cases hq
          · rw [hl] at hq; simp at hq; exact hq.2.symm
        have he := erase_sub_singleton w.srcOpen sid h.len hall
        refine ⟨by simp [he], fun _ => ⟨he, rfl, hpn⟩, by simp [he], by simp, h.mx⟩
      · exact h
    · exact h
  | closeSrc sid =>
    simp only [step]
    refine ⟨?_, ?_, ?_, h.excl, h.mx⟩
    · exact Nat.le_trans (List.length_erase_le) h.len
    · intro hs
      have := h.off hs
      exact ⟨by simp [this.1], this.2.1, this.2.2⟩
    · intro s hsm
      exact h.own s (List.mem_of_mem_erase hsm)

theorem exec_inv : ∀ (fuel : Nat) (w : SW) (ts : List Task), SInv w → SInv (exec fuel w ts) := by
  intro fuel
  induction fuel with
  | zero => intro w ts h; simp [exec]; exact h
  | succ k ih =>
    intro w ts h
    cases ts with
    | nil => simp [exec]; exact h
    | cons t rest =>
      simp only [exec]
      exact ih _ _ (step_inv h t)

theorem run_inv (ops : List SOp) (fuel : Nat) : ∀ (w : SW), SInv w → SInv (run w ops fuel) := by
  unfold run
  induction ops with
  | nil => intro w h; exact h
  | cons op rest ih =>
    intro w h
    simp only [List.foldl_cons]
    exact ih _ (exec_inv fuel w _ h)

/-- a freshly built connectable over a synchronous source -/
def SFresh (w : SW) : Prop :=
  w.hasSub = false ∧ w.srcOpen = [] ∧ w.liveHandle = none ∧ w.pending = none ∧ w.maxOpen = 0

theorem SFresh.inv {w : SW} (h : SFresh w) : SInv w :=
  ⟨by simp [h.2.1], fun _ => ⟨h.2.1, h.2.2.1, h.2.2.2.1⟩, by simp [h.2.1], by simp [h.2.2.1], by simp [h.2.2.2.2]⟩

end Conn.Sync

import RxProofs.Lemmas.DispBase
/-!
# Invariants behind C27 (RefCountDisposable)
-/
namespace Disp

/-- a dependent that still points to its parent (it will decrement `count` when disposed) -/
def depLive : Dep → Nat
  | .inner true => 1
  | _ => 0

/-- a thread between "InnerDisposable gave up its parent" and the `count -= 1` of `release()` -/
def rInflight (t : RTh) : Nat :=
  match t.pc with
  | .releasing => 1
  | .relChecked => 1
  | _ => 0

/-- a thread that decided under the lock to dispose the underlying resource and has not called it yet -/
def rUndPend (t : RTh) : Nat :=
  match t.pc with
  | .undPend => 1
  | _ => 0

/-- primary `dispose()` calls not yet past their first steps -/
def rProgDisp (t : RTh) : Nat :=
  (match t.pc with | .dispChecked => 1 | _ => 0) + t.prog.count .dispose

structure RInv (s : Sys RSh RTh) : Prop where
  count_eq : s.sh.count = (wsum depLive s.sh.deps : Int) + (wsum rInflight s.pcs : Int)
  und_eq : s.sh.und + wsum rUndPend s.pcs = s.sh.isDisposed.toNat
  disposed : s.sh.isDisposed = true → s.sh.isPrimaryDisposed = true ∧ s.sh.count = 0
  primary : s.sh.isPrimaryDisposed = true → s.sh.isDisposed = true ∨ 0 < s.sh.count
  incdec : s.sh.incs = s.sh.decs + wsum depLive s.sh.deps + wsum rInflight s.pcs
  pcalls : 0 < s.sh.pcalls → s.sh.isPrimaryDisposed = true

theorem rInv_step (s : Sys RSh RTh) (tid : Nat) (h : RInv s) : RInv (s.step rStep tid) := by
  apply Sys.step_cases rStep s tid RInv h
  intro t ht
  obtain ⟨ri, i1, i2⟩ := wsum_split rInflight s.pcs tid t ht
  obtain ⟨ru, u1, u2⟩ := wsum_split rUndPend s.pcs tid t ht
  obtain ⟨c1, c2, c3, c4, c5, c6⟩ := h
  rw [i1] at c1 c5
  rw [u1] at c2
  clear i1 u1 ht
  obtain ⟨pc, prog, mine⟩ := t
  cases pc with
  | idle =>
    -- the three shapes of "dispose dependent h"
    have hrel : ∀ (p : List ROp) (h : Nat),
        ∀ (pr : List ROp), RInv ⟨(rRel s.sh ⟨.idle, pr, mine⟩ p h).1, s.pcs.set tid (rRel s.sh ⟨.idle, pr, mine⟩ p h).2⟩ := by
      intro p h pr
      simp only [rInflight, rUndPend] at c1 c2 c5
      unfold rRel
      cases hd : s.sh.deps[h]? with
      | none => constructor <;> simp_all [RSh.ev, rInflight, rUndPend]
      | some d =>
        obtain ⟨rd, d1, d2⟩ := wsum_split depLive s.sh.deps h d hd
        rw [d1] at c1 c5
        cases d with
        | inert b =>
          constructor <;> simp_all [RSh.ev, rInflight, rUndPend, depLive]
        | inner b =>
          cases b
          · constructor <;> simp_all [RSh.ev, rInflight, rUndPend, depLive]
          · constructor <;> simp_all [RSh.ev, rInflight, rUndPend, depLive] <;> omega
    cases prog with
    | nil => simp only [rStep]; constructor <;> simp_all
    | cons op prog =>
      cases op with
      | get =>
        simp only [rInflight, rUndPend] at c1 c2 c5
        simp only [rStep]
        split <;> constructor <;> simp_all [RSh.ev, rInflight, rUndPend, depLive] <;> omega
      | rel h => simp only [rStep]; exact hrel prog h _
      | relMine j =>
        simp only [rStep]
        split
        · exact hrel prog _ _
        · simp only [rInflight, rUndPend] at c1 c2 c5
          constructor <;> simp_all [RSh.ev, rInflight, rUndPend]
      | dispose =>
        simp only [rInflight, rUndPend] at c1 c2 c5
        simp only [rStep]
        split <;> constructor <;> simp_all [RSh.ev, rInflight, rUndPend]
  | releasing =>
    simp only [rInflight, rUndPend] at c1 c2 c5
    simp only [rStep]
    split
    · -- `is_disposed` already true while a release is in flight: impossible (count would be ≥ 1)
      rename_i hd
      have := (c3 hd).2
      omega
    · constructor <;> simp_all [RSh.ev, rInflight, rUndPend]
  | relChecked =>
    simp only [rInflight, rUndPend] at c1 c2 c5
    simp only [rStep]
    split
    · rename_i hc
      simp only [Bool.and_eq_true, beq_iff_eq] at hc
      have hnd : s.sh.isDisposed = false := by
        cases hd : s.sh.isDisposed
        · rfl
        · have := (c3 hd).2; omega
      constructor <;> simp_all [RSh.ev, rInflight, rUndPend] <;> omega
    · rename_i hc
      simp only [Bool.and_eq_true, beq_iff_eq, not_and] at hc
      have hnd : s.sh.isDisposed = false := by
        cases hd : s.sh.isDisposed
        · rfl
        · have := (c3 hd).2; omega
      refine ⟨?_, ?_, ?_, ?_, ?_, ?_⟩ <;> simp only [RSh.ev, i2, u2, rInflight, rUndPend]
      · omega
      · omega
      · intro hd; rw [hnd] at hd; cases hd
      · intro hp
        right
        by_cases hz : s.sh.count - 1 = 0
        · exact absurd hp (hc hz)
        · omega
      · omega
      · exact c6
  | undPend =>
    simp only [rInflight, rUndPend] at c1 c2 c5
    simp only [rStep]
    constructor <;> simp_all [RSh.ev, rInflight, rUndPend] <;> omega
  | dispChecked =>
    simp only [rInflight, rUndPend] at c1 c2 c5
    simp only [rStep]
    split
    · constructor <;> simp_all [RSh.ev, rInflight, rUndPend]
    · split
      · rename_i hp hc
        simp only [beq_iff_eq] at hc
        have hnd : s.sh.isDisposed = false := by
          cases hd : s.sh.isDisposed
          · rfl
          · have := (c3 hd).1; simp_all
        constructor <;> simp_all [RSh.ev, rInflight, rUndPend] <;> omega
      · rename_i hp hc
        simp only [beq_iff_eq] at hc
        have hnd : s.sh.isDisposed = false := by
          cases hd : s.sh.isDisposed
          · rfl
          · have := (c3 hd).1; simp_all
        constructor <;> simp_all [RSh.ev, rInflight, rUndPend] <;> omega

end Disp

namespace Disp

/-- bookkeeping against the programs: primary dispose() calls done + still to do = constant -/
def RInv2 (D : Nat) (s : Sys RSh RTh) : Prop := s.sh.pcalls + wsum rProgDisp s.pcs = D

theorem rRel_pcalls (s : RSh) (t : RTh) (p : List ROp) (h : Nat) :
    (rRel s t p h).1.pcalls = s.pcalls ∧ (rRel s t p h).2.prog = p ∧
      ((rRel s t p h).2.pc = .idle ∨ (rRel s t p h).2.pc = .releasing) := by
  unfold rRel
  cases s.deps[h]? with
  | none => simp [RSh.ev]
  | some d => cases d with
    | inert b => simp [RSh.ev]
    | inner b => cases b <;> simp [RSh.ev]

theorem rInv2_step (D : Nat) (s : Sys RSh RTh) (tid : Nat) (h : RInv2 D s) : RInv2 D (s.step rStep tid) := by
  apply Sys.step_cases rStep s tid (RInv2 D) h
  intro t ht
  obtain ⟨rd, d1, d2⟩ := wsum_split rProgDisp s.pcs tid t ht
  unfold RInv2 at h ⊢
  rw [d1] at h
  simp only [d2]
  clear d1 d2 ht
  obtain ⟨pc, prog, mine⟩ := t
  have hrel : ∀ (p : List ROp) (hh : Nat) (pr : List ROp),
      (rRel s.sh ⟨.idle, pr, mine⟩ p hh).1.pcalls + (rd + rProgDisp (rRel s.sh ⟨.idle, pr, mine⟩ p hh).2)
        = s.sh.pcalls + (rd + p.count .dispose) := by
    intro p hh pr
    obtain ⟨a, b, c⟩ := rRel_pcalls s.sh ⟨.idle, pr, mine⟩ p hh
    rw [a]; unfold rProgDisp; rw [b]
    rcases c with c | c <;> rw [c] <;> simp
  cases pc with
  | idle =>
    cases prog with
    | nil => simpa [rStep] using h
    | cons op prog =>
      cases op with
      | get => simp only [rStep]; split <;> simp [RSh.ev, rProgDisp] at h ⊢ <;> omega
      | rel hh => simp only [rStep]; rw [hrel]; simp [rProgDisp] at h; omega
      | relMine j =>
        simp only [rStep]
        split
        · rw [hrel]; simp [rProgDisp] at h; omega
        · simp [RSh.ev, rProgDisp] at h ⊢; omega
      | dispose => simp only [rStep]; split <;> simp [RSh.ev, rProgDisp] at h ⊢ <;> omega
  | releasing => simp only [rStep]; split <;> simp [RSh.ev, rProgDisp] at h ⊢ <;> omega
  | relChecked => simp only [rStep]; split <;> simp [RSh.ev, rProgDisp] at h ⊢ <;> omega
  | undPend => simp only [rStep]; simp [RSh.ev, rProgDisp] at h ⊢; omega
  | dispChecked => simp only [rStep]; repeat' split
                   all_goals simp [RSh.ev, rProgDisp] at h ⊢ <;> omega

def rTotalDisp (progs : List (List ROp)) : Nat := wsum (fun p => p.count ROp.dispose) progs

theorem rInv_init (progs : List (List ROp)) : RInv (rInit progs) ∧ RInv2 (rTotalDisp progs) (rInit progs) := by
  have z1 : wsum rInflight (rInit progs).pcs = 0 := by
    apply wsum_eq_zero; intro a ha; simp [rInit] at ha; obtain ⟨p, _, rfl⟩ := ha; rfl
  have z2 : wsum rUndPend (rInit progs).pcs = 0 := by
    apply wsum_eq_zero; intro a ha; simp [rInit] at ha; obtain ⟨p, _, rfl⟩ := ha; rfl
  refine ⟨⟨?_, ?_, ?_, ?_, ?_, ?_⟩, ?_⟩
  · rw [z1]; simp [rInit]
  · rw [z2]; simp [rInit]
  · simp [rInit]
  · simp [rInit]
  · rw [z1]; simp [rInit]
  · simp [rInit]
  · simp [RInv2, rInit, rTotalDisp, wsum_map, rProgDisp]

theorem rInv_run (progs : List (List ROp)) (sched : List Nat) :
    RInv ((rInit progs).run rStep sched) ∧ RInv2 (rTotalDisp progs) ((rInit progs).run rStep sched) :=
  ⟨Sys.run_inv rStep RInv rInv_step _ sched (rInv_init progs).1,
   Sys.run_inv rStep (RInv2 _) (rInv2_step _) _ sched (rInv_init progs).2⟩

/-- all threads have finished their programs -/
def rQuiet (s : Sys RSh RTh) : Prop := ∀ t ∈ s.pcs, t.pc = RPc.idle ∧ t.prog = []
instance (s : Sys RSh RTh) : Decidable (rQuiet s) := by unfold rQuiet; infer_instance

theorem rQuiet_zero (s : Sys RSh RTh) (h : rQuiet s) :
    wsum rInflight s.pcs = 0 ∧ wsum rUndPend s.pcs = 0 ∧ wsum rProgDisp s.pcs = 0 := by
  refine ⟨?_, ?_, ?_⟩ <;>
    (apply wsum_eq_zero; intro a ha; obtain ⟨h1, h2⟩ := h a ha
     simp [rInflight, rUndPend, rProgDisp, h1, h2])

end Disp

import RxModel.ThrSO
import RxProofs.Lemmas.ThrList
/-!
# Invariant of the ScheduledObserver atomic-step model (used by RxProofs/C32.lean)
-/
namespace Thr.SO
open Thr

variable {α : Type}

/-- consumer is inside `run` (between the scheduler starting it and its return / re-schedule). -/
def actC : CPc α → Nat
  | .idle => 0
  | _ => 1
/-- consumer is inside `run` and has not caught an exception. -/
def busyC : CPc α → Nat
  | .idle => 0
  | .faulting => 0
  | _ => 1
/-- consumer is inside the downstream observer's callback. -/
def delivC : CPc α → Nat
  | .delivering _ => 1
  | _ => 0
/-- consumer caught an exception from the callback and has not yet executed the locked fault block. -/
def faultC : CPc α → Nat
  | .faulting => 1
  | _ => 0
/-- item popped from the queue and not yet handed to the downstream observer. -/
def itemsC : CPc α → List α
  | .popped x => [x]
  | _ => []
/-- producer decided `is_owner` and has not yet called `scheduler.schedule(self.run)`. -/
def owingP (p : Prod α) : Nat :=
  match p.calls, p.pc with
  | _ :: _, .owing => 1
  | _, _ => 0
/-- producer appended its item and has not yet executed `ensure_active`'s locked block. -/
def appendedP (p : Prod α) : Nat :=
  match p.calls, p.pc with
  | _ :: _, .appended => 1
  | _, _ => 0

@[simp] theorem owingP_nil (pc : PPc) : owingP (⟨[], pc⟩ : Prod α) = 0 := by cases pc <;> rfl
@[simp] theorem owingP_cons (c : Call α) (r pc) : owingP ⟨c :: r, pc⟩ = if pc = .owing then 1 else 0 := by cases pc <;> rfl
@[simp] theorem appendedP_nil (pc : PPc) : appendedP (⟨[], pc⟩ : Prod α) = 0 := by cases pc <;> rfl
@[simp] theorem appendedP_cons (c : Call α) (r pc) : appendedP ⟨c :: r, pc⟩ = if pc = .appended then 1 else 0 := by cases pc <;> rfl

structure SInv (s : Sys α) : Prop where
  /-- the ownership token `is_acquired` is held by exactly one of: a pending run, a running run, a
  producer about to schedule the run, or the dead (faulted) observer. -/
  tok : s.isAcquired.toNat = s.pendingRuns + sumBy actC s.cons + sumBy owingP s.prods + s.hasFaulted.toNat + s.lostToken.toNat
  wake : s.queue ≠ [] → s.hasFaulted = false → s.isAcquired = true ∨ 1 ≤ sumBy appendedP s.prods
  order : s.raisedG = false → s.delivered ++ s.cons.flatMap itemsC ++ s.queue = s.received
  pref : s.delivered <+: s.received
  dead : s.raisedG = true → s.pendingRuns = 0 ∧ sumBy owingP s.prods = 0 ∧ sumBy busyC s.cons = 0 ∧ s.isAcquired = true
  flt : s.hasFaulted = true → s.raisedG = true
  fr : s.raisedG = false → sumBy faultC s.cons = 0
  lt : s.lostToken = true → s.serialDisposed = true

theorem itemsC_of_act_zero (c : CPc α) (h : actC c = 0) : itemsC c = [] := by
  cases c <;> simp_all [actC, itemsC]

theorem busy_le_act (l : List (CPc α)) : sumBy busyC l ≤ sumBy actC l := by
  induction l with
  | nil => simp
  | cons x xs ih => cases x <;> simp [busyC, actC] <;> omega

theorem deliv_le_busy (l : List (CPc α)) : sumBy delivC l ≤ sumBy busyC l := by
  induction l with
  | nil => simp
  | cons x xs ih => cases x <;> simp [busyC, delivC] <;> omega

theorem init_inv (progs : List (List (Call α))) (nc nd : Nat) : SInv (init progs nc nd) := by
  have h1 : sumBy actC (List.replicate nc (CPc.idle : CPc α)) = 0 := sumBy_replicate _ _ _ rfl
  have h2 : sumBy owingP (progs.map fun cs => ({ calls := cs, pc := .ready } : Prod α)) = 0 := by
    apply sumBy_eq_zero_of_forall
    intro x hx
    simp at hx
    obtain ⟨cs, _, rfl⟩ := hx
    cases cs <;> rfl
  have h3 : (List.replicate nc (CPc.idle : CPc α)).flatMap itemsC = [] := by
    simp [List.flatMap_eq_nil_iff, itemsC]
  have h4 : sumBy faultC (List.replicate nc (CPc.idle : CPc α)) = 0 := sumBy_replicate _ _ _ rfl
  constructor <;> simp [init, h1, h2, h3, h4]

theorem prod_step_inv (s : Sys α) (i : Nat) (p : Prod α) (hp : s.prods[i]? = some p) (h : SInv s) :
    SInv ({ (prodStep s p).1 with prods := s.prods.set i (prodStep s p).2.1 }) := by
  have hO := fun p' => sumBy_set owingP s.prods i p p' hp
  have hA := fun p' => sumBy_set appendedP s.prods i p p' hp
  obtain ⟨tok, wake, order, pref, dead, flt, fr, lt⟩ := h
  rcases p with ⟨calls, pc⟩
  cases calls with
  | nil =>
    have e : s.prods.set i ⟨[], pc⟩ = s.prods := by
      apply List.ext_getElem?; intro k
      by_cases hk : i = k
      · subst hk; simp [List.getElem?_set]; split <;> simp_all
      · simp [hk]
    simp only [prodStep, e]
    exact ⟨tok, wake, order, pref, dead, flt, fr, lt⟩
  | cons c rest =>
    cases pc with
    | ready =>
      simp only [prodStep]
      split
      · have h1 := hO ⟨rest, .ready⟩; have h2 := hA ⟨rest, .ready⟩
        have h3 : owingP (⟨rest, .ready⟩ : Prod α) = 0 := by cases rest <;> simp
        have h4 : appendedP (⟨rest, .ready⟩ : Prod α) = 0 := by cases rest <;> simp
        simp [h3, h4] at h1 h2
        refine ⟨?_, ?_, order, pref, ?_, flt, fr, lt⟩
        · dsimp only; omega
        · intro a b; exact (wake a b).imp id (fun w => by dsimp only; omega)
        · intro a; obtain ⟨d1, d2, d3, d4⟩ := dead a; exact ⟨d1, by dsimp only; omega, d3, d4⟩
      · rcases c with ⟨x, t⟩
        cases t
        · simp only [Bool.false_eq_true, ↓reduceIte]
          have h1 := hO ⟨⟨x, false⟩ :: rest, .toAppend⟩; have h2 := hA ⟨⟨x, false⟩ :: rest, .toAppend⟩
          simp at h1 h2
          refine ⟨?_, ?_, order, pref, ?_, flt, fr, lt⟩
          · dsimp only; omega
          · intro a b; exact (wake a b).imp id (fun w => by dsimp only; omega)
          · intro a; obtain ⟨d1, d2, d3, d4⟩ := dead a; exact ⟨d1, by dsimp only; omega, d3, d4⟩
        · simp only [↓reduceIte]
          have h1 := hO ⟨⟨x, true⟩ :: rest, .needMark⟩; have h2 := hA ⟨⟨x, true⟩ :: rest, .needMark⟩
          simp at h1 h2
          refine ⟨?_, ?_, order, pref, ?_, flt, fr, lt⟩
          · dsimp only; omega
          · intro a b; exact (wake a b).imp id (fun w => by dsimp only; omega)
          · intro a; obtain ⟨d1, d2, d3, d4⟩ := dead a; exact ⟨d1, by dsimp only; omega, d3, d4⟩
    | needMark =>
      simp only [prodStep]
      have h1 := hO ⟨c :: rest, .toAppend⟩; have h2 := hA ⟨c :: rest, .toAppend⟩
      simp at h1 h2
      refine ⟨?_, ?_, order, pref, ?_, flt, fr, lt⟩
      · dsimp only; omega
      · intro a b; exact (wake a b).imp id (fun w => by dsimp only; omega)
      · intro a; obtain ⟨d1, d2, d3, d4⟩ := dead a; exact ⟨d1, by dsimp only; omega, d3, d4⟩
    | toAppend =>
      simp only [prodStep]
      have h1 := hO ⟨c :: rest, .appended⟩; have h2 := hA ⟨c :: rest, .appended⟩
      simp at h1 h2
      refine ⟨?_, ?_, ?_, ?_, ?_, flt, fr, lt⟩
      · dsimp only; omega
      · intro a b; right; dsimp only; omega
      · intro a; have := order a; dsimp only at *; rw [← this]; simp
      · exact List.IsPrefix.trans pref (List.prefix_append _ _)
      · intro a; obtain ⟨d1, d2, d3, d4⟩ := dead a; exact ⟨d1, by dsimp only; omega, d3, d4⟩
    | appended =>
      simp only [prodStep]
      have h3 : owingP (⟨rest, .ready⟩ : Prod α) = 0 := by cases rest <;> simp
      have h4 : appendedP (⟨rest, .ready⟩ : Prod α) = 0 := by cases rest <;> simp
      split
      · rename_i hc
        simp at hc
        split
        · rename_i hq
          have h1 := hO ⟨rest, .ready⟩; have h2 := hA ⟨rest, .ready⟩
          simp [h3, h4] at h1 h2
          refine ⟨?_, ?_, order, pref, ?_, flt, fr, lt⟩
          · dsimp only; omega
          · intro a b; left; exact hq
          · intro a; obtain ⟨d1, d2, d3, d4⟩ := dead a; exact ⟨d1, by dsimp only; omega, d3, d4⟩
        · rename_i hq
          have h1 := hO ⟨c :: rest, .owing⟩; have h2 := hA ⟨c :: rest, .owing⟩
          simp at h1 h2
          simp at hq
          refine ⟨?_, ?_, order, pref, ?_, flt, fr, lt⟩
          · dsimp only; simp [hq] at tok ⊢; omega
          · intro a b; left; rfl
          · intro a; have := dead a; simp_all
      · rename_i hc
        have h1 := hO ⟨rest, .ready⟩; have h2 := hA ⟨rest, .ready⟩
        simp [h3, h4] at h1 h2
        refine ⟨?_, ?_, order, pref, ?_, flt, fr, lt⟩
        · dsimp only; omega
        · intro a b; simp at hc; simp_all
        · intro a; obtain ⟨d1, d2, d3, d4⟩ := dead a; exact ⟨d1, by dsimp only; omega, d3, d4⟩
    | owing =>
      simp only [prodStep]
      have h1 := hO ⟨c :: rest, .assign s.nextRun⟩; have h2 := hA ⟨c :: rest, .assign s.nextRun⟩
      simp at h1 h2
      refine ⟨?_, ?_, order, pref, ?_, flt, fr, lt⟩
      · dsimp only; omega
      · intro a b; exact (wake a b).imp id (fun w => by dsimp only; omega)
      · intro a; obtain ⟨d1, d2, d3, d4⟩ := dead a
        have := sumBy_le_mem owingP s.prods i _ hp; simp at this; omega
    | assign rid =>
      simp only [prodStep]
      have h3 : owingP (⟨rest, .ready⟩ : Prod α) = 0 := by cases rest <;> simp
      have h4 : appendedP (⟨rest, .ready⟩ : Prod α) = 0 := by cases rest <;> simp
      split
      · have h1 := hO ⟨c :: rest, .cancelRun rid⟩; have h2 := hA ⟨c :: rest, .cancelRun rid⟩
        simp at h1 h2
        refine ⟨?_, ?_, order, pref, ?_, flt, fr, lt⟩
        · dsimp only; omega
        · intro a b; exact (wake a b).imp id (fun w => by dsimp only; omega)
        · intro a; obtain ⟨d1, d2, d3, d4⟩ := dead a; exact ⟨d1, by dsimp only; omega, d3, d4⟩
      · have h1 := hO ⟨rest, .ready⟩; have h2 := hA ⟨rest, .ready⟩
        simp [h3, h4] at h1 h2
        refine ⟨?_, ?_, order, pref, ?_, flt, fr, lt⟩
        · dsimp only; omega
        · intro a b; exact (wake a b).imp id (fun w => by dsimp only; omega)
        · intro a; obtain ⟨d1, d2, d3, d4⟩ := dead a; exact ⟨d1, by dsimp only; omega, d3, d4⟩
    | cancelRun rid =>
      simp only [prodStep]
      have h3 : owingP (⟨rest, .ready⟩ : Prod α) = 0 := by cases rest <;> simp
      have h4 : appendedP (⟨rest, .ready⟩ : Prod α) = 0 := by cases rest <;> simp
      have h1 := hO ⟨rest, .ready⟩; have h2 := hA ⟨rest, .ready⟩
      simp [h3, h4] at h1 h2
      have hacq : s.isAcquired.toNat ≤ 1 := Bool.toNat_le _
      split
      · rename_i hc
        refine ⟨?_, ?_, order, pref, ?_, flt, fr, fun _ => hc.2.2⟩
        · dsimp only
          cases hl : s.lostToken
          · simp [hl] at tok ⊢; omega
          · simp [hl] at tok; omega
        · intro a b; exact (wake a b).imp id (fun w => by dsimp only; omega)
        · intro a; obtain ⟨d1, d2, d3, d4⟩ := dead a; exact ⟨rfl, by dsimp only; omega, d3, d4⟩
      · refine ⟨?_, ?_, order, pref, ?_, flt, fr, lt⟩
        · dsimp only; omega
        · intro a b; exact (wake a b).imp id (fun w => by dsimp only; omega)
        · intro a; obtain ⟨d1, d2, d3, d4⟩ := dead a; exact ⟨d1, by dsimp only; omega, d3, d4⟩

theorem cons_step_inv (raises : Nat → Bool) (s : Sys α) (j : Nat) (pc : CPc α) (hp : s.cons[j]? = some pc) (h : SInv s) :
    SInv ({ (consStep raises s pc).1 with cons := s.cons.set j (consStep raises s pc).2.1 }) := by
  have hA := fun c' => sumBy_set actC s.cons j pc c' hp
  have hB := fun c' => sumBy_set busyC s.cons j pc c' hp
  have hLA := sumBy_le_mem actC s.cons j pc hp
  have hLB := sumBy_le_mem busyC s.cons j pc hp
  have hBA := busy_le_act s.cons
  have hF := fun c' => sumBy_set faultC s.cons j pc c' hp
  have hLF := sumBy_le_mem faultC s.cons j pc hp
  obtain ⟨tok, wake, order, pref, dead, flt, fr, lt⟩ := h
  have hacq : s.isAcquired.toNat ≤ 1 := Bool.toNat_le _
  cases pc with
  | idle =>
    simp only [consStep]
    split
    · have e : s.cons.set j .idle = s.cons := by
        apply List.ext_getElem?; intro k
        by_cases hk : j = k
        · subst hk; simp [List.getElem?_set]; split <;> simp_all
        · simp [hk]
      simp only [e]
      exact ⟨tok, wake, order, pref, dead, flt, fr, lt⟩
    · rename_i n hn
      have h1 := hA .atLock; have h2 := hB .atLock
      simp [actC, busyC] at h1 h2
      have h3 := flatMap_set_nil itemsC s.cons j .idle .atLock hp rfl rfl
      refine ⟨?_, wake, ?_, pref, ?_, flt, ?_, lt⟩
      · dsimp only; omega
      · intro a; dsimp only; rw [h3]; exact order a
      · intro a; obtain ⟨d1, d2, d3, d4⟩ := dead a; omega
      · intro a; have h5 := hF .atLock; simp [faultC] at h5 hLF; have := fr a; dsimp only; omega
  | atLock =>
    simp only [consStep]
    simp [actC, busyC] at hLA hLB
    split
    · rename_i x q hq
      have h1 := hA (.popped x); have h2 := hB (.popped x)
      simp [actC, busyC] at h1 h2
      have h3 := flatMap_unique actC itemsC itemsC_of_act_zero s.cons j .atLock (.popped x) hp (by simp [actC]) (by omega)
      refine ⟨?_, ?_, ?_, pref, ?_, flt, ?_, lt⟩
      · dsimp only; omega
      · intro a b; left
        cases hacq' : s.isAcquired
        · simp [hacq'] at tok; omega
        · rfl
      · intro a; have := order a; dsimp only at *
        rw [h3.2]; rw [h3.1, hq] at this; simpa [itemsC] using this
      · intro a; obtain ⟨d1, d2, d3, d4⟩ := dead a; omega
      · intro a; have h5 := hF (.popped x); simp [faultC] at h5 hLF; have := fr a; dsimp only; omega
    · rename_i hq
      have h1 := hA .idle; have h2 := hB .idle
      simp [actC, busyC] at h1 h2
      have h3 := flatMap_set_nil itemsC s.cons j .atLock .idle hp rfl rfl
      refine ⟨?_, ?_, ?_, pref, ?_, flt, ?_, lt⟩
      · dsimp only
        cases hacq' : s.isAcquired
        · simp [hacq'] at tok; omega
        · simp [hacq'] at tok; simp; omega
      · intro a; exact absurd hq a
      · intro a; dsimp only; rw [h3]; exact order a
      · intro a; obtain ⟨d1, d2, d3, d4⟩ := dead a; omega
      · intro a; have h5 := hF .idle; simp [faultC] at h5 hLF; have := fr a; dsimp only; omega
  | popped x =>
    simp only [consStep]
    simp [actC, busyC] at hLA hLB
    have h1 := hA (.delivering x); have h2 := hB (.delivering x)
    simp [actC, busyC] at h1 h2
    have h3 := flatMap_unique actC itemsC itemsC_of_act_zero s.cons j (.popped x) (.delivering x) hp (by simp [actC]) (by omega)
    have hr : s.raisedG = false := by
      cases hr : s.raisedG
      · rfl
      · obtain ⟨d1, d2, d3, d4⟩ := dead hr; omega
    have ho := order hr
    rw [h3.1] at ho
    simp [itemsC] at ho
    refine ⟨?_, wake, ?_, ?_, ?_, flt, ?_, lt⟩
    · dsimp only; omega
    · intro a; dsimp only; rw [h3.2]; simp [itemsC]; exact ho
    · dsimp only; rw [← ho]; simp
    · intro a; simp [hr] at a
    · intro a; have h5 := hF (.delivering x); simp [faultC] at h5 hLF; have := fr a; dsimp only; omega
  | delivering x =>
    simp only [consStep]
    simp [actC, busyC] at hLA hLB
    split
    · have h1 := hA .faulting; have h2 := hB .faulting
      simp [actC, busyC] at h1 h2
      have h3 := flatMap_set_nil itemsC s.cons j (.delivering x) .faulting hp rfl rfl
      refine ⟨?_, wake, ?_, pref, ?_, ?_, ?_, lt⟩
      · dsimp only; omega
      · intro a; simp at a
      · intro _
        cases hacq' : s.isAcquired
        · simp [hacq'] at tok; omega
        · simp [hacq'] at tok; dsimp only; refine ⟨by omega, by omega, by omega, rfl⟩
      · intro _; rfl
      · intro a; simp at a
    · have h1 := hA .resched; have h2 := hB .resched
      simp [actC, busyC] at h1 h2
      have h3 := flatMap_set_nil itemsC s.cons j (.delivering x) .resched hp rfl rfl
      refine ⟨?_, wake, ?_, pref, ?_, flt, ?_, lt⟩
      · dsimp only; omega
      · intro a; dsimp only; rw [h3]; exact order a
      · intro a; obtain ⟨d1, d2, d3, d4⟩ := dead a; omega
      · intro a; have h5 := hF .resched; simp [faultC] at h5 hLF; have := fr a; dsimp only; omega
  | faulting =>
    simp only [consStep]
    simp [actC, busyC] at hLA hLB
    have h1 := hA .idle; have h2 := hB .idle
    simp [actC, busyC] at h1 h2
    have hf : s.hasFaulted = false := by
      cases hf : s.hasFaulted
      · rfl
      · simp [hf] at tok; omega
    have hr : s.raisedG = true := by
      cases hr : s.raisedG
      · have := fr hr; simp [faultC] at hLF; omega
      · rfl
    refine ⟨?_, ?_, ?_, pref, ?_, ?_, ?_, lt⟩
    · dsimp only; simp [hf] at tok ⊢; omega
    · intro a; simp at a
    · intro a; simp [hr] at a
    · intro a; obtain ⟨d1, d2, d3, d4⟩ := dead a; exact ⟨d1, d2, by dsimp only; omega, d4⟩
    · intro _; exact hr
    · intro a; simp [hr] at a
  | resched =>
    simp only [consStep]
    simp [actC, busyC] at hLA hLB
    have h1 := hA .idle; have h2 := hB .idle
    simp [actC, busyC] at h1 h2
    have h3 := flatMap_set_nil itemsC s.cons j .resched .idle hp rfl rfl
    refine ⟨?_, wake, ?_, pref, ?_, flt, ?_, lt⟩
    · dsimp only; omega
    · intro a; dsimp only; rw [h3]; exact order a
    · intro a; obtain ⟨d1, d2, d3, d4⟩ := dead a; omega
    · intro a; have h5 := hF .idle; simp [faultC] at h5 hLF; have := fr a; dsimp only; omega


theorem disp_step_inv (s : Sys α) (k : Nat) (pc : DPc) (h : SInv s) :
    SInv ({ (dispStep s pc).1 with disps := s.disps.set k (dispStep s pc).2.1 }) := by
  obtain ⟨tok, wake, order, pref, dead, flt, fr, lt⟩ := h
  have hacq : s.isAcquired.toNat ≤ 1 := Bool.toNat_le _
  cases pc with
  | start => simp only [dispStep]; exact ⟨tok, wake, order, pref, dead, flt, fr, lt⟩
  | stopped => simp only [dispStep]; exact ⟨tok, wake, order, pref, dead, flt, fr, fun _ => rfl⟩
  | flagged old =>
    cases old with
    | none => simp only [dispStep]; exact ⟨tok, wake, order, pref, dead, flt, fr, lt⟩
    | some rid =>
      simp only [dispStep]
      split
      · rename_i hc
        refine ⟨?_, wake, order, pref, ?_, flt, fr, fun _ => hc.2.2⟩
        · dsimp only
          cases hl : s.lostToken
          · simp [hl] at tok ⊢; omega
          · simp [hl] at tok; omega
        · intro a; obtain ⟨d1, d2, d3, d4⟩ := dead a; exact ⟨rfl, d2, d3, d4⟩
      · exact ⟨tok, wake, order, pref, dead, flt, fr, lt⟩
  | done => simp only [dispStep]; exact ⟨tok, wake, order, pref, dead, flt, fr, lt⟩

theorem step_inv (raises : Nat → Bool) (s : Sys α) (t : Tid) (h : SInv s) : SInv (step raises s t) := by
  unfold step stepL
  cases t with
  | prod i =>
    dsimp only
    split
    · exact h
    · rename_i p hp; exact prod_step_inv s i p hp h
  | cons j =>
    dsimp only
    split
    · exact h
    · rename_i pc hp; exact cons_step_inv raises s j pc hp h
  | disp k =>
    dsimp only
    split
    · exact h
    · rename_i pc hp; exact disp_step_inv s k pc h

theorem run_inv (raises : Nat → Bool) (s : Sys α) (sched : List Tid) (h : SInv s) : SInv (run raises s sched) := by
  induction sched generalizing s with
  | nil => exact h
  | cons t ts ih => exact ih _ (step_inv raises s t h)

theorem run_append (raises : Nat → Bool) (s : Sys α) (a b : List Tid) :
    run raises s (a ++ b) = run raises (run raises s a) b := by
  simp [run, List.foldl_append]

end Thr.SO

import RxModel.TimedSim
import RxProofs.Lemmas.TimedSim
/-! The scheduler's tie rule for `sample`, derived: two pre-scheduled event lists merged stably by time. -/

namespace Timed

/-- merge of two time-sorted lists in which the FIRST list wins ties -/
def merge2 {β} : List (Nat × β) → List (Nat × β) → List (Nat × β)
  | [], B => B
  | a :: A, [] => a :: A
  | a :: A, b :: B => if b.1 < a.1 then b :: merge2 (a :: A) B else a :: merge2 A (b :: B)
termination_by A B => A.length + B.length

theorem merge2_nil_right {β} (A : List (Nat × β)) : merge2 A [] = A := by
  cases A <;> simp [merge2]

theorem merge2_cons_cons {β} (a b : Nat × β) (A B : List (Nat × β)) :
    merge2 (a :: A) (b :: B) = if b.1 < a.1 then b :: merge2 (a :: A) B else a :: merge2 A (b :: B) := by
  rw [merge2]

def SortedT {β} (l : List (Nat × β)) : Prop := l.Pairwise (fun a b => a.1 ≤ b.1)

/-- scheduling an item due no earlier than everything queued puts it at the end -/
theorem insertEv_last {β} (e : Nat × β) (Q : List (Nat × β)) (h : ∀ x ∈ Q, x.1 ≤ e.1) : insertEv e Q = Q ++ [e] := by
  induction Q with
  | nil => rfl
  | cons x Q ih =>
    have hx := h x (List.mem_cons_self ..)
    have : ¬ e.1 < x.1 := by omega
    simp [insertEv, this, ih (fun y hy => h y (List.mem_cons_of_mem _ hy))]

theorem foldl_insert_sorted {β} (A Q : List (Nat × β)) (hA : SortedT (Q ++ A)) :
    A.foldl (fun acc e => insertEv e acc) Q = Q ++ A := by
  induction A generalizing Q with
  | nil => simp
  | cons a A ih =>
    have hQ : ∀ x ∈ Q, x.1 ≤ a.1 := by
      intro x hx
      have := (List.pairwise_append.1 hA).2.2 x hx a (List.mem_cons_self ..)
      exact this
    simp only [List.foldl_cons]
    rw [insertEv_last a Q hQ, ih (Q ++ [a]) (by simpa using hA)]
    simp

/-- scheduling `b` into a sorted queue `Q`, then the (later) items `B`: the same as merging with `b :: B` -/
theorem merge2_insert {β} (b : Nat × β) (B : List (Nat × β)) (hB : ∀ x ∈ B, b.1 ≤ x.1) :
    ∀ Q : List (Nat × β), merge2 (insertEv b Q) B = merge2 Q (b :: B) := by
  intro Q
  induction Q with
  | nil =>
    cases B with
    | nil => simp [insertEv, merge2]
    | cons b' B' =>
      have : ¬ b'.1 < b.1 := by have := hB b' (List.mem_cons_self ..); omega
      simp [insertEv, merge2, this]
  | cons a A ih =>
    by_cases h : b.1 < a.1
    · simp only [insertEv, h, if_true, merge2_cons_cons]
      cases B with
      | nil => simp [merge2_nil_right]
      | cons b' B' =>
        have : ¬ b'.1 < b.1 := by have := hB b' (List.mem_cons_self ..); omega
        simp [merge2_cons_cons, this, h]
    · simp only [insertEv, h, if_false, merge2_cons_cons]
      cases B with
      | nil => simp [merge2_nil_right, ← ih]
      | cons b' B' =>
        have : ¬ b'.1 < a.1 := by have := hB b' (List.mem_cons_self ..); omega
        rw [merge2_cons_cons]
        simp only [this, if_false]
        rw [ih]

theorem foldl_insert_merge {β} (B Q : List (Nat × β)) (hB : SortedT B) :
    B.foldl (fun acc e => insertEv e acc) Q = merge2 Q B := by
  induction B generalizing Q with
  | nil => simp [merge2_nil_right]
  | cons b B ih =>
    have hb := List.pairwise_cons.1 hB
    simp only [List.foldl_cons]
    rw [ih (insertEv b Q) hb.2, merge2_insert b B hb.1]

/-- **The queue of two pre-scheduled sorted event lists** (the first scheduled first) is their merge with the first
list winning ties. -/
theorem mergeStable_append {β} (A B : List (Nat × β)) (hA : SortedT A) (hB : SortedT B) :
    mergeStable (A ++ B) = merge2 A B := by
  unfold mergeStable
  rw [List.foldl_append, foldl_insert_sorted A [] (by simpa using hA), List.nil_append, foldl_insert_merge B A hB]

/-- the scheduler queue of `sample`: source messages and sampler events, each list pre-scheduled as a block;
`samplerFirst` = the sampler's block was scheduled before the source's -/
def sampQueue {α} (samplerFirst : Bool) (msgs : TL α) (ticks : List (Nat × SampEv)) : List (Nat × SampItem α) :=
  if samplerFirst then merge2 (sampTickItems ticks) (sampSrcItems msgs) else merge2 (sampSrcItems msgs) (sampTickItems ticks)

theorem sampQueue_nil_ticks {α} (tf : Bool) (msgs : TL α) : sampQueue tf msgs [] = sampSrcItems msgs := by
  cases tf <;> simp [sampQueue, sampTickItems, merge2_nil_right, merge2]

theorem sampQueue_nil_msgs {α} (tf : Bool) (ticks : List (Nat × SampEv)) :
    sampQueue (α := α) tf [] ticks = sampTickItems ticks := by
  cases tf <;> simp [sampQueue, sampSrcItems, merge2_nil_right, merge2]

theorem sampQueue_cons_cons {α} (tf : Bool) (t : Nat) (n : Notif α) (r : TL α) (k : Nat) (ev : SampEv)
    (T : List (Nat × SampEv)) :
    sampQueue tf ((t, n) :: r) ((k, ev) :: T) =
      if timerBefore tf k t then (k, SampItem.samp ev) :: sampQueue tf ((t, n) :: r) T
      else (t, SampItem.src n) :: sampQueue tf r ((k, ev) :: T) := by
  cases tf with
  | false =>
    simp only [sampQueue, Bool.false_eq_true, if_false, sampSrcItems, sampTickItems, List.map_cons, merge2_cons_cons,
      timerBefore]
    by_cases h : k < t <;> simp [h]
  | true =>
    simp only [sampQueue, if_true, sampSrcItems, sampTickItems, List.map_cons, merge2_cons_cons, timerBefore]
    by_cases h : t < k
    · have : ¬ k ≤ t := by omega
      simp [h, this]
    · have : k ≤ t := by omega
      simp [h, this]

theorem sampSim_ticks {α} (tf b : Bool) (T : List (Nat × SampEv)) : ∀ s : SampSt α,
    sampSim (sampTickItems T) b s = sampRun tf s [] T := by
  induction T with
  | nil => intro s; simp [sampTickItems, sampSim, sampRun]
  | cons a T ih =>
    obtain ⟨k, ev⟩ := a
    intro s
    have ih' := ih (sampTick s).1
    simp only [sampTickItems] at ih'
    cases ev with
    | tick => simp [sampTickItems, sampSim, sampRun, ih']
    | err e => simp [sampTickItems, sampSim, sampRun]

/-- after the source's terminal its remaining messages do nothing -/
theorem sampSim_skip {α} (tf : Bool) (T : List (Nat × SampEv)) : ∀ (r : TL α) (s : SampSt α),
    sampSim (sampQueue tf r T) false s = sampSim (sampTickItems T) false s := by
  induction T with
  | nil =>
    intro r
    induction r with
    | nil => intro s; simp [sampQueue_nil_ticks, sampSrcItems, sampTickItems]
    | cons a r ih =>
      intro s
      have := ih s
      rw [sampQueue_nil_ticks] at this ⊢
      simp only [sampSrcItems, List.map_cons, sampSim, Bool.false_eq_true, if_false] at this ⊢
      exact this
  | cons b T ihT =>
    obtain ⟨k, ev⟩ := b
    intro r
    induction r with
    | nil => intro s; rw [sampQueue_nil_msgs]
    | cons a r ihr =>
      obtain ⟨t, n⟩ := a
      intro s
      rw [sampQueue_cons_cons]
      by_cases hb : timerBefore tf k t = true
      · simp only [hb, if_true]
        cases ev with
        | tick =>
          have := ihT ((t, n) :: r) (sampTick s).1
          simp [sampSim, sampTickItems, this]
        | err e => simp [sampSim, sampTickItems]
      · simp only [hb, if_false, sampSim, Bool.false_eq_true]
        exact ihr s

/-- **sample: the simulation over the scheduler queue equals the two-stream run**, with the tie rule
`samplerFirst` = "the sampler's events were scheduled before the source's". -/
theorem sampSim_eq_run {α} (tf : Bool) (T : List (Nat × SampEv)) : ∀ (msgs : TL α) (s : SampSt α),
    sampSim (sampQueue tf msgs T) true s = sampRun tf s msgs T := by
  induction T with
  | nil =>
    intro msgs
    induction msgs with
    | nil => intro s; simp [sampQueue_nil_ticks, sampSrcItems, sampSim, sampRun]
    | cons a r ih =>
      obtain ⟨t, n⟩ := a
      intro s
      rw [sampQueue_nil_ticks]
      cases n with
      | next v =>
        have := ih (sampOnNext s v)
        rw [sampQueue_nil_ticks] at this
        simp only [sampSrcItems, List.map_cons, sampSim, if_true] at this ⊢
        rw [this, sampRun]
      | error e => simp [sampSrcItems, sampSim, sampRun]
      | completed =>
        have := sampSim_skip tf [] r (sampOnCompleted s)
        rw [sampQueue_nil_ticks] at this
        simp only [sampSrcItems, List.map_cons, sampSim, if_true] at this ⊢
        rw [this]
        simp [sampTickItems, sampSim, sampRun]
  | cons b T ihT =>
    obtain ⟨k, ev⟩ := b
    intro msgs
    induction msgs with
    | nil => intro s; rw [sampQueue_nil_msgs]; exact sampSim_ticks tf true _ s
    | cons a r ihr =>
      obtain ⟨t, n⟩ := a
      intro s
      rw [sampQueue_cons_cons, sampRun_cons_cons]
      by_cases hb : timerBefore tf k t = true
      · simp only [hb, if_true]
        cases ev with
        | tick => simp [sampSim, ihT ((t, n) :: r) (sampTick s).1]
        | err e => simp [sampSim]
      · have hb' : timerBefore tf k t = false := by simpa using hb
        simp only [hb', Bool.false_eq_true, if_false]
        cases n with
        | next v => simp [sampSim, ihr (sampOnNext s v)]
        | error e => simp [sampSim]
        | completed =>
          simp only [sampSim, if_true]
          rw [sampSim_skip tf ((k, ev) :: T) r (sampOnCompleted s), sampSim_ticks tf false]

theorem mono_pairwise {α} {lo : Nat} {l : TL α} (h : Mono lo l) : l.Pairwise (fun a b => a.1 ≤ b.1) := by
  induction l generalizing lo with
  | nil => exact List.Pairwise.nil
  | cons a r ih =>
    obtain ⟨t, n⟩ := a
    exact List.pairwise_cons.2 ⟨fun b hb => Mono.mem_ge h.2 b hb, ih h.2⟩

theorem sortedT_srcItems {α} {lo : Nat} {msgs : TL α} (h : Mono lo msgs) : SortedT (sampSrcItems msgs) := by
  unfold SortedT sampSrcItems
  rw [List.pairwise_map]
  exact mono_pairwise h

end Timed

import RxProofs.Lemmas.WinPre
import RxProofs.Lemmas.WinEnd
/-!
# `Pre` (log only grows) is preserved by every step of every window machine.
(generated from WinBufJ2.lean by textual substitution J ↦ Pre L)
-/
namespace Win
variable {α : Type} {L : List (Nat × Out α)}
open Base


namespace Cnt
theorem Pre_createWindow (s : Cnt α) (h : Pre L s.b) : Pre L s.createWindow.b := Pre_open s.b h
theorem Pre_fin (skip : Nat) (s : Cnt α) (h : Pre L s.b) : Pre L (fin skip s).b := by
  unfold fin; split
  · exact Pre_createWindow s h
  · exact h
theorem Pre_onNext (count skip : Nat) (s : Cnt α) (x : α) (h : Pre L s.b) : Pre L (onNext count skip s x).b := by
  have h1 : Pre L (s.q.foldl (fun b id => b.winNext id x) s.b) := Pre_foldl _ (fun b i hb => Pre_winNext b i x hb) _ _ h
  rw [onNext_eq]; split
  · split
    · exact Pre_emit _ _ h1
    · exact Pre_fin _ _ (Pre_winEnd _ _ _ (by assumption))
  · exact Pre_fin _ _ h1
theorem Pre_onEnd (s : Cnt α) (e) (h : Pre L s.b) : Pre L (onEnd s e).b :=
  Pre_outerEnd _ _ (Pre_foldl _ (fun b i hb => Pre_winEnd b i e hb) _ _ h)
theorem Pre_step (count skip : Nat) (s : Cnt α) (t : Nat) (ev : Ev α) (h : Pre L s.b) : Pre L ((Cnt.mach count skip).step s t ev).b := by
  have h' : Pre L ({ s with b := { s.b with now := t } } : Cnt α).b := Pre_now _ _ h
  simp only [mach]
  cases ev with
  | src k n =>
    cases k with
    | zero =>
      simp only [step]; split
      · cases n with
        | next x => exact Pre_onNext _ _ _ _ h'
        | error e => exact Pre_unsub _ _ (Pre_onEnd _ _ h')
        | completed => exact Pre_unsub _ _ (Pre_onEnd _ _ h')
      · exact h'
    | succ k => exact h'
  | dispose w => exact Pre_disposeEv _ _ h'
  | tick => exact h'
end Cnt

end Win
namespace Win
variable {α : Type}
open Base

namespace Bnd
theorem Pre_step (s : Bnd α) (t : Nat) (ev : Ev α) (h : Pre L s.b) : Pre L (Bnd.mach.step s t ev).b := by
  have h' : Pre L ({ s with b := { s.b with now := t } } : Bnd α).b := Pre_now _ _ h
  simp only [mach]
  cases ev with
  | src k n =>
    simp only [step]; split
    · cases n with
      | next x =>
        by_cases hk : (k == 0) = true
        · simp only [hk, if_true]; exact Pre_winNext _ _ _ h'
        · simp only [hk, Bool.false_eq_true, if_false, onBoundary]; exact Pre_open _ (Pre_winEnd _ _ _ h')
      | error e => exact Pre_unsub _ _ (Pre_outerEnd _ _ (Pre_winEnd _ _ _ h'))
      | completed => exact Pre_unsub _ _ (Pre_outerEnd _ _ (Pre_winEnd _ _ _ h'))
    · exact h'
  | dispose w => exact Pre_disposeEv _ _ h'
  | tick => exact h'
end Bnd

namespace Whn
theorem Pre_onEnd (s : Whn α) (e) (h : Pre L s.b) : Pre L (onEnd s e).b := Pre_outerEnd _ _ (Pre_winEnd _ _ _ h)
theorem Pre_createClosingF (r : Option Nat) (pool : Nat) (fuel : Nat) (s : Whn α) (h : Pre L s.b) : Pre L (createClosingF r pool fuel s).b := by
  induction fuel generalizing s with
  | zero => exact h
  | succ fuel ih =>
    simp only [createClosingF]
    split
    · exact Pre_outerEnd _ _ (Pre_winEnd _ _ _ h)
    · have h1 : Pre L (if s.calls ≥ 1 then s.b.unsub s.calls else s.b) := by split; exact Pre_unsub _ _ h; exact h
      generalize (if s.calls ≥ 1 then s.b.unsub s.calls else s.b) = b1 at h1 ⊢
      split
      · exact ih _ (Pre_open _ (Pre_winEnd _ _ _ h1))
      · exact Pre_outerEnd _ _ (Pre_winEnd _ _ _ h1)
      · simp only []
        split
        · split
          · exact Pre_unsub _ _ (Pre_subscribe _ _ h1)
          · exact Pre_subscribe _ _ h1
        · exact h1
theorem Pre_createClosing (r : Option Nat) (pool : Nat) (s : Whn α) (h : Pre L s.b) : Pre L (createClosing r pool s).b :=
  Pre_createClosingF r pool _ s h
theorem Pre_onClose (r : Option Nat) (pool : Nat) (s : Whn α) (h : Pre L s.b) : Pre L (onClose r pool s).b :=
  Pre_createClosing _ _ _ (Pre_open _ (Pre_winEnd _ _ _ h))
theorem Pre_step (r : Option Nat) (pool : Nat) (s : Whn α) (t : Nat) (ev : Ev α) (h : Pre L s.b) :
    Pre L ((Whn.mach r pool).step s t ev).b := by
  have h' : Pre L ({ s with b := { s.b with now := t } } : Whn α).b := Pre_now _ _ h
  simp only [mach]
  cases ev with
  | src k n =>
    simp only [step]; split
    · split
      · cases n with
        | next x => exact Pre_winNext _ _ _ h'
        | error e => exact Pre_unsub _ _ (Pre_onEnd _ _ h')
        | completed => exact Pre_unsub _ _ (Pre_onEnd _ _ h')
      · cases n with
        | next x => exact Pre_unsub _ _ (Pre_onClose _ _ _ h')
        | error e => exact Pre_unsub _ _ (Pre_onEnd _ _ h')
        | completed => exact Pre_unsub _ _ (Pre_onClose _ _ _ h')
    · exact h'
  | dispose w => exact Pre_disposeEv _ _ h'
  | tick => exact h'
end Whn

namespace Tgl
theorem Pre_errAll (s : Tgl α) (e) (h : Pre L s.b) : Pre L (errAll s e).b :=
  Pre_outerEnd _ _ (Pre_foldl _ (fun b p hb => Pre_winEnd b p.2 (some e) hb) _ _ h)
theorem Pre_expire (s : Tgl α) (i) (h : Pre L s.b) : Pre L (expire s i).b := by
  unfold expire; split
  · exact Pre_winEnd _ _ _ h
  · exact h
theorem Pre_onOpen (r : Option Nat) (pool : Nat) (s : Tgl α) (h : Pre L s.b) : Pre L (onOpen r pool s).b := by
  have h1 : Pre L (s.b.newWin.1.outerNext s.b.newWin.2) := Pre_open _ h
  unfold onOpen; simp only []
  split
  · exact Pre_errAll _ _ h1
  · split
    · exact Pre_expire _ _ h1
    · exact Pre_errAll _ _ h1
    · split
      · split
        · exact Pre_unsub _ _ (Pre_subscribe _ _ h1)
        · exact Pre_subscribe _ _ h1
      · exact h1
theorem Pre_step (r : Option Nat) (pool : Nat) (s : Tgl α) (t : Nat) (ev : Ev α) (h : Pre L s.b) :
    Pre L ((Tgl.mach r pool).step s t ev).b := by
  have h' : Pre L ({ s with b := { s.b with now := t } } : Tgl α).b := Pre_now _ _ h
  simp only [mach]
  cases ev with
  | src k n =>
    simp only [step]; split
    · split
      · cases n with
        | next x => exact Pre_foldl _ (fun b p hb => Pre_winNext b p.2 x hb) _ _ h'
        | error e => exact Pre_unsub _ _ (Pre_errAll _ _ h')
        | completed => exact Pre_unsub _ _ h'
      · split
        · cases n with
          | next x => exact Pre_onOpen _ _ _ h'
          | error e => exact Pre_unsub _ _ (Pre_errAll _ _ h')
          | completed => exact Pre_unsub _ _ (Pre_outerEnd _ _ h')
        · cases n with
          | next x => exact Pre_unsub _ _ (Pre_expire _ _ h')
          | error e => exact Pre_unsub _ _ (Pre_errAll _ _ h')
          | completed => exact Pre_unsub _ _ (Pre_expire _ _ h')
    · exact h'
  | dispose w => exact Pre_disposeEv _ _ h'
  | tick => exact h'
end Tgl

namespace Tim
theorem Pre_onEnd (s : Tim α) (e) (h : Pre L s.b) : Pre L (onEnd s e).b :=
  Pre_outerEnd _ _ (Pre_foldl _ (fun b i hb => Pre_winEnd b i e hb) _ _ h)
theorem Pre_onTick (shift : Nat) (s : Tim α) (h : Pre L s.b) : Pre L (onTick shift s).b := by
  unfold onTick; split
  · exact h
  · rename_i tk _
    simp only []
    have hnew : Pre L (s.b.newWin.1.outerNext s.b.newWin.2) := Pre_open _ h
    cases tk.isShift <;> cases tk.isSpan <;> simp only [Bool.false_eq_true, if_false, if_true]
    · exact h
    · split
      · exact Pre_emit _ _ h
      · exact Pre_winEnd _ _ _ h
    · exact hnew
    · split
      · exact Pre_emit _ _ hnew
      · exact Pre_winEnd _ _ _ hnew
theorem Pre_step (shift : Nat) (s : Tim α) (t : Nat) (ev : Ev α) (h : Pre L s.b) : Pre L ((Tim.mach shift).step s t ev).b := by
  have h' : Pre L ({ s with b := { s.b with now := t } } : Tim α).b := Pre_now _ _ h
  simp only [mach]
  cases ev with
  | src k n =>
    cases k with
    | zero =>
      simp only [step]; split
      · cases n with
        | next x => exact Pre_foldl _ (fun b i hb => Pre_winNext b i x hb) _ _ h'
        | error e => rw [sync_b]; exact Pre_unsub _ _ (Pre_onEnd _ _ h')
        | completed => rw [sync_b]; exact Pre_unsub _ _ (Pre_onEnd _ _ h')
      · exact h'
    | succ k => exact h'
  | dispose w => simp only [step, sync_b]; exact Pre_disposeEv _ _ h'
  | tick => simp only [step, sync_b]; exact Pre_onTick _ _ h'
end Tim

namespace Toc
theorem Pre_roll (st : Toc α) (h : Pre L st.b) : Pre L (roll st).b := Pre_open _ (Pre_winEnd _ _ _ h)
theorem Pre_step (span count : Nat) (s : Toc α) (t : Nat) (ev : Ev α) (h : Pre L s.b) :
    Pre L ((Toc.mach span count).step s t ev).b := by
  have h' : Pre L ({ s with b := { s.b with now := t } } : Toc α).b := Pre_now _ _ h
  simp only [mach]
  cases ev with
  | src k n =>
    cases k with
    | zero =>
      simp only [step]; split
      · cases n with
        | next x =>
          simp only [sync_b, onNext]; split
          · simp only [createTimer_b, sync_b]; exact Pre_roll _ (Pre_winNext _ _ _ h')
          · exact Pre_winNext _ _ _ h'
        | error e => simp only [sync_b, onEnd]; exact Pre_unsub _ _ (Pre_outerEnd _ _ (Pre_winEnd _ _ _ h'))
        | completed => simp only [sync_b, onEnd]; exact Pre_unsub _ _ (Pre_outerEnd _ _ (Pre_winEnd _ _ _ h'))
      · exact h'
    | succ k => exact h'
  | dispose w => simp only [step, sync_b]; exact Pre_disposeEv _ _ h'
  | tick =>
    simp only [step, sync_b, onTick]; split
    · exact h'
    · split
      · exact h'
      · simp only [createTimer_b, sync_b]; exact Pre_roll _ h'
end Toc

/-- `J` holds along every run of a machine whose steps preserve it. -/
theorem Pre_fold {σ : Type} (m : Mach σ α) (base : σ → Base α) (hstep : ∀ s t e, Pre L (base s) → Pre L (base (m.step s t e)))
    (evs : List (Nat × Ev α)) (s : σ) (h : Pre L (base s)) : Pre L (base (m.fold s evs)) := by
  induction evs generalizing s with
  | nil => exact h
  | cons te es ih => exact ih _ (hstep s te.1 te.2 h)

end Win

import RxProofs.Lemmas.ThrTrampA
/-!
# Trampoline invariants, part B: not-before-due, cancellation, start-after-schedule, sequence numbers
-/
namespace Thr.Tramp

def okCancel : List Ev → Prop
  | [] => True
  | .start id _ _ _ :: rest => Ev.cancel id ∉ rest ∧ okCancel rest
  | _ :: rest => okCancel rest

/-- every start is preceded by the `schedule*` call that created the item (same id, same due time)
and by its enqueueing (same id, same sequence number) -/
def okSched : List Ev → Prop
  | [] => True
  | .start id due seq _ :: rest =>
    (∃ clk kind, Ev.sched id due clk kind ∈ rest) ∧ (∃ r, Ev.enq id seq r ∈ rest) ∧ okSched rest
  | _ :: rest => okSched rest

/-- sequence numbers are handed out in increasing order of enqueueing -/
def okEnq : List Ev → Prop
  | [] => True
  | .enq _ seq _ :: rest => (∀ id' seq' r', Ev.enq id' seq' r' ∈ rest → seq' < seq) ∧ okEnq rest
  | _ :: rest => okEnq rest

def isStartOrEnq : Ev → Bool
  | .start .. => true
  | .enq .. => true
  | _ => false

structure Inv3 (s : St) : Prop where
  nb : ∀ id due seq clk, Ev.start id due seq clk ∈ s.th.log → due ≤ clk
  cl : ∀ k, Ev.cancel k ∈ s.th.log → k ∈ s.g.cancelled
  oc : okCancel s.th.log
  os : okSched s.th.log
  oe : okEnq s.th.log
  en : ∀ id seq r, Ev.enq id seq r ∈ s.th.log → seq < s.g.nsched
  it1 : ∀ it ∈ readyOf s.th.stack ++ s.tr.queue,
    (∃ clk kind, Ev.sched it.id it.due clk kind ∈ s.th.log) ∧ (∃ r, Ev.enq it.id it.seq r ∈ s.th.log)
  it2 : ∀ it, pendOf s.th.stack = some it → ∃ clk kind, Ev.sched it.id it.due clk kind ∈ s.th.log
  sk : ∀ id due clk kind, Ev.sched id due clk kind ∈ s.th.log → kind ≠ .abs → clk ≤ due

theorem okCancel_cons (e : Ev) (log : List Ev) (he : isStartOrEnq e = false) : okCancel (e :: log) = okCancel log := by
  cases e <;> simp_all [okCancel, isStartOrEnq]
theorem okSched_cons (e : Ev) (log : List Ev) (he : isStartOrEnq e = false) : okSched (e :: log) = okSched log := by
  cases e <;> simp_all [okSched, isStartOrEnq]
theorem okEnq_cons (e : Ev) (log : List Ev) (he : isStartOrEnq e = false) : okEnq (e :: log) = okEnq log := by
  cases e <;> simp_all [okEnq, isStartOrEnq]

/-- steps that add at most one event which is neither a start nor an enqueue -/
theorem inv3_frame (s s' : St) (h : Inv3 s) (es : List Ev)
    (hl : s'.th.log = es ++ s.th.log) (hes : es = [] ∨ ∃ e, es = [e] ∧ isStartOrEnq e = false)
    (hcl : ∀ k, (Ev.cancel k ∈ es ∨ k ∈ s.g.cancelled) → k ∈ s'.g.cancelled)
    (hn : s'.g.nsched = s.g.nsched)
    (hit : ∀ it ∈ readyOf s'.th.stack ++ s'.tr.queue, it ∈ readyOf s.th.stack ++ s.tr.queue)
    (hp : ∀ it, pendOf s'.th.stack = some it → ∃ clk kind, Ev.sched it.id it.due clk kind ∈ s'.th.log)
    (hsk : ∀ id due clk kind, Ev.sched id due clk kind ∈ es → kind ≠ .abs → clk ≤ due) : Inv3 s' := by
  obtain ⟨nb, cl, oc, os, oe, en, it1, it2, sk⟩ := h
  rcases hes with rfl | ⟨e, rfl, he⟩
  · simp only [List.nil_append] at hl
    refine ⟨by rw [hl]; exact nb, ?_, by rw [hl]; exact oc, by rw [hl]; exact os, by rw [hl]; exact oe,
      by rw [hl, hn]; exact en, ?_, hp, by rw [hl]; exact sk⟩
    · rw [hl]; intro k hk; exact hcl k (Or.inr (cl k hk))
    · rw [hl]; intro it hi; exact it1 it (hit it hi)
  · simp only [List.singleton_append] at hl
    refine ⟨?_, ?_, ?_, ?_, ?_, ?_, ?_, hp, ?_⟩
    rotate_right
    · rw [hl]; intro id due clk kind hm hk
      simp only [List.mem_cons] at hm
      rcases hm with hm | hm
      · exact hsk id _ _ _ (by simp [hm]) hk
      · exact sk _ _ _ _ hm hk
    · rw [hl]; intro id due seq clk hm
      simp only [List.mem_cons] at hm
      rcases hm with rfl | hm
      · simp [isStartOrEnq] at he
      · exact nb _ _ _ _ hm
    · rw [hl]; intro k hk
      simp only [List.mem_cons] at hk
      rcases hk with rfl | hk
      · exact hcl k (Or.inl (by simp))
      · exact hcl k (Or.inr (cl k hk))
    · rw [hl, okCancel_cons _ _ he]; exact oc
    · rw [hl, okSched_cons _ _ he]; exact os
    · rw [hl, okEnq_cons _ _ he]; exact oe
    · rw [hl, hn]; intro id seq r hm
      simp only [List.mem_cons] at hm
      rcases hm with rfl | hm
      · simp [isStartOrEnq] at he
      · exact en _ _ _ hm
    · rw [hl]; intro it hi
      obtain ⟨⟨c, k, h1⟩, ⟨r, h2⟩⟩ := it1 it (hit it hi)
      exact ⟨⟨c, k, List.mem_cons_of_mem _ h1⟩, ⟨r, List.mem_cons_of_mem _ h2⟩⟩


theorem enq_inv3 (fixed : Bool) (idle : Bool) (queue : List Item) (rg : Bool) (g : Glob) (id : Option Nat) (it : Item) (ops : List Op)
    (rest : List Frame) (log : List Ev) (dt : Nat)
    (h : Inv3 { tr := { idle := idle, queue := queue, raisedG := rg }, g := g, th := { stack := .enq id it ops :: rest, log := log } }) :
    Inv3 (step fixed { tr := { idle := idle, queue := queue, raisedG := rg }, g := g, th := { stack := .enq id it ops :: rest, log := log } } dt) := by
  obtain ⟨nb, cl, oc, os, oe, en, it1, it2, sk⟩ := h
  simp only [readyOf, pendOf] at it1 it2
  obtain ⟨c0, k0, hs0⟩ := it2 it rfl
  cases idle
  all_goals
    simp only [step, thStep, Bool.false_eq_true, if_false, if_true, ↓reduceIte]
    refine ⟨?_, ?_, ?_, ?_, ?_, ?_, ?_, ?_, ?_⟩
    rotate_right
    · intro id due clk kind hm hk
      simp only [List.mem_cons] at hm
      rcases hm with hm | hm
      · cases hm
      · exact sk _ _ _ _ hm hk
    · intro id due seq clk hm
      simp only [List.mem_cons] at hm
      rcases hm with hm | hm
      · cases hm
      · exact nb _ _ _ _ hm
    · intro k hk
      simp only [List.mem_cons] at hk
      rcases hk with hk | hk
      · cases hk
      · exact cl k hk
    · simpa [okCancel] using oc
    · simpa [okSched] using os
    · simp only [okEnq]; exact ⟨fun a b c hm => en a b c hm, oe⟩
    · intro a b c hm
      simp only [List.mem_cons] at hm
      rcases hm with hm | hm
      · cases hm; simp
      · have := en _ _ _ hm; simp only at this ⊢; omega
    · intro x hx
      simp only [readyOf, List.nil_append, List.mem_append, mem_enqueue] at hx
      rcases hx with hx | hx | hx
      · obtain ⟨⟨c, k, h1⟩, ⟨r, h2⟩⟩ := it1 x (by simp [hx])
        exact ⟨⟨c, k, List.mem_cons_of_mem _ h1⟩, ⟨r, List.mem_cons_of_mem _ h2⟩⟩
      · subst hx
        exact ⟨⟨c0, k0, List.mem_cons_of_mem _ hs0⟩, ⟨_, List.mem_cons_self⟩⟩
      · obtain ⟨⟨c, k, h1⟩, ⟨r, h2⟩⟩ := it1 x (by simp [hx])
        exact ⟨⟨c, k, List.mem_cons_of_mem _ h1⟩, ⟨r, List.mem_cons_of_mem _ h2⟩⟩
    · simp [pendOf]

macro "frame3_tac" h:ident es:term : tactic => `(tactic| (
  apply inv3_frame _ _ $h $es
  all_goals (try simp [step, thStep, pendOf, readyOf, isStartOrEnq])
  all_goals (try exact ⟨_, _, Or.inl ⟨rfl, rfl⟩⟩)
  all_goals (try (intros; omega))
  all_goals (try (intro _ _ _ k _ _ _ h1 h2; exact absurd h1 h2))))

theorem step_inv3 (fixed : Bool) (s : St) (dt : Nat) (h1 : Inv1 s) (h2 : Inv2 s) (h : Inv3 s) : Inv3 (step fixed s dt) := by
  obtain ⟨o, hs, hw⟩ := h1
  rcases s with ⟨⟨idle, queue, rg⟩, g, ⟨stack, log⟩⟩
  simp only at hs hw
  cases hs with
  | nil => frame3_tac h []
  | main m hm =>
    cases m with
    | act id ops =>
      cases id with
      | some i => simp [isMain] at hm
      | none =>
        cases ops with
        | nil => frame3_tac h []
        | cons op ops =>
          cases op
          case tick d => frame3_tac h []
          case cancel k => frame3_tac h [Ev.cancel k]
          case sched l b => frame3_tac h [Ev.sched l (g.clock + dt) (g.clock + dt) .imm]
          case schedRel l d b => frame3_tac h [Ev.sched l (g.clock + dt + max d 0) (g.clock + dt) .rel]
          case schedAbs l t b => frame3_tac h [Ev.sched l t (g.clock + dt) .abs]
          case raise_ => frame3_tac h []
    | enq id it ops =>
      cases id with
      | some i => simp [isMain] at hm
      | none => exact enq_inv3 fixed _ _ _ _ _ _ _ _ _ dt h
    | drain ph r => simp [isMain] at hm
  | drain ph ready ops hre =>
    cases ph with
    | collect =>
      apply inv3_frame _ _ h [Ev.collect (queue.takeWhile (isDue (g.clock + dt))).length]
      all_goals (try simp [step, thStep, pendOf, readyOf, isStartOrEnq])
      try (
        intro a ha
        rcases ha with (ha | ha) | ha
        · exact Or.inl ha
        · exact Or.inr ((List.takeWhile_sublist _).subset ha)
        · exact Or.inr ((List.dropWhile_sublist _).subset ha))
    | exec =>
      cases ready with
      | nil => frame3_tac h []
      | cons it ready =>
        by_cases hc : it.id ∈ g.cancelled
        · apply inv3_frame _ _ h [Ev.skip it.id]
          all_goals (try simp [step, thStep, hc, pendOf, readyOf, isStartOrEnq])
          intro a ha
          rcases ha with ha | ha
          · exact Or.inr (Or.inl ha)
          · exact Or.inr (Or.inr ha)
        · obtain ⟨nb, cl, oc, os, oe, en, it1, it2, sk⟩ := h
          have hdue : it.due ≤ g.clock := by
            have := h2.dc (key it) (by simp [readyOf])
            exact this
          simp only [readyOf, pendOf, List.append_nil] at it1 it2
          obtain ⟨⟨c0, k0, hs0⟩, ⟨r0, he0⟩⟩ := it1 it (by simp)
          simp only [step, thStep, hc, if_false]
          refine ⟨?_, ?_, ?_, ?_, ?_, ?_, ?_, ?_, ?_⟩
          rotate_right
          · intro id due clk kind hm hk
            simp only [List.mem_cons] at hm
            rcases hm with hm | hm
            · cases hm
            · exact sk _ _ _ _ hm hk
          · intro id due seq clk hm
            simp only [List.mem_cons] at hm
            rcases hm with hm | hm
            · cases hm; omega
            · exact nb _ _ _ _ hm
          · intro k hk
            simp only [List.mem_cons] at hk
            rcases hk with hk | hk
            · cases hk
            · exact cl k hk
          · simp only [okCancel]; exact ⟨fun hm => hc (cl _ hm), oc⟩
          · simp only [okSched]; exact ⟨⟨c0, k0, hs0⟩, ⟨r0, he0⟩, os⟩
          · simpa [okEnq] using oe
          · intro a b c hm
            simp only [List.mem_cons] at hm
            rcases hm with hm | hm
            · cases hm
            · exact en _ _ _ hm
          · intro x hx
            simp only [readyOf, List.append_nil] at hx
            obtain ⟨⟨c, k, h1⟩, ⟨r, h2'⟩⟩ := it1 x (by simp only [List.cons_append, List.mem_cons]; exact Or.inr hx)
            exact ⟨⟨c, k, List.mem_cons_of_mem _ h1⟩, ⟨r, List.mem_cons_of_mem _ h2'⟩⟩
          · simp [pendOf]
    | check =>
      cases queue with
      | nil =>
        have hr0 : ready = [] := hre (by simp)
        subst hr0
        cases fixed <;> frame3_tac h [Ev.exit_]
      | cons it q =>
        by_cases hd : it.due > g.clock + dt
        · apply inv3_frame _ _ h [Ev.wait it.due]
          all_goals (try simp [step, thStep, hd, pendOf, readyOf, isStartOrEnq])
        · apply inv3_frame _ _ h []
          all_goals (try simp [step, thStep, hd, pendOf, readyOf, isStartOrEnq])
    | final => frame3_tac h [Ev.final (queue.map (·.id))]
    | abort => frame3_tac h [Ev.final (queue.map (·.id))]
    | waiting => frame3_tac h [Ev.woke]
  | inAct i ops ready mops =>
    cases ops with
    | nil => frame3_tac h [Ev.fin i]
    | cons op ops =>
      cases op
      case tick d => frame3_tac h []
      case cancel k => frame3_tac h [Ev.cancel k]
      case sched l b => frame3_tac h [Ev.sched l (g.clock + dt) (g.clock + dt) .imm]
      case schedRel l d b => frame3_tac h [Ev.sched l (g.clock + dt + max d 0) (g.clock + dt) .rel]
      case schedAbs l t b => frame3_tac h [Ev.sched l t (g.clock + dt) .abs]
      case raise_ =>
        frame3_tac h [Ev.raised i]
        intro a ha; exact Or.inr ha
  | inEnq i it ops ready mops => exact enq_inv3 fixed _ _ _ _ _ _ _ _ _ dt h

/-! ## the combined invariant of the single-thread machine -/

structure TInv (s : St) : Prop where
  i1 : Inv1 s
  i2 : Inv2 s
  i3 : Inv3 s

theorem init_inv (prog : List Op) (clock : Int) : TInv (init prog clock) := by
  refine ⟨⟨none, Shape.main _ rfl, rfl⟩, ?_, ?_⟩
  · constructor <;> simp [init, startsL, readyOf, pendOf, LeR]
  · constructor <;> simp [init, okCancel, okSched, okEnq, readyOf, pendOf]

theorem step_inv (fixed : Bool) (s : St) (dt : Nat) (h : TInv s) : TInv (step fixed s dt) :=
  ⟨step_inv1 fixed s dt h.i1, step_inv2 fixed s dt h.i1 h.i2, step_inv3 fixed s dt h.i1 h.i2 h.i3⟩

theorem run_inv (fixed : Bool) (s : St) (dts : List Nat) (h : TInv s) : TInv (run fixed s dts) := by
  induction dts generalizing s with
  | nil => exact h
  | cons d ds ih => exact ih _ (step_inv fixed s d h)

theorem env_inv (s : St) (dt dn : Nat) (cs : List Nat) (h : TInv s) : TInv (envStep s dt dn cs) := by
  obtain ⟨h1, h2, h3⟩ := h
  refine ⟨⟨h1.shape⟩, ?_, ?_⟩
  · obtain ⟨qs, sq, eo, dc, so⟩ := h2
    refine ⟨qs, ?_, eo, ?_, so⟩
    · intro k hk; have := sq k hk; simp only [envStep]; omega
    · intro k hk; have := dc k hk; simp only [envStep]; omega
  · obtain ⟨nb, cl, oc, os, oe, en, it1, it2, sk⟩ := h3
    refine ⟨nb, ?_, oc, os, oe, ?_, it1, it2, sk⟩
    · intro k hk; simp only [envStep, List.mem_append]; exact Or.inr (cl k hk)
    · intro a b c hm; have := en a b c hm; simp only [envStep]; omega

theorem stepA_inv (fixed : Bool) (s : St) (a : Act) (h : TInv s) : TInv (stepA fixed s a) := by
  cases a with
  | go dt => exact step_inv fixed s dt h
  | env dt dn cs => exact env_inv s dt dn cs h

theorem runA_inv (fixed : Bool) (s : St) (acts : List Act) (h : TInv s) : TInv (runA fixed s acts) := by
  induction acts generalizing s with
  | nil => exact h
  | cons a as ih => exact ih _ (stepA_inv fixed s a h)

/-! ## well-bracketing lemmas -/

theorem wb_cons_some (e : Ev) (l : List Ev) (o : Option Nat) (h : wb (e :: l) = some o) : ∃ o', wb l = some o' := by
  cases e <;> simp only [wb] at h
  case start a _ _ _ => cases hw : wb l with
    | none => simp [hw] at h
    | some o' => exact ⟨o', rfl⟩
  case fin b => cases hw : wb l with
    | none => simp [hw] at h
    | some o' => exact ⟨o', rfl⟩
  case raised b => cases hw : wb l with
    | none => simp [hw] at h
    | some o' => exact ⟨o', rfl⟩
  all_goals exact ⟨o, h⟩

theorem wb_suffix (l r : List Ev) (o : Option Nat) (h : wb (l ++ r) = some o) : ∃ o', wb r = some o' := by
  induction l generalizing o with
  | nil => exact ⟨o, h⟩
  | cons e l ih =>
    obtain ⟨o', h'⟩ := wb_cons_some e (l ++ r) o h
    exact ih o' h'

/-- if action `a` is open after `pre` and no longer open after `l ++ pre`, then `a` returned (or raised) in `l`. -/
theorem wb_open_closed (l pre : List Ev) (a : Nat) (o : Option Nat) (h : wb (l ++ pre) = some o)
    (hp : wb pre = some (some a)) (ho : o ≠ some a) : Ev.fin a ∈ l ∨ Ev.raised a ∈ l := by
  induction l generalizing o with
  | nil => simp only [List.nil_append] at h; rw [hp] at h; cases h; exact absurd rfl ho
  | cons e l ih =>
    cases e
    case start x _ _ _ =>
      simp only [List.cons_append, wb] at h
      cases hw : wb (l ++ pre) with
      | none => simp [hw] at h
      | some o' =>
        cases o' with
        | none => exact (ih none hw (by simp)).imp (List.mem_cons_of_mem _) (List.mem_cons_of_mem _)
        | some y => simp [hw] at h
    case fin x =>
      simp only [List.cons_append, wb] at h
      cases hw : wb (l ++ pre) with
      | none => simp [hw] at h
      | some o' =>
        cases o' with
        | none => simp [hw] at h
        | some y =>
          simp only [hw] at h
          by_cases hxy : y = x
          · subst hxy
            by_cases hya : y = a
            · subst hya; exact Or.inl List.mem_cons_self
            · exact (ih (some y) hw (by simp [hya])).imp (List.mem_cons_of_mem _) (List.mem_cons_of_mem _)
          · simp [hxy] at h
    case raised x =>
      simp only [List.cons_append, wb] at h
      cases hw : wb (l ++ pre) with
      | none => simp [hw] at h
      | some o' =>
        cases o' with
        | none => simp [hw] at h
        | some y =>
          simp only [hw] at h
          by_cases hxy : y = x
          · subst hxy
            by_cases hya : y = a
            · subst hya; exact Or.inr List.mem_cons_self
            · exact (ih (some y) hw (by simp [hya])).imp (List.mem_cons_of_mem _) (List.mem_cons_of_mem _)
          · simp [hxy] at h
    all_goals
      simp only [List.cons_append, wb] at h
      exact (ih o h ho).imp (List.mem_cons_of_mem _) (List.mem_cons_of_mem _)

/-- number of action bodies (of scheduled items) currently executing on the stack -/
def nRunning : List Frame → Nat
  | [] => 0
  | .act (some _) _ :: rest => 1 + nRunning rest
  | .enq (some _) _ _ :: rest => 1 + nRunning rest
  | _ :: rest => nRunning rest

def nDrain : List Frame → Nat
  | [] => 0
  | .drain _ _ :: rest => 1 + nDrain rest
  | _ :: rest => nDrain rest

theorem shape_counts {idle : Bool} {st : List Frame} {o : Option Nat} (h : Shape idle st o) :
    nRunning st ≤ 1 ∧ nDrain st = (!idle).toNat := by
  cases h with
  | nil => simp [nRunning, nDrain]
  | main m hm =>
    cases m with
    | act id ops => cases id <;> simp_all [nRunning, nDrain, isMain]
    | enq id it ops => cases id <;> simp_all [nRunning, nDrain, isMain]
    | drain ph r => simp [isMain] at hm
  | drain ph ready ops hre => simp [nRunning, nDrain]
  | inAct i ops ready mops => simp [nRunning, nDrain]
  | inEnq i it ops ready mops => simp [nRunning, nDrain]

end Thr.Tramp

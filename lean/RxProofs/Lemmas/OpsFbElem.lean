import RxProofs.Lemmas.OpsFb
import RxProofs.Lemmas.OpsElem
/-!
# The split (re-entrant) operators of `RxModel/OpsFb.lean`: each denotes its atomic model (`*_toOp`) and commits its
state before its downstream calls (`*_safe : ROp.Safe`).
-/
namespace Ops
variable {α β κ : Type}

/-- operators that never decide to terminate on their own and make at most one downstream call per element -/
def ROp.Safe.simple (r : ROp α β) (h1 : ∀ s x, (r.onNext s x).calls.length ≤ 1)
    (h2 : ∀ s x d, (r.onNext s x).post d = []) : r.Safe where
  done := fun _ => false
  init_not_done := rfl
  done_noop := fun _ _ h => by simp at h
  one_next := fun s x _ => by
    have := h1 s x
    cases hc : (r.onNext s x).calls with
    | nil => rfl
    | cons c cs => rw [hc] at this; cases cs <;> simp_all [noNext]
  post_terminal := fun s x d => by rw [h2]; rfl
  post_not_done := fun s x d _ => h2 s x d
  post_done := fun _ _ _ h => by simp at h
  committed := fun s x y ts _ hc hT => by
    have := h1 s x; rw [hc] at this
    have : ts = [] := by cases ts <;> simp_all
    subst this; simp [h2] at hT
  done_terminates := fun _ _ _ h => by simp at h

theorem mapR_toOp (f : α → Except Err β) : (mapR f).toOp = mapOp f := by
  simp only [ROp.toOp, mapR, mapOp]
  congr 1
  funext s v
  cases f v <;> rfl

def mapR_safe (f : α → Except Err β) : (mapR f).Safe :=
  ROp.Safe.simple _ (fun s x => by simp only [mapR]; cases f x <;> simp [remit])
    (fun s x d => by simp only [mapR]; cases f x <;> rfl)


theorem filterR_toOp (p : α → Except Err Bool) : (filterR p).toOp = filterOp p := by
  simp only [ROp.toOp, filterR, filterOp]; congr 1; funext s v
  cases h : p v with
  | error e => rfl
  | ok b => cases b <;> rfl
def filterR_safe (p : α → Except Err Bool) : (filterR p).Safe :=
  ROp.Safe.simple _ (fun s x => by simp only [filterR]; cases h : p x with
      | error e => simp [remit]
      | ok b => cases b <;> simp [remit])
    (fun s x d => by simp only [filterR]; cases h : p x with
      | error e => rfl
      | ok b => cases b <;> rfl)

theorem filterIndexedR_toOp (p : Option (α → Nat → Except Err Bool)) : (filterIndexedR p).toOp = filterIndexedOp p := by
  simp only [ROp.toOp, filterIndexedR, filterIndexedOp]; congr 1; funext s v
  cases p with
  | none => rfl
  | some p => simp only; cases h : p v s with
    | error e => rfl
    | ok b => cases b <;> rfl
def filterIndexedR_safe (p : Option (α → Nat → Except Err Bool)) : (filterIndexedR p).Safe :=
  ROp.Safe.simple _ (fun s x => by
      simp only [filterIndexedR]; cases p with
      | none => simp [remit]
      | some p => simp only; cases h : p x s with
        | error e => simp [remit]
        | ok b => cases b <;> simp [remit])
    (fun s x d => by
      simp only [filterIndexedR]; cases p with
      | none => rfl
      | some p => simp only; cases h : p x s with
        | error e => rfl
        | ok b => cases b <;> rfl)

theorem skipR_toOp (n : Nat) : (skipR (α := α) n).toOp = skipOp n := by
  simp only [ROp.toOp, skipR, skipOp]; congr 1; funext s v
  by_cases h : s ≤ 0 <;> simp [h, remit, emit, HOutR.atomic]
def skipR_safe (n : Nat) : (skipR (α := α) n).Safe :=
  ROp.Safe.simple _ (fun s x => by simp only [skipR]; split <;> simp [remit])
    (fun s x d => by simp only [skipR]; split <;> rfl)

theorem skipWhileR_toOp (p : α → Except Err Bool) : (skipWhileR p).toOp = skipWhileOp p := by
  simp only [ROp.toOp, skipWhileR, skipWhileOp]; congr 1; funext s v
  cases s
  · simp only [Bool.not_false, if_true]
    cases h : p v with
    | error e => rfl
    | ok b => cases b <;> rfl
  · rfl
def skipWhileR_safe (p : α → Except Err Bool) : (skipWhileR p).Safe :=
  ROp.Safe.simple _ (fun s x => by
      simp only [skipWhileR]; cases s
      · simp only [Bool.not_false, if_true]; cases h : p x with
        | error e => simp [remit]
        | ok b => cases b <;> simp [remit]
      · simp [remit])
    (fun s x d => by
      simp only [skipWhileR]; cases s
      · simp only [Bool.not_false, if_true]; cases h : p x with
        | error e => rfl
        | ok b => cases b <;> rfl
      · rfl)

theorem distinctR_toOp (key : α → Except Err κ) (cmp : κ → κ → Except Err Bool) :
    (distinctR key cmp).toOp = distinctOp key cmp := by
  simp only [ROp.toOp, distinctR, distinctOp]; congr 1; funext s v
  cases key v with
  | error e => rfl
  | ok k => simp only; cases findMatch cmp k s with
    | error e => rfl
    | ok b => cases b <;> rfl
def distinctR_safe (key : α → Except Err κ) (cmp : κ → κ → Except Err Bool) : (distinctR key cmp).Safe :=
  ROp.Safe.simple _ (fun s x => by
      simp only [distinctR]; cases key x with
      | error e => simp [remit]
      | ok k => simp only; cases findMatch cmp k s with
        | error e => simp [remit]
        | ok b => cases b <;> simp [remit])
    (fun s x d => by
      simp only [distinctR]; cases key x with
      | error e => rfl
      | ok k => simp only; cases findMatch cmp k s with
        | error e => rfl
        | ok b => cases b <;> rfl)

theorem ducR_toOp (key : α → Except Err κ) (cmp : κ → κ → Except Err Bool) :
    (distinctUntilChangedR key cmp).toOp = distinctUntilChangedOp key cmp := by
  simp only [ROp.toOp, distinctUntilChangedR, distinctUntilChangedOp]; congr 1; funext s v
  cases key v with
  | error e => rfl
  | ok k => cases s with
    | none => rfl
    | some c => simp only; cases cmp c k with
      | error e => rfl
      | ok b => cases b <;> rfl
def ducR_safe (key : α → Except Err κ) (cmp : κ → κ → Except Err Bool) : (distinctUntilChangedR key cmp).Safe :=
  ROp.Safe.simple _ (fun s x => by
      simp only [distinctUntilChangedR]; cases key x with
      | error e => simp [remit]
      | ok k => cases s with
        | none => simp [remit]
        | some c => simp only; cases cmp c k with
          | error e => simp [remit]
          | ok b => cases b <;> simp [remit])
    (fun s x d => by
      simp only [distinctUntilChangedR]; cases key x with
      | error e => rfl
      | ok k => cases s with
        | none => rfl
        | some c => simp only; cases cmp c k with
          | error e => rfl
          | ok b => cases b <;> rfl)

theorem pairwiseR_toOp : (pairwiseR (α := α)).toOp = pairwiseOp := by
  simp only [ROp.toOp, pairwiseR, pairwiseOp]; congr 1; funext s v; cases s <;> rfl
def pairwiseR_safe : (pairwiseR (α := α)).Safe :=
  ROp.Safe.simple _ (fun s x => by cases s <;> simp [pairwiseR, remit]) (fun s x d => by cases s <;> rfl)

theorem startWithR_toOp (args : List α) : (startWithR args).toOp = startWithOp args := rfl
def startWithR_safe (args : List α) : (startWithR args).Safe :=
  ROp.Safe.simple _ (fun s x => by simp [startWithR, remit]) (fun s x d => rfl)

theorem defaultIfEmptyR_toOp (d : α) : (defaultIfEmptyR d).toOp = defaultIfEmptyOp d := by
  simp only [ROp.toOp, defaultIfEmptyR, defaultIfEmptyOp]; congr 1; funext s; cases s <;> rfl
def defaultIfEmptyR_safe (d : α) : (defaultIfEmptyR d).Safe :=
  ROp.Safe.simple _ (fun s x => by simp [defaultIfEmptyR, remit]) (fun s x d => rfl)

theorem ignoreElementsR_toOp : (ignoreElementsR (α := α)).toOp = ignoreElementsOp := rfl
def ignoreElementsR_safe : (ignoreElementsR (α := α)).Safe :=
  ROp.Safe.simple _ (fun s x => by simp [ignoreElementsR, remit]) (fun s x d => rfl)

theorem takeLastR_toOp (n : Int) : (takeLastR (α := α) n).toOp = takeLastOp n := by
  simp only [ROp.toOp, takeLastR, takeLastOp]; congr 1 <;> funext s <;> simp [remit, emit, HOutR.atomic]
def takeLastR_safe (n : Int) : (takeLastR (α := α) n).Safe :=
  ROp.Safe.simple _ (fun s x => by simp [takeLastR, remit]) (fun s x d => rfl)

theorem takeLastBufferR_toOp (n : Int) : (takeLastBufferR (α := α) n).toOp = takeLastBufferOp n := by
  simp only [ROp.toOp, takeLastBufferR, takeLastBufferOp]; congr 1 <;> funext s <;> simp [remit, emit, HOutR.atomic]
def takeLastBufferR_safe (n : Int) : (takeLastBufferR (α := α) n).Safe :=
  ROp.Safe.simple _ (fun s x => by simp [takeLastBufferR, remit]) (fun s x d => rfl)

theorem skipLastR_toOp (n : Int) : (skipLastR (α := α) n).toOp = skipLastOp n := by
  simp only [ROp.toOp, skipLastR, skipLastOp]; congr 1; funext s v
  by_cases h : ((s ++ [v]).length : Int) > n
  · simp only [h, if_true]; cases s ++ [v] <;> rfl
  · simp only [h, if_false]; rfl
def skipLastR_safe (n : Int) : (skipLastR (α := α) n).Safe :=
  ROp.Safe.simple _ (fun (s : List α) x => by
      simp only [skipLastR]; split
      · cases (s ++ [x] : List α) <;> simp [remit]
      · simp [remit])
    (fun (s : List α) x d => by
      simp only [skipLastR]; split
      · cases (s ++ [x] : List α) <;> rfl
      · rfl)

theorem materializeR_toOp : (materializeR (α := α)).toOp = materializeOp := rfl
def materializeR_safe : (materializeR (α := α)).Safe :=
  ROp.Safe.simple _ (fun s x => by simp [materializeR, remit]) (fun s x d => rfl)

theorem dematerializeR_toOp : (dematerializeR (α := α)).toOp = dematerializeOp := rfl
def dematerializeR_safe : (dematerializeR (α := α)).Safe :=
  ROp.Safe.simple _ (fun s x => by simp [dematerializeR, remit]) (fun s x d => rfl)

theorem scanSeedR_toOp (f : β → α → Except Err β) (seed : β) : (scanSeedR f seed).toOp = scanSeedOp f seed := by
  simp only [ROp.toOp, scanSeedR, scanSeedOp]; congr 1; funext s v
  cases f (s.getD seed) v <;> rfl
def scanSeedR_safe (f : β → α → Except Err β) (seed : β) : (scanSeedR f seed).Safe :=
  ROp.Safe.simple _ (fun s x => by simp only [scanSeedR]; cases f (s.getD seed) x <;> simp [remit])
    (fun s x d => by simp only [scanSeedR]; cases f (s.getD seed) x <;> rfl)

theorem emptyR_toOp : (emptyR (α := α) (β := β)).toOp = emptyOp := rfl
def emptyR_safe : (emptyR (α := α) (β := β)).Safe :=
  ROp.Safe.simple _ (fun s x => by simp [emptyR, remit]) (fun s x d => rfl)


/-! ### operators that decide to terminate: the decision is committed before the element is emitted -/

theorem takePosR_toOp (n : Nat) : (takePosR (α := α) n).toOp = takePosOp n := by
  simp only [ROp.toOp, takePosR, takePosOp]; congr 1; funext s v
  by_cases h : s > 0
  · by_cases h2 : s - 1 = 0 <;> simp [h, h2, remit, emit, HOutR.atomic]
  · simp [h, remit, emit, HOutR.atomic]

def takePosR_safe (n : Nat) (hn : 0 < n) : (takePosR (α := α) n).Safe where
  done := fun (rem : Nat) => decide (rem = 0)
  init_not_done := by show decide (n = 0) = false; simp; omega
  done_noop := fun (s : Nat) x h => by
    have : s = 0 := by simpa using h
    subst this; simp [takePosR, remit]
  one_next := fun (s : Nat) x _ => by simp only [takePosR]; split <;> simp [remit, noNext]
  post_terminal := fun (s : Nat) x (d : Nat) => by simp only [takePosR]; split <;> (try split) <;> simp [remit, noNext, Notif.isTerminal]
  post_not_done := fun (s : Nat) x (d : Nat) h => by
    have hd : d ≠ 0 := by simpa using h
    simp only [takePosR]; split <;> simp [remit, hd]
  post_done := fun (s : Nat) x (d : Nat) h1 h2 => by
    have hd : d = 0 := by simpa using h1
    simp only [takePosR] at h2 ⊢; split
    · rename_i hs; simp only [hs, if_true] at h2; have : s - 1 = 0 := by simpa using h2
      simp [hd, this]
    · rfl
  committed := fun (s : Nat) x y ts hd hc hT => by
    have hs : s ≠ 0 := by simpa using hd
    have hpos : s > 0 := by omega
    simp only [takePosR, hpos, if_true] at hc hT ⊢
    have : ts = [] := by simpa using (List.cons.inj hc).2.symm
    subst this
    by_cases h0 : s - 1 = 0
    · simp [h0]
    · simp [h0] at hT
  done_terminates := fun (s : Nat) x hd h => by
    have hs : s ≠ 0 := by simpa using hd
    have hpos : s > 0 := by omega
    simp only [takePosR, hpos, if_true] at h ⊢
    have : s - 1 = 0 := by simpa using h
    simp [this]

theorem takeR_toOp (n : Nat) : (takeR (α := α) n).toOp = takeOp n := by
  unfold takeR takeOp; split
  · exact emptyR_toOp
  · exact takePosR_toOp n

def takeR_safe (n : Nat) : (takeR (α := α) n).Safe := by
  unfold takeR; split
  · exact emptyR_safe
  · exact takePosR_safe n (by omega)

theorem takeWhileR_toOp (p : α → Except Err Bool) (incl : Bool) : (takeWhileR p incl).toOp = takeWhileOp p incl := by
  simp only [ROp.toOp, takeWhileR, takeWhileOp]; congr 1; funext s v
  cases s
  · rfl
  · simp only [Bool.not_true, Bool.false_eq_true, if_false]
    cases h : p v with
    | error e => rfl
    | ok b => cases b <;> cases incl <;> rfl

def takeWhileR_safe (p : α → Except Err Bool) (incl : Bool) : (takeWhileR p incl).Safe where
  done := fun (running : Bool) => !running
  init_not_done := rfl
  done_noop := fun (s : Bool) x h => by
    have : s = false := by cases s <;> simp_all
    subst this; simp [takeWhileR, remit]
  one_next := fun (s : Bool) x h => by
    have : s = true := by cases s <;> simp_all
    subst this; simp only [takeWhileR, Bool.not_true, Bool.false_eq_true, if_false]
    cases p x with
    | error e => simp [remit, noNext]
    | ok b => cases b <;> cases incl <;> simp [remit, noNext, Notif.isTerminal]
  post_terminal := fun (s : Bool) x (d : Bool) => by
    simp only [takeWhileR]; split
    · rfl
    · cases p x with
      | error e => rfl
      | ok b => cases b <;> rfl
  post_not_done := fun (s : Bool) x (d : Bool) _ => by
    simp only [takeWhileR]; split
    · rfl
    · cases p x with
      | error e => rfl
      | ok b => cases b <;> rfl
  post_done := fun (s : Bool) x (d : Bool) _ _ => by
    simp only [takeWhileR]; split
    · rfl
    · cases p x with
      | error e => rfl
      | ok b => cases b <;> rfl
  committed := fun (s : Bool) x y ts hd hc hT => by
    have : s = true := by cases s <;> simp_all
    subst this; simp only [takeWhileR, Bool.not_true, Bool.false_eq_true, if_false] at hc hT ⊢
    cases h : p x with
    | error e => simp [h, remit] at hc
    | ok b =>
      cases b
      · simp [remit]
      · simp only [h, if_true, remit] at hc hT
        have : ts = [] := by simpa using (List.cons.inj hc).2.symm
        subst this; simp at hT
  done_terminates := fun (s : Bool) x hd h => by
    have : s = true := by cases s <;> simp_all
    subst this; simp only [takeWhileR, Bool.not_true, Bool.false_eq_true, if_false] at h ⊢
    cases hp : p x with
    | error e => simp [hp, remit] at h
    | ok b =>
      cases b
      · cases incl <;> simp [remit]
      · simp [hp, remit] at h

theorem takeWhileIndexedR_toOp (p : α → Nat → Except Err Bool) (incl : Bool) :
    (takeWhileIndexedR p incl).toOp = takeWhileIndexedOp p incl := by
  simp only [ROp.toOp, takeWhileIndexedR, takeWhileIndexedOp]; congr 1; funext s v
  obtain ⟨run, i⟩ := s
  cases run
  · rfl
  · simp only [Bool.not_true, Bool.false_eq_true, if_false]
    cases h : p v i with
    | error e => rfl
    | ok b => cases b <;> cases incl <;> rfl

def takeWhileIndexedR_safe (p : α → Nat → Except Err Bool) (incl : Bool) : (takeWhileIndexedR p incl).Safe where
  done := fun s => !s.1
  init_not_done := rfl
  done_noop := fun s x h => by
    obtain ⟨run, i⟩ := s
    have : run = false := by simpa using h
    subst this; simp [takeWhileIndexedR, remit]
  one_next := fun s x h => by
    obtain ⟨run, i⟩ := s
    have : run = true := by simpa using h
    subst this; simp only [takeWhileIndexedR, Bool.not_true, Bool.false_eq_true, if_false]
    cases p x i with
    | error e => simp [remit, noNext]
    | ok b => cases b <;> cases incl <;> simp [remit, noNext, Notif.isTerminal]
  post_terminal := fun s x d => by
    simp only [takeWhileIndexedR]; split
    · rfl
    · cases p x s.2 with
      | error e => rfl
      | ok b => cases b <;> rfl
  post_not_done := fun s x d _ => by
    simp only [takeWhileIndexedR]; split
    · rfl
    · cases p x s.2 with
      | error e => rfl
      | ok b => cases b <;> rfl
  post_done := fun s x d _ _ => by
    simp only [takeWhileIndexedR]; split
    · rfl
    · cases p x s.2 with
      | error e => rfl
      | ok b => cases b <;> rfl
  committed := fun s x y ts hd hc hT => by
    obtain ⟨run, i⟩ := s
    have : run = true := by simpa using hd
    subst this; simp only [takeWhileIndexedR, Bool.not_true, Bool.false_eq_true, if_false] at hc hT ⊢
    cases h : p x i with
    | error e => simp [h, remit] at hc
    | ok b =>
      cases b
      · simp [remit]
      · simp only [h, if_true, remit] at hc hT
        have : ts = [] := by simpa using (List.cons.inj hc).2.symm
        subst this; simp at hT
  done_terminates := fun s x hd h => by
    obtain ⟨run, i⟩ := s
    have : run = true := by simpa using hd
    subst this; simp only [takeWhileIndexedR, Bool.not_true, Bool.false_eq_true, if_false] at h ⊢
    cases hp : p x i with
    | error e => simp [hp, remit] at h
    | ok b =>
      cases b
      · cases incl <;> simp [remit]
      · simp [hp, remit] at h

theorem elementAtR_toOp (index : Nat) (dflt : Option α) :
    (elementAtOrDefaultR index dflt).toOp = elementAtOrDefaultOp index dflt := by
  simp only [ROp.toOp, elementAtOrDefaultR, elementAtOrDefaultOp]; congr 1
  · funext s v
    by_cases h : s > 0
    · simp [h, remit, emit, HOutR.atomic]
    · by_cases h2 : s = 0 <;> simp [h, h2, remit, emit, HOutR.atomic]
  · funext s; cases dflt <;> rfl

def elementAtR_safe (index : Nat) (dflt : Option α) : (elementAtOrDefaultR index dflt).Safe where
  done := fun (i : Int) => decide (i < 0)
  init_not_done := by show decide ((index : Int) < 0) = false; simp
  done_noop := fun (s : Int) x h => by
    have hs : s < 0 := by simpa using h
    have h1 : ¬ s > 0 := by omega
    have h2 : ¬ s = 0 := by omega
    simp [elementAtOrDefaultR, h1, h2, remit]
  one_next := fun (s : Int) x _ => by
    simp only [elementAtOrDefaultR]; split <;> (try split) <;> simp [remit, noNext, Notif.isTerminal]
  post_terminal := fun (s : Int) x (d : Int) => by simp only [elementAtOrDefaultR]; split <;> (try split) <;> rfl
  post_not_done := fun (s : Int) x (d : Int) _ => by simp only [elementAtOrDefaultR]; split <;> (try split) <;> rfl
  post_done := fun (s : Int) x (d : Int) _ _ => by simp only [elementAtOrDefaultR]; split <;> (try split) <;> rfl
  committed := fun (s : Int) x y ts hd hc hT => by
    have hs : ¬ s < 0 := by simpa using hd
    simp only [elementAtOrDefaultR] at hc hT ⊢
    by_cases h1 : s > 0
    · simp [h1, remit] at hc
    · by_cases h2 : s = 0
      · simp [h1, h2, remit]
      · omega
  done_terminates := fun (s : Int) x hd h => by
    have hs : ¬ s < 0 := by simpa using hd
    simp only [elementAtOrDefaultR] at h ⊢
    by_cases h1 : s > 0
    · simp only [h1, if_true, remit] at h; have : s - 1 < 0 := by simpa using h
      omega
    · have h2 : s = 0 := by omega
      simp [h1, h2, remit]

theorem findValueR_toOp (p : α → Nat → Except Err Bool) (yes : α → Nat → β) (no : β) :
    (findValueR p yes no).toOp = findValueOp p yes no := by
  simp only [ROp.toOp, findValueR, findValueOp]; congr 1; funext s v
  obtain ⟨i, f⟩ := s
  cases f
  · simp only [Bool.false_eq_true, if_false]
    cases h : p v i with
    | error e => rfl
    | ok b => cases b <;> rfl
  · rfl

def findValueR_safe (p : α → Nat → Except Err Bool) (yes : α → Nat → β) (no : β) : (findValueR p yes no).Safe where
  done := fun s => s.2
  init_not_done := rfl
  done_noop := fun s x h => by
    obtain ⟨i, f⟩ := s
    have : f = true := h
    subst this; simp [findValueR, remit]
  one_next := fun s x h => by
    obtain ⟨i, f⟩ := s
    have : f = false := h
    subst this; simp only [findValueR, Bool.false_eq_true, if_false]
    cases p x i with
    | error e => simp [remit, noNext]
    | ok b => cases b <;> simp [remit, noNext, Notif.isTerminal]
  post_terminal := fun s x d => by
    simp only [findValueR]; split
    · rfl
    · cases p x s.1 with
      | error e => rfl
      | ok b => cases b <;> rfl
  post_not_done := fun s x d _ => by
    simp only [findValueR]; split
    · rfl
    · cases p x s.1 with
      | error e => rfl
      | ok b => cases b <;> rfl
  post_done := fun s x d _ _ => by
    simp only [findValueR]; split
    · rfl
    · cases p x s.1 with
      | error e => rfl
      | ok b => cases b <;> rfl
  committed := fun s x y ts hd hc hT => by
    obtain ⟨i, f⟩ := s
    have : f = false := hd
    subst this; simp only [findValueR, Bool.false_eq_true, if_false] at hc hT ⊢
    cases h : p x i with
    | error e => simp [h, remit] at hc
    | ok b =>
      cases b
      · simp [h, remit] at hc
      · simp [remit]
  done_terminates := fun s x hd h => by
    obtain ⟨i, f⟩ := s
    have : f = false := hd
    subst this; simp only [findValueR, Bool.false_eq_true, if_false] at h ⊢
    cases hp : p x i with
    | error e => simp [hp, remit] at h
    | ok b =>
      cases b
      · simp [hp, remit] at h
      · simp [remit]

end Ops

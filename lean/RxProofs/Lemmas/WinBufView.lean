import RxProofs.Lemmas.WinBufJ2
/-!
# The `flat_map(to_list)` view (`BufView`): what it has consumed and what it emits when a window completes.
-/
namespace Win
variable {α : Type}
namespace BufView

theorem seen_feed (ne : Bool) (v : BufView α) (ent : Nat × Out α) : (feed ne v ent).seen = v.seen ++ [ent] := by
  obtain ⟨t, o⟩ := ent
  cases o with
  | outer n => cases n <;> simp only [feed, emit] <;> (try split) <;> (try split) <;> rfl
  | win i n =>
    cases n with
    | next x => rfl
    | error e => simp only [feed, emit]; split <;> rfl
    | completed =>
      simp only [feed, emit]; split
      · rfl
      · split <;> split <;> rfl
  | sub k => rfl
  | unsub k => rfl
  | escaped e => rfl

theorem seen_fold (ne : Bool) (l : List (Nat × Out α)) (v : BufView α) : (l.foldl (feed ne) v).seen = v.seen ++ l := by
  induction l generalizing v with
  | nil => simp
  | cons e l ih => rw [List.foldl_cons, ih, seen_feed]; simp

theorem feed_completed (ne : Bool) (v : BufView α) (t id : Nat) (hs : v.stopped = false) :
    (feed ne v (t, .win id .completed)).out =
      v.out ++ (if ne && (itemsOf v.seen id).isEmpty then [] else [(t, BOut.outer (.next (itemsOf v.seen id)))])
        ++ (if v.outerDone && v.active - 1 == 0 then [(t, BOut.outer .completed)] else []) := by
  simp only [feed, hs, Bool.false_eq_true, if_false, emit]
  by_cases h1 : (ne && (itemsOf v.seen id).isEmpty) = true <;> by_cases h2 : (v.outerDone && v.active - 1 == 0) = true <;>
    simp [h1, h2]

end BufView
end Win

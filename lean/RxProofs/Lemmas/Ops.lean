import RxModel.Ops
/-!
# Generic lemmas about the L1 framework (`RxModel/Ops.lean`)

* `run_sem`   : what the subscriber sees = `cut (pre ++ handler outputs over the raw input)`, with or
                without lagging disposal;
* `emits_eq_emitsSeq` : handler outputs depend only on the conforming view of the raw input;
* `runFrom_append` / `run_take` : `Op.run` is causal (a left-to-right scan);
* `sem_comp`  : semantics of `source.pipe(a, b)` is the composition of the semantics.
-/
namespace Ops

/-! ### cut -/

@[simp] theorem cut_nil {α} : cut ([] : List (Notif α)) = [] := rfl
@[simp] theorem cut_next {α} (v : α) (r) : cut (.next v :: r) = .next v :: cut r := rfl
@[simp] theorem cut_error {α} (e) (r : List (Notif α)) : cut (.error e :: r) = [.error e] := rfl
@[simp] theorem cut_completed {α} (r : List (Notif α)) : cut (.completed :: r) = [.completed] := rfl
@[simp] theorem hasTerminal_nil {α} : hasTerminal ([] : List (Notif α)) = false := rfl
@[simp] theorem hasTerminal_next {α} (v : α) (r) : hasTerminal (.next v :: r) = hasTerminal r := rfl
@[simp] theorem hasTerminal_error {α} (e) (r : List (Notif α)) : hasTerminal (.error e :: r) = true := rfl
@[simp] theorem hasTerminal_completed {α} (r : List (Notif α)) : hasTerminal (.completed :: r) = true := rfl

theorem cut_append_of_terminal {α} (a b : List (Notif α)) (h : hasTerminal a = true) :
    cut (a ++ b) = cut a := by
  induction a with
  | nil => simp at h
  | cons n a ih => cases n <;> simp_all

theorem cut_append_of_no_terminal {α} (a b : List (Notif α)) (h : hasTerminal a = false) :
    cut (a ++ b) = a ++ cut b := by
  induction a with
  | nil => simp
  | cons n a ih => cases n <;> simp_all

theorem cut_of_no_terminal {α} (a : List (Notif α)) (h : hasTerminal a = false) : cut a = a := by
  have := cut_append_of_no_terminal a [] h; simpa using this

@[simp] theorem cut_idem {α} (a : List (Notif α)) : cut (cut a) = cut a := by
  induction a with
  | nil => rfl
  | cons n a ih => cases n <;> simp [ih]

@[simp] theorem hasTerminal_cut {α} (a : List (Notif α)) : hasTerminal (cut a) = hasTerminal a := by
  induction a with
  | nil => rfl
  | cons n a ih => cases n <;> simp [ih]

@[simp] theorem hasTerminal_map_next {α} (ys : List α) : hasTerminal (ys.map Notif.next) = false := by
  induction ys with
  | nil => rfl
  | cons y ys ih => simp [ih]

@[simp] theorem hasTerminal_append {α} (a b : List (Notif α)) :
    hasTerminal (a ++ b) = (hasTerminal a || hasTerminal b) := by
  induction a with
  | nil => simp
  | cons n a ih => cases n <;> simp [ih]

@[simp] theorem cut_outSeq {β} (ys : List β) (e : End) : cut (outSeq ys e) = outSeq ys e := by
  unfold outSeq
  rw [cut_append_of_no_terminal _ _ (hasTerminal_map_next ys)]
  cases e <;> simp [End.toNotifs]

theorem cut_map_next_append {β} (ys : List β) (r : List (Notif β)) :
    cut (ys.map Notif.next ++ r) = ys.map Notif.next ++ cut r :=
  cut_append_of_no_terminal _ _ (hasTerminal_map_next ys)

/-- a raw input is, up to `cut`, its conforming view -/
theorem cut_eq_outSeq {α} (raw : List (Notif α)) : cut raw = outSeq (elems raw) (fin raw) := by
  induction raw with
  | nil => rfl
  | cons n r ih =>
    cases n with
    | next v => simpa [elems, fin, outSeq] using ih
    | error e => simp [elems, fin, outSeq, End.toNotifs]
    | completed => simp [elems, fin, outSeq, End.toNotifs]

@[simp] theorem elems_outSeq {α} (xs : List α) (e : End) : elems (outSeq xs e) = xs := by
  induction xs with
  | nil => cases e <;> rfl
  | cons x xs ih => simpa [outSeq, elems] using ih

@[simp] theorem fin_outSeq {α} (xs : List α) (e : End) : fin (outSeq (β := α) xs e) = e := by
  induction xs with
  | nil => cases e <;> rfl
  | cons x xs ih => simpa [outSeq, fin] using ih

@[simp] theorem elems_cut {α} (raw : List (Notif α)) : elems (cut raw) = elems raw := by
  rw [cut_eq_outSeq]; simp
@[simp] theorem fin_cut {α} (raw : List (Notif α)) : fin (cut raw) = fin raw := by
  rw [cut_eq_outSeq]; simp

/-! ### the downstream observer -/

theorem feed_stopped {β} (n : Nat) (out : List (Notif β)) :
    feed { stopped := true, cbs := n } out = ({ stopped := true, cbs := n }, [], false) := by
  induction out with
  | nil => rfl
  | cons o out ih => cases o <;> simp [feed, Ado.step, toCall, ih]

theorem feed_fresh {β} (n : Nat) (out : List (Notif β)) :
    (feed { stopped := false, cbs := n } out).2.1 = cut out ∧
    (feed { stopped := false, cbs := n } out).2.2 = hasTerminal out ∧
    (feed { stopped := false, cbs := n } out).1.stopped = hasTerminal out := by
  induction out generalizing n with
  | nil => simp [feed]
  | cons o out ih =>
    cases o with
    | next v => simpa [feed, Ado.step, toCall] using ih (n + 1)
    | error e => simp [feed, Ado.step, toCall, feed_stopped]
    | completed => simp [feed, Ado.step, toCall, feed_stopped]

/-! ### emits -/

theorem emits_cut {α β} (op : Op α β) (s : op.σ) (raw : List (Notif α)) :
    op.emits s (cut raw) = op.emits s raw := by
  induction raw generalizing s with
  | nil => rfl
  | cons n r ih => cases n <;> simp [Op.emits, Notif.isTerminal, ih]

theorem emits_eq_emitsSeq {α β} (op : Op α β) (s : op.σ) (raw : List (Notif α)) :
    op.emits s raw = op.emitsSeq s (elems raw) (fin raw) := by
  induction raw generalizing s with
  | nil => rfl
  | cons n r ih =>
    cases n with
    | next v => simp [Op.emits, Notif.isTerminal, elems, fin, Op.emitsSeq, Op.handle, ih]
    | error e => simp [Op.emits, Notif.isTerminal, elems, fin, Op.emitsSeq, Op.handle]
    | completed => simp [Op.emits, Notif.isTerminal, elems, fin, Op.emitsSeq, Op.handle]

/-- `sem` in terms of the conforming view; the form the per-operator lemmas use. -/
theorem sem_eq_seq {α β} (op : Op α β) (raw : List (Notif α)) :
    op.sem raw = cut (op.pre ++ (if op.sub then op.emitsSeq op.init (elems raw) (fin raw) else [])) := by
  simp [Op.sem, emits_eq_emitsSeq]

theorem sem_cut {α β} (op : Op α β) (raw : List (Notif α)) : op.sem (cut raw) = op.sem raw := by
  simp [Op.sem, emits_cut]

@[simp] theorem cut_sem {α β} (op : Op α β) (raw : List (Notif α)) : cut (op.sem raw) = op.sem raw := by
  simp [Op.sem]

/-! ### run = sem -/

theorem visible_cons {β} (x : StepOut β) (r : List (StepOut β)) : visible (x :: r) = x.vis ++ visible r := by
  simp [visible]

theorem runFrom_up_stopped {α β} (lag : Bool) (op : Op α β) (k : Nat) (st : op.σ) (down : Ado)
    (raw : List (Notif α)) :
    visible (op.runFrom lag ⟨{ stopped := true, cbs := k }, st, down⟩ raw) = [] := by
  induction raw with
  | nil => rfl
  | cons n r ih => cases n <;> simpa [Op.runFrom, Op.step, Ado.step, toCall, visible_cons] using ih

theorem step_down_stopped {α β} (lag : Bool) (op : Op α β) (up : Ado) (k : Nat) (st : op.σ) (n : Notif α) :
    ∃ up' st' rw esc, op.step lag ⟨up, st, { stopped := true, cbs := k }⟩ n
      = (⟨up', st', { stopped := true, cbs := k }⟩, ⟨rw, [], esc⟩) := by
  simp only [Op.step]
  cases (Ado.step noRaise up (toCall n)).2.delivered with
  | none => exact ⟨_, _, _, _, rfl⟩
  | some m => simp only [feed_stopped]; exact ⟨_, _, _, _, rfl⟩

theorem runFrom_down_stopped {α β} (lag : Bool) (op : Op α β) (up : Ado) (k : Nat) (st : op.σ)
    (raw : List (Notif α)) :
    visible (op.runFrom lag ⟨up, st, { stopped := true, cbs := k }⟩ raw) = [] := by
  induction raw generalizing up st with
  | nil => rfl
  | cons n r ih =>
    obtain ⟨up', st', rw, esc, h⟩ := step_down_stopped lag op up k st n
    simp only [Op.runFrom, visible_cons, h]
    simpa using ih up' st'

theorem disposeAdo_stopped (a : Ado) : (disposeAdo a).stopped = true := by
  simp [disposeAdo, Ado.step]

theorem runFrom_sem {α β} (lag : Bool) (op : Op α β) (ku kd : Nat) (st : op.σ) (raw : List (Notif α)) :
    visible (op.runFrom lag ⟨{ stopped := false, cbs := ku }, st, { stopped := false, cbs := kd }⟩ raw)
      = cut (op.emits st raw) := by
  induction raw generalizing ku kd st with
  | nil => rfl
  | cons n r ih =>
    simp only [Op.runFrom, visible_cons, Op.emits]
    obtain ⟨hv, hd, hs⟩ := feed_fresh kd (op.handle st n).out
    generalize hf : feed { stopped := false, cbs := kd } (op.handle st n).out = f at hv hd hs
    obtain ⟨d', vis, disp⟩ := f
    simp only at hv hd hs
    obtain ⟨dst, dk⟩ := d'
    simp only at hs
    -- the step, spelled out
    have hstep : op.step lag ⟨{ stopped := false, cbs := ku }, st, { stopped := false, cbs := kd }⟩ n
        = (⟨(if (disp && !lag) || (op.handle st n).disp then disposeAdo (Ado.step noRaise { stopped := false, cbs := ku } (toCall n)).1
              else (Ado.step noRaise { stopped := false, cbs := ku } (toCall n)).1), (op.handle st n).st, ⟨dst, dk⟩⟩,
            ⟨(op.handle st n).out, vis, (op.handle st n).esc⟩) := by
      cases n <;> simp [Op.step, Ado.step, toCall, hf]
    rw [hstep]; simp only
    subst hv
    cases hT : hasTerminal (op.handle st n).out
    · -- no terminal emitted: downstream still open
      rw [hT] at hs hd; subst hs; subst hd
      rw [cut_append_of_no_terminal _ _ hT, cut_of_no_terminal _ hT]
      congr 1
      cases n with
      | next v =>
        cases hdp : (op.handle st (.next v)).disp
        · simpa [Ado.step, toCall, Notif.isTerminal, hdp] using ih (ku + 1) dk _
        · have := runFrom_up_stopped lag op (ku + 1) (op.handle st (.next v)).st ⟨false, dk⟩ r
          simpa [Ado.step, toCall, Notif.isTerminal, hdp, disposeAdo] using this
      | error e =>
        have := runFrom_up_stopped lag op (ku + 1) (op.handle st (.error e)).st ⟨false, dk⟩ r
        simpa [Ado.step, toCall, Notif.isTerminal, disposeAdo] using this
      | completed =>
        have := runFrom_up_stopped lag op (ku + 1) (op.handle st .completed).st ⟨false, dk⟩ r
        simpa [Ado.step, toCall, Notif.isTerminal, disposeAdo] using this
    · rw [hT] at hs; subst hs
      rw [cut_append_of_terminal _ _ hT, runFrom_down_stopped]; simp

/-- **run_sem.**  For every raw input (conforming or not), with or without lagging disposal, the
subscriber sees exactly `cut (pre ++ handler outputs)`. -/
theorem run_sem {α β} (lag : Bool) (op : Op α β) (raw : List (Notif α)) :
    visible (op.run lag raw) = op.sem raw := by
  simp only [Op.run, visible_cons, Op.start, Op.sem]
  obtain ⟨hv, hd, hs⟩ := feed_fresh 0 op.pre
  have h0 : ({} : Ado) = { stopped := false, cbs := 0 } := rfl
  rw [h0]
  generalize hf : feed { stopped := false, cbs := 0 } op.pre = f at hv hd hs
  obtain ⟨⟨dst, dk⟩, vis, disp⟩ := f
  simp only at hv hd hs
  subst hv
  cases hT : hasTerminal op.pre
  · rw [hT] at hs hd; subst hs; subst hd
    rw [cut_append_of_no_terminal _ _ hT, cut_of_no_terminal _ hT]
    congr 1
    cases hsub : op.sub
    · simpa [disposeAdo, Ado.step] using runFrom_up_stopped lag op 0 op.init ⟨false, dk⟩ raw
    · simpa using runFrom_sem lag op 0 dk op.init raw
  · rw [hT] at hs; subst hs
    rw [cut_append_of_terminal _ _ hT, runFrom_down_stopped]; simp

/-! ### causality -/

def Op.stateAfter {α β} (lag : Bool) (op : Op α β) : RS op.σ → List (Notif α) → RS op.σ
  | s, [] => s
  | s, n :: ns => Op.stateAfter lag op (op.step lag s n).1 ns

theorem runFrom_append {α β} (lag : Bool) (op : Op α β) (s : RS op.σ) (a b : List (Notif α)) :
    op.runFrom lag s (a ++ b) = op.runFrom lag s a ++ op.runFrom lag (op.stateAfter lag s a) b := by
  induction a generalizing s with
  | nil => rfl
  | cons n a ih => simp [Op.runFrom, Op.stateAfter, ih]

theorem runFrom_length {α β} (lag : Bool) (op : Op α β) (s : RS op.σ) (a : List (Notif α)) :
    (op.runFrom lag s a).length = a.length := by
  induction a generalizing s with
  | nil => rfl
  | cons n a ih => simp [Op.runFrom, ih]

theorem runFrom_take {α β} (lag : Bool) (op : Op α β) (s : RS op.σ) (raw : List (Notif α)) (k : Nat) :
    (op.runFrom lag s raw).take k = op.runFrom lag s (raw.take k) := by
  induction raw generalizing s k with
  | nil => simp [Op.runFrom]
  | cons n r ih =>
    cases k with
    | zero => simp [Op.runFrom]
    | succ k => simp [Op.runFrom, ih]

/-- **run_take (causality).**  What the first `k` inputs produced does not depend on later inputs. -/
theorem run_take {α β} (lag : Bool) (op : Op α β) (raw : List (Notif α)) (k : Nat) :
    (op.run lag raw).take (k + 1) = op.run lag (raw.take k) := by
  simp only [Op.run, List.take_succ_cons, runFrom_take]

/-! ### composition -/

/-- state after the handlers ran over an input list, and whether they stopped being called
(terminal input, or a handler disposed its source) -/
def Op.after {α β} (op : Op α β) : op.σ → List (Notif α) → op.σ × Bool
  | s, [] => (s, false)
  | s, n :: ns =>
    if n.isTerminal || (op.handle s n).disp then ((op.handle s n).st, true)
    else Op.after op (op.handle s n).st ns

theorem emits_append {α β} (op : Op α β) (s : op.σ) (a b : List (Notif α)) :
    op.emits s (a ++ b) = op.emits s a ++
      (if (op.after s a).2 then [] else op.emits (op.after s a).1 b) := by
  induction a generalizing s with
  | nil => simp [Op.emits, Op.after]
  | cons n a ih =>
    simp only [List.cons_append, Op.emits, Op.after]
    split <;> simp [*]

theorem feedMid_stopped {β γ} (b : Op β γ) (k : Nat) (sb : b.σ) (ys : List (Notif β)) :
    feedMid b { stopped := true, cbs := k } sb ys = ⟨{ stopped := true, cbs := k }, sb, [], none⟩ := by
  induction ys with
  | nil => rfl
  | cons y ys ih => cases y <;> simp [feedMid, Ado.step, toCall, ih]

theorem feedMid_fresh {β γ} (b : Op β γ) (k : Nat) (sb : b.σ) (ys : List (Notif β)) :
    (feedMid b { stopped := false, cbs := k } sb ys).out = b.emits sb ys ∧
    (feedMid b { stopped := false, cbs := k } sb ys).st = (b.after sb ys).1 ∧
    (feedMid b { stopped := false, cbs := k } sb ys).mid.stopped = (b.after sb ys).2 := by
  induction ys generalizing k sb with
  | nil => simp [feedMid, Op.emits, Op.after]
  | cons y ys ih =>
    cases y with
    | next v =>
      cases hd : (b.handle sb (.next v)).disp
      · simpa [feedMid, Ado.step, toCall, Op.emits, Op.after, Notif.isTerminal, hd] using ih (k + 1) _
      · simp [feedMid, Ado.step, toCall, Op.emits, Op.after, Notif.isTerminal, hd, disposeAdo, feedMid_stopped]
    | error e =>
      cases hd : (b.handle sb (.error e)).disp <;>
      simp [feedMid, Ado.step, toCall, Op.emits, Op.after, Notif.isTerminal, hd, disposeAdo, feedMid_stopped]
    | completed =>
      cases hd : (b.handle sb .completed).disp <;>
      simp [feedMid, Ado.step, toCall, Op.emits, Op.after, Notif.isTerminal, hd, disposeAdo, feedMid_stopped]

theorem comp_handle {α β γ} (a : Op α β) (b : Op β γ) (sa : a.σ) (m : Ado) (sb : b.σ) (n : Notif α) :
    (a.comp b).handle (sa, m, sb) n =
      ⟨((a.handle sa n).st, (feedMid b m sb (a.handle sa n).out).mid, (feedMid b m sb (a.handle sa n).out).st),
       (feedMid b m sb (a.handle sa n).out).out,
       (a.handle sa n).esc.orElse (fun _ => (feedMid b m sb (a.handle sa n).out).esc),
       (a.handle sa n).disp || (feedMid b m sb (a.handle sa n).out).mid.stopped⟩ := by
  cases n <;> rfl

theorem emits_comp {α β γ} (a : Op α β) (b : Op β γ) (sa : a.σ) (k : Nat) (sb : b.σ) (raw : List (Notif α)) :
    (a.comp b).emits (sa, { stopped := false, cbs := k }, sb) raw = b.emits sb (a.emits sa raw) := by
  induction raw generalizing sa k sb with
  | nil => simp [Op.emits]
  | cons n r ih =>
    simp only [Op.emits]
    rw [comp_handle, emits_append]
    obtain ⟨ho, hs, hm⟩ := feedMid_fresh b k sb (a.handle sa n).out
    generalize feedMid b { stopped := false, cbs := k } sb (a.handle sa n).out = f at ho hs hm
    obtain ⟨⟨ms, mk⟩, fst, fout, fesc⟩ := f
    simp only at ho hs hm
    subst ho hs
    simp only
    congr 1
    cases hE : (b.after sb (a.handle sa n).out).2
    · rw [hE] at hm; subst hm
      cases hn : n.isTerminal <;> cases hd : (a.handle sa n).disp <;> simp [Op.emits, ih]
    · rw [hE] at hm; subst hm; simp

theorem sem_comp {α β γ} (a : Op α β) (b : Op β γ) (raw : List (Notif α)) :
    (a.comp b).sem raw = b.sem (a.sem raw) := by
  have hR : b.sem (a.sem raw) = cut (b.pre ++ if b.sub then b.emits b.init (a.pre ++ if a.sub then a.emits a.init raw else []) else []) := by
    simp [Op.sem, emits_cut]
  rw [hR]
  cases hb : b.sub
  · simp [Op.sem, hb]
  · simp only [Op.sem, hb, if_true, Bool.true_and]
    have hF : (feedMid b {} b.init a.pre).out = _ ∧ (feedMid b {} b.init a.pre).st = _ ∧ (feedMid b {} b.init a.pre).mid.stopped = _ := feedMid_fresh b 0 b.init a.pre
    obtain ⟨ho, hs, hm⟩ := hF
    rw [emits_append]
    generalize feedMid b {} b.init a.pre = f at ho hs hm
    obtain ⟨⟨ms, mk⟩, fst, fout, fesc⟩ := f
    simp only at ho hs hm
    subst ho hs
    simp only [List.append_assoc]
    congr 2
    cases hE : (b.after b.init a.pre).2
    · rw [hE] at hm; subst hm
      cases ha : a.sub
      · simp [Op.emits]
      · simp [emits_comp]
    · rw [hE] at hm; subst hm; simp

end Ops
